import Gimli.Prim.Basic
/-!
# Lazy iterators and the step bound of C01

A gimli iterator is modelled as a state `σ` with `next : σ → Out (Option ι) × σ` — the outcome of
one `next()` call and the state left behind *whatever the outcome* (gimli's iterators mutate
`self` before they fail). A caller that ignores errors keeps calling `next` until it sees
`Ok(None)`. `callsUntilDone` counts those calls; `bounded_of_measure` is the generic C01 argument:
if every call that does not return `Ok(None)` strictly decreases a measure of the state (normally:
the number of bytes left), then the caller is done after at most `μ s + 1` calls, and no call
panics or diverges if each single call is `Normal`.
-/
namespace Gimli

structure Iter (σ ι : Type) where
  next : σ → Out (Option ι) × σ

namespace Iter
variable {σ ι : Type}

def isDone : Out (Option ι) → Bool
  | .ok none => true
  | _ => false

/-- number of `next()` calls an error-ignoring caller makes, up to and including the one that
returns `Ok(None)`; `none` if that does not happen within `fuel` calls -/
def callsUntilDone (it : Iter σ ι) : Nat → σ → Option Nat
  | 0, _ => none
  | fuel + 1, s =>
    if isDone (it.next s).1 then some 1
    else (callsUntilDone it fuel (it.next s).2).map (· + 1)

/-- every call made by the error-ignoring caller (up to `fuel` calls) returns normally -/
def allNormal (it : Iter σ ι) : Nat → σ → Prop
  | 0, _ => True
  | fuel + 1, s => (it.next s).1.Normal ∧ (isDone (it.next s).1 = true ∨ allNormal it fuel (it.next s).2)

theorem bounded_of_measure (it : Iter σ ι) (μ : σ → Nat)
    (hdec : ∀ s, isDone (it.next s).1 = false → μ (it.next s).2 < μ s) :
    ∀ (n : Nat) (s : σ), μ s < n → ∃ k, callsUntilDone it n s = some k ∧ k ≤ μ s + 1 := by
  intro n
  induction n with
  | zero => intro s h; omega
  | succ n ih =>
    intro s h
    rw [callsUntilDone]
    by_cases hd : isDone (it.next s).1 = true
    · simp [hd]
    · have hd' : isDone (it.next s).1 = false := by simpa using hd
      have hlt := hdec s hd'
      obtain ⟨k, hk, hkle⟩ := ih (it.next s).2 (by omega)
      simp only [hd', Bool.false_eq_true, if_false, hk, Option.map_some]
      exact ⟨k + 1, rfl, by omega⟩

end Iter
end Gimli
