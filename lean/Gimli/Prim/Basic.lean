import Gimli.Prim.Err
/-!
# Shared conventions of the Model (DESIGN.md §3)

* `Bytes := List UInt8`; a reader is the list of bytes that remain (the zero-copy
  cursor `(sec, off, len)` is modelled separately in `Model/Reader.lean` for C10).
* `Out α` — outcome of a modelled Rust function: `ok`, `err` (a `gimli::Error`
  variant name), `panic` (overflow-checked arithmetic, index out of range,
  `unwrap` on `None`, `assert!`), `diverge` (fuel exhausted).
* `Mode` — `debug` (overflow checks on: unchecked `+ - * << -x` panic on overflow)
  or `release` (they wrap).

No Mathlib import here or in any `Model/` file: the driver must link as a `lean_exe`.
-/
namespace Gimli

abbrev Bytes := List UInt8

inductive Out (α : Type) where
  | ok (a : α)
  | err (e : Err)
  | panic (why : String)
  | diverge
  deriving Repr, DecidableEq

namespace Out
variable {α β : Type}

@[inline] def bind (x : Out α) (f : α → Out β) : Out β :=
  match x with
  | ok a => f a
  | err e => err e
  | panic w => panic w
  | diverge => diverge

instance : Monad Out where
  pure := ok
  bind := bind

@[simp] theorem bind_ok (a : α) (f : α → Out β) : (ok a >>= f) = f a := rfl
@[simp] theorem bind_err (e : Err) (f : α → Out β) : (err e >>= f) = err e := rfl
@[simp] theorem bind_panic (w : String) (f : α → Out β) : (panic w >>= f) = panic w := rfl
@[simp] theorem bind_diverge (f : α → Out β) : ((diverge : Out α) >>= f) = diverge := rfl
@[simp] theorem pure_eq (a : α) : (pure a : Out α) = ok a := rfl

def isOk : Out α → Bool
  | ok _ => true
  | _ => false

/-- "returns normally": a value or an error, never a panic or non-termination (C01). -/
def Normal : Out α → Prop
  | ok _ => True
  | err _ => True
  | panic _ => False
  | diverge => False

instance (x : Out α) : Decidable x.Normal := by
  cases x <;> simp [Normal] <;> infer_instance

def map (f : α → β) : Out α → Out β
  | ok a => ok (f a)
  | err e => err e
  | panic w => panic w
  | diverge => diverge

/-- canonical text for the line protocol -/
def render (f : α → String) : Out α → String
  | ok a => "ok " ++ f a
  | err e => "err " ++ e.name
  | panic w => "panic " ++ w
  | diverge => "diverge"

end Out

inductive Mode where
  | debug
  | release
  deriving DecidableEq, Repr, Inhabited

inductive Endian where
  | little
  | big
  deriving DecidableEq, Repr, Inhabited

inductive Format where
  | dwarf32
  | dwarf64
  deriving DecidableEq, Repr, Inhabited

def Format.wordSize : Format → Nat
  | .dwarf32 => 4
  | .dwarf64 => 8

def U64_MOD : Nat := 2 ^ 64

/-! ## hex / text helpers for the driver (not used in theorems) -/

def hexDigit? (c : Char) : Option Nat :=
  if '0' ≤ c ∧ c ≤ '9' then some (c.toNat - '0'.toNat)
  else if 'a' ≤ c ∧ c ≤ 'f' then some (c.toNat - 'a'.toNat + 10)
  else if 'A' ≤ c ∧ c ≤ 'F' then some (c.toNat - 'A'.toNat + 10)
  else none

def parseHexAux : List Char → Bytes → Option Bytes
  | [], acc => some acc.reverse
  | [_], _ => none
  | a :: b :: rest, acc =>
    match hexDigit? a, hexDigit? b with
    | some x, some y => parseHexAux rest (UInt8.ofNat (16 * x + y) :: acc)
    | _, _ => none

/-- "-" is the empty byte string -/
def parseHex (s : String) : Option Bytes :=
  if s == "-" then some [] else parseHexAux s.toList []

def hexChar (n : Nat) : Char :=
  if n < 10 then Char.ofNat ('0'.toNat + n) else Char.ofNat ('a'.toNat + (n - 10))

def toHex (bs : Bytes) : String :=
  if bs.isEmpty then "-" else
  String.ofList (bs.foldr (fun b acc => hexChar (b.toNat / 16) :: hexChar (b.toNat % 16) :: acc) [])

def parseInt? (s : String) : Option Int :=
  match s.toList with
  | '-' :: rest => (String.ofList rest).toNat?.map (fun n => - (n : Int))
  | _ => s.toNat?.map (fun n => (n : Int))

end Gimli
