/-! GENERATED once from gimli::read::Error / gimli::write::Error variant names (payloads dropped).
`r*` = read error, `w*` = write error. The harness maps `{:?}` of the Rust error to the same name. -/
namespace Gimli

inductive Err where
  | rIo
  | rPcRelativePointerButSectionBaseIsUndefined
  | rTextRelativePointerButTextBaseIsUndefined
  | rDataRelativePointerButDataBaseIsUndefined
  | rFuncRelativePointerInBadContext
  | rCannotParseOmitPointerEncoding
  | rBadUnsignedLeb128
  | rBadSignedLeb128
  | rAbbreviationTagZero
  | rAttributeNameZero
  | rAttributeFormZero
  | rInvalidAbbreviationChildren
  | rUnknownForm
  | rDuplicateAbbreviationCode
  | rUnknownReservedLength
  | rUnknownVersion
  | rInvalidAbbreviationCode
  | rUnexpectedEof
  | rUnknownLocListsEntry
  | rUnknownRangeListsEntry
  | rUnsupportedAddressSize
  | rUnsupportedOffsetSize
  | rMinimumInstructionLengthZero
  | rMaximumOperationsPerInstructionZero
  | rLineRangeZero
  | rOpcodeBaseZero
  | rBadUtf8
  | rNotCieId
  | rNotCiePointer
  | rBadBranchTarget
  | rInvalidPushObjectAddress
  | rNotEnoughStackItems
  | rTooManyIterations
  | rInvalidExpression
  | rUnsupportedEvaluation
  | rInvalidPiece
  | rInvalidExpressionTerminator
  | rDivisionByZero
  | rTypeMismatch
  | rIntegralTypeRequired
  | rUnsupportedTypeOperation
  | rInvalidShiftExpression
  | rInvalidDerefSize
  | rUnknownCallFrameInstruction
  | rInvalidCfiSetLoc
  | rAddressOverflow
  | rCfiInstructionInInvalidContext
  | rPopWithEmptyStack
  | rNoUnwindInfoForAddress
  | rUnsupportedOffset
  | rUnknownPointerEncoding
  | rNoEntryAtGivenOffset
  | rOffsetOutOfBounds
  | rUnknownAugmentation
  | rUnsupportedPointerEncoding
  | rUnsupportedIndirectPointer
  | rUnsupportedRegister
  | rTooManyRegisterRules
  | rStackFull
  | rUnknownUnitType
  | rUnsupportedSegmentSize
  | rMissingUnitDie
  | rMissingSplitUnit
  | rUnsupportedAttributeForm
  | rMissingFileEntryFormatPath
  | rExpectedStringAttributeValue
  | rInvalidImplicitConst
  | rUnsupportedIndexSectionCount
  | rInvalidIndexSlotCount
  | rInvalidIndexRow
  | rUnknownIndexSection
  | rUnknownIndexSectionV2
  | rInvalidMacinfoType
  | rInvalidMacroType
  | rUnsupportedOpcodeOperandsTable
  | rInvalidNameAttributeIndex
  | wOffsetOutOfBounds
  | wLengthOutOfBounds
  | wInvalidAttributeValue
  | wValueTooLarge
  | wUnsupportedWordSize
  | wUnsupportedVersion
  | wInitialLengthOverflow
  | wInvalidAddress
  | wInvalidReference
  | wNeedVersion
  | wLineStringFormMismatch
  | wInvalidRange
  | wIncompatibleLineProgramEncoding
  | wInvalidFrameCodeOffset
  | wInvalidFrameDataOffset
  | wUnsupportedPointerEncoding
  | wUnsupportedCfiExpressionReference
  | wUnsupportedExpressionForwardReference
  | wUnexpectedBaseAddress
  | wMissingBaseAddress
  | other
  deriving DecidableEq, Repr, Inhabited

def Err.name : Err → String
  | .rIo => "Io"
  | .rPcRelativePointerButSectionBaseIsUndefined => "PcRelativePointerButSectionBaseIsUndefined"
  | .rTextRelativePointerButTextBaseIsUndefined => "TextRelativePointerButTextBaseIsUndefined"
  | .rDataRelativePointerButDataBaseIsUndefined => "DataRelativePointerButDataBaseIsUndefined"
  | .rFuncRelativePointerInBadContext => "FuncRelativePointerInBadContext"
  | .rCannotParseOmitPointerEncoding => "CannotParseOmitPointerEncoding"
  | .rBadUnsignedLeb128 => "BadUnsignedLeb128"
  | .rBadSignedLeb128 => "BadSignedLeb128"
  | .rAbbreviationTagZero => "AbbreviationTagZero"
  | .rAttributeNameZero => "AttributeNameZero"
  | .rAttributeFormZero => "AttributeFormZero"
  | .rInvalidAbbreviationChildren => "InvalidAbbreviationChildren"
  | .rUnknownForm => "UnknownForm"
  | .rDuplicateAbbreviationCode => "DuplicateAbbreviationCode"
  | .rUnknownReservedLength => "UnknownReservedLength"
  | .rUnknownVersion => "UnknownVersion"
  | .rInvalidAbbreviationCode => "InvalidAbbreviationCode"
  | .rUnexpectedEof => "UnexpectedEof"
  | .rUnknownLocListsEntry => "UnknownLocListsEntry"
  | .rUnknownRangeListsEntry => "UnknownRangeListsEntry"
  | .rUnsupportedAddressSize => "UnsupportedAddressSize"
  | .rUnsupportedOffsetSize => "UnsupportedOffsetSize"
  | .rMinimumInstructionLengthZero => "MinimumInstructionLengthZero"
  | .rMaximumOperationsPerInstructionZero => "MaximumOperationsPerInstructionZero"
  | .rLineRangeZero => "LineRangeZero"
  | .rOpcodeBaseZero => "OpcodeBaseZero"
  | .rBadUtf8 => "BadUtf8"
  | .rNotCieId => "NotCieId"
  | .rNotCiePointer => "NotCiePointer"
  | .rBadBranchTarget => "BadBranchTarget"
  | .rInvalidPushObjectAddress => "InvalidPushObjectAddress"
  | .rNotEnoughStackItems => "NotEnoughStackItems"
  | .rTooManyIterations => "TooManyIterations"
  | .rInvalidExpression => "InvalidExpression"
  | .rUnsupportedEvaluation => "UnsupportedEvaluation"
  | .rInvalidPiece => "InvalidPiece"
  | .rInvalidExpressionTerminator => "InvalidExpressionTerminator"
  | .rDivisionByZero => "DivisionByZero"
  | .rTypeMismatch => "TypeMismatch"
  | .rIntegralTypeRequired => "IntegralTypeRequired"
  | .rUnsupportedTypeOperation => "UnsupportedTypeOperation"
  | .rInvalidShiftExpression => "InvalidShiftExpression"
  | .rInvalidDerefSize => "InvalidDerefSize"
  | .rUnknownCallFrameInstruction => "UnknownCallFrameInstruction"
  | .rInvalidCfiSetLoc => "InvalidCfiSetLoc"
  | .rAddressOverflow => "AddressOverflow"
  | .rCfiInstructionInInvalidContext => "CfiInstructionInInvalidContext"
  | .rPopWithEmptyStack => "PopWithEmptyStack"
  | .rNoUnwindInfoForAddress => "NoUnwindInfoForAddress"
  | .rUnsupportedOffset => "UnsupportedOffset"
  | .rUnknownPointerEncoding => "UnknownPointerEncoding"
  | .rNoEntryAtGivenOffset => "NoEntryAtGivenOffset"
  | .rOffsetOutOfBounds => "OffsetOutOfBounds"
  | .rUnknownAugmentation => "UnknownAugmentation"
  | .rUnsupportedPointerEncoding => "UnsupportedPointerEncoding"
  | .rUnsupportedIndirectPointer => "UnsupportedIndirectPointer"
  | .rUnsupportedRegister => "UnsupportedRegister"
  | .rTooManyRegisterRules => "TooManyRegisterRules"
  | .rStackFull => "StackFull"
  | .rUnknownUnitType => "UnknownUnitType"
  | .rUnsupportedSegmentSize => "UnsupportedSegmentSize"
  | .rMissingUnitDie => "MissingUnitDie"
  | .rMissingSplitUnit => "MissingSplitUnit"
  | .rUnsupportedAttributeForm => "UnsupportedAttributeForm"
  | .rMissingFileEntryFormatPath => "MissingFileEntryFormatPath"
  | .rExpectedStringAttributeValue => "ExpectedStringAttributeValue"
  | .rInvalidImplicitConst => "InvalidImplicitConst"
  | .rUnsupportedIndexSectionCount => "UnsupportedIndexSectionCount"
  | .rInvalidIndexSlotCount => "InvalidIndexSlotCount"
  | .rInvalidIndexRow => "InvalidIndexRow"
  | .rUnknownIndexSection => "UnknownIndexSection"
  | .rUnknownIndexSectionV2 => "UnknownIndexSectionV2"
  | .rInvalidMacinfoType => "InvalidMacinfoType"
  | .rInvalidMacroType => "InvalidMacroType"
  | .rUnsupportedOpcodeOperandsTable => "UnsupportedOpcodeOperandsTable"
  | .rInvalidNameAttributeIndex => "InvalidNameAttributeIndex"
  | .wOffsetOutOfBounds => "W.OffsetOutOfBounds"
  | .wLengthOutOfBounds => "W.LengthOutOfBounds"
  | .wInvalidAttributeValue => "W.InvalidAttributeValue"
  | .wValueTooLarge => "W.ValueTooLarge"
  | .wUnsupportedWordSize => "W.UnsupportedWordSize"
  | .wUnsupportedVersion => "W.UnsupportedVersion"
  | .wInitialLengthOverflow => "W.InitialLengthOverflow"
  | .wInvalidAddress => "W.InvalidAddress"
  | .wInvalidReference => "W.InvalidReference"
  | .wNeedVersion => "W.NeedVersion"
  | .wLineStringFormMismatch => "W.LineStringFormMismatch"
  | .wInvalidRange => "W.InvalidRange"
  | .wIncompatibleLineProgramEncoding => "W.IncompatibleLineProgramEncoding"
  | .wInvalidFrameCodeOffset => "W.InvalidFrameCodeOffset"
  | .wInvalidFrameDataOffset => "W.InvalidFrameDataOffset"
  | .wUnsupportedPointerEncoding => "W.UnsupportedPointerEncoding"
  | .wUnsupportedCfiExpressionReference => "W.UnsupportedCfiExpressionReference"
  | .wUnsupportedExpressionForwardReference => "W.UnsupportedExpressionForwardReference"
  | .wUnexpectedBaseAddress => "W.UnexpectedBaseAddress"
  | .wMissingBaseAddress => "W.MissingBaseAddress"
  | .other => "Other"

end Gimli
