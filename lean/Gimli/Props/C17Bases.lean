import Gimli.Model.Bases
import Gimli.Lemmas.Pub
import Gimli.Lemmas.Package
/-!
# C17 — default table bases of a unit, and lookups through them

"Indexed string/address tables each return exactly the entries present": the tables are indexed
from a *base*.  Compilers leave `DW_AT_str_offsets_base` / `DW_AT_rnglists_base` /
`DW_AT_loclists_base` out of DWARF 5 `.dwo` units (and of units taken from a `.dwp`), so
`Unit::new` has to supply the size of the table header itself.  These theorems pin those defaults
for every version × format × file type and show that a lookup through the default base of a
standard table returns exactly the i-th entry.
-/
namespace Gimli.Props.C17
open Gimli Gimli.Ints Gimli.Bases
open Gimli.Aranges (initialLengthSize)

/-- the header of a DWARF 5 `.debug_str_offsets` contribution: unit length, version 5, 2 bytes of
padding -/
def stdStrOffsetsHeader (e : Endian) (f : Format) (unitLength : Nat) : Bytes :=
  Pub.initLen e f unitLength ++ toBytes e 2 5 ++ toBytes e 2 0

/-- the header of a DWARF 5 `.debug_rnglists` / `.debug_loclists` contribution: unit length,
version 5, address size, segment selector size, offset entry count -/
def stdListsHeader (e : Endian) (f : Format) (unitLength addressSize count : Nat) : Bytes :=
  Pub.initLen e f unitLength ++ toBytes e 2 5 ++ toBytes e 1 addressSize ++ toBytes e 1 0 ++ toBytes e 4 count

theorem initLen_length (e : Endian) (f : Format) (n : Nat) : (Pub.initLen e f n).length = initialLengthSize f := by
  cases f <;> simp [Pub.initLen, toBytes_length, initialLengthSize]

/-- **The default bases, every version × format × file type** (`Unit::new` without base
attributes): all 0 in a main file and in GNU split DWARF (version ≤ 4); in a DWARF ≥ 5 `.dwo`
the string-offsets base is the header of that table (8 bytes for 32-bit DWARF, **16** for 64-bit
DWARF: the initial length is 12 bytes there, not a word), the range/location list bases are
their 12/20-byte headers, and the address base is 0 (`.debug_addr` never lives in a `.dwo`). -/
theorem default_bases (version : Nat) (f : Format) (ft : FileType) :
    unitBases version f ft [] =
      if version ≥ 5 ∧ ft = .dwo then
        match f with
        | .dwarf32 => { strOffsets := 8, addr := 0, loclists := 12, rnglists := 12 }
        | .dwarf64 => { strOffsets := 16, addr := 0, loclists := 20, rnglists := 20 }
      else { strOffsets := 0, addr := 0, loclists := 0, rnglists := 0 } := by
  by_cases h : version ≥ 5 ∧ ft = .dwo
  · cases f <;>
      simp [unitBases, defaults, strOffsetsBaseDefault, loclistsBaseDefault, rnglistsBaseDefault,
        addrBaseDefault, listsHeaderSize, initialLengthSize, h]
  · simp [unitBases, defaults, strOffsetsBaseDefault, loclistsBaseDefault, rnglistsBaseDefault,
      addrBaseDefault, h]

/-- the defaults are exactly the sizes of the standard headers -/
theorem default_bases_are_header_sizes (e : Endian) (f : Format) (version n a c : Nat) (hv : 5 ≤ version) :
    (defaults version f .dwo).strOffsets = (stdStrOffsetsHeader e f n).length ∧
    (defaults version f .dwo).rnglists = (stdListsHeader e f n a c).length ∧
    (defaults version f .dwo).loclists = (stdListsHeader e f n a c).length := by
  have h : version ≥ 5 ∧ FileType.dwo = FileType.dwo := ⟨hv, rfl⟩
  simp [defaults, strOffsetsBaseDefault, rnglistsBaseDefault, loclistsBaseDefault, listsHeaderSize, h,
    stdStrOffsetsHeader, stdListsHeader, List.length_append, toBytes_length, initLen_length]

/-- **An explicit base attribute overrides the default, the last one wins, and it touches only its
own table** (`DW_AT_str_offsets_base` 0x72; `DW_AT_addr_base` 0x73 / `DW_AT_GNU_addr_base`
0x2133; `DW_AT_loclists_base` 0x8c; `DW_AT_rnglists_base` 0x74 / `DW_AT_GNU_ranges_base`
0x2132); any other attribute leaves the bases alone. -/
theorem explicit_base_overrides (version : Nat) (f : Format) (ft : FileType) (attrs : List (Nat × Nat)) (b : Nat) :
    let old := unitBases version f ft attrs
    unitBases version f ft (attrs ++ [(0x72, b)]) = { old with strOffsets := b } ∧
    unitBases version f ft (attrs ++ [(0x73, b)]) = { old with addr := b } ∧
    unitBases version f ft (attrs ++ [(0x2133, b)]) = { old with addr := b } ∧
    unitBases version f ft (attrs ++ [(0x8c, b)]) = { old with loclists := b } ∧
    unitBases version f ft (attrs ++ [(0x74, b)]) = { old with rnglists := b } ∧
    unitBases version f ft (attrs ++ [(0x2132, b)]) = { old with rnglists := b } ∧
    (∀ at_, at_ ≠ 0x72 → at_ ≠ 0x73 → at_ ≠ 0x2133 → at_ ≠ 0x8c → at_ ≠ 0x74 → at_ ≠ 0x2132 →
      unitBases version f ft (attrs ++ [(at_, b)]) = old) := by
  simp only [unitBases, List.foldl_append, List.foldl_cons, List.foldl_nil]
  refine ⟨by simp [applyAttr], by simp [applyAttr], by simp [applyAttr], by simp [applyAttr],
    by simp [applyAttr], by simp [applyAttr], ?_⟩
  intro at_ h1 h2 h3 h4 h5 h6
  simp [applyAttr, h1, h2, h3, h4, h5, h6]

/-- **A lookup through the default base returns exactly the i-th entry.**  For a DWARF ≥ 5 split
unit without `DW_AT_str_offsets_base`, either format, either byte order: if `.debug_str_offsets`
(`.dwo`) is a standard header followed by the table `vals` (and anything after it), then
`Dwarf::string_offset(unit, i)` is `vals[i]`. -/
theorem str_offsets_default_base_exact (e : Endian) (f : Format) (version unitLength : Nat) (hv : 5 ≤ version)
    (vals : List Nat) (post : Bytes) (i : Nat) (hi : i < vals.length)
    (hb : ∀ v, v ∈ vals → v < 2 ^ (8 * f.wordSize)) (hsz : i * f.wordSize < 2 ^ 64) :
    stringOffset e f (unitBases version f .dwo [])
      (stdStrOffsetsHeader e f unitLength ++ vals.flatMap (fun v => toBytes e f.wordSize v) ++ post) i =
      .ok vals[i] := by
  have hbase : (unitBases version f .dwo []).strOffsets = (stdStrOffsetsHeader e f unitLength).length :=
    (default_bases_are_header_sizes e f version unitLength 0 0 hv).1
  unfold stringOffset
  rw [hbase]
  exact Indexed.getStrOffset_table e f _ post vals i hi (fun v hv' => by rw [pow256]; exact hb v hv') hsz

/-- … and with base 0 — main files of every version, and GNU split DWARF (version ≤ 4, whose
`.debug_str_offsets.dwo` has no header) — entry `i` of a table that starts at the beginning of the
section -/
theorem str_offsets_zero_base_exact (e : Endian) (f : Format) (version : Nat) (ft : FileType)
    (h0 : ft = .main ∨ version ≤ 4)
    (vals : List Nat) (post : Bytes) (i : Nat) (hi : i < vals.length)
    (hb : ∀ v, v ∈ vals → v < 2 ^ (8 * f.wordSize)) (hsz : i * f.wordSize < 2 ^ 64) :
    (unitBases version f ft []).strOffsets = 0 ∧
    stringOffset e f (unitBases version f ft [])
      (vals.flatMap (fun v => toBytes e f.wordSize v) ++ post) i = .ok vals[i] := by
  have hz : (unitBases version f ft []).strOffsets = 0 := by
    have : ¬ (version ≥ 5 ∧ ft = .dwo) := by
      rcases h0 with h | h
      · subst h; simp
      · omega
    simp [unitBases, defaults, strOffsetsBaseDefault, this]
  refine ⟨hz, ?_⟩
  unfold stringOffset
  rw [hz]
  have := Indexed.getStrOffset_table e f [] post vals i hi (fun v hv' => by rw [pow256]; exact hb v hv') hsz
  simpa using this

/-- the same through an explicit `DW_AT_str_offsets_base` that points behind a header of any size
(a main-file DWARF 5 unit, or several contributions in one section) -/
theorem str_offsets_explicit_base_exact (e : Endian) (f : Format) (version : Nat) (ft : FileType)
    (attrs : List (Nat × Nat)) (pre post : Bytes) (vals : List Nat) (i : Nat) (hi : i < vals.length)
    (hb : ∀ v, v ∈ vals → v < 2 ^ (8 * f.wordSize)) (hsz : i * f.wordSize < 2 ^ 64) :
    stringOffset e f (unitBases version f ft (attrs ++ [(0x72, pre.length)]))
      (pre ++ vals.flatMap (fun v => toBytes e f.wordSize v) ++ post) i = .ok vals[i] := by
  unfold stringOffset
  rw [(explicit_base_overrides version f ft attrs pre.length).1]
  exact Indexed.getStrOffset_table e f pre post vals i hi (fun v hv' => by rw [pow256]; exact hb v hv') hsz

/-- `Dwarf::address(unit, i)`: the address base is 0 unless `DW_AT_addr_base` /
`DW_AT_GNU_addr_base` says otherwise; entry `i` of the table at that base -/
theorem addr_base_exact (e : Endian) (sz : Nat) (hs : sz = 1 ∨ sz = 2 ∨ sz = 4 ∨ sz = 8)
    (f : Format) (version : Nat) (ft : FileType) (attrs : List (Nat × Nat))
    (pre post : Bytes) (vals : List Nat) (i : Nat) (hi : i < vals.length)
    (hb : ∀ v, v ∈ vals → v < 2 ^ (8 * sz)) (hsz : i * sz < 2 ^ 64) :
    (unitBases version f ft []).addr = 0 ∧
    address e sz (unitBases version f ft (attrs ++ [(0x73, pre.length)]))
      (pre ++ vals.flatMap (fun v => toBytes e sz v) ++ post) i = .ok vals[i] ∧
    address e sz (unitBases version f ft (attrs ++ [(0x2133, pre.length)]))
      (pre ++ vals.flatMap (fun v => toBytes e sz v) ++ post) i = .ok vals[i] := by
  have ht := Indexed.getAddress_table e sz hs pre post vals i hi (fun v hv' => by rw [pow256]; exact hb v hv') hsz
  refine ⟨by simp [unitBases, defaults, addrBaseDefault], ?_, ?_⟩
  · unfold address; rw [(explicit_base_overrides version f ft attrs pre.length).2.1]; exact ht
  · unfold address; rw [(explicit_base_overrides version f ft attrs pre.length).2.2.1]; exact ht

/-! ## skeleton → split unit hand-over -/

/-- entry `i` of an offsets array at `base`, plus the base -/
theorem getListOffset_table (e : Endian) (f : Format) (pre post : Bytes) (vals : List Nat) (i : Nat)
    (hi : i < vals.length) (hb : ∀ v, v ∈ vals → v < 256 ^ f.wordSize) (hsz : i * f.wordSize < 2 ^ 64)
    (hsum : pre.length + vals[i] < 2 ^ 64) :
    getListOffset e f (pre ++ vals.flatMap (fun v => toBytes e f.wordSize v) ++ post) pre.length i =
      .ok (pre.length + vals[i]) := by
  unfold getListOffset
  rw [List.append_assoc, Indexed.skipTo_append]
  simp only [Out.bind_ok]
  rw [if_neg (by omega)]
  have hf : ∀ a : Nat, (toBytes e f.wordSize a).length = f.wordSize := fun a => toBytes_length e f.wordSize a
  have hlen := Index.flatMap_length_const (fun v => toBytes e f.wordSize v) f.wordSize hf vals
  have hsmall : i * f.wordSize ≤ (vals.flatMap fun v => toBytes e f.wordSize v).length := by
    rw [hlen, Nat.mul_comm]; exact Nat.mul_le_mul_left _ (by omega)
  unfold Names.skipTo
  rw [if_pos (by rw [List.length_append]; omega)]
  simp only [Out.bind_ok]
  rw [List.drop_append_of_le_length hsmall, Index.drop_flatMap_const _ _ hf, List.drop_eq_getElem_cons hi,
    List.flatMap_cons, List.append_assoc, Indexed.readWord_enc e f _ _ (hb _ (List.getElem_mem hi))]
  simp only [Out.bind_ok]
  rw [if_neg (by omega)]
  rfl

/-- **What a split unit takes over from its skeleton** (`Unit::copy_relocated_attributes`): always
`low_pc` and the address base; the ranges base only before DWARF 5.  A DWARF ≥ 5 split unit keeps
its own range-list, location-list and string-offsets bases. -/
theorem handover (self other : UnitState) :
    (copyRelocated self other).lowPc = other.lowPc ∧
    (copyRelocated self other).bases.addr = other.bases.addr ∧
    (copyRelocated self other).bases.loclists = self.bases.loclists ∧
    (copyRelocated self other).bases.strOffsets = self.bases.strOffsets ∧
    (5 ≤ self.version → (copyRelocated self other).bases.rnglists = self.bases.rnglists) ∧
    (self.version < 5 → (copyRelocated self other).bases.rnglists = other.bases.rnglists) ∧
    (copyRelocated self other).version = self.version ∧ (copyRelocated self other).format = self.format := by
  refine ⟨rfl, rfl, rfl, rfl, ?_, ?_, rfl, rfl⟩
  · intro h; simp [copyRelocated, Nat.not_lt.mpr h]
  · intro h; simp [copyRelocated, h]

/-- … so after the hand-over a DWARF ≥ 5 split unit without base attributes indexes its own
`.debug_rnglists.dwo` / `.debug_loclists.dwo` from just behind their 12/20-byte headers, whatever
`DW_AT_rnglists_base` the skeleton has (absent, 12, or the offset of a later contribution of the
main file), and addresses/`low_pc` are the skeleton's -/
theorem split_unit_bases_v5 (version : Nat) (hv : 5 ≤ version) (f : Format)
    (skAttrs : List (Nat × Nat)) (skLowPc : Option Nat) :
    let u := copyRelocated (newUnit version f .dwo [] none) (newUnit version f .main skAttrs skLowPc)
    u.bases.rnglists = listsHeaderSize f ∧ u.bases.loclists = listsHeaderSize f ∧
      u.bases.strOffsets = initialLengthSize f + 4 ∧
      u.bases.addr = (unitBases version f .main skAttrs).addr ∧ u.lowPc = skLowPc.getD 0 := by
  have h : version ≥ 5 ∧ FileType.dwo = FileType.dwo := ⟨hv, rfl⟩
  simp [copyRelocated, newUnit, unitBases, defaults, rnglistsBaseDefault, loclistsBaseDefault,
    strOffsetsBaseDefault, h, Nat.not_lt.mpr hv]

/-- a GNU (version ≤ 4) split unit gets the skeleton's `DW_AT_GNU_ranges_base`, which
`ranges_offset_from_raw` adds to every raw `.debug_ranges` offset of the unit; from DWARF 5 on
nothing is added -/
theorem split_unit_ranges_base_v4 (version : Nat) (f : Format) (skAttrs : List (Nat × Nat))
    (skLowPc : Option Nat) (self parent : Sections) (raw : Nat) (hraw : raw < 2 ^ 64) :
    let u := copyRelocated (newUnit version f .dwo [] none) (newUnit version f .main skAttrs skLowPc)
    let s := makeDwo self parent
    (version < 5 → u.bases.rnglists = (unitBases version f .main skAttrs).rnglists ∧
      rangesOffsetFromRaw u s raw = (raw + (unitBases version f .main skAttrs).rnglists) % 2 ^ 64) ∧
    (5 ≤ version → rangesOffsetFromRaw u s raw = raw) ∧
    s.fileType = .dwo ∧ s.debugAddr = parent.debugAddr ∧ s.debugRanges = parent.debugRanges ∧
      s.debugRnglists = self.debugRnglists ∧ s.debugLoclists = self.debugLoclists := by
  have _ := hraw
  refine ⟨?_, ?_, rfl, rfl, rfl, rfl, rfl⟩
  · intro h
    simp [copyRelocated, newUnit, rangesOffsetFromRaw, makeDwo, h]
  · intro h
    simp [copyRelocated, newUnit, rangesOffsetFromRaw, makeDwo, Nat.not_lt.mpr h]

/-- **`ranges_offset(i)` / `locations_offset(i)` of a split unit return the i-th entry of the
offsets array of the unit's OWN table** (relative to the end of that table's header), after the
hand-over from any skeleton: DWARF ≥ 5, either format, either byte order; the sections are the
`.dwo`'s (or the unit's `.dwp` contributions): a standard header, the offsets array, the lists. -/
theorem ranges_offset_after_handover_exact (e : Endian) (f : Format) (version : Nat) (hv : 5 ≤ version)
    (skAttrs : List (Nat × Nat)) (skLowPc : Option Nat) (self parent : Sections)
    (n a : Nat) (vals : List Nat) (lists : Bytes) (i : Nat) (hi : i < vals.length)
    (hb : ∀ v, v ∈ vals → v < 2 ^ (8 * f.wordSize)) (hsz : i * f.wordSize < 2 ^ 64)
    (hsum : listsHeaderSize f + vals[i] < 2 ^ 64) :
    let u := copyRelocated (newUnit version f .dwo [] none) (newUnit version f .main skAttrs skLowPc)
    let table := stdListsHeader e f n a vals.length ++ vals.flatMap (fun v => toBytes e f.wordSize v) ++ lists
    (self.debugRnglists = table →
      rangesOffset e u (makeDwo self parent) i = .ok (listsHeaderSize f + vals[i])) ∧
    (self.debugLoclists = table →
      locationsOffset e u (makeDwo self parent) i = .ok (listsHeaderSize f + vals[i])) := by
  intro u table
  obtain ⟨hr, hl, _, _, _⟩ := split_unit_bases_v5 version hv f skAttrs skLowPc
  have hlen : (stdListsHeader e f n a vals.length).length = listsHeaderSize f := by
    simp [stdListsHeader, listsHeaderSize, List.length_append, toBytes_length, initLen_length]
  have hb' : ∀ v, v ∈ vals → v < 256 ^ f.wordSize := fun v hv' => by rw [pow256]; exact hb v hv'
  have key := getListOffset_table e f (stdListsHeader e f n a vals.length) lists vals i hi hb' hsz
    (by rw [hlen]; exact hsum)
  rw [hlen] at key
  constructor
  · intro hsec
    show getListOffset e u.format (makeDwo self parent).debugRnglists u.bases.rnglists i = _
    rw [hr]
    show getListOffset e f self.debugRnglists (listsHeaderSize f) i = _
    rw [hsec]; exact key
  · intro hsec
    show getListOffset e u.format (makeDwo self parent).debugLoclists u.bases.loclists i = _
    rw [hl]
    show getListOffset e f self.debugLoclists (listsHeaderSize f) i = _
    rw [hsec]; exact key

end Gimli.Props.C17
