import Gimli.Lemmas.ConvUnit
import Gimli.Lemmas.WUnit
/-!
# C12, unit / attribute component — read → write conversion keeps the entry forest and the
meaning of every attribute, or fails

Property theorems only (helpers: `Gimli/Lemmas/ConvUnit.lean`; input forest: `Gimli/Spec/ConvUnit.lean`).
Every theorem is about the Model of `Gimli/Model/ConvUnit.lean`, which the driver executes for the
`c12unit` op and which the correspondence run compares with `write::Dwarf::from` + `Dwarf::write`
on the listing `gimli::read` produces from the output.

Quantifiers: every forest (any shape, depth, size), every attribute list, every value of every
`read::AttributeValue` kind under every form, every version; the sub-conversions owned by other
parts of the crate (expressions, lists, line program / file table, section lookups of the reader)
are arbitrary functions (`Ctx`).

Where the code really differs from the property the theorem is named `…_partial` and a
counterexample theorem pins the witness: the tag of the root entry is not converted
(`root_tag_not_converted`, finding C12U-1), and a second top-level entry — which a unit must not
have, but which the reader accepts — is re-parented under the root (`second_top_level_entry_reparented`).
-/
namespace Gimli.Props.C12
open Gimli Gimli.Attr Gimli.WUnit Gimli.ConvUnit

/-! ## (a) the forest -/

/-- **The entries below the root are created with exactly the input forest's shape, tags and
order — or the conversion is an error.**  `root` is the root entry, `f` the forest of the entries
below it (any well-formed forest), `ids` the reserved ids.  If `ConvertUnit::convert` succeeds,
the `add_reserved(id, parent, tag)` calls it made are, in order, exactly the depth-first listing
of `f` with every entry's parent being the id of its parent in `f` (the root's id 0 for the
top-level ones): no entry dropped, added, re-parented or reordered, every tag kept.
Partial only in that the root's *own* tag is outside the statement (`root_tag_not_converted`). -/
theorem convert_forest_partial (cx : ConvUnit.Ctx) (ids : Nat → Option Nat) (root : RItem) (f : IForest)
    (out : OutUnit) (hwf : f.WF) (hid : f.HasIds ids) (hroot : root.depth = 0)
    (hch : root.children = false → f = .nil)
    (h : convertUnit cx ids (root :: f.items 1) = .ok out) :
    out.entries.map Created.shape = f.flatten 0 := by
  rw [convertUnit] at h
  obtain ⟨ras, _, h⟩ := except_bind_ok h
  obtain ⟨es, hes, h⟩ := except_bind_ok h
  simp only [pure, Except.pure, Except.ok.injEq] at h
  subst h
  simp only
  rw [convertEntries_shape _ _ _ _ _ hes]
  cases hc : root.children with
  | true =>
    simp only [hc, if_true, hroot]
    have := (runStack_forest ids f 1 [((0 : Int), 0)] hwf hid).1
    simpa [popParents, top] using this
  | false =>
    have := hch hc
    subst this
    simp [IForest.items, runStack, IForest.flatten]

theorem idxOf?_of_nodup : ∀ (l : List Nat) (n x : Nat), l.Nodup → l[n]? = some x → l.idxOf? x = some n
  | [], n, x, _, h => by simp at h
  | y :: ys, n, x, hnd, h => by
    obtain ⟨hy, hys⟩ := List.nodup_cons.mp hnd
    cases n with
    | zero =>
      simp only [List.getElem?_cons_zero, Option.some.injEq] at h
      subst h
      simp [List.idxOf?_cons]
    | succ n =>
      simp only [List.getElem?_cons_succ] at h
      have hne : y ≠ x := fun e => hy (e ▸ List.mem_of_getElem? h)
      have ih := idxOf?_of_nodup ys n x hys h
      simp [List.idxOf?_cons, hne, ih]

/-- the ids: `reserve_unit` numbers the entries in section order, the root first — the id of the
entry at position `n` of the stream is `n` (for pairwise distinct offsets, which section offsets
of distinct entries are) -/
theorem reserved_ids_are_positions (items : List RItem) (hnd : (items.map (·.off)).Nodup) (n : Nat)
    (it : RItem) (h : items[n]? = some it) : reserveIds items it.off = some n := by
  unfold reserveIds
  exact idxOf?_of_nodup _ n it.off hnd (by simp [h])

/-- **Counterexample (finding C12U-1): the root's tag is not converted.** Whatever tag the input
root has, the root of the output unit is the entry `Unit::new` created, a
`DW_TAG_compile_unit`: `convertUnit` does not even read `root.tag`. -/
theorem root_tag_not_converted (cx : ConvUnit.Ctx) (ids : Nat → Option Nat) (root : RItem) (rest : List RItem)
    (tag : Nat) : convertUnit cx ids ({ root with tag := tag } :: rest) = convertUnit cx ids (root :: rest) := by
  simp [convertUnit]

/-- a context in which every lookup succeeds -/
def exCtx : ConvUnit.Ctx :=
  { version := 4, convAddr := some, addrAt := .ok, strAt := fun _ => .ok [], lineStrAt := fun _ => .ok [],
    strOffsetAt := .ok, strId := fun _ => 0, lineStrId := fun _ => 0, lineProgram := none,
    fileId := fun _ => none, convExpr := fun b => .ok [.raw b], locOffsetAt := .ok, convLocList := .ok,
    rngOffsetFromRaw := id, rngOffsetAt := .ok, convRngList := .ok, unitRef := some,
    infoRef := fun _ => none }

/-- two entries at depth 0 -/
def exTwoRoots : List RItem :=
  [{ off := 11, depth := 0, tag := 0x11, children := false, attrs := [] },
   { off := 12, depth := 0, tag := 0x2e, children := false, attrs := [] }]

/-- **Counterexample: a second top-level entry is re-parented.** A unit has one root, but the
reader accepts more top-level entries (C02); the conversion makes a later depth-0 entry a *child*
of the root (`entry.parent.unwrap_or(self.unit.root())`). -/
theorem second_top_level_entry_reparented :
    ((convertUnit exCtx (reserveIds exTwoRoots) exTwoRoots).toOption.map
      (fun o => o.entries.map Created.shape)) = some [(1, 0, 0x2e)] := by
  decide

/-! ## (c) idempotence, structural part -/

/-- **A second conversion creates the same entries again.** Let `f` be the input forest and `f'`
the forest a reader finds in the written output of the first conversion; `f'` has the shape of
`f` (that is `convert_forest_partial` for the conversion, C11's `offsets_exact` and read-back
oracle for write + read: same (id, parent, tag) listing — ids are positions in both).  Then
converting `f'` makes exactly the `add_reserved` calls the first conversion made: the forest is a
fixed point from the first output on.  (Attribute-level idempotence — `convert(read(write(v)))
= v` for every value kind — needs a Model of re-reading a converted value under an arbitrary
attribute name and is established by the differential run only: `c12-dwarf` converts twice and
compares the outputs byte for byte.) -/
theorem convert_forest_idempotent (cx cx' : ConvUnit.Ctx) (ids ids' : Nat → Option Nat) (root root' : RItem)
    (f f' : IForest) (out out' : OutUnit)
    (hwf : f.WF) (hid : f.HasIds ids) (hroot : root.depth = 0) (hch : root.children = false → f = .nil)
    (hwf' : f'.WF) (hid' : f'.HasIds ids') (hroot' : root'.depth = 0) (hch' : root'.children = false → f' = .nil)
    (hsame : f'.flatten 0 = f.flatten 0)
    (h : convertUnit cx ids (root :: f.items 1) = .ok out)
    (h' : convertUnit cx' ids' (root' :: f'.items 1) = .ok out') :
    out'.entries.map Created.shape = out.entries.map Created.shape := by
  rw [convert_forest_partial cx ids root f out hwf hid hroot hch h,
    convert_forest_partial cx' ids' root' f' out' hwf' hid' hroot' hch' h', hsame]

/-! ## (b) the attributes -/

/-- **What is dropped on purpose, exactly.** `filter_attributes` keeps an attribute iff its name
is not one of `DW_AT_sibling`, `DW_AT_str_offsets_base`, `DW_AT_addr_base`, `DW_AT_rnglists_base`,
`DW_AT_loclists_base`, `DW_AT_dwo_name`, `DW_AT_GNU_addr_base`, `DW_AT_GNU_ranges_base`,
`DW_AT_GNU_dwo_name`, `DW_AT_GNU_dwo_id`; order is kept; the sibling flag is set iff a
`DW_AT_sibling` was present. -/
theorem skip_list_exact (attrs : List RAttr) :
    (filterAttrs attrs).2 = attrs.filter (fun a => ¬ a.name ∈ SKIPPED) ∧
    ((filterAttrs attrs).1 = true ↔ ∃ a ∈ attrs, a.name = 0x01) := by
  simp [filterAttrs]

/-- `DebuggingInformationEntry::set` adds the name if it is new and never removes one -/
theorem attrSet_names (name : Nat) (v : AttrVal) (n : Nat) : ∀ (l : List (Nat × AttrVal)),
    n ∈ (attrSet name v l).map (·.1) ↔ n ∈ l.map (·.1) ∨ n = name
  | [] => by simp [attrSet]
  | (m, w) :: xs => by
    by_cases hm : m = name
    · subst hm
      simp only [attrSet, if_true, List.map_cons, List.mem_cons]
      constructor
      · intro h; exact Or.inl h
      · rintro (h | h)
        · exact h
        · exact Or.inl h
    · simp only [attrSet, hm, if_false, List.map_cons, List.mem_cons, attrSet_names name v n xs]
      constructor
      · rintro (h | h | h)
        · exact Or.inl (Or.inl h)
        · exact Or.inl (Or.inr h)
        · exact Or.inr h
      · rintro ((h | h) | h)
        · exact Or.inl h
        · exact Or.inr (Or.inl h)
        · exact Or.inr (Or.inr h)

/-- … and of the remaining ones `convert_attributes` drops `DW_AT_GNU_locviews` and nothing else:
if it succeeds, every other attribute was converted and `set` under its own name — the names of
the output are the names of the input (minus the skip list), each once, in first-occurrence order. -/
theorem converted_names (cx : ConvUnit.Ctx) : ∀ (l : List RAttr) (acc out : List (Nat × AttrVal)),
    convertAttrs cx l acc = .ok out →
    ∀ n, (n ∈ out.map (·.1) ↔ n ∈ acc.map (·.1) ∨ ∃ a ∈ l, a.name = n ∧ n ≠ DW_AT_GNU_locviews)
  | [], acc, out, h => by
    simp only [convertAttrs, Except.ok.injEq] at h
    subst h; simp
  | a :: rest, acc, out, h => by
    rw [convertAttrs] at h
    intro n
    by_cases hn : a.name = DW_AT_GNU_locviews
    · simp only [hn, if_true] at h
      rw [converted_names cx rest acc out h n]
      constructor
      · rintro (h1 | ⟨b, hb, h2⟩)
        · exact Or.inl h1
        · exact Or.inr ⟨b, List.mem_cons_of_mem _ hb, h2⟩
      · rintro (h1 | ⟨b, hb, h2, h3⟩)
        · exact Or.inl h1
        · simp only [List.mem_cons] at hb
          rcases hb with hb | hb
          · subst hb; exact absurd (h2 ▸ hn) h3
          · exact Or.inr ⟨b, hb, h2, h3⟩
    · simp only [hn, if_false] at h
      obtain ⟨v, _, h⟩ := except_bind_ok h
      rw [converted_names cx rest _ out h n]
      rw [attrSet_names]
      constructor
      · rintro ((h1 | h1) | ⟨b, hb, h2⟩)
        · exact Or.inl h1
        · exact Or.inr ⟨a, List.mem_cons_self .., h1.symm, by rw [h1]; exact hn⟩
        · exact Or.inr ⟨b, List.mem_cons_of_mem _ hb, h2⟩
      · rintro (h1 | ⟨b, hb, h2, h3⟩)
        · exact Or.inl (Or.inl h1)
        · simp only [List.mem_cons] at hb
          rcases hb with hb | hb
          · subst hb; exact Or.inl (Or.inr h2.symm)
          · exact Or.inr ⟨b, hb, h2, h3⟩

/-- the kinds whose value the conversion carries over unchanged -/
def directOut (form : Form) (v : Value) : Option AttrVal :=
  match v.kind, v.payload with
  | .block, .bytes b => some (.block b)
  | .data1, .num x => some (.data1 x)
  | .data2, .num x => some (.data2 x)
  | .data4, .num x => some (.data4 x)
  | .data8, .num x => some (.data8 x)
  | .data16, .num x => some (.data16 x)
  | .sdata, .int x => some (.sdata x)
  | .udata, .num x => some (.udata x)
  | .flag, .flag b => some (if form = .flagPresent then .flagPresent else .flag b)
  | .debugInfoRefSup, .num x => some (.debugInfoRefSup x)
  | .debugMacinfoRef, .num x => some (.debugMacinfoRef x)
  | .debugMacroRef, .num x => some (.debugMacroRef x)
  | .debugTypesRef, .num x => some (.debugTypesRef x)
  | .debugStrRefSup, .num x => some (.debugStrRefSup x)
  | .string, .bytes s => some (.string s)
  | .encoding, .num x | .decimalSign, .num x | .endianity, .num x | .accessibility, .num x
  | .visibility, .num x | .virtuality, .num x | .language, .num x | .addressClass, .num x
  | .identifierCase, .num x | .callingConvention, .num x | .inline, .num x | .ordering, .num x =>
    some (.constClass x)
  | .dwoId, .num x => some (.udata x)
  | _, _ => none

/-- **Constants, blocks, inline strings, flags, signatures, supplementary and macro offsets are
carried over exactly** — the same variant with the same payload (never a truncated, widened or
re-signed number: `Data4(x)` stays `Data4(x)`), for every name and form, with no way to fail. -/
theorem convert_attr_meaning_direct (cx : ConvUnit.Ctx) (a : RAttr) (w : AttrVal)
    (hf : a.form ≠ .implicitConst) (hd : directOut a.form (normalise a.name a.raw) = some w) :
    convertValue cx a = .ok w := by
  unfold convertValue
  simp only [hf, if_false]
  generalize normalise a.name a.raw = v at hd ⊢
  obtain ⟨k, p⟩ := v
  cases k <;> cases p <;> simp only [directOut, Option.some.injEq, reduceCtorEq] at hd <;>
    first
    | (subst hd; rfl)
    | (subst hd; simp only []; split <;> rfl)

/-- `DW_FORM_implicit_const` keeps its constant -/
theorem convert_attr_meaning_implicit (cx : ConvUnit.Ctx) (a : RAttr) (hf : a.form = .implicitConst) (v : Int)
    (hr : a.raw = ⟨.sdata, .int v⟩) : convertValue cx a = .ok (.implicitConst v) := by
  simp [convertValue, hf, hr]

/-- **References are never retargeted; a dangling reference is an error.** A `UnitRef` becomes a
reference to exactly the id that `entry_ids` holds for the referenced offset — the entry
converted from the referenced input entry — and `InvalidUnitRef` when there is none (no entry
starts there, or the offset is outside the unit).  Same for `DebugInfoRef` across units. -/
theorem convert_attr_meaning_ref (cx : ConvUnit.Ctx) (a : RAttr) (hf : a.form ≠ .implicitConst) (off : Nat) :
    ((normalise a.name a.raw) = ⟨.unitRef, .num off⟩ →
      convertValue cx a = match cx.unitRef off with
        | some id => .ok (.unitRef id) | none => .error .invalidUnitRef) ∧
    ((normalise a.name a.raw) = ⟨.debugInfoRef, .num off⟩ →
      convertValue cx a = match cx.infoRef off with
        | some (u, id) => .ok (.debugInfoRef u id) | none => .error .invalidDebugInfoRef) := by
  constructor <;> intro h <;> simp only [convertValue, hf, if_false, h]
  · cases cx.unitRef off <;> rfl
  · cases cx.infoRef off with
    | none => rfl
    | some p => cases p; rfl

/-- **Strings keep their bytes whatever form carried them**: `DW_FORM_strp`, the indexed forms
(`strx*`, through `.debug_str_offsets`) and `DW_FORM_line_strp` all end as a reference to the
table entry holding exactly the bytes the reader resolves (`cx.strAt`), and a failing lookup is an
error; an inline string stays inline. -/
theorem convert_attr_meaning_string (cx : ConvUnit.Ctx) (a : RAttr) (hf : a.form ≠ .implicitConst) (x : Nat) :
    ((normalise a.name a.raw) = ⟨.debugStrRef, .num x⟩ →
      convertValue cx a = (cx.strAt x).map (fun s => .stringRef (cx.strId s))) ∧
    ((normalise a.name a.raw) = ⟨.debugStrOffsetsIndex, .num x⟩ →
      convertValue cx a = (cx.strOffsetAt x >>= cx.strAt).map (fun s => .stringRef (cx.strId s))) ∧
    ((normalise a.name a.raw) = ⟨.debugLineStrRef, .num x⟩ →
      convertValue cx a = (cx.lineStrAt x).map (fun s => .lineStringRef (cx.lineStrId s))) := by
  refine ⟨?_, ?_, ?_⟩ <;> intro h <;> simp only [convertValue, hf, if_false, h]
  · cases cx.strAt x <;> rfl
  · cases cx.strOffsetAt x with
    | error e => rfl
    | ok o => simp only [bind, Except.bind]; cases cx.strAt o <;> rfl
  · cases cx.lineStrAt x <;> rfl

/-- **Addresses go through `convert_address` exactly once, directly or through `.debug_addr`;
`None` is `InvalidAddress`.** -/
theorem convert_attr_meaning_address (cx : ConvUnit.Ctx) (a : RAttr) (hf : a.form ≠ .implicitConst) (x : Nat) :
    ((normalise a.name a.raw) = ⟨.addr, .num x⟩ →
      convertValue cx a = match cx.convAddr x with
        | some y => .ok (.address y) | none => .error .invalidAddress) ∧
    ((normalise a.name a.raw) = ⟨.debugAddrIndex, .num x⟩ →
      convertValue cx a = cx.addrAt x >>= fun v => match cx.convAddr v with
        | some y => .ok (.address y) | none => .error .invalidAddress) := by
  constructor <;> intro h <;> simp only [convertValue, hf, if_false, h]
  · cases cx.convAddr x <;> rfl
  · cases cx.addrAt x with
    | error e => rfl
    | ok v => simp only [bind, Except.bind]; cases cx.convAddr v <;> rfl

/-- **A file index is mapped through the converted file table or is `InvalidFileIndex`**; index 0
before DWARF 5 means "no file" and stays that. -/
theorem convert_attr_meaning_file (cx : ConvUnit.Ctx) (a : RAttr) (hf : a.form ≠ .implicitConst) (x : Nat)
    (h : (normalise a.name a.raw) = ⟨.fileIndex, .num x⟩) :
    convertValue cx a =
      if x = 0 ∧ cx.version ≤ 4 then .ok (.fileIndex none)
      else match cx.fileId x with
        | some id => .ok (.fileIndex (some (fileRaw cx.version id)))
        | none => .error .invalidFileIndex := by
  simp only [convertValue, hf, if_false, h, convertFileIndex]
  by_cases h0 : x = 0 ∧ cx.version ≤ 4
  · simp only [h0, and_self, if_true]; rfl
  · simp only [h0, if_false]
    cases cx.fileId x <;> rfl

/-- **A section offset whose section is unknown, and the `*_base` metadata kinds, are
`InvalidAttributeValue`** — never copied as a number. -/
theorem convert_attr_untyped_offset_is_error (cx : ConvUnit.Ctx) (a : RAttr) (hf : a.form ≠ .implicitConst) (p : Payload)
    (k : Kind) (hk : k = .secOffset ∨ k = .debugAddrBase ∨ k = .debugLocListsBase ∨ k = .debugRngListsBase ∨
      k = .debugStrOffsetsBase) (h : (normalise a.name a.raw) = ⟨k, p⟩) :
    convertValue cx a = .error .invalidAttributeValue := by
  simp only [convertValue, hf, if_false, h]
  rcases hk with hk | hk | hk | hk | hk <;> subst hk <;> cases p <;> rfl

/-! ## (b') converted, written, read back -/

/-- what the reader of the written form must report for a directly carried value: the input's
own payload -/
def expectedFormVal (form : Form) (v : Value) : Option FormVal :=
  match v.kind, v.payload with
  | .block, .bytes b | .string, .bytes b => some (.bytes b)
  | .data1, .num x | .data2, .num x | .data4, .num x | .data8, .num x | .data16, .num x | .udata, .num x
  | .debugInfoRefSup, .num x | .debugMacinfoRef, .num x | .debugMacroRef, .num x | .debugTypesRef, .num x
  | .debugStrRefSup, .num x | .dwoId, .num x
  | .encoding, .num x | .decimalSign, .num x | .endianity, .num x | .accessibility, .num x
  | .visibility, .num x | .virtuality, .num x | .language, .num x | .addressClass, .num x
  | .identifierCase, .num x | .callingConvention, .num x | .inline, .num x | .ordering, .num x => some (.num x)
  | .sdata, .int x => some (.int x)
  | .flag, .flag b => some (.num (if form = .flagPresent then 1 else if b then 1 else 0))
  | _, _ => none

theorem decoded_direct (wcx : WUnit.Ctx) (form : Form) (v : Value) (w : AttrVal) (fv : FormVal)
    (hd : directOut form v = some w) (he : expectedFormVal form v = some fv) : decodedFull wcx w = some fv := by
  obtain ⟨k, p⟩ := v
  cases k <;> cases p <;> simp only [directOut, Option.some.injEq, reduceCtorEq] at hd <;>
    simp only [expectedFormVal, Option.some.injEq, reduceCtorEq] at he <;> subst hd he
  all_goals first | rfl | (by_cases hf : form = Form.flagPresent <;> simp [hf, decodedFull, decoded])

/-- **Convert, write, read back: the reader gets the input's own payload** — for every kind the
conversion carries over directly (constants of every width *and sign*, blocks, inline strings,
flags, signatures, supplementary and macro offsets, the enumeration classes), under every
encoding: the bytes `AttributeValue::write` emits for the converted value, read with the primitive
readers of the form `AttributeValue::form` chose (`WUnit.readFormFull`: the C09 readers incl.
`Leb.signed` — C11 `attr_bytes_decode`), give back exactly the payload the input attribute had,
and consume exactly those bytes.  (References, strings in tables and addresses: the value is an
id or a relocated address, see `convert_attr_meaning_ref/string/address` and C11's
`unit_refs_resolve` / `fixups_resolve` / `string_offset_resolves`.) -/
theorem convert_attr_write_read (cx : ConvUnit.Ctx) (wcx : WUnit.Ctx) (a : RAttr) (w : AttrVal) (fv : FormVal)
    (pos : Nat) (em : Emit) (rest : Bytes) (hf : a.form ≠ .implicitConst)
    (hd : directOut a.form (normalise a.name a.raw) = some w)
    (he : expectedFormVal a.form (normalise a.name a.raw) = some fv)
    (hr : w.InRangeFull wcx) (hemit : attrEmit wcx pos w = .ok em)
    (hso : ∀ o ∈ wcx.strOffsets, o < 2 ^ 64) (hlo : ∀ o ∈ wcx.lineStrOffsets, o < 2 ^ 64)
    (hlp : ∀ o, wcx.lineProgram = some o → o < 2 ^ 64) :
    convertValue cx a = .ok w ∧
      readFormFull wcx.endian wcx.enc (attrForm wcx.enc w).1 (attrForm wcx.enc w).2 (em.bytes ++ rest) =
        .ok (fv, rest) :=
  ⟨convert_attr_meaning_direct cx a w hf hd,
   attr_bytes_decode_full wcx pos w em fv rest hemit hr (decoded_direct wcx a.form _ w fv hd he) hso hlo hlp⟩

/-- the same for `DW_FORM_implicit_const`: the constant of the input abbreviation comes back —
from the output abbreviation in DWARF 5, as a signed LEB128 in the entry before -/
theorem convert_implicit_write_read (cx : ConvUnit.Ctx) (wcx : WUnit.Ctx) (a : RAttr) (v : Int)
    (pos : Nat) (em : Emit) (rest : Bytes) (hf : a.form = .implicitConst) (hraw : a.raw = ⟨.sdata, .int v⟩)
    (hlo : -(2 : Int) ^ 63 ≤ v) (hhi : v < 2 ^ 63) (hemit : attrEmit wcx pos (.implicitConst v) = .ok em)
    (hso : ∀ o ∈ wcx.strOffsets, o < 2 ^ 64) (hlo' : ∀ o ∈ wcx.lineStrOffsets, o < 2 ^ 64)
    (hlp : ∀ o, wcx.lineProgram = some o → o < 2 ^ 64) :
    convertValue cx a = .ok (.implicitConst v) ∧
      readFormFull wcx.endian wcx.enc (attrForm wcx.enc (.implicitConst v)).1 (attrForm wcx.enc (.implicitConst v)).2
        (em.bytes ++ rest) = .ok (.int v, rest) :=
  ⟨convert_attr_meaning_implicit cx a hf v hraw,
   attr_bytes_decode_full wcx pos _ em _ rest hemit ⟨trivial, hlo, hhi⟩ rfl hso hlo' hlp⟩

/-! ## (d) totality, and failing only for a reason -/

/-- **The conversion of a unit fails only because the unit has no root entry or because the
conversion of one particular attribute of one particular entry failed, and then with that
attribute's error** — never for the shape of the forest, the number of entries or their order.
(The Model functions are total: no input makes `convertUnit` panic or diverge.) -/
theorem convert_fails_only_on_attr (cx : ConvUnit.Ctx) (ids : Nat → Option Nat) (items : List RItem) (e : CErr)
    (h : convertUnit cx ids items = .error e) :
    items = [] ∨ ∃ it ∈ items, ∃ a ∈ it.attrs, convertValue cx a = .error e := by
  cases items with
  | nil => exact Or.inl rfl
  | cons root rest =>
    right
    rw [convertUnit] at h
    rcases except_bind_error h with h | ⟨ras, _, h⟩
    · obtain ⟨a, ha, he⟩ := convertAttrs_error cx _ _ e h
      simp only [filterAttrs, List.mem_filter] at ha
      exact ⟨root, List.mem_cons_self .., a, ha.1, he⟩
    · rcases except_bind_error h with h | ⟨es, _, h⟩
      · obtain ⟨it, hit, r⟩ := convertEntries_error cx ids rest _ e h
        exact ⟨it, List.mem_cons_of_mem _ hit, r⟩
      · simp [pure, Except.pure] at h

/-! ## non-vacuity -/

/-- root with two children, the first with a grandchild -/
def exForest : IForest :=
  .node 1 0x2e true 21 [] (.node 2 0x34 false 22 [] .nil .nil) (.node 3 0x24 false 23 [] .nil .nil)

example : exForest.WF ∧ exForest.flatten 0 = [(1, 0, 0x2e), (2, 1, 0x34), (3, 0, 0x24)] := by
  refine ⟨?_, by decide⟩
  simp [exForest, IForest.WF]

example : exForest.HasIds (fun off => if 21 ≤ off ∧ off ≤ 23 then some (off - 20) else none) := by
  simp [exForest, IForest.HasIds]

example : directOut .data4 ⟨.data4, .num 7⟩ = some (.data4 7) ∧
    expectedFormVal .data4 ⟨.data4, .num 7⟩ = some (.num 7) ∧ (AttrVal.data4 7).InRange ∧
    expectedFormVal .sdata ⟨.sdata, .int (-3)⟩ = some (.int (-3)) := by decide

end Gimli.Props.C12
