import Gimli.Model.Attr
import Gimli.Tables.AttrSize
/-!
# C03 — the Model's size and legacy-offset tables equal the tables read from the Rust source

`Gimli/Tables/AttrSize.lean` is rewritten on every `./check` run by `tools/tables_c03.py` from the
arms of `get_attribute_size` (src/read/abbrev.rs) and `allow_section_offset` (src/read/unit.rs) and
the constants of src/constants.rs. The theorems below tie `Attr.getAttributeSize` and
`Attr.allowSectionOffset` — the functions every C03 theorem about sizes, skipping and the legacy
data4/data8 rule is stated over — to those arms: moving a form to another arm, changing a size,
adding or dropping an arm breaks them directly (no sampling involved).
-/
namespace Gimli.Props.C03
open Gimli Gimli.Attr Gimli.Tables.AttrSize

/-- the meaning of an arm's right-hand side -/
def interp : Tables.AttrSize.Kind → Encoding → Option Nat
  | .addr, e => some e.addressSize
  | .word, e => some e.format.wordSize
  | .refaddr, e => some (if e.version = 2 then e.addressSize else e.format.wordSize)
  | .variable, _ => none
  | .fixed n, _ => some n

/-- the extractor understood every arm of both functions -/
theorem size_table_fresh : stale = [] := by decide

/-- every form named in an arm of `get_attribute_size` gets, in the Model, the size that arm
computes — for every encoding -/
theorem size_table_matches :
    ∀ row ∈ sizeArms, ∀ enc : Encoding, getAttributeSize (Form.ofCode row.2.1) enc = interp row.2.2 enc := by
  intro row hrow enc
  simp only [sizeArms, List.mem_cons, List.mem_nil_iff, or_false] at hrow
  rcases hrow with h | h | h | h | h | h | h | h | h | h | h | h | h | h | h | h | h | h | h | h | h | h | h | h | h | h | h | h | h | h | h | h | h | h | h | h | h | h | h | h | h <;>
    subst h <;> rfl

/-- every other form code — known to the Model or not — takes the `_ => None` arm -/
theorem size_table_default (c : Nat) (hc : c ∉ sizeArms.map (·.2.1)) (enc : Encoding) :
    getAttributeSize (Form.ofCode c) enc = none := by
  simp only [sizeArms, List.map_cons, List.map_nil, List.mem_cons, List.mem_nil_iff, or_false, not_or] at hc
  simp only [Form.ofCode, hc, if_false]
  -- what is left of the chain: the forms that no arm names
  repeat' split
  all_goals rfl

/-- `allow_section_offset` is exactly the two arm lists -/
theorem offset_table_matches (name version : Nat) :
    allowSectionOffset name version =
      (decide (name ∈ offsetAlways.map (·.2)) ||
        (decide (name ∈ offsetV2V3.map (·.2)) && (decide (version = 2) || decide (version = 3)))) := by
  simp only [allowSectionOffset, offsetAlways, offsetV2V3, List.map_cons, List.map_nil, List.mem_cons,
    List.mem_nil_iff, or_false]
  rw [Bool.eq_iff_iff]
  simp only [Bool.or_eq_true, Bool.and_eq_true, decide_eq_true_eq]
  omega

end Gimli.Props.C03
