import Gimli.Model.Lists
/-! # C08 — placeholder while the differential is brought up (replaced below) -/
namespace Gimli.Props.C08
open Gimli Gimli.Lists

theorem minTombstone_eq (s : Nat) (hs : 1 ≤ s ∧ s ≤ 8) : minTombstone s = 2 ^ (8 * s) - 2 := by
  obtain ⟨h1, h8⟩ := hs
  have : s = 1 ∨ s = 2 ∨ s = 3 ∨ s = 4 ∨ s = 5 ∨ s = 6 ∨ s = 7 ∨ s = 8 := by omega
  rcases this with h | h | h | h | h | h | h | h <;> subst h <;> decide

end Gimli.Props.C08
