import Gimli.Lemmas.Lists
/-!
# C08 — Range and location lists resolve to the standard's address ranges

Property theorems only (helper lemmas: `Gimli/Lemmas/Lists.lean`). Every theorem is about the
Model functions of `Gimli/Model/Lists.lean`, which the driver executes and the correspondence run
ties to `src/read/{rnglists,loclists,addr,dwarf,reader}.rs`; the Spec is `Gimli/Spec/Lists.lean`.

Quantifiers: every byte string (any length), both list families (`Kind`), both on-disk formats
(`Fmt`), every byte order / DWARF format / version, every base address, every `.debug_addr`
content and `DW_AT_addr_base`; address sizes as stated per theorem.
-/
namespace Gimli.Props.C08
open Gimli Gimli.Ints Gimli.Lists Gimli.Spec.Lists

/-! ## "For any input whatsoever every yielded range is non-empty and begins below the tombstone
addresses" -/

/-- **Any input.** Whatever the bytes at the list offset, the configuration, the initial base
address, the address table and `addr_base` are: every range the cooked range-list / location-list
iterator yields has `begin < end` and `begin <` the tombstone threshold `min_tombstone` of the
address size. (No hypothesis at all — not even a valid address size.) -/
theorem yielded_nonempty_any_input (k : Kind) (c : Cfg) (f : Fmt) (addr : Bytes) (ab base : Nat)
    (bs : Bytes) (evs : List (Ev Item)) (h : cookedAll k c f addr ab base bs = .ok evs) :
    ∀ it, Ev.item it ∈ evs → it.b < it.e ∧ it.b < minTombstone c.addrSize := by
  unfold cookedAll at h
  cases hr : rawAll k c f bs with
  | ok raw => rw [hr] at h; exact cook_items c addr ab raw base evs h
  | err e => rw [hr] at h; simp at h
  | panic w => rw [hr] at h; simp at h
  | diverge => rw [hr] at h; simp at h

/-- the same through the public entry points (`RangeLists::ranges`, `LocationLists::locations`,
`locations_dwo`: section and format selected by version / split file type, any offset) -/
theorem yielded_nonempty_any_input_at (k : Kind) (c : Cfg) (dwo : Bool) (legacy v5 : Bytes)
    (offset base : Nat) (addr : Bytes) (ab : Nat) (evs : List (Ev Item))
    (h : cookedAt k c dwo legacy v5 offset base addr ab = .ok evs) :
    ∀ it, Ev.item it ∈ evs → it.b < it.e ∧ it.b < minTombstone c.addrSize := by
  unfold cookedAt at h
  simp only at h
  split at h
  · split at h
    · simp at h
    · exact yielded_nonempty_any_input _ _ _ _ _ _ _ _ h
  · split at h
    · simp at h
    · exact yielded_nonempty_any_input _ _ _ _ _ _ _ _ h

/-- the threshold is `-2` as an address of the unit's address size: the yielded ranges start below
both tombstone values `-1` and `-2` -/
theorem tombstone_threshold (s : Nat) (hs : 1 ≤ s ∧ s ≤ 8) :
    minTombstone s = 2 ^ (8 * s) - 2 ∧ minTombstone s = tombstone s :=
  ⟨minTombstone_eq s hs, minTombstone_spec s hs⟩

/-- the address helpers of `ReaderAddress for u64`, exactly: `wrapping_add_sized` is the sum modulo
`2^(8·size)`, `add_sized` is the sum when it is a `size`-byte address and `AddressOverflow` otherwise -/
theorem address_arithmetic (a len s : Nat) (hs : s ≤ 8) :
    wrappingAddSized a len s = (a + len) % 2 ^ (8 * s) ∧
    addSized a len s = (if a + len < 2 ^ (8 * s) then .ok (a + len) else .err .rAddressOverflow) :=
  ⟨wrappingAddSized_eq a len s hs, addSized_eq a len s hs⟩

/-! ## "Raw iteration exposes every encoded entry unchanged" -/

/-- **Raw round trip.** For every well-formed list `l` (every entry kind of the family and format,
every field value that fits its encoding), raw iteration over `encodeList l` followed by anything
returns exactly the entries of `l`, in order, unchanged, and stops at the terminator. -/
theorem raw_roundtrip (k : Kind) (c : Cfg) (f : Fmt) (hs : ValidSize c.addrSize) (l : List Entry)
    (rest : Bytes) (hw : ∀ x ∈ l, WfEntry k c f x) :
    rawAll k c f (encodeList k c f l ++ rest) = .ok (l.map .item) :=
  rawAll_encodeList k c f hs l rest hw

/-- the same through `raw_ranges` / `raw_locations` / `raw_locations_dwo` at the list's offset
inside a section (`pre` = whatever precedes the list) -/
theorem raw_roundtrip_at (k : Kind) (c : Cfg) (dwo : Bool) (hs : ValidSize c.addrSize)
    (l : List Entry) (pre rest other : Bytes)
    (hw : ∀ x ∈ l, WfEntry k c (sectionFormat k c.version dwo).2 x) :
    let sec := pre ++ encodeList k c (sectionFormat k c.version dwo).2 l ++ rest
    rawAt k c dwo (if (sectionFormat k c.version dwo).1 then sec else other)
      (if (sectionFormat k c.version dwo).1 then other else sec) pre.length = .ok (l.map .item) := by
  intro sec
  unfold rawAt
  have hsel : (if (sectionFormat k c.version dwo).1 = true then
      (if (sectionFormat k c.version dwo).1 = true then sec else other)
      else (if (sectionFormat k c.version dwo).1 = true then other else sec)) = sec := by
    split <;> rfl
  simp only [hsel]
  have hlen : ¬ sec.length < pre.length := by simp [sec]
  rw [if_neg hlen]
  have : sec.drop pre.length = encodeList k c (sectionFormat k c.version dwo).2 l ++ rest := by
    simp [sec, List.append_assoc]
  rw [this]
  exact rawAll_encodeList k c _ hs l rest hw

/-! ## "the entries yielded … are exactly the address ranges and expressions the standard defines
relative to the unit's base address" -/

/-- **Resolution refines the Spec** (entry level): for every sequence of raw entries (any values),
the cooked iterator's results are, one for one and in order, what `Spec.resolveList` says the list
denotes relative to `base` and the address table stored at `addr_base` — restricted to the entries
the Spec keeps; an `Err` result stands exactly where the Spec leaves an entry undefined (address
index outside the table), after which resolution continues with the unchanged base address. -/
theorem resolve_refines_entries (c : Cfg) (addr : Bytes) (ab : Nat) (hs : ValidSize c.addrSize)
    (hlen : addr.length < 2 ^ 64) (l : List Entry) (base : Nat) :
    ∃ evs, cook c addr ab base (l.map .item) = .ok evs ∧
      evs.map denot = resolveList c.addrSize (tableOf c.endian c.addrSize addr ab) base l :=
  cook_refines c addr ab hs hlen l base

/-- **Resolution refines the Spec** (byte level): cooked iteration over the encoding of a
well-formed list = the Spec's resolution of the list. -/
theorem resolve_refines (k : Kind) (c : Cfg) (f : Fmt) (addr : Bytes) (ab base : Nat)
    (hs : ValidSize c.addrSize) (hlen : addr.length < 2 ^ 64) (l : List Entry) (rest : Bytes)
    (hw : ∀ x ∈ l, WfEntry k c f x) :
    ∃ evs, cookedAll k c f addr ab base (encodeList k c f l ++ rest) = .ok evs ∧
      evs.map denot = resolveList c.addrSize (tableOf c.endian c.addrSize addr ab) base l := by
  obtain ⟨evs, h1, h2⟩ := cook_refines c addr ab hs hlen l base
  refine ⟨evs, ?_, h2⟩
  unfold cookedAll
  rw [rawAll_encodeList k c f hs l rest hw]
  exact h1

/-- the same through the public entry points `ranges` / `locations` / `locations_dwo` at the
list's offset inside the section the unit's version and the file type select -/
theorem resolve_refines_at (k : Kind) (c : Cfg) (dwo : Bool) (addr : Bytes) (ab base : Nat)
    (hs : ValidSize c.addrSize) (hlen : addr.length < 2 ^ 64) (l : List Entry)
    (pre rest other : Bytes) (hw : ∀ x ∈ l, WfEntry k c (sectionFormat k c.version dwo).2 x) :
    let sec := pre ++ encodeList k c (sectionFormat k c.version dwo).2 l ++ rest
    ∃ evs, cookedAt k c dwo (if (sectionFormat k c.version dwo).1 then sec else other)
        (if (sectionFormat k c.version dwo).1 then other else sec) pre.length base addr ab = .ok evs ∧
      evs.map denot = resolveList c.addrSize (tableOf c.endian c.addrSize addr ab) base l := by
  intro sec
  obtain ⟨evs, h1, h2⟩ := resolve_refines k c (sectionFormat k c.version dwo).2 addr ab base hs hlen l rest hw
  refine ⟨evs, ?_, h2⟩
  unfold cookedAt
  have hsel : (if (sectionFormat k c.version dwo).1 = true then
      (if (sectionFormat k c.version dwo).1 = true then sec else other)
      else (if (sectionFormat k c.version dwo).1 = true then other else sec)) = sec := by
    split <;> rfl
  simp only [hsel]
  have hl : ¬ sec.length < pre.length := by simp [sec]
  rw [if_neg hl]
  have : sec.drop pre.length = encodeList k c (sectionFormat k c.version dwo).2 l ++ rest := by
    simp [sec, List.append_assoc]
  rw [this]
  exact h1

/-! ## offset tables and the address table -/

/-- **`get_offset base i`** (`DW_FORM_rnglistx` / `DW_FORM_loclistx`) is `base +` the word stored at
`base + i·wordsize`, exactly when that word lies inside the section and the sum fits 64 bits;
an error otherwise — never a wrapped product or sum. -/
theorem offset_table_lookup (c : Cfg) (sec : Bytes) (base i : Nat) (hlen : sec.length < 2 ^ 64) :
    getOffset c sec base i =
      if base + i * c.format.wordSize + c.format.wordSize ≤ sec.length then
        let off := fromBytes c.endian ((sec.drop (base + i * c.format.wordSize)).take c.format.wordSize)
        if 2 ^ 64 ≤ base + off then .err .rUnsupportedOffset else .ok (base + off)
      else if sec.length < base then .err .rUnexpectedEof
      else if 2 ^ 64 ≤ i * c.format.wordSize then .err .rUnsupportedOffset
      else .err .rUnexpectedEof :=
  getOffset_cases c sec base i hlen

/-- **`get_address base i`** (`DW_FORM_addrx`, `DW_RLE_*x`, `DW_LLE_*x`) is the address stored at
`base + i·address_size`, exactly when that slot lies inside `.debug_addr`; an error otherwise. -/
theorem addr_table_lookup (c : Cfg) (sec : Bytes) (base i : Nat) (hs : ValidSize c.addrSize)
    (hlen : sec.length < 2 ^ 64) :
    getAddress c sec base i =
      if base + i * c.addrSize + c.addrSize ≤ sec.length then
        .ok (fromBytes c.endian ((sec.drop (base + i * c.addrSize)).take c.addrSize))
      else if sec.length < base then .err .rUnexpectedEof
      else if 2 ^ 64 ≤ i * c.addrSize then .err .rUnsupportedOffset
      else .err .rUnexpectedEof :=
  getAddress_cases c sec base i hs hlen

/-- hence it agrees with the Spec's address table -/
theorem addr_table_is_spec_table (c : Cfg) (sec : Bytes) (base i : Nat) (hs : ValidSize c.addrSize)
    (hlen : sec.length < 2 ^ 64) :
    match tableOf c.endian c.addrSize sec base i with
    | some a => getAddress c sec base i = .ok a
    | none => ∃ e, getAddress c sec base i = .err e :=
  getAddress_tableOf c sec base i hs hlen

/-! ## "the per-entry and per-unit range helpers built on them" -/

/-- **`die_ranges` / `unit_ranges`, no `DW_AT_ranges`.** For a DIE whose `DW_AT_low_pc` is an
address, whose `DW_AT_high_pc` is an address or a constant (`Benign`; anything else is skipped) the
result is the single range `low_pc .. high_pc`, or `low_pc .. low_pc + size` for a constant
`DW_AT_high_pc` — an `AddressOverflow` error when that sum leaves 64 bits, never a wrapped end —
kept (`keepSingle`) exactly when it is non-empty and begins below the tombstones, as for a range
list entry; nothing without `DW_AT_low_pc` or without `DW_AT_high_pc`. (Later duplicates override
earlier ones.) -/
theorem die_ranges_cases (u : UnitCtx) (secs : Sections) (attrs : Attrs)
    (hb : ∀ a ∈ attrs, Benign a) :
    dieRangesCore u secs attrs =
      let acc := attrs.foldl accStep {}
      match acc.lowPc with
      | none => .ok (.single none)
      | some b =>
        match acc.size with
        | some sz =>
          if 2 ^ 64 ≤ b + sz then .err .rAddressOverflow
          else .ok (.single (keepSingle u.cfg.addrSize (some (b, b + sz))))
        | none => .ok (.single (keepSingle u.cfg.addrSize (acc.highPc.map fun e => (b, e)))) :=
  dieRangesCore_single u secs attrs hb

/-- **`DW_AT_ranges` wins**: the first `DW_AT_ranges` that designates a list (a section offset, or
an index whose offset-table slot can be read) makes the result that list — resolved with the
unit's `low_pc` as base address and the unit's `addr_base` — whatever `low_pc`/`high_pc` say. -/
theorem die_ranges_ranges_wins (u : UnitCtx) (secs : Sections) (pre post : Attrs) (v : AttrVal)
    (o : Nat) (hb : ∀ a ∈ pre, Benign a) (ho : attrRangesOffset u secs v = .ok (some o)) :
    dieRangesCore u secs (pre ++ (.ranges, v) :: post) =
      (do let evs ← unitRangesAt u secs o; pure (.list evs)) :=
  dieRangesCore_ranges_wins u secs pre post v o hb ho

/-- the filter on the single range: exactly the ranges that are non-empty and start below the
tombstone threshold of the unit's address size survive, unchanged -/
theorem keep_single_iff (s : Nat) (r : Option (Nat × Nat)) (b e : Nat) :
    keepSingle s r = some (b, e) ↔ r = some (b, e) ∧ b < e ∧ b < minTombstone s := by
  constructor
  · exact keepSingle_some s r b e
  · rintro ⟨rfl, h1, h2⟩
    simp [keepSingle, h1, h2]

/-- the usual shapes, spelled out -/
theorem die_ranges_low_high_addr (u : UnitCtx) (secs : Sections) (b e : Nat) :
    dieRangesCore u secs [(.lowPc, .addr b), (.highPc, .addr e)] =
      .ok (.single (if b < minTombstone u.cfg.addrSize ∧ b < e then some (b, e) else none)) := by
  rw [die_ranges_cases u secs _ (by simp [Benign])]; rfl

theorem die_ranges_low_size (u : UnitCtx) (secs : Sections) (b sz : Nat) :
    dieRangesCore u secs [(.lowPc, .addr b), (.highPc, .udata sz)] =
      if 2 ^ 64 ≤ b + sz then .err .rAddressOverflow
      else .ok (.single (if b < minTombstone u.cfg.addrSize ∧ b < b + sz then some (b, b + sz) else none)) := by
  rw [die_ranges_cases u secs _ (by simp [Benign])]; rfl

/-- indexed `DW_AT_low_pc` (`DW_FORM_addrx`): the address-table entry of the unit -/
theorem die_ranges_lowx_size (u : UnitCtx) (secs : Sections) (i b sz : Nat)
    (hi : getAddress u.cfg secs.debugAddr u.addrBase i = .ok b) :
    dieRangesCore u secs [(.lowPc, .addrx i), (.highPc, .udata sz)] =
      if 2 ^ 64 ≤ b + sz then .err .rAddressOverflow
      else .ok (.single (if b < minTombstone u.cfg.addrSize ∧ b < b + sz then some (b, b + sz) else none)) := by
  simp only [dieRangesCore, dieRangesLoop, attrAddress, hi, Out.bind_ok, Out.pure_eq, keepSingle]

/-- `attr_ranges_offset`: a section offset is used as it is — except in a GNU split-DWARF v4
`.dwo` file, where it is relative to `DW_AT_GNU_ranges_base` — and an index goes through the offset
table at `DW_AT_rnglists_base`; `attr_locations_offset` never adds a base to a section offset. -/
theorem attr_offset_rules (u : UnitCtx) (secs : Sections) (o i : Nat) :
    attrRangesOffset u secs (.secOffset o) =
        .ok (some (if u.dwo ∧ u.cfg.version < 5 then (o + u.rnglistsBase) % 2 ^ 64 else o)) ∧
      attrLocationsOffset u secs (.secOffset o) = .ok (some o) ∧
      attrRangesOffset u secs (.listx i) =
        (do let x ← getOffset u.cfg secs.debugRnglists u.rnglistsBase i; pure (some x)) ∧
      attrLocationsOffset u secs (.listx i) =
        (do let x ← getOffset u.cfg secs.debugLoclists u.loclistsBase i; pure (some x)) :=
  ⟨rfl, rfl, rfl, rfl⟩

/-- **dwo base rules**: without base attributes a unit's `rnglists_base` / `loclists_base` is 0,
except in a DWARF 5 `.dwo` file where it is the size of the first table header (12 / 20 bytes);
`addr_base` and `low_pc` default to 0. -/
theorem dwo_base_rules (c : Cfg) (dwo : Bool) (secs : Sections) :
    unitBases c dwo secs [] =
      .ok ⟨c, dwo, 0, 0, defaultListsBase c dwo, defaultListsBase c dwo⟩ ∧
    defaultListsBase c false = 0 ∧
    (c.version < 5 → defaultListsBase c dwo = 0) ∧
    (c.version ≥ 5 → defaultListsBase c true = match c.format with | .dwarf32 => 12 | .dwarf64 => 20) := by
  refine ⟨rfl, ?_, ?_, ?_⟩
  · simp [defaultListsBase]
  · intro h; have : ¬ c.version ≥ 5 := by omega
    simp [defaultListsBase, this]
  · intro h; simp only [defaultListsBase, h, and_self, if_true]; cases c.format <;> rfl

/-- **base rules, any root DIE**: a unit's `addr_base` / `rnglists_base` / `loclists_base` is the
value of the last `DW_AT_addr_base`|`DW_AT_GNU_addr_base` / `DW_AT_rnglists_base`|`DW_AT_GNU_ranges_base`
/ `DW_AT_loclists_base` attribute given as a section offset, and otherwise 0 resp. the default of
`dwo_base_rules` -/
theorem unit_bases_rules (c : Cfg) (dwo : Bool) (secs : Sections) (root : Attrs) (u : UnitCtx)
    (h : unitBases c dwo secs root = .ok u) :
    u.addrBase = (lastSec .addrBase root).getD 0 ∧
    u.rnglistsBase = (lastSec .rnglistsBase root).getD (defaultListsBase c dwo) ∧
    u.loclistsBase = (lastSec .loclistsBase root).getD (defaultListsBase c dwo) ∧
    u.cfg = c ∧ u.dwo = dwo :=
  unitBases_bases c dwo secs root u h

/-- **Every range `die_ranges` / `unit_ranges` yields is non-empty and begins below the
tombstones** — through a range list (`DW_AT_ranges`) and as the single `low_pc .. high_pc` range
alike, for every DIE, unit, section contents and configuration. (Holds on the tree with the `fix:`
acb6706 for finding C08-1; before it the single range was yielded unfiltered, e.g.
`DW_AT_low_pc = -1`, `DW_AT_high_pc = 0` yielded `[2^64-1, 2^64-1)`.) -/
theorem die_ranges_nonempty (u : UnitCtx) (secs : Sections) (attrs : Attrs) (evs : List (Ev Item))
    (h : dieRanges u secs attrs = .ok evs) :
    ∀ it, Ev.item it ∈ evs → it.b < it.e ∧ it.b < minTombstone u.cfg.addrSize :=
  dieRanges_items u secs attrs evs h

/-- the former witness of C08-1 now yields nothing -/
example : dieRanges ⟨⟨.little, .dwarf32, 4, 8⟩, false, 0, 0, 0, 0⟩ ⟨[], [], [], [], []⟩
    [(.lowPc, .addr (2 ^ 64 - 1)), (.highPc, .udata 0)] = .ok [] := by decide

/-- `die_ranges` / `unit_ranges` return a value or an error for every DIE, unit and section
contents (no panic, no non-termination) -/
theorem die_ranges_total (u : UnitCtx) (secs : Sections) (attrs : Attrs) :
    (dieRangesCore u secs attrs).Normal :=
  dieRangesCore_normal u secs attrs

/-- everything `attr_locations` yields (location lists reached from a `DW_AT_location`-like
attribute, `.dwo` dispatch included) is non-empty and begins below the tombstones -/
theorem attr_locations_nonempty (u : UnitCtx) (secs : Sections) (v : AttrVal) (evs : List (Ev Item))
    (h : attrLocations u secs v = .ok (some evs)) :
    ∀ it, Ev.item it ∈ evs → it.b < it.e ∧ it.b < minTombstone u.cfg.addrSize :=
  attrLocations_items u secs v evs h

/-- a split unit inherits `low_pc` and `addr_base` from its skeleton unit, and the ranges base only
in GNU split DWARF (version < 5) -/
theorem copy_relocated_rules (self other : UnitCtx) :
    (copyRelocated self other).lowPc = other.lowPc ∧
    (copyRelocated self other).addrBase = other.addrBase ∧
    (copyRelocated self other).loclistsBase = self.loclistsBase ∧
    (copyRelocated self other).rnglistsBase =
      (if self.cfg.version < 5 then other.rnglistsBase else self.rnglistsBase) :=
  ⟨rfl, rfl, rfl, rfl⟩

/-! ## totality and termination within the input length -/

/-- **The raw iterator terminates**: for every byte string, at most `len` calls of `next()` return
something other than `Ok(None)` (so `len + 1` calls always reach the end), none panics. -/
theorem raw_terminates (k : Kind) (c : Cfg) (f : Fmt) (bs : Bytes) :
    ∃ evs, rawAll k c f bs = .ok evs ∧ evs.length ≤ bs.length :=
  rawFuel_ok k c f (bs.length + 1) bs (by omega)

/-- an `Err` is reported at most once and is the last thing the raw iterator returns -/
theorem raw_error_is_last (k : Kind) (c : Cfg) (f : Fmt) (bs : Bytes) (evs : List (Ev Entry))
    (h : rawAll k c f bs = .ok evs) :
    ∃ items : List Entry, evs = items.map .item ∨ ∃ e, evs = items.map .item ++ [.error e] :=
  rawFuel_shape k c f _ bs evs h

/-- **The cooked iterator terminates** the same way, for every input and configuration -/
theorem cooked_terminates (k : Kind) (c : Cfg) (f : Fmt) (addr : Bytes) (ab base : Nat) (bs : Bytes) :
    ∃ evs, cookedAll k c f addr ab base bs = .ok evs ∧ evs.length ≤ bs.length := by
  obtain ⟨raw, h1, h2⟩ := raw_terminates k c f bs
  obtain ⟨out, h3, h4⟩ := cook_ok c addr ab raw base
  refine ⟨out, ?_, by omega⟩
  unfold cookedAll
  rw [h1]; exact h3

/-- every parse step returns a value or an error and consumes at least one byte -/
theorem parse_entry_total (k : Kind) (c : Cfg) (f : Fmt) (bs : Bytes) (hne : bs ≠ []) :
    match parseRaw k c f bs with
    | .ok (_, rest) => rest.length < bs.length
    | .err _ => True
    | .panic _ => False
    | .diverge => False := by
  have h := good_parseRaw k c f bs hne
  have hpos : 0 < bs.length := List.length_pos_iff.mpr hne
  cases hp : parseRaw k c f bs with
  | ok p => obtain ⟨a, rest⟩ := p; rw [hp] at h; simp only [Good] at h; simp only; omega
  | err e => trivial
  | panic w => rw [hp] at h; exact h
  | diverge => rw [hp] at h; exact h

/-! ## non-vacuity -/

private def cfg5 : Cfg := { endian := .little, format := .dwarf32, version := 5, addrSize := 4 }
private def cfg4 : Cfg := { endian := .big, format := .dwarf32, version := 4, addrSize := 2 }

example : ValidSize cfg5.addrSize ∧
    ∀ x ∈ [Entry.baseAddress 0x1000, .offsetPair 1 5 [], .startLength 0xffff_fff0 0x20 [],
      .startxEndx 0 1 []], WfEntry .rng cfg5 .coded x := by decide
example : ∀ x ∈ [Entry.pair 1 5 [0x9c], .baseAddress 0x100, .pair 0 3 []], WfEntry .loc cfg4 .bare x := by
  decide
example : ∀ x ∈ [Entry.defaultLocation [0x50], .startxLength 1 0xffff_ffff [0x51, 0x52]],
    WfEntry .loc cfg4 .coded x := by decide
example : encodeList .rng cfg5 .coded [.baseAddress 0x1000, .offsetPair 1 5 []] =
    [5, 0, 0x10, 0, 0, 4, 1, 5, 0] := by decide
example : rawAll .rng cfg5 .coded [5, 0, 0x10, 0, 0, 4, 1, 5, 0, 0xaa] =
    .ok [.item (.baseAddress 0x1000), .item (.offsetPair 1 5 [])] := by decide
example : cookedAll .rng cfg5 .coded [] 0 0 [5, 0, 0x10, 0, 0, 4, 1, 5, 4, 7, 7, 0] =
    .ok [.item ⟨0x1001, 0x1005, []⟩] := by decide
example : resolveList 4 (fun _ => none) 0 [.baseAddress 0xffff_fffe, .offsetPair 1 5 [], .startEnd 3 3 [],
    .startxEndx 0 1 [], .startLength 0xffff_fff0 0x20 []] = [.undefined] := by decide

end Gimli.Props.C08
