import Gimli.Lemmas.ConvFrame
/-!
# C12, frame-table component — `FrameTable::from` preserves the unwind rows and the CIE
parameters, or fails

Property theorems only (helper lemmas: `Gimli/Lemmas/ConvFrame.lean`).

* **Model** (`Gimli/Model/ConvFrame.lean`, tied to `src/write/cfi.rs` `mod convert` by the
  byte-exact request `c12-cfi`): `CallFrameInstruction::from` (`convertInstr`), the instruction
  loops of `CommonInformationEntry::from` / `FrameDescriptionEntry::from` (`convertProg`),
  `convertCie`, `convertFde`, `FrameTable::from` (`convertTable`), on C05's Model of the entries and
  C06's Model of the instruction iterator; the output is C14's writer table.
* **Meaning of the input**: C06's declarative call-frame semantics (`Spec.Unwind.step`, `table`).
* **Meaning of the output**: C14's `Spec.WCfi.wStep` / `wTable` — the rows meant by writer
  instructions supplied at code offsets — which C14's `rows_roundtrip` ties to what the writer emits
  and the reader decodes.

How rows are compared (`rulesAt`): as the map *address ↦ rules* over the FDE's range
`[initial, end)`, the rules of the first row containing the address.  This is exactly what the
conversion preserves and why nothing stronger holds:
* `DW_CFA_nop` (padding or not) is dropped; it creates no row and changes no rule.
* `DW_CFA_advance_loc*` are not converted one to one: they only accumulate `delta × code
  alignment factor` into the code offset of the next instruction.  Consecutive advances are merged
  (input rows `[a,b) [b,c)` with equal rules ↦ one output row `[a,c)`), an advance of 0 (or under a
  code alignment factor 0) leaves an *empty* input row that has no output counterpart, and advances
  after the last instruction of an FDE are dropped (the last row then ends at the FDE's end anyway).
* `remember_state` / `restore_state` / `restore` are converted one to one and mean the same on both
  sides: the implicit stack and the initial rules (the register rules after the CIE's program) are
  part of the state that the simulation keeps equal; states remembered by the CIE stay poppable by
  the FDE on both sides.
* In a CIE, `advance_loc` only moves a location that the FDE resets; the converted CIE carries the
  same instructions without offsets.
The statement is for input tables that the reader can evaluate to the end (`table … = (rows, ok)`);
for an input that is itself invalid (e.g. `restore_state` on an empty stack, an advance beyond the
address space) nothing is claimed beyond totality.

Expressions are opaque: `ExprIdentity` assumes that the expression converter returns the bytes it
was given when it succeeds (what the differential run uses); C12-expr's equivalence is to take its
place.
-/
namespace Gimli.Props.C12
open Gimli Gimli.Cfi Gimli.WCfi Gimli.ConvCfi Gimli.ConvFrame Gimli.Unwind Gimli.Spec.Unwind Gimli.Spec.WCfi

/-- **convert_instr_meaning.** For every decoded instruction, every pair of alignment factors
(any `u64` / `i64`, including 0, 256, ±128, 2^32, …), every running code offset: if
`CallFrameInstruction::from` succeeds then either the instruction was a `Nop` (dropped, offset
unchanged), or an `AdvanceLoc` (dropped; the offset grows by exactly `delta × code alignment
factor`, inside `u32` — never wrapped), or it became one writer instruction whose operands are in
the range of the writer's types and whose meaning (`wStep`: unfactored offsets) equals, in every
state, C06's call-frame semantics of the input instruction under the input's data alignment factor
(factored operands multiplied back exactly, not modulo 2^64; unsigned operands that would read as
negative, and products outside `i32`, are `ValueTooLarge`).  `SetLoc` never converts
(`UnsupportedCfiInstruction`).  Otherwise the conversion is an error (`cfi_convert_total`). -/
theorem convert_instr_meaning (env : Env) (hex : ExprIdentity env) (off : Nat) (i : Instr)
    (w : Option WInstr) (off' : Nat) (hl : exprLen i < 2 ^ 64)
    (h : convertInstr env off i = .ok (w, off')) :
    (i = .nop ∧ w = none ∧ off' = off) ∨
    (∃ d, i = .advanceLoc d ∧ w = none ∧ off' = off + d * env.caf ∧ d * env.caf < 2 ^ 32 ∧ off' < 2 ^ 32) ∨
    (∃ wi, w = some wi ∧ off' = off ∧ wi.InRange ∧ (wi = .negateRaState → i = .negateRaState) ∧
      ∀ (p : Params), p.dataAlign = env.daf → ∀ s : State, wStep s wi = step p s i) :=
  convertInstr_spec env hex off i w off' hl h

theorem convert_setloc_unsupported (env : Env) (off a : Nat) :
    convertInstr env off (.setLoc a) = .fail .unsupportedCfiInstruction := rfl

/-- **convert_rows.** Whole tables: take any CIE program and any FDE program (as decoded by the
reader), any alignment factors and address size, any initial address and length.  If both programs
convert and the reader can evaluate the input table to the end, then the converted table — the
converted CIE instructions, and the converted FDE instructions at their accumulated code offsets —
evaluates to the end as well, and assigns to every address of the FDE's range the same rules (CFA
rule, register rules, args_size) as the input table. -/
theorem convert_rows (env : Env) (hex : ExprIdentity env) (p : Params)
    (hc : p.codeAlign = env.caf) (hd : p.dataAlign = env.daf)
    (ci fi : List Instr) (hlc : ∀ i ∈ ci, exprLen i < 2 ^ 64) (hlf : ∀ i ∈ fi, exprLen i < 2 ^ 64)
    (cw fw : List (Nat × WInstr)) (lastc lastf : Nat)
    (hcie : convertProg env 0 ci = .ok (cw, lastc)) (hfde : convertProg env 0 fi = .ok (fw, lastf))
    (initial len : Nat) (rowsIn : List TableRow)
    (hin : table p none none ci none fi none initial len = (rowsIn, .ok ())) :
    ∃ rowsOut, wTable p (cw.map (·.2)) fw initial len = (rowsOut, .ok ()) ∧
      ∀ pc, pc < fdeEnd p initial len → rulesAt rowsOut pc = rulesAt rowsIn pc :=
  convert_rows_main env hex p hc hd ci fi hlc hlf cw fw lastc lastf hcie hfde initial len rowsIn hin

/-- **convert_write_rows: convert → write → decode → unwind = the input rows.**  If moreover the
writer (C14's Model) emits the converted CIE and FDE programs, then whatever padding follows them
and wherever they lie in the output section, C06's decoder reads both streams to the end and C06's
call-frame semantics of the decoded output assigns to every address of the FDE's range the same
rules as the input table.  (`NegateRaState` needs the AArch64 vendor setting on the reading side.) -/
theorem convert_write_rows (env : Env) (hex : ExprIdentity env) (p : Params)
    (hc : p.codeAlign = env.caf) (hd : p.dataAlign = env.daf)
    (ci fi : List Instr) (hlc : ∀ i ∈ ci, exprLen i < 2 ^ 64) (hlf : ∀ i ∈ fi, exprLen i < 2 ^ 64)
    (cw fw : List (Nat × WInstr)) (lastc lastf : Nat)
    (hcie : convertProg env 0 ci = .ok (cw, lastc)) (hfde : convertProg env 0 fi = .ok (fw, lastf))
    (initial len : Nat) (rowsIn : List TableRow)
    (hin : table p none none ci none fi none initial len = (rowsIn, .ok ()))
    (cc fc : DecodeCfg) (hcv : Instr.negateRaState ∈ ci → cc.vendor = .aarch64)
    (hfv : Instr.negateRaState ∈ fi → fc.vendor = .aarch64)
    (cb fb : Bytes) (n1 n2 ciePos fdePos : Nat)
    (hwc : instrsWrite p.dataAlign (cw.map (·.2)) = .ok cb)
    (hwf : fdeInstrsWrite fc.endian p.codeAlign p.dataAlign 0 fw = .ok fb) :
    (decodeAll cc ciePos (cb ++ List.replicate n1 0)).2 = .ok () ∧
    (decodeAll fc fdePos (fb ++ List.replicate n2 0)).2 = .ok () ∧
    ∃ rowsOut,
      table p none none (decodeAll cc ciePos (cb ++ List.replicate n1 0)).1 none
        (decodeAll fc fdePos (fb ++ List.replicate n2 0)).1 none initial len = (rowsOut, .ok ()) ∧
      ∀ pc, pc < fdeEnd p initial len → rulesAt rowsOut pc = rulesAt rowsIn pc := by
  obtain ⟨rowsOut, hw, hrows⟩ := convert_rows_main env hex p hc hd ci fi hlc hlf cw fw lastc lastf hcie hfde
    initial len rowsIn hin
  obtain ⟨_, hcr, hcn⟩ := convertProg_inRange env hex ci 0 cw lastc hlc (by decide) hcie
  obtain ⟨hfr, _, hfn⟩ := convertProg_inRange env hex fi 0 fw lastf hlf (by decide) hfde
  have h := rows_roundtrip_main cc fc p (cw.map (·.2)) fw
    (by intro i hi; obtain ⟨x, hx, rfl⟩ := List.mem_map.mp hi; exact hcr x hx)
    (by intro i hi hneg; obtain ⟨x, hx, rfl⟩ := List.mem_map.mp hi; exact hcv (hcn ⟨x, hx, hneg⟩))
    hfr (progVendorOk_of_forall fc fw (fun x hx hneg => hfv (hfn ⟨x, hx, hneg⟩)))
    cb fb n1 n2 ciePos fdePos initial len hwc hwf
  exact ⟨h.1, h.2.1, rowsOut, by rw [h.2.2, hw], hrows⟩

/-- **convert_cie_params.** If `CommonInformationEntry::from` succeeds, the writer's CIE has the
input's format, version, address size, return address register, LSDA / FDE pointer encodings
(`DW_EH_PE_absptr` when the input has none), signal-trampoline flag and personality (same encoding,
the address as converted by `convert_address`), and both alignment factors — which therefore fit
`u8` / `i8`: a factor that does not fit is an error, never a truncated value (256 ↦ 0). -/
theorem convert_cie_params (cx : ConvFrame.Ctx) (cie : CfiEntry.Cie) (w : WCie) (h : convertCie cx cie = .ok w) :
    w.format = cie.format ∧ w.version = cie.version ∧ w.addressSize = cie.asz ∧
    w.codeAlign = cie.caf ∧ cie.caf < 256 ∧ w.dataAlign = cie.daf ∧ -128 ≤ cie.daf ∧ cie.daf < 128 ∧
    w.raReg = UInt16.ofNat cie.rar ∧
    w.lsdaEncoding = cie.aug.bind (·.lsda) ∧
    w.fdeAddressEncoding = (cie.aug.bind (·.fdeEnc)).getD 0 ∧
    w.signalTrampoline = (cie.aug.map (·.signal)).getD false ∧
    (match cie.aug.bind (·.personality) with
      | some (enc, ptr) => ∃ a, cx.convertAddr ptr.pointer = some a ∧ w.personality = some (enc, a)
      | none => w.personality = none) :=
  convertCie_params cx cie w h

/-- **cfi_convert_total.** `CallFrameInstruction::from` and the instruction loops return a value or a
`ConvertError` for every input (given an expression converter that does): no panic, no wrap-around
— every product and sum is checked. -/
theorem cfi_convert_total (env : Env) (hx : ∀ ex, (env.convertExpr ex).Normal) :
    (∀ off i, (convertInstr env off i).Normal) ∧ (∀ is off, (convertProg env off is).Normal) :=
  ⟨convertInstr_normal env hx, convertProg_normal env hx⟩

/-! ## non-vacuity and the arithmetic at the boundaries -/

def envId (caf : Nat) (daf : Int) : Env := { caf := caf, daf := daf, convertExpr := fun ex => .ok ex }

example : ExprIdentity (envId 4 (-8)) := by intro ex ex' h; cases h; rfl
example : convertInstr (envId 4 (-8)) 0 (.offset 16 2) = .ok (some (.offset 16 (-16)), 0) := by rfl
example : convertInstr (envId 4 (-8)) 8 (.advanceLoc 3) = .ok (none, 20) := by rfl
example : convertInstr (envId (2 ^ 32) (-8)) 0 (.advanceLoc 1) = .fail (.write .wValueTooLarge) := by rfl
example : convertInstr (envId 0 (-8)) 8 (.advanceLoc 3) = .ok (none, 8) := by rfl
example : convertInstr (envId 1 (2 ^ 31)) 0 (.defCfaSf 7 1) = .fail (.write .wValueTooLarge) := by rfl
example : convertInstr (envId 1 (-1)) 0 (.valOffset 3 (2 ^ 63)) = .fail (.write .wValueTooLarge) := by rfl
example : convertProg (envId 4 (-8)) 0 [.advanceLoc 1, .nop, .advanceLoc 2, .defCfaOffset 16, .advanceLoc 5] =
    .ok ([(12, .cfaOffset 16)], 32) := by rfl

end Gimli.Props.C12
