import Gimli.Lemmas.FilterGraph
/-!
# C19 — Filtered conversion output is dependency-closed, complete and minimal

Theorems about the Model in `Gimli/Model/Filter.lean` (the functions the driver executes for the
`flt-conv` correspondence). `Deps` is `FilterDependencies`; `Deps.Reachable d` is the Spec set
`Reach` (least set containing the valid required offsets and closed under recorded edges into
valid offsets) of the graph `d` denotes.
-/
namespace Gimli.Props.C19
open Gimli Gimli.Filter Gimli.Spec

/-- **`worklist_terminates`** — for every graph and required list, `get_reachable` run with fuel
`number of map entries + 2` returns a list: the worklist never diverges (each iteration pops one
list; a list is pushed only when an entry is removed from the map, which can happen at most once
per entry). More fuel gives the same answer. -/
theorem worklist_terminates (d : Deps) :
    (∃ out, getReachable d = .ok out) ∧
    (∀ out, getReachable d = .ok out → ∀ k, getReachableFuel (fuelFor d + k) d = .ok out) := by
  constructor
  · obtain ⟨out, h⟩ := loop_terminates (fuelFor d) ⟨d.edges, [], [d.required]⟩
      (by simp only [fuelFor, List.length_cons, List.length_nil]; omega)
    exact ⟨sortOffs out, by simp [getReachable, getReachableFuel, h, Out.map]⟩
  · intro out h k
    simp only [getReachable, getReachableFuel] at h ⊢
    cases hl : loop (fuelFor d) ⟨d.edges, [], [d.required]⟩ with
    | ok r =>
      rw [hl] at h
      rw [loop_fuel_mono _ _ _ hl k]
      exact h
    | err e => rw [hl] at h; simp [Out.map] at h
    | panic w => rw [hl] at h; simp [Out.map] at h
    | diverge => rw [hl] at h; simp [Out.map] at h

/-- what `get_reachable` returns is a sorted copy of the `reach` list of a final worklist state
that satisfies the invariant -/
theorem final_state (d : Deps) (out : List Off) (h : getReachable d = .ok out) :
    ∃ s : WState, out = sortOffs s.reach ∧ Inv d.edges d.required s (fun _ => False) := by
  simp only [getReachable, getReachableFuel] at h
  cases hl : loop (fuelFor d) ⟨d.edges, [], [d.required]⟩ with
  | ok r =>
    rw [hl] at h
    simp only [Out.map, Out.ok.injEq] at h
    obtain ⟨s, hs, hinv⟩ := loop_inv d.edges d.required _ _ r (inv_init d) hl
    exact ⟨s, by rw [hs]; exact h.symm, hinv⟩
  | err e => rw [hl] at h; simp [Out.map] at h
  | panic w => rw [hl] at h; simp [Out.map] at h
  | diverge => rw [hl] at h; simp [Out.map] at h

/-- **`reachable_sound`** — everything `get_reachable` returns is in `Reach`: it is a valid offset
connected to a valid required offset by a chain of recorded edges through valid offsets.
For ALL graphs and required lists. -/
theorem reachable_sound (d : Deps) (out : List Off) (h : getReachable d = .ok out) :
    ∀ x, x ∈ out → d.Reachable x := by
  obtain ⟨s, hs, hinv⟩ := final_state d out h
  intro x hx
  rw [hs, mem_sortOffs] at hx
  exact hinv.sound x hx

/-- **`reachable_complete`** — all of `Reach` is returned. For ALL graphs and required lists. -/
theorem reachable_complete (d : Deps) (out : List Off) (h : getReachable d = .ok out) :
    ∀ x, d.Reachable x → x ∈ out := by
  obtain ⟨s, hs, hinv⟩ := final_state d out h
  intro x hx
  rw [hs, mem_sortOffs]
  exact inv_final_complete d.edges d.required s hinv x hx

/-- **`reachable_nodup_sorted`** — the returned list has no duplicates and is sorted ascending
(hence strictly ascending). -/
theorem reachable_nodup_sorted (d : Deps) (out : List Off) (h : getReachable d = .ok out) :
    out.Nodup ∧ out.Pairwise (· ≤ ·) ∧ out.Pairwise (· < ·) := by
  obtain ⟨s, hs, hinv⟩ := final_state d out h
  have hn : out.Nodup := by rw [hs]; exact sortOffs_nodup _ hinv.nodup
  have hsort : out.Pairwise (· ≤ ·) := by rw [hs]; exact sortOffs_sorted _
  refine ⟨hn, hsort, ?_⟩
  -- sorted + nodup = strictly sorted
  clear hs hinv h
  induction out with
  | nil => exact List.Pairwise.nil
  | cons a l ih =>
    rw [List.pairwise_cons] at hsort ⊢
    rw [List.nodup_cons] at hn
    refine ⟨?_, ih hn.2 hsort.2⟩
    intro b hb
    have h1 : a ≤ b := hsort.1 b hb
    have h2 : a ≠ b := fun hab => hn.1 (hab ▸ hb)
    exact Nat.lt_of_le_of_ne h1 h2

/-! ## the graph `read_entry` builds and the closure clauses of the property

`units` is the abstract section (per unit: header and raw entries in read order), `records units`
the entries with the parent that the `FilterUnit` stack yields. The only hypothesis is that the
DIE offsets are distinct (`Distinct`), which holds for every section that can be read: offsets
strictly increase within a unit and units do not overlap. -/

/-- `x` is the offset of a DIE the filter has read -/
def IsEntry (recs : List Rec) (x : Off) : Prop := ∃ r, r ∈ recs ∧ r.off = x
/-- `x` must be kept whatever else is: the user asked for it, or the root DIE of a unit (which is
always converted) references it (`roots` = `rootReqs units rootAttrs`, fix f623d29) -/
def Required (recs : List Rec) (roots : List Off) (x : Off) : Prop :=
  (∃ r, r ∈ recs ∧ r.off = x ∧ r.e.required = true) ∨ x ∈ roots
/-- the property's relations: `x` keeps `y` if `y` is referenced by `x` (attribute, any expression
operation incl. nested ones, any location-list entry), is the parent of `x`, or is a member-like child
of the non-namespace entry `x` -/
def Dep (recs : List Rec) (x y : Off) : Prop := DepOwn recs x y ∨ DepChild recs x y

/-- the Spec closure over the abstract relations -/
def Closure (recs : List Rec) (roots : List Off) : Off → Prop :=
  Reach (IsEntry recs) (Dep recs) (Required recs roots)

/-- the graph stored in `FilterDependencies` denotes exactly the abstract relations -/
theorem reachable_iff_closure (m : Mode) (units : List (UnitHdr × List Entry)) (ras : List (List AttrRef))
    (d : Deps) (hb : buildDeps m units ras = .ok d) (hd : Distinct units) (x : Off) :
    d.Reachable x ↔ Closure (records units) (rootReqs units ras) x := by
  obtain ⟨d0, hb0, he, hq⟩ := buildDeps_roots m units ras d hb
  have G := buildDeps_graph m units d0 hb0 hd
  have hreq : ∀ y, y ∈ d.required ↔ Required (records units) (rootReqs units ras) y := by
    intro y; rw [hq y, G.req y]; rfl
  simp only [Deps.Reachable, he]
  constructor
  · intro h
    induction h with
    | req hr hv => exact .req ((hreq _).1 hr) ((G.keys _).1 hv)
    | step _ he hv ih =>
      obtain ⟨l, hl, hy⟩ := he
      exact .step ih ((G.edges _ l hl _).1 hy) ((G.keys _).1 hv)
  · intro h
    induction h with
    | req hr hv => exact .req ((hreq _).2 hr) ((G.keys _).2 hv)
    | step hx he hv ih =>
      have hvx : d0.edges.Valid _ := ih.valid'
      obtain ⟨l, hl⟩ := (EdgeMap.contains_iff _ _).1 hvx
      exact .step ih ⟨l, hl, (G.edges _ l hl _).2 he⟩ ((G.keys _).2 hv)

/-- **`closure_exact`** — the offsets reserved by the filter are exactly the least set that
contains the required entries and the DIEs referenced by a unit root DIE, and is closed under "parent of", "referenced by" and "member-like child of a non-namespace entry": nothing is missing and nothing that
is not connected to a required entry by such a chain is kept. For ALL forests, reference graphs
and required sets. -/
theorem closure_exact (m : Mode) (units : List (UnitHdr × List Entry)) (ras : List (List AttrRef))
    (d : Deps) (out : List Off)
    (hb : buildDeps m units ras = .ok d) (hr : getReachable d = .ok out) (hd : Distinct units) (x : Off) :
    x ∈ out ↔ Closure (records units) (rootReqs units ras) x := by
  rw [← reachable_iff_closure m units ras d hb hd]
  exact ⟨reachable_sound d out hr x, reachable_complete d out hr x⟩

/-- **`closure_props`** — the clauses of the property, for every record `r` of the section:
1. a required entry is kept;
2. the parent of a kept entry is kept (hence all its ancestors);
3. every reference of a kept entry (attribute, expression operation — `DW_OP_implicit_pointer`,
   `DW_OP_GNU_variable_value` and operations nested in `DW_OP_entry_value` included —, every raw
   location-list entry) whose target is a DIE is kept;
4. every member-like child (`has_die_back_edge`) of a kept entry whose tag is not
   `DW_TAG_namespace` is kept;
5. everything kept is in the closure of the required entries and root references (nothing
   unconnected);
6. every DIE referenced by a unit root DIE (which is always converted) is kept (fix f623d29). -/
theorem closure_props (m : Mode) (units : List (UnitHdr × List Entry)) (ras : List (List AttrRef))
    (d : Deps) (out : List Off)
    (hb : buildDeps m units ras = .ok d) (hr : getReachable d = .ok out) (hd : Distinct units) :
    (∀ r, r ∈ records units → r.e.required = true → r.off ∈ out) ∧
    (∀ r, r ∈ records units → r.off ∈ out → ∀ po, r.parentOff = some po → po ∈ out) ∧
    (∀ r, r ∈ records units → r.off ∈ out → ∀ t, t ∈ r.refDeps → IsEntry (records units) t → t ∈ out) ∧
    (∀ r c, r ∈ records units → c ∈ records units → r.off ∈ out →
        c.parentOff = some r.off → c.backEdge = true → c.off ∈ out) ∧
    (∀ x, x ∈ out → Closure (records units) (rootReqs units ras) x) ∧
    (∀ t, t ∈ rootReqs units ras → IsEntry (records units) t → t ∈ out) := by
  have E := closure_exact m units ras d out hb hr hd
  refine ⟨?_, ?_, ?_, ?_, fun x hx => (E x).1 hx, fun t ht hv => (E _).2 (.req (Or.inr ht) hv)⟩
  · intro r hr' hq
    exact (E _).2 (.req (Or.inl ⟨r, hr', rfl, hq⟩) ⟨r, hr', rfl⟩)
  · intro r hr' hk po hp
    have hpar : ∃ p, r.parent = some p ∧ po = r.unit.base + p.off := by
      simp only [Rec.parentOff] at hp
      cases hpp : r.parent with
      | none => rw [hpp] at hp; cases hp
      | some p => rw [hpp] at hp; simp only [Option.some.injEq] at hp; exact ⟨p, rfl, hp.symm⟩
    obtain ⟨p, hpp, hpo⟩ := hpar
    obtain ⟨r', hr'', ho, _⟩ := records_parent units r hr' p hpp
    refine (E _).2 (.step ((E _).1 hk) (Or.inl ⟨r, hr', rfl, ?_⟩) ⟨r', hr'', by rw [ho, hpo]⟩)
    simp only [Rec.ownDeps, hpp, hpo]
    exact List.mem_append_right _ (List.mem_singleton.2 rfl)
  · intro r hr' hk t ht hv
    refine (E _).2 (.step ((E _).1 hk) (Or.inl ⟨r, hr', rfl, ?_⟩) hv)
    simp only [Rec.ownDeps]
    cases r.parent with
    | none => exact ht
    | some p => exact List.mem_append_left _ ht
  · intro r c _ hc hk hp hbk
    exact (E _).2 (.step ((E _).1 hk) (Or.inr ⟨c, hc, rfl, hbk, hp⟩) ⟨c, hc, rfl⟩)

/-! ## no dangling reference -/

/-- `entry_ids` of the unfiltered conversion: every root and every DIE -/
def allIds (units : List (UnitHdr × List Entry)) : List Off :=
  units.map (·.1.rootOff) ++ (records units).map Rec.off

/-- `entry_ids` of the filtered conversion: every root and the reserved offsets -/
def keptIds (units : List (UnitHdr × List Entry)) (out : List Off) : List Off :=
  units.map (·.1.rootOff) ++ out

/-- **`no_dangling`** — for EVERY DIE of the output, the unit roots included: an attribute that the
unfiltered conversion can convert (all its references resolve in the full `entry_ids`) is converted
by the filtered conversion too. Every reference to a DIE — from the attribute itself, from any
operation of its expression (`DW_OP_implicit_pointer`, `DW_OP_GNU_variable_value` and operations
nested in `DW_OP_entry_value`s included: up to `MAX_ENTRY_VALUE_DEPTH` = 64 levels they are
recorded, and a deeper one makes the unfiltered conversion fail with `UnsupportedOperation`, so the
hypothesis excludes it) or from any entry of its location list (entries the cooked iterator skips
included) — targets a kept DIE, so `convert_unit_ref` / `convert_debug_info_ref` never fail for a
missing entry and `write()` never meets a reserved but unwritten id.
First part: the attributes of a kept entry. Second part: the attributes of the root DIE of the
`i`-th unit (always converted; its references are required since fix f623d29). FULL STRENGTH: no
hypothesis on the kind of reference (former findings C19-1, C19-2, C19-3 are repaired:
`implicit_pointer_regression`, `skipped_loc_regression`, `root_ref_regression`). -/
theorem no_dangling (m : Mode) (units : List (UnitHdr × List Entry)) (ras : List (List AttrRef))
    (d : Deps) (out : List Off)
    (hb : buildDeps m units ras = .ok d) (hr : getReachable d = .ok out) (hd : Distinct units) :
    (∀ (r : Rec), r ∈ records units → r.off ∈ out → ∀ a, a ∈ r.e.attrs →
      convAttr (allIds units) r.unit a = none → convAttr (keptIds units out) r.unit a = none) ∧
    (∀ (i : Nat) (ue : UnitHdr × List Entry) (ra : List AttrRef), units[i]? = some ue → ras[i]? = some ra →
      ∀ a, a ∈ ra →
      convAttr (allIds units) ue.1 a = none → convAttr (keptIds units out) ue.1 a = none) := by
  obtain ⟨_, _, C3, _, _, C6⟩ := closure_props m units ras d out hb hr hd
  -- a recorded target that resolves in the full table resolves in the kept table
  have keep : ∀ t, (IsEntry (records units) t → t ∈ out) → t ∈ allIds units → t ∈ keptIds units out := by
    intro t hk hall
    simp only [allIds, keptIds, List.mem_append] at hall ⊢
    rcases hall with h1 | h1
    · exact Or.inl h1
    · right
      simp only [List.mem_map] at h1
      obtain ⟨r', hr', ho⟩ := h1
      exact hk ⟨r', hr', ho⟩
  constructor
  · intro r hrec hk a ha hfull
    exact convAttr_keep _ _ r.unit a
      (fun t ht => keep t (C3 r hrec hk t (List.mem_flatMap.2 ⟨a, ha, ht⟩))) hfull
  · intro i ue ra hu hra a ha hfull
    exact convAttr_keep _ _ ue.1 a
      (fun t ht => keep t (C6 t (mem_rootReqs units ras i ue ra hu hra a ha t ht))) hfull

/-- **`conversion_monotone`** — reference resolution is monotone in `entry_ids`: an attribute that
the filtered conversion (fewer ids) converts is converted by the unfiltered one as well, so
filtering can only turn a convertible attribute into a `ConvertError`, never the reverse; together
with `no_dangling` the two conversions agree on every attribute of every output DIE. -/
theorem conversion_monotone (ids ids' : List Off) (hsub : ∀ x, x ∈ ids → x ∈ ids') (u : UnitHdr)
    (a : AttrRef) (h : convAttr ids u a = none) : convAttr ids' u a = none := by
  have hu : ∀ val, convUnitRef ids u val = none → convUnitRef ids' u val = none := by
    intro val h; rw [convUnitRef_none] at h ⊢; exact ⟨h.1, hsub _ h.2⟩
  have hi : ∀ val, convInfoRef ids val = none → convInfoRef ids' val = none := by
    intro val h; rw [convInfoRef_none] at h ⊢; exact hsub _ h
  have hop : ∀ o, convOp ids u o = none → convOp ids' u o = none := by
    intro o h
    cases o with
    | unitRef v => exact hu v h
    | infoRef v => exact hi v h
    | implicitRef v => exact hi v h
    | nestedUnitRef k v =>
      simp only [convOp] at h ⊢
      by_cases hk : scansDepth k = true
      · simp only [hk, if_true] at h ⊢; exact hu v h
      · simp [hk] at h
    | nestedInfoRef k v =>
      simp only [convOp] at h ⊢
      by_cases hk : scansDepth k = true
      · simp only [hk, if_true] at h ⊢; exact hi v h
      · simp [hk] at h
    | nestedPlain k => exact h
  have hops : ∀ ops : List OpRef, firstErr (ops.map (convOp ids u)) = none →
      firstErr (ops.map (convOp ids' u)) = none := by
    intro ops h
    rw [firstErr_none] at h ⊢
    intro x hx
    obtain ⟨o, ho, hx⟩ := List.mem_map.1 hx
    subst hx
    exact hop o (h _ (List.mem_map.2 ⟨o, ho, rfl⟩))
  cases a with
  | unitRef v => exact hu v h
  | infoRef v => exact hi v h
  | expr ops => exact hops ops h
  | loclist locs =>
    simp only [convAttr] at h ⊢
    rw [firstErr_none] at h ⊢
    intro x hx
    obtain ⟨l, hl, hx⟩ := List.mem_map.1 hx
    subst hx
    exact hops l.2 (h _ (List.mem_map.2 ⟨l, hl, rfl⟩))

/-! ## skipping unreserved entries keeps the parent links -/

/-- **`convert_parent_links`** — `ConvertUnit::read_entry` (its own depth stack, on which only
reserved entries are pushed) gives every reserved entry exactly the parent that the `FilterUnit`
stack found for it (the unit root if it has none), and outputs exactly the reserved entries in
read order — provided the reserved set is closed under "parent of" (clause 2 of `closure_props`)
and the entries lie below the root (`depth > 0`). For ALL entry sequences and reserved sets. -/
theorem convert_parent_links (ids : List Off) (u : UnitHdr) (es : List Entry)
    (res : List (Off × Option Off))
    (hdepth : ∀ e, e ∈ es → 0 < e.depth)
    (hclosed : ∀ ep, ep ∈ withParents [] es → ids.contains (u.base + ep.1.off) = true →
        ∀ p, ep.2 = some p → ids.contains (u.base + p.off) = true)
    (h : convertEntries ids u [(0, u.rootOff)] es [] = .ok res) :
    res = filterLinks ids u [] es := by
  have h1 := convertEntries_links ids u es _ [] res h
  have h2 := convertLinks_eq ids u es [] List.Pairwise.nil hdepth hclosed
  simp only [convStack, List.filter_nil, List.map_nil, List.nil_append] at h2
  rw [h1, h2]; rfl

/-! ## reservation by unit -/

/-- **`partition_by_unit`** — `new_with_filter` splits the sorted reachable list into per-unit
slices exactly: if the units are listed in ascending, non-overlapping order and every offset lies
in some unit, then the slice reserved for a unit is precisely the offsets inside that unit,
nothing is left over (`debug_assert_eq!(end, offsets.len())` holds, in debug and release), and an
offset is reserved in unit `u` iff `u` contains it. -/
theorem partition_by_unit (m : Mode) (units : List UnitHdr) (offs : List Off)
    (hsorted : offs.Pairwise (· ≤ ·))
    (hunits : units.Pairwise (fun u v => u.endOff ≤ v.base))
    (hcover : ∀ o, o ∈ offs → ∃ u, u ∈ units ∧ u.containsOff o = true) :
    partition units offs = (units.map (fun u => offs.filter u.containsOff), []) ∧
    reserve m units offs = .ok (units.map (fun u => offs.filter u.containsOff)) ∧
    (∀ (o : Off) (u : UnitHdr), o ∈ offs.filter u.containsOff ↔ o ∈ offs ∧ u.containsOff o = true) := by
  have h := partition_sorted units offs hsorted hunits hcover
  refine ⟨h, ?_, fun o u => List.mem_filter⟩
  simp [reserve, h]

/-! ## the whole pipeline never panics -/

/-- **`pipeline_total`** — on every well-formed section, for every required set and in both build
modes, the filter pass returns a graph (`add_edge`'s `unwrap` and `add_entry`'s `debug_assert!`
never fire), `get_reachable` returns exactly the closure, `new_with_filter` reserves exactly the
closure offsets of each unit with nothing left over (`debug_assert_eq!(end, offsets.len())` holds),
and the outcome of the Model's `run` is the conversion of exactly those entries: `converted` or a
`ConvertError` from `convert_unit_ref`/`convert_debug_info_ref`, never a panic or fuel exhaustion.
`ras` are the reference attributes of the unit root DIEs. -/
theorem pipeline_total (m : Mode) (units : List (UnitHdr × List Entry)) (ras : List (List AttrRef))
    (wf : WellFormed units) :
    ∃ d out, buildDeps m units ras = .ok d ∧ getReachable d = .ok out ∧
      (∀ x, x ∈ out ↔ Closure (records units) (rootReqs units ras) x) ∧
      reserve m (units.map (·.1)) out = .ok ((units.map (·.1)).map (fun u => out.filter u.containsOff)) ∧
      run m units ras =
        (match convertUnits (units.map (·.1.rootOff) ++
            ((units.map (·.1)).map (fun u => out.filter u.containsOff)).flatten) units ras with
         | .ok us => .converted ((units.map (·.1)).map (fun u => out.filter u.containsOff)) us
         | .error e => .convErr e) := by
  obtain ⟨d, hb⟩ := buildDeps_total_roots m units ras wf.distinct
  obtain ⟨⟨out, hr⟩, _⟩ := worklist_terminates d
  have hE := closure_exact m units ras d out hb hr wf.distinct
  have hcover : ∀ o, o ∈ out → ∃ u, u ∈ units.map (·.1) ∧ u.containsOff o = true := by
    intro o ho
    obtain ⟨r, hrec, hoff⟩ := ((hE o).1 ho).valid'
    obtain ⟨ue, hue, hu, he⟩ := records_mem units r hrec
    refine ⟨ue.1, List.mem_map_of_mem hue, ?_⟩
    rw [← hoff, Rec.off, hu]
    exact containsOff_entry ue.1 r.e.off (wf.inside ue hue r.e he)
  obtain ⟨_, hres, _⟩ := partition_by_unit m (units.map (·.1)) out
    (reachable_nodup_sorted d out hr).2.1 wf.ascending hcover
  refine ⟨d, out, hb, hr, hE, hres, ?_⟩
  simp only [run, hb, hr, hres]
  cases convertUnits _ units ras <;> rfl

/-- **`run_correct`** — the whole Model pipeline (`run`: filter pass, `get_reachable`, reservation
by unit, conversion with skipping) on a well-formed section whose entries lie below the root and
never share an offset with a unit root: the outcome is never a panic or fuel exhaustion; it is
either a `ConvertError` raised by reference resolution, or `converted parts us` where
`parts` are exactly the closure offsets of each unit (the least set containing the required entries
and the DIEs referenced by unit roots, closed under parent / reference / member-like child of a non-namespace entry, sorted) and `us`
lists, per unit, exactly those entries in read order, each with the parent it has in the input
(the unit root for top-level entries). For ALL forests, reference graphs, required sets, modes. -/
theorem run_correct (m : Mode) (units : List (UnitHdr × List Entry)) (ras : List (List AttrRef))
    (wf : WellFormed units)
    (hdepth : ∀ ue, ue ∈ units → ∀ e, e ∈ ue.2 → 0 < e.depth)
    (hroot : ∀ r, r ∈ records units → ∀ ue, ue ∈ units → r.off ≠ ue.1.rootOff) :
    ∃ out : List Off, (∀ x, x ∈ out ↔ Closure (records units) (rootReqs units ras) x) ∧
      out.Pairwise (· < ·) ∧
      ((∃ e, run m units ras = .convErr e) ∨
       run m units ras =
        .converted ((units.map (·.1)).map (fun u => out.filter u.containsOff))
          (units.map (fun ue => filterLinks
            (units.map (·.1.rootOff) ++ ((units.map (·.1)).map (fun u => out.filter u.containsOff)).flatten)
            ue.1 [] ue.2))) := by
  obtain ⟨d, out, hb, hr, hE, _, hrun⟩ := pipeline_total m units ras wf
  refine ⟨out, hE, (reachable_nodup_sorted d out hr).2.2, ?_⟩
  rw [hrun]
  generalize hids : (units.map (·.1.rootOff) ++
    ((units.map (·.1)).map (fun u => out.filter u.containsOff)).flatten) = ids
  cases hc : convertUnits ids units ras with
  | error e => exact Or.inl ⟨e, rfl⟩
  | ok us =>
    right
    simp only
    congr 1
    apply convertUnits_links ids units ras us _ hc
    -- membership in the id table, for offsets of entries
    have hcover : ∀ o, o ∈ out → ∃ u, u ∈ units.map (·.1) ∧ u.containsOff o = true := by
      intro o ho
      obtain ⟨r, hrec, hoff⟩ := ((hE o).1 ho).valid'
      obtain ⟨ue, hue, hu, he⟩ := records_mem units r hrec
      refine ⟨ue.1, List.mem_map_of_mem hue, ?_⟩
      rw [← hoff, Rec.off, hu]
      exact containsOff_entry ue.1 r.e.off (wf.inside ue hue r.e he)
    have hflat : ∀ x, x ∈ ((units.map (·.1)).map (fun u => out.filter u.containsOff)).flatten ↔ x ∈ out := by
      intro x
      rw [List.mem_flatten]
      constructor
      · rintro ⟨l, hl, hx⟩
        obtain ⟨u, _, hl⟩ := List.mem_map.1 hl
        subst hl
        exact (List.mem_filter.1 hx).1
      · intro hx
        obtain ⟨u, hu, hc⟩ := hcover x hx
        exact ⟨_, List.mem_map.2 ⟨u, hu, rfl⟩, List.mem_filter.2 ⟨hx, hc⟩⟩
    obtain ⟨_, C2, _, _, _, _⟩ := closure_props m units ras d out hb hr wf.distinct
    intro ue hue
    refine ⟨hdepth ue hue, ?_⟩
    intro ep hep hin p hp
    -- the record of this entry
    have hrec : (⟨ue.1, ep.1, ep.2⟩ : Rec) ∈ records units := by
      simp only [records, List.mem_flatMap]
      exact ⟨ue, hue, by simp only [unitRecs, List.mem_map]; exact ⟨ep, hep, rfl⟩⟩
    have hkept : ue.1.base + ep.1.off ∈ out := by
      rw [← hids] at hin
      simp only [List.contains_iff_mem, List.mem_append, List.mem_map] at hin
      rcases hin with ⟨ve, hve, hroot'⟩ | hin
      · exact (hroot _ hrec ve hve hroot'.symm).elim
      · exact (hflat _).1 hin
    have hpar : ue.1.base + p.off ∈ out :=
      C2 ⟨ue.1, ep.1, ep.2⟩ hrec hkept (ue.1.base + p.off) (by simp only [Rec.parentOff, hp])
    rw [← hids]
    simp only [List.contains_iff_mem, List.mem_append]
    exact Or.inr ((hflat _).2 hpar)

/-! ## split DWARF: the first unit of the split section is the one converted -/

/-- **`split_converts_first_unit`** — split DWARF with ANY number of units in the split section: the
filter walks them all, so reachability ranges over the whole section, and the filtered split
conversion (`new_split` + `convert_split_with_filter`) converts the FIRST unit: when it succeeds
its output is exactly the reachable entries of the first unit, in read order, each with its input
parent — which is the output of the unfiltered `convert_split` (all entries of the first unit)
restricted to the reachable offsets — whatever other units follow. -/
theorem split_converts_first_unit (m : Mode) (ue : UnitHdr × List Entry) (rest : List (UnitHdr × List Entry))
    (ras : List (List AttrRef)) (parts : List (List Off)) (us : List (List (Off × Option Off)))
    (h : runSplit m (ue :: rest) ras = .converted parts us)
    (hd : Distinct (ue :: rest))
    (hdepth : ∀ e, e ∈ ue.2 → 0 < e.depth)
    (hroot : ∀ e, e ∈ ue.2 → ue.1.base + e.off ≠ ue.1.rootOff)
    (hinside : ∀ e, e ∈ ue.2 → ue.1.inBounds e.off = true) :
    ∃ out : List Off, parts = [out.filter ue.1.containsOff] ∧
      (∀ x, x ∈ out ↔ Closure (records (ue :: rest)) (rootReqs (ue :: rest) ras) x) ∧
      us = [filterLinks (ue.1.rootOff :: out.filter ue.1.containsOff) ue.1 [] ue.2] ∧
      (∀ offs usAll, runSplitUnfiltered (ue :: rest) ras = .converted offs usAll →
        us = usAll.map (fun l => l.filter (fun p => out.contains p.1))) := by
  simp only [runSplit] at h
  cases hb : buildDeps m (ue :: rest) ras with
  | ok d =>
    rw [hb] at h
    simp only at h
    cases hr : getReachable d with
    | ok out =>
      rw [hr] at h
      simp only at h
      cases hc : convertUnits (ue.1.rootOff :: out.filter ue.1.containsOff) [ue] ras with
      | error e => rw [hc] at h; cases h
      | ok us' =>
        rw [hc] at h
        simp only at h
        split at h
        · simp only [Outcome.converted.injEq] at h
          obtain ⟨hp, hus⟩ := h
          subst hus
          have hE := closure_exact m (ue :: rest) ras d out hb hr hd
          obtain ⟨_, C2, _, _, _, _⟩ := closure_props m (ue :: rest) ras d out hb hr hd
          -- membership in the id table for offsets of first-unit entries
          have hids : ∀ e, e ∈ ue.2 →
              ((ue.1.rootOff :: out.filter ue.1.containsOff).contains (ue.1.base + e.off) =
                out.contains (ue.1.base + e.off)) := by
            intro e he
            have h1 := hroot e he
            have h2 := containsOff_entry ue.1 e.off (hinside e he)
            simp [h1, h2]
          have hwp : ∀ ep, ep ∈ withParents [] ue.2 → ep.1 ∈ ue.2 := by
            intro ep hep
            have := withParents_fst ue.2 []
            rw [← this]; exact List.mem_map_of_mem hep
          have hlinks : us' = [filterLinks (ue.1.rootOff :: out.filter ue.1.containsOff) ue.1 [] ue.2] := by
            have := convertUnits_links (ue.1.rootOff :: out.filter ue.1.containsOff) [ue] ras us' ?_ hc
            · simpa using this
            · intro ue' hue'
              simp only [List.mem_singleton] at hue'
              subst hue'
              refine ⟨hdepth, ?_⟩
              intro ep hep hin p hp'
              have hrec : (⟨ue'.1, ep.1, ep.2⟩ : Rec) ∈ records (ue' :: rest) := by
                simp only [records, List.flatMap_cons, List.mem_append]
                left
                simp only [unitRecs, List.mem_map]; exact ⟨ep, hep, rfl⟩
              rw [hids ep.1 (hwp ep hep)] at hin
              have hkept : ue'.1.base + ep.1.off ∈ out := by simpa using hin
              have hpar : ue'.1.base + p.off ∈ out :=
                C2 ⟨ue'.1, ep.1, ep.2⟩ hrec hkept (ue'.1.base + p.off) (by simp only [Rec.parentOff, hp'])
              obtain h1 | ⟨e', he', ho, _⟩ := withParents_parent ue'.2 [] ep.1 p (by
                have : ep = (ep.1, some p) := by rw [← hp']
                rw [← this]; exact hep)
              · cases h1
              · rw [ho] at hpar ⊢
                rw [hids e' he']
                simpa using hpar
          refine ⟨out, hp.symm, hE, hlinks, ?_⟩
          intro offs usAll hu
          simp only [runSplitUnfiltered] at hu
          cases hca : convertUnits (ue.1.rootOff :: ue.2.map (fun e => ue.1.base + e.off)) [ue] ras with
          | error e => rw [hca] at hu; cases hu
          | ok ua =>
            rw [hca] at hu
            simp only [Outcome.converted.injEq] at hu
            obtain ⟨_, hua⟩ := hu
            subst hua
            have hall : ∀ e, e ∈ ue.2 →
                (ue.1.rootOff :: ue.2.map (fun e => ue.1.base + e.off)).contains (ue.1.base + e.off) = true := by
              intro e he
              simp only [List.contains_cons, Bool.or_eq_true]
              right; simpa using List.mem_map_of_mem (f := fun e => ue.1.base + e.off) he
            have hlinksA : ua = [filterLinks (ue.1.rootOff :: ue.2.map (fun e => ue.1.base + e.off)) ue.1 [] ue.2] := by
              have := convertUnits_links _ [ue] ras ua ?_ hca
              · simpa using this
              · intro ue' hue'
                simp only [List.mem_singleton] at hue'
                subst hue'
                refine ⟨hdepth, ?_⟩
                intro ep hep _ p hp'
                obtain h1 | ⟨e', he', ho, _⟩ := withParents_parent ue'.2 [] ep.1 p (by
                  have : ep = (ep.1, some p) := by rw [← hp']
                  rw [← this]; exact hep)
                · cases h1
                · rw [ho]; exact hall e' he'
            rw [hlinks, hlinksA]
            simp only [List.map_cons, List.map_nil, List.cons.injEq, and_true, filterLinks]
            rw [List.filter_map]
            congr 1
            rw [List.filter_filter]
            apply List.filter_congr
            intro ep hep
            simp only [Function.comp]
            rw [hids ep.1 (hwp ep hep), hall ep.1 (hwp ep hep)]
            simp
        · cases h
    | err e => rw [hr] at h; cases h
    | panic w => rw [hr] at h; cases h
    | diverge => rw [hr] at h; cases h
  | err e => rw [hb] at h; cases h
  | panic w => rw [hb] at h; cases h
  | diverge => rw [hb] at h; cases h

/-- **`split_write_never_fails`** — "writing never fails for a missing reference", split path: on a
well-formed split section (any number of units, any required set, any root attributes, both
modes) the filtered split conversion never ends in `writeErr`: since fix aa527e6 only offsets
inside the converted unit are reserved, every reserved offset is a DIE of that unit and is added,
so every reference that the conversion resolved is resolved by `write` too (former finding C19-4;
`split_foreign_ref_regression`). -/
theorem split_write_never_fails (m : Mode) (ue : UnitHdr × List Entry) (rest : List (UnitHdr × List Entry))
    (ras : List (List AttrRef)) (wf : WellFormed (ue :: rest)) :
    runSplit m (ue :: rest) ras ≠ .writeErr := by
  simp only [runSplit]
  cases hb : buildDeps m (ue :: rest) ras with
  | ok d =>
    simp only
    cases hr : getReachable d with
    | ok out =>
      simp only
      cases hc : convertUnits (ue.1.rootOff :: out.filter ue.1.containsOff) [ue] ras with
      | error e => simp
      | ok us =>
        simp only
        have hE := closure_exact m (ue :: rest) ras d out hb hr wf.distinct
        -- unfold the successful conversion of the one unit
        rw [convertUnits] at hc
        cases hra : firstErr ((ras.headD []).map (convAttr (ue.1.rootOff :: out.filter ue.1.containsOff) ue.1)) with
        | some e => rw [hra] at hc; cases hc
        | none =>
          rw [hra] at hc
          simp only at hc
          cases hce : convertEntries (ue.1.rootOff :: out.filter ue.1.containsOff) ue.1
              (if ue.2.isEmpty then [] else [(0, ue.1.rootOff)]) ue.2 [] with
          | error e => rw [hce] at hc; cases hc
          | ok r =>
            rw [hce] at hc
            simp only [convertUnits, Except.ok.injEq] at hc
            subst hc
            obtain ⟨_, hres⟩ := convertEntries_ok _ _ _ _ _ _ hce
            -- everything in the id table is written
            have hwritten : ∀ t, t ∈ ue.1.rootOff :: out.filter ue.1.containsOff →
                (ue.1.rootOff :: r.map (·.1)).contains t = true := by
              intro t ht
              simp only [List.contains_cons, Bool.or_eq_true, beq_iff_eq]
              rcases List.mem_cons.1 ht with h1 | h1
              · exact Or.inl h1
              · right
                obtain ⟨hto, htc⟩ := List.mem_filter.1 h1
                obtain ⟨rc, hrec, hoff⟩ := ((hE t).1 hto).valid'
                obtain ⟨ve, hve, hu, he⟩ := records_mem (ue :: rest) rc hrec
                have hin := wf.inside ve hve rc.e he
                rcases List.mem_cons.1 hve with h2 | h2
                · subst h2
                  have ht' : ve.1.base + rc.e.off = t := by rw [← hoff, Rec.off, hu]
                  have := (hres rc.e he (by rw [ht']; simpa using ht)).1
                  rw [ht'] at this
                  simpa using this
                · -- a DIE of a later unit lies beyond the first unit
                  have hasc := wf.ascending
                  simp only [List.map_cons, List.pairwise_cons] at hasc
                  have h3 := hasc.1 ve.1 (List.mem_map_of_mem h2)
                  have h4 := ((UnitHdr.containsOff_iff ue.1 t).1 htc).2
                  have h5 : ve.1.base ≤ t := by
                    rw [← hoff, Rec.off, hu]; exact Nat.le_add_right _ _
                  exact absurd (Nat.lt_of_lt_of_le h4 (Nat.le_trans h3 h5)) (Nat.lt_irrefl _)
            have hattr : ∀ a, convAttr (ue.1.rootOff :: out.filter ue.1.containsOff) ue.1 a = none →
                ∀ t, t ∈ attrTargets ue.1 a → (ue.1.rootOff :: r.map (·.1)).contains t = true :=
              fun a ha t ht => hwritten t (convAttr_targets _ _ a ha t (attrTargets_subset _ a t ht))
            have hok : splitWriteOk (ue.1.rootOff :: out.filter ue.1.containsOff) ue.1 ue.2 (ras.headD [])
                ([r].headD []) = true := by
              simp only [splitWriteOk, List.headD_cons, Bool.and_eq_true, List.all_eq_true]
              constructor
              · intro t ht
                obtain ⟨a, ha, hta⟩ := List.mem_flatMap.1 ht
                exact hattr a ((firstErr_none.1 hra) _ (List.mem_map.2 ⟨a, ha, rfl⟩)) t hta
              · intro e he
                by_cases hrs : (ue.1.rootOff :: out.filter ue.1.containsOff).contains (ue.1.base + e.off) = true
                · simp only [hrs, Bool.not_true, Bool.false_or, List.all_eq_true]
                  intro t ht
                  obtain ⟨a, ha, hta⟩ := List.mem_flatMap.1 ht
                  exact hattr a ((firstErr_none.1 (hres e he hrs).2) _ (List.mem_map.2 ⟨a, ha, rfl⟩)) t hta
                · have : (ue.1.rootOff :: out.filter ue.1.containsOff).contains (ue.1.base + e.off) = false := by
                    simpa using hrs
                  rw [this]; simp
            have hok' : splitWriteOk (ue.1.rootOff :: out.filter ue.1.containsOff) ue.1 ue.2 (ras.head?.getD []) r = true := by
              simpa using hok
            simp [hok']
    | err e => simp
    | panic w => simp
    | diverge => simp
  | err e => simp
  | panic w => simp
  | diverge => simp

/-! ## the tag tables regenerated from the Rust source -/

/-- the extractor understood `has_die_back_edge` and the `read_entry` condition -/
theorem table_fresh : Tables.FilterTags.stale = [] := by decide

/-- **`entry_value_depth_pinned`** — `MAX_ENTRY_VALUE_DEPTH` as extracted from `src/write/op.rs` is 64,
and the extractor found both uses of it (`table_fresh`): the filter scans an operation nested in
`k` `DW_OP_entry_value`s iff `k ≤ 64`, which is exactly when `Expression::from` does not reject
the expression for its nesting — the two bounds coincide, so a reference is either recorded or
sits in an expression that cannot be converted (filtered or not). -/
theorem entry_value_depth_pinned :
    Tables.FilterTags.maxEntryValueDepth = 64 ∧
    (∀ k, scansDepth k = true ↔ k ≤ 64) ∧
    (∀ ids u k v, scansDepth k = false →
      convOp ids u (.nestedUnitRef k v) = some .unsupportedOperation ∧
      convOp ids u (.nestedInfoRef k v) = some .unsupportedOperation ∧
      convOp ids u (.nestedPlain k) = some .unsupportedOperation ∧
      opDeps u (.nestedUnitRef k v) = [] ∧ opDeps u (.nestedInfoRef k v) = []) := by
  refine ⟨by decide, ?_, ?_⟩
  · intro k
    simp only [scansDepth, decide_eq_true_eq]
    have : Tables.FilterTags.maxEntryValueDepth = 64 := by decide
    rw [this]
  · intro ids u k v hk
    simp [convOp, opDeps, hk]

/-- the "standalone" tags (types, namespaces, modules, imports, …: not kept alive by their parent),
written by hand from the intent documented in the source -/
def standaloneTags : List Nat :=
  [0x01, 0x47, 0x24, 0x02, 0x26, 0x36, 0x03, 0x04, 0x0f, 0x1f, 0x10, 0x37, 0x42, 0x12, 0x13, 0x16,
   0x17, 0x3b, 0x35, 0x44, 0x1a, 0x46, 0x29, 0x4b, 0x38, 0x20, 0x40, 0x15, 0x2d, 0x43, 0x2b, 0x39,
   0x3d, 0x08, 0x3a, 0x1e]

/-- **`backedge_table_pinned`** — the tables extracted from the Rust source are exactly: the 36
standalone tags give no back edge, `DW_TAG_subprogram` gives one iff it is a declaration, every
other tag gives one; the only parent tag that never keeps a child alive is `DW_TAG_namespace`.
A change of the lists in `src/write/unit.rs` makes this theorem fail on the next run. -/
theorem backedge_table_pinned :
    Tables.FilterTags.noBackEdge.map (·.2) = standaloneTags ∧
    Tables.FilterTags.declBackEdge.map (·.2) = [0x2e] ∧
    Tables.FilterTags.defaultBackEdge = true ∧
    Tables.FilterTags.noChildEdgeParent.map (·.2) = [0x39] := by decide

/-- **`member_like_have_back_edge`** — the member-like tags the property names (parameters,
members, local variables, blocks and the like) have a back edge, whatever `DW_AT_declaration`
says: formal_parameter, member, variable, lexical_block, inlined_subroutine, enumerator,
unspecified_parameters, inheritance, template type/value parameter, label, subrange_type, variant,
variant_part, call_site, call_site_parameter, GNU_call_site(_parameter) — and so does every tag
that is not in the standalone list (unknown and vendor tags included). -/
theorem member_like_have_back_edge :
    (∀ t, t ∈ [0x05, 0x0d, 0x34, 0x0b, 0x1d, 0x28, 0x18, 0x1c, 0x2f, 0x30, 0x0a, 0x21, 0x19, 0x33,
        0x48, 0x49, 0x4109, 0x410a] → ∀ decl, hasBackEdge t decl = true) ∧
    (∀ t decl, t ∉ standaloneTags → t ≠ 0x2e → hasBackEdge t decl = true) := by
  constructor
  · decide
  · intro t decl h1 h2
    have hp := backedge_table_pinned
    simp only [hasBackEdge, tagIn]
    have e1 : (Tables.FilterTags.noBackEdge.any fun p => p.2 == t) = false := by
      rw [Bool.eq_false_iff]
      intro h
      rw [List.any_eq_true] at h
      obtain ⟨p, hp1, hp2⟩ := h
      apply h1
      rw [← hp.1]
      simp only [beq_iff_eq] at hp2
      exact List.mem_map.2 ⟨p, hp1, hp2⟩
    have e2 : (Tables.FilterTags.declBackEdge.any fun p => p.2 == t) = false := by
      rw [Bool.eq_false_iff]
      intro h
      rw [List.any_eq_true] at h
      obtain ⟨p, hp1, hp2⟩ := h
      apply h2
      simp only [beq_iff_eq] at hp2
      have : p.2 ∈ Tables.FilterTags.declBackEdge.map (·.2) := List.mem_map.2 ⟨p, hp1, rfl⟩
      rw [hp.2.1] at this
      simp only [List.mem_singleton] at this
      rw [← hp2, this]
    simp [e1, e2, hp.2.2.1]

/-- **`standalone_have_no_back_edge`** — types, namespaces, modules and imports are kept only when
something references them (or a descendant is kept); a `DW_TAG_subprogram` is kept by its parent
iff it is a declaration; a namespace keeps none of its children alive. -/
theorem standalone_have_no_back_edge :
    (∀ t, t ∈ standaloneTags → ∀ decl, hasBackEdge t decl = false) ∧
    (∀ decl, hasBackEdge 0x2e decl = decl) ∧
    parentAllowsChildEdge 0x39 = false ∧
    (∀ t, t ≠ 0x39 → parentAllowsChildEdge t = true) := by
  refine ⟨by decide, by decide, by decide, ?_⟩
  intro t ht
  simp only [parentAllowsChildEdge, tagIn, Bool.not_eq_true']
  rw [Bool.eq_false_iff]
  intro h
  rw [List.any_eq_true] at h
  obtain ⟨p, hp1, hp2⟩ := h
  simp only [beq_iff_eq] at hp2
  have : p.2 ∈ Tables.FilterTags.noChildEdgeParent.map (·.2) := List.mem_map.2 ⟨p, hp1, rfl⟩
  rw [backedge_table_pinned.2.2.2] at this
  simp only [List.mem_singleton] at this
  exact ht (hp2 ▸ this)

/-! ### the hypotheses are satisfiable / the statements are not vacuous -/

/-- a graph with a cycle, an edge to an offset that is not a DIE (99) and an unreachable entry -/
def exDeps : Deps :=
  { edges := [(10, [20, 99]), (20, [30, 10]), (30, [20]), (40, [10])], required := [20, 77] }

example : getReachable exDeps = .ok [10, 20, 30] := by decide
example : exDeps.Reachable 30 :=
  .step (x := 20) (.req (show 20 ∈ exDeps.required by decide) (show exDeps.edges.contains 20 = true by decide))
    ⟨[30, 10], by decide, by decide⟩ (show exDeps.edges.contains 30 = true by decide)

/-- unit 0 (header 11 bytes, root DIE 4 bytes): `15` namespace ⊃ `23` structure_type (required) ⊃
`31` member with a `DW_FORM_ref_addr` to `65`; `39` subprogram definition (not kept by anything);
unit 1: `65` base_type, `73` variable -/
def exUnit0 : List Entry :=
  [ ⟨15, 1, true, 0x39, false, [], false⟩,
    ⟨23, 2, true, 0x13, false, [], true⟩,
    ⟨31, 3, false, 0x0d, false, [.infoRef 65], false⟩,
    ⟨39, 1, false, 0x2e, false, [.unitRef 23], false⟩ ]

def exForest : List (UnitHdr × List Entry) :=
  [ (⟨0, 11, 36⟩, exUnit0),
    (⟨50, 11, 20⟩,
      [ ⟨15, 1, false, 0x24, false, [], false⟩,
        ⟨23, 1, false, 0x34, false, [], false⟩ ]) ]

example : Distinct exForest := by unfold Distinct; decide
example : run .debug exForest =
    .converted [[15, 23, 31], [65]] [[(15, some 11), (23, some 15), (31, some 23)], [(65, some 61)]] := by
  decide
example : (buildDeps .release exForest).isOk = true := by decide
/-- … and of `run_correct` -/
example : ∀ r, r ∈ records exForest → ∀ ue, ue ∈ exForest → r.off ≠ ue.1.rootOff := by decide
example : ∀ ue, ue ∈ exForest → ∀ e, e ∈ ue.2 → 0 < e.depth := by decide

example : WellFormed exForest := ⟨by unfold Distinct; decide, by decide, by decide⟩
/-- … and `partition_by_unit`'s hypotheses hold for the example's units and result -/
example : [(⟨0, 11, 36⟩ : UnitHdr), ⟨50, 11, 20⟩].Pairwise (fun u v => u.endOff ≤ v.base) := by decide

example : (convertEntries [11, 15, 23, 31, 65] ⟨0, 11, 36⟩ [(0, 11)] exUnit0 []).toOption =
    some (filterLinks [11, 15, 23, 31, 65] ⟨0, 11, 36⟩ [] exUnit0) := by decide

/-- former finding C19-1 (repaired by 6341b4d): a required subprogram (`15`) whose location
expression has a `DW_OP_implicit_pointer` to the root-level variable `23`, which nothing else keeps -/
def exImplicitPointer : List (UnitHdr × List Entry) :=
  [ (⟨0, 11, 20⟩,
      [ ⟨15, 1, false, 0x2e, false, [.expr [.implicitRef 23, .nestedUnitRef 64 23]], true⟩,
        ⟨23, 1, false, 0x34, false, [], false⟩ ]) ]

/-- **`implicit_pointer_regression`** — the repaired filter records the edge: `23` is reserved and
the filtered conversion succeeds (it used to end in `InvalidDebugInfoRef`) -/
theorem implicit_pointer_regression :
    run .debug exImplicitPointer = .converted [[15, 23]] [[(15, some 11), (23, some 11)]] := by decide

/-- former finding C19-2 (repaired by 34014b9): the same with a `DW_OP_call4` inside a location-list
entry whose range is empty (`begin = end`), which the cooked `LocListIter` skips (and the
conversion drops after converting its expression) -/
def exSkippedLoc : List (UnitHdr × List Entry) :=
  [ (⟨0, 11, 20⟩,
      [ ⟨15, 1, false, 0x2e, false, [.loclist [(false, [.unitRef 23])]], true⟩,
        ⟨23, 1, false, 0x34, false, [], false⟩ ]) ]

/-- **`skipped_loc_regression`** — the repaired filter walks the raw entries: `23` is reserved and
the filtered conversion succeeds (it used to end in `InvalidUnitRef`) -/
theorem skipped_loc_regression :
    run .debug exSkippedLoc = .converted [[15, 23]] [[(15, some 11), (23, some 11)]] := by decide

/-- fix 8679173: a reference nested in 64 `DW_OP_entry_value`s is recorded and converted (see
`exImplicitPointer`), one nested in 65 is not recorded and the conversion of the expression fails
for its nesting, filtered or not -/
def exDeepNesting : List (UnitHdr × List Entry) :=
  [ (⟨0, 11, 20⟩,
      [ ⟨15, 1, false, 0x2e, false, [.expr [.nestedUnitRef 65 23]], true⟩,
        ⟨23, 1, false, 0x34, false, [], false⟩ ]) ]

theorem entry_value_nesting_regression :
    run .debug exDeepNesting = .convErr .unsupportedOperation ∧
    (convertUnits (allIds exDeepNesting) exDeepNesting []).toBool = false := by decide

/-- former finding C19-3 (repaired by f623d29): the unit root DIE (always converted) references the
DIE `15`, which nothing else keeps -/
def exRootRef : List (UnitHdr × List Entry) :=
  [ (⟨0, 11, 20⟩,
      [ ⟨15, 1, false, 0x24, false, [], false⟩,
        ⟨23, 1, false, 0x34, false, [], true⟩ ]) ]

/-- **`root_ref_regression`** — `FilterUnit::new` now requires what the root references: `15` is
reserved and the filtered conversion succeeds (it used to end in `InvalidUnitRef` on the root);
without the root attribute `15` is still dropped -/
theorem root_ref_regression :
    run .debug exRootRef [[.unitRef 15]] = .converted [[15, 23]] [[(15, some 11), (23, some 11)]] ∧
    run .debug exRootRef [] = .converted [[23]] [[(23, some 11)]] := by decide

example : rootReqs exRootRef [[.unitRef 15, .infoRef 999]] = [15, 999] := by decide

/-- a split section of two units: the split compilation unit (`15` subprogram ⊃ `23` parameter,
`31` variable) and a second unit whose required DIE `65` references `31` -/
def exSplit : List (UnitHdr × List Entry) :=
  [ (⟨0, 11, 28⟩,
      [ ⟨15, 1, true, 0x2e, false, [], false⟩,
        ⟨23, 2, false, 0x05, false, [], false⟩,
        ⟨31, 1, false, 0x34, false, [], false⟩ ]),
    (⟨50, 11, 12⟩, [ ⟨15, 1, false, 0x13, false, [.infoRef 31], true⟩ ]) ]

/-- the filtered split conversion keeps `31` of the first unit (referenced from the second) and
nothing of the second unit; seed C19-d (taking the last unit) would yield `65` instead -/
example : runSplit .debug exSplit = .converted [[31]] [[(31, some 11)]] := by decide
example : WellFormed exSplit := ⟨by unfold Distinct; decide, by decide, by decide⟩
example : runSplitUnfiltered exSplit = .converted [[15, 23, 31]] [[(15, some 11), (23, some 15), (31, some 11)]] := by
  decide
/-- former finding C19-4 (repaired by aa527e6): the first unit references a DIE of the second by
section offset — the offset is no longer reserved, so the conversion reports the reference (as the
unfiltered `convert_split` does) instead of `write()` failing -/
def exSplitForeignRef : List (UnitHdr × List Entry) := [ (⟨0, 11, 12⟩, [ ⟨15, 1, false, 0x2e, false, [.infoRef 65], true⟩ ]),
    (⟨50, 11, 12⟩, [ ⟨15, 1, false, 0x13, false, [], false⟩ ]) ]

theorem split_foreign_ref_regression :
    runSplit .debug exSplitForeignRef = .convErr .invalidDebugInfoRef ∧
    runSplitUnfiltered exSplitForeignRef = .convErr .invalidDebugInfoRef := by decide

end Gimli.Props.C19
