import Gimli.Lemmas.Filter
/-!
# C19 — Filtered conversion output is dependency-closed, complete and minimal

Theorems about the Model in `Gimli/Model/Filter.lean` (the functions the driver executes for the
`flt-conv` correspondence). `Deps` is `FilterDependencies`; `Deps.Reachable d` is the Spec set
`Reach` (least set containing the valid required offsets and closed under recorded edges into
valid offsets) of the graph `d` denotes.
-/
namespace Gimli.Props.C19
open Gimli Gimli.Filter Gimli.Spec

/-- **`worklist_terminates`** — for every graph and required list, `get_reachable` run with fuel
`number of map entries + 2` returns a list: the worklist never diverges (each iteration pops one
list; a list is pushed only when an entry is removed from the map, which can happen at most once
per entry). More fuel gives the same answer. -/
theorem worklist_terminates (d : Deps) :
    (∃ out, getReachable d = .ok out) ∧
    (∀ out, getReachable d = .ok out → ∀ k, getReachableFuel (fuelFor d + k) d = .ok out) := by
  constructor
  · obtain ⟨out, h⟩ := loop_terminates (fuelFor d) ⟨d.edges, [], [d.required]⟩
      (by simp only [fuelFor, List.length_cons, List.length_nil]; omega)
    exact ⟨sortOffs out, by simp [getReachable, getReachableFuel, h, Out.map]⟩
  · intro out h k
    simp only [getReachable, getReachableFuel] at h ⊢
    cases hl : loop (fuelFor d) ⟨d.edges, [], [d.required]⟩ with
    | ok r =>
      rw [hl] at h
      rw [loop_fuel_mono _ _ _ hl k]
      exact h
    | err e => rw [hl] at h; simp [Out.map] at h
    | panic w => rw [hl] at h; simp [Out.map] at h
    | diverge => rw [hl] at h; simp [Out.map] at h

/-- what `get_reachable` returns is a sorted copy of the `reach` list of a final worklist state
that satisfies the invariant -/
theorem final_state (d : Deps) (out : List Off) (h : getReachable d = .ok out) :
    ∃ s : WState, out = sortOffs s.reach ∧ Inv d.edges d.required s (fun _ => False) := by
  simp only [getReachable, getReachableFuel] at h
  cases hl : loop (fuelFor d) ⟨d.edges, [], [d.required]⟩ with
  | ok r =>
    rw [hl] at h
    simp only [Out.map, Out.ok.injEq] at h
    obtain ⟨s, hs, hinv⟩ := loop_inv d.edges d.required _ _ r (inv_init d) hl
    exact ⟨s, by rw [hs]; exact h.symm, hinv⟩
  | err e => rw [hl] at h; simp [Out.map] at h
  | panic w => rw [hl] at h; simp [Out.map] at h
  | diverge => rw [hl] at h; simp [Out.map] at h

/-- **`reachable_sound`** — everything `get_reachable` returns is in `Reach`: it is a valid offset
connected to a valid required offset by a chain of recorded edges through valid offsets.
For ALL graphs and required lists. -/
theorem reachable_sound (d : Deps) (out : List Off) (h : getReachable d = .ok out) :
    ∀ x, x ∈ out → d.Reachable x := by
  obtain ⟨s, hs, hinv⟩ := final_state d out h
  intro x hx
  rw [hs, mem_sortOffs] at hx
  exact hinv.sound x hx

/-- **`reachable_complete`** — all of `Reach` is returned. For ALL graphs and required lists. -/
theorem reachable_complete (d : Deps) (out : List Off) (h : getReachable d = .ok out) :
    ∀ x, d.Reachable x → x ∈ out := by
  obtain ⟨s, hs, hinv⟩ := final_state d out h
  intro x hx
  rw [hs, mem_sortOffs]
  exact inv_final_complete d.edges d.required s hinv x hx

/-- **`reachable_nodup_sorted`** — the returned list has no duplicates and is sorted ascending
(hence strictly ascending). -/
theorem reachable_nodup_sorted (d : Deps) (out : List Off) (h : getReachable d = .ok out) :
    out.Nodup ∧ out.Pairwise (· ≤ ·) ∧ out.Pairwise (· < ·) := by
  obtain ⟨s, hs, hinv⟩ := final_state d out h
  have hn : out.Nodup := by rw [hs]; exact sortOffs_nodup _ hinv.nodup
  have hsort : out.Pairwise (· ≤ ·) := by rw [hs]; exact sortOffs_sorted _
  refine ⟨hn, hsort, ?_⟩
  -- sorted + nodup = strictly sorted
  clear hs hinv h
  induction out with
  | nil => exact List.Pairwise.nil
  | cons a l ih =>
    rw [List.pairwise_cons] at hsort ⊢
    rw [List.nodup_cons] at hn
    refine ⟨?_, ih hn.2 hsort.2⟩
    intro b hb
    have h1 : a ≤ b := hsort.1 b hb
    have h2 : a ≠ b := fun hab => hn.1 (hab ▸ hb)
    exact Nat.lt_of_le_of_ne h1 h2

/-! ### the hypotheses are satisfiable / the statements are not vacuous -/

/-- a graph with a cycle, an edge to an offset that is not a DIE (99) and an unreachable entry -/
def exDeps : Deps :=
  { edges := [(10, [20, 99]), (20, [30, 10]), (30, [20]), (40, [10])], required := [20, 77] }

example : getReachable exDeps = .ok [10, 20, 30] := by decide
example : exDeps.Reachable 30 :=
  .step (x := 20) (.req (show 20 ∈ exDeps.required by decide) (show exDeps.edges.contains 20 = true by decide))
    ⟨[30, 10], by decide, by decide⟩ (show exDeps.edges.contains 30 = true by decide)

end Gimli.Props.C19
