import Gimli.Lemmas.C17NormalIndex
/-!
# C17 — totality of every byte-level entry point the C17 Models mirror

`Out.Normal r`: `r` is `ok _` or `err _` — never `panic` (overflow-checked arithmetic, index out of
range, `unwrap`, division by zero) and never `diverge` (fuel exhausted = the Rust loop would not
end).  Every theorem holds for EVERY input (any bytes, any sizes, any index argument).

For iterators the Model function runs the iterator to its first `Ok(None)` under a cap on the
number of `next` calls.  Their theorems say: every call is `Normal` (`…_next_total`), and once
the cap exceeds the input length it is never reached — giving the iterator more calls changes
nothing — and at most "input length" items are produced (`…_iter_total`).  Where an error ends the
iteration (`headers`), it is the last item.

These are the C01 clauses ("no panic, no abort, no hang on untrusted input") for the reading paths
modelled under C17; `Props/C01Entries.lean` may re-export them.
-/
namespace Gimli.Props.C17
open Gimli Gimli.Ints Gimli.C17
open Gimli.Aranges (Item)

/-! ## `.debug_aranges` -/

/-- `ArangeHeader::parse` on any bytes -/
theorem aranges_header_total (e : Endian) (input : Bytes) : (Aranges.parseHeader e input).Normal :=
  ar_parseHeader_normal e input

/-- `DebugAranges::headers()` driven to the end: the cap is not reached, at most `len` items, an
error is the last item -/
theorem aranges_headers_iter_total (e : Endian) (input : Bytes) (off fuel : Nat)
    (hf : input.length < fuel) :
    Aranges.headers e fuel input off = Aranges.headers e (fuel + 1) input off ∧
      (Aranges.headers e fuel input off).length ≤ input.length ∧
      ∀ i x, (Aranges.headers e fuel input off)[i]? = some (.error x) →
        i + 1 = (Aranges.headers e fuel input off).length := by
  rw [ar_headers_eq, ar_headers_eq]
  exact collectHdr_total _ (ar_parseHeader_normal e) (ar_parseHeader_consumes e) fuel input off hf

/-- `ArangeEntry::parse`: the loop over null tuples (repaired in `929e5f5`: a loop instead of
self-recursion) ends for every address size and every input, e.g. megabytes of zero tuples; a
returned tuple was consumed -/
theorem aranges_parse_entry_total (e : Endian) (addressSize : Nat) (input : Bytes) :
    (Aranges.parseEntry e addressSize (input.length + 1) input).Normal ∧
      ∀ raw rest, Aranges.parseEntry e addressSize (input.length + 1) input = .ok (some raw, rest) →
        rest.length < input.length :=
  ar_parseEntry_normal e addressSize (input.length + 1) input (by omega)

/-- `ArangeEntryIter::next` (null tuples and tombstones skipped in its loop): normal, never grows
the input, strictly consumes input whenever it yields an entry or an error -/
theorem aranges_next_total (e : Endian) (addressSize : Nat) (input : Bytes) :
    (Aranges.next e addressSize input).1.Normal ∧
      (Aranges.next e addressSize input).2.length ≤ input.length ∧
      ((Aranges.next e addressSize input).1 ≠ .ok none →
        (Aranges.next e addressSize input).2.length < input.length) :=
  ar_next_ok e addressSize input

/-- the entry iterator driven to the end: the cap is not reached, at most `len` items -/
theorem aranges_entries_iter_total (e : Endian) (addressSize : Nat) (input : Bytes) (fuel : Nat)
    (hf : input.length < fuel) :
    Aranges.entries e addressSize fuel input = Aranges.entries e addressSize (fuel + 1) input ∧
      (Aranges.entries e addressSize fuel input).length ≤ input.length := by
  rw [ar_entries_eq_collect, ar_entries_eq_collect]
  exact collect_total (Aranges.next e addressSize) List.length (ar_next_ok e addressSize) fuel input hf

/-! ## `.debug_pubnames` / `.debug_pubtypes` -/

/-- `PubStuffParser::parse_header` -/
theorem pub_header_total (e : Endian) (input : Bytes) : (Pub.parseHeader e input).Normal :=
  pub_parseHeader_normal e input

/-- `PubStuffParser::parse_entry` (incl. the NUL search of the name) -/
theorem pub_entry_total (e : Endian) (h : Pub.Header) (input : Bytes) : (Pub.parseEntry e h input).Normal :=
  (pub_parseEntry_ok e h input).1

/-- `LookupEntryIter::next` from every state: normal; the bytes left (current set + sets to come)
never grow and strictly shrink whenever an entry or an error is yielded -/
theorem pub_next_total (e : Endian) (st : Pub.State) :
    (Pub.next e st).1.Normal ∧ pubMu (Pub.next e st).2 ≤ pubMu st ∧
      ((Pub.next e st).1 ≠ .ok none → pubMu (Pub.next e st).2 < pubMu st) :=
  pub_next_ok e st

/-- `DebugPubNames::items()` / `DebugPubTypes::items()` driven to the end over any section -/
theorem pub_items_iter_total (e : Endian) (section_ : Bytes) (fuel : Nat) (hf : section_.length < fuel) :
    Pub.items e fuel (Pub.start section_) = Pub.items e (fuel + 1) (Pub.start section_) ∧
      (Pub.items e fuel (Pub.start section_)).length ≤ section_.length := by
  rw [pub_items_eq_collect, pub_items_eq_collect]
  have := collect_total (Pub.next e) pubMu (pub_next_ok e) fuel (Pub.start section_)
    (by simpa [pubMu, Pub.start] using hf)
  simpa [pubMu, Pub.start] using this

/-! ## `.debug_names` -/

/-- `NameIndexHeader::parse` -/
theorem names_header_total (e : Endian) (input : Bytes) : (Names.parseHeader e input).Normal :=
  nm_parseHeader_normal e input

/-- `DebugNames::headers()` driven to the end -/
theorem names_headers_iter_total (e : Endian) (input : Bytes) (off fuel : Nat) (hf : input.length < fuel) :
    Names.headers e fuel input off = Names.headers e (fuel + 1) input off ∧
      (Names.headers e fuel input off).length ≤ input.length := by
  have heq : ∀ fuel input off, Names.headers e fuel input off =
      collectHdr (Names.parseHeader e) fuel input off := by
    intro fuel
    induction fuel with
    | zero => intro input off; rfl
    | succ f ih =>
      intro input off
      rw [Names.headers, collectHdr]
      split
      · rfl
      · cases hp : Names.parseHeader e input with
        | ok p => obtain ⟨h, rest⟩ := p; simp [ih]
        | err x => rfl
        | panic w => rfl
        | diverge => rfl
  rw [heq, heq]
  obtain ⟨a, b, _⟩ := collectHdr_total _ (nm_parseHeader_normal e) (nm_parseHeader_consumes e) fuel input off hf
  exact ⟨a, b⟩

/-- `NameAbbreviations::parse` on any table bytes (nested loops over abbreviations and attribute
specifications) -/
theorem names_abbrevs_total (table : Bytes) : (Names.parseAbbrevs (table.length + 1) table).Normal :=
  parseAbbrevs_normal _ _ (by omega)

/-- `NameIndex::new` for any header: the size products cannot overflow, the splits fail with an
error, the abbreviation table parse ends -/
theorem names_new_total (h : Names.Header) : (Names.Index.new h).Normal := nm_new_normal h

/-- the list accessors and `name_string` for any index value -/
theorem names_accessors_total (e : Endian) (ix : Names.Index) (i : Nat) (debugStr : Bytes) :
    (ix.compileUnit e i).Normal ∧ (ix.localTypeUnit e i).Normal ∧ (ix.foreignTypeUnit e i).Normal ∧
      (ix.typeUnit e i).Normal ∧ (ix.nameStringOffset e i).Normal ∧ (Names.getStr debugStr i).Normal :=
  ⟨offsetAt_normal e _ _ _, offsetAt_normal e _ _ _, foreignTypeUnit_normal e ix i, typeUnit_normal e ix i,
   offsetAt_normal e _ _ _, getStr_normal _ _⟩

/-- `find_by_bucket` / `find_by_hash` construction for any bucket index / hash (also without a hash
table: an error, not a division by zero) -/
theorem names_lookup_total (e : Endian) (ix : Names.Index) (n : Nat) :
    (Names.BucketIter.new e ix n).Normal ∧ (ix.bucket e n).Normal ∧ (ix.findByHash e n).Normal :=
  ⟨bucketNew_normal e ix n, bucket_normal e ix n, findByHash_normal e ix n⟩

/-- `NameBucketIter::next` and the loop of `NameHashIter::next` on every iterator that
`find_by_bucket` / `find_by_hash` can hand out for an index made by `NameIndex::new`: no division
by zero (`hash % bucket_count`), and the hash loop ends within the `name_count + 2` steps the Model
grants it -/
theorem names_bucket_next_total (e : Endian) (h : Names.Header) (ix : Names.Index)
    (hn : Names.Index.new h = .ok ix) (b : Nat) (it : Names.BucketIter)
    (hit : Names.BucketIter.new e ix b = .ok (some it)) (it' : Names.BucketIter) (hash : Nat) :
    (it'.next e ix).1.Normal ∧ (Names.hashNext e ix hash (ix.nameCount + 2) it').1.Normal := by
  obtain ⟨_, _, _, _, _, hbl, _, _, _, _, _, _, hbc, _⟩ := Names.new_layout h ix hn
  have hne : ix.bucketCount ≠ 0 := bucketNew_some e ix b it (by rw [hbl, hbc]) hit
  exact ⟨(bucketNext_ok e ix it' hne).1, (hashNext_normal e ix hash hne _ it' (by omega)).1⟩

/-- the bucket and hash iterators driven to the end: the cap is not reached, at most
`name_count + 1` items -/
theorem names_bucket_iter_total (e : Endian) (ix : Names.Index) (hbc : ix.bucketCount ≠ 0)
    (it : Names.BucketIter) (hash fuel : Nat) (hf : ix.nameCount < fuel) :
    Names.BucketIter.drain e ix fuel it = Names.BucketIter.drain e ix (fuel + 1) it ∧
      (Names.BucketIter.drain e ix fuel it).length ≤ ix.nameCount + 1 ∧
      Names.hashDrain e ix hash fuel it = Names.hashDrain e ix hash (fuel + 1) it ∧
      (Names.hashDrain e ix hash fuel it).length ≤ ix.nameCount + 1 := by
  obtain ⟨a, b⟩ := bucketDrain_total e ix hbc fuel it (by omega)
  obtain ⟨c, d⟩ := hashDrain_total e ix hash hbc fuel it (by omega)
  exact ⟨a, by omega, c, by omega⟩

/-- `NameEntry::parse` (abbreviation lookup, every form incl. unknown ones) and `name_entry(offset)` -/
theorem names_entry_total (e : Endian) (ix : Names.Index) (off : Nat) (bs : Bytes) :
    (Names.parseEntry e ix.abbrevs off bs).Normal ∧ (ix.nameEntry e off).Normal :=
  ⟨(nm_parseEntry_ok e ix.abbrevs off bs).1, nameEntry_normal e ix off⟩

/-- `name_entries(i)` and the entry iterator driven to the end over any pool bytes -/
theorem names_entries_iter_total (e : Endian) (ix : Names.Index) (i : Nat) (bs : Bytes) (fuel : Nat)
    (hf : bs.length < fuel) :
    (ix.nameEntries e i).Normal ∧
      Names.entrySeries e ix.abbrevs ix.entryPool.length fuel bs =
        Names.entrySeries e ix.abbrevs ix.entryPool.length (fuel + 1) bs ∧
      (Names.entrySeries e ix.abbrevs ix.entryPool.length fuel bs).length ≤ bs.length :=
  ⟨nameEntries_normal e ix i, entrySeries_total e ix.abbrevs _ fuel bs hf⟩

/-! ## `.debug_cu_index` / `.debug_tu_index`, package units -/

/-- `UnitIndex::parse` on any section bytes (slot-count test, `slot_count * 8`,
`unit_count * section_count * 4` cannot overflow, section kinds) -/
theorem index_parse_total (e : Endian) (input : Bytes) : (Index.parse e input).Normal :=
  ix_parse_normal e input

/-- `UnitIndex::sections(row)` for any index value and any row; the iterator yields at most
`section_count` items -/
theorem index_sections_total (e : Endian) (ix : Index.UnitIndex) (row : Nat) :
    (Index.sections e ix row).Normal ∧
      ∀ cols, Index.sections e ix row = .ok cols → cols.length ≤ ix.sections.length := by
  refine ⟨ix_sections_normal e ix row, fun cols h => ?_⟩
  unfold Index.sections at h
  split at h
  · simp at h
  · simp only at h
    split at h
    · simp at h
    · split at h
      · simp at h
      · simp only [Out.ok.injEq] at h
        rw [← h]; exact sectionIter_length e _ _ _

/-- `Section::dwp_range` and `DwarfPackage::find_cu` / `find_tu` (find, row access, the ten slices)
for any index, any package sections, any id -/
theorem index_find_unit_total (e : Endian) (ix : Index.UnitIndex) (pkg : Index.SecKind → Bytes) (id : Nat)
    (data : Bytes) (offset size : Nat) :
    (Index.dwpRange data offset size).Normal ∧ (Index.findUnit e ix pkg id).Normal :=
  ⟨dwpRange_normal _ _ _, findUnit_normal e ix pkg id⟩

/-! ## indexed tables, form resolution -/

/-- `DebugStrOffsets::get_str_offset` for any base and any index up to `usize::MAX`: the product
`index * word_size` is checked (`ab3a9b9`), an out-of-range result is an error -/
theorem str_offsets_total (e : Endian) (f : Format) (sec : Bytes) (base index : Nat) :
    (Indexed.getStrOffset e f sec base index).Normal := getStrOffset_normal e f sec base index

/-- `DebugAddr::get_address` for any address size (valid or not), base and index -/
theorem addr_total (e : Endian) (addressSize : Nat) (sec : Bytes) (base index : Nat) :
    (Indexed.getAddress e addressSize sec base index).Normal := getAddress_normal e addressSize sec base index

/-- `Dwarf::attr_string` / `Dwarf::attr_address` for every attribute value and any sections -/
theorem attr_resolution_total (c : Indexed.Ctx) (a : Indexed.AttrVal) :
    (Indexed.attrString c a).Normal ∧ (Indexed.attrAddress c a).Normal :=
  ⟨attrString_normal c a, attrAddress_normal c a⟩

end Gimli.Props.C17
