import Gimli.Props.C02
import Gimli.Props.C03
import Gimli.Props.C04
import Gimli.Props.C05
import Gimli.Props.C06
import Gimli.Props.C07
import Gimli.Props.C08
import Gimli.Props.C17
import Gimli.Props.C17Total
import Gimli.Props.C12Lists
import Gimli.Props.C12Cfi
import Gimli.Props.C12Expr
import Gimli.Props.C12Unit
/-!
# C01 — entry points whose Models belong to other properties

The reading paths below are modelled (and tied to the code by their own correspondence runs) under
C02–C08 and C17; each of those Models returns an `Out` (`ok | err | panic | diverge`) and mirrors
the overflow-checked arithmetic, indexing, `unwrap`s and loops of the Rust code, so their totality
theorems ARE the C01 clause "no panic, no non-termination, on every input" for these entry points.
They are restated here, unchanged, so that C01's audit requires them: weakening or losing one of
them breaks C01's obligations, not only the owning property's.
-/
namespace Gimli.Props.C01

/-- `Abbreviations::parse`, `parse_unit_header` -/
theorem entry_abbrev_unit_header : type_of% @Gimli.Props.C02.parse_total := @Gimli.Props.C02.parse_total
/-- raw DIE reading over a whole unit (`EntriesRaw`) -/
theorem entry_die_raw : type_of% @Gimli.Props.C02.raw_total := @Gimli.Props.C02.raw_total
/-- `next_entry`, `next_dfs`, `next_sibling`, `EntriesTree::next` from every state -/
theorem entry_die_cursors : type_of% @Gimli.Props.C02.cursor_steps_total := @Gimli.Props.C02.cursor_steps_total
/-- `parse_attribute` (every form incl. `DW_FORM_indirect` chains) -/
theorem entry_attr_parse : type_of% @Gimli.Props.C03.parse_total := @Gimli.Props.C03.parse_total
/-- `read_attributes` -/
theorem entry_attr_read : type_of% @Gimli.Props.C03.read_total := @Gimli.Props.C03.read_total
/-- `skip_attributes` (repaired F7) -/
theorem entry_attr_skip : type_of% @Gimli.Props.C03.skip_total := @Gimli.Props.C03.skip_total
/-- `DebugLine::program` / `LineProgramHeader::parse` -/
theorem entry_line_header : type_of% @Gimli.Props.C04.header_total := @Gimli.Props.C04.header_total
/-- `LineInstruction::parse` -/
theorem entry_line_decode : type_of% @Gimli.Props.C04.decode_total := @Gimli.Props.C04.decode_total
/-- `LineRows::next_row` driven to the end (repaired F2) -/
theorem entry_line_rows : type_of% @Gimli.Props.C04.run_total := @Gimli.Props.C04.run_total
/-- `IncompleteLineProgram::sequences` -/
theorem entry_line_sequences : type_of% @Gimli.Props.C04.sequences_total := @Gimli.Props.C04.sequences_total
/-- `parse_encoded_pointer` -/
theorem entry_cfi_pointer : type_of% @Gimli.Props.C05.encoded_pointer_total := @Gimli.Props.C05.encoded_pointer_total
/-- `section.entries(bases)` over any bytes -/
theorem entry_cfi_entries : type_of% @Gimli.Props.C05.entries_total := @Gimli.Props.C05.entries_total
/-- `PartialFrameDescriptionEntry::parse` -/
theorem entry_cfi_fde : type_of% @Gimli.Props.C05.fde_parse_total := @Gimli.Props.C05.fde_parse_total
/-- `fde_for_address` (linear) -/
theorem entry_cfi_lookup : type_of% @Gimli.Props.C05.linear_lookup_total := @Gimli.Props.C05.linear_lookup_total
/-- `EhFrameHdr::parse` -/
theorem entry_ehhdr_parse : type_of% @Gimli.Props.C05.hdr_parse_total := @Gimli.Props.C05.hdr_parse_total
/-- `EhHdrTable::lookup` (repaired F5, F6) -/
theorem entry_ehhdr_lookup : type_of% @Gimli.Props.C05.hdr_lookup_total := @Gimli.Props.C05.hdr_lookup_total
/-- `EhHdrTable::fde_for_address` -/
theorem entry_ehhdr_fde : type_of% @Gimli.Props.C05.hdr_fde_for_address_total := @Gimli.Props.C05.hdr_fde_for_address_total
/-- `CallFrameInstruction::parse` -/
theorem entry_cfa_decode : type_of% @Gimli.Props.C06.decode_total := @Gimli.Props.C06.decode_total
/-- `CallFrameInstructionIter` driven to the end -/
theorem entry_cfa_iter : type_of% @Gimli.Props.C06.decode_all_total := @Gimli.Props.C06.decode_all_total
/-- `UnwindTable` over a CIE and an FDE driven to the end -/
theorem entry_unwind : type_of% @Gimli.Props.C06.unwind_total := @Gimli.Props.C06.unwind_total
/-- `Operation::parse` (repaired F1) -/
theorem entry_op_decode : type_of% @Gimli.Props.C07.decode_total := @Gimli.Props.C07.decode_total
/-- `Evaluation::evaluate` under an iteration limit (repaired C07-2) -/
theorem entry_eval_limit : type_of% @Gimli.Props.C07.iter_limit_terminates := @Gimli.Props.C07.iter_limit_terminates
/-- raw range/location list iteration -/
theorem entry_lists_raw : type_of% @Gimli.Props.C08.raw_terminates := @Gimli.Props.C08.raw_terminates
/-- cooked range/location list iteration -/
theorem entry_lists_cooked : type_of% @Gimli.Props.C08.cooked_terminates := @Gimli.Props.C08.cooked_terminates
/-- `Dwarf::die_ranges` (repaired F16) -/
theorem entry_die_ranges : type_of% @Gimli.Props.C08.die_ranges_total := @Gimli.Props.C08.die_ranges_total
/-- `UnitIndex::find` probes at most `slot_count` slots -/
theorem entry_index_find : type_of% @Gimli.Props.C17.find_terminates := @Gimli.Props.C17.find_terminates

/-! ### lookup tables, package index, indexed sections (Models of C17, `Props/C17Total.lean`) -/
theorem entry_aranges_header : type_of% @Gimli.Props.C17.aranges_header_total := @Gimli.Props.C17.aranges_header_total
theorem entry_aranges_headers_iter : type_of% @Gimli.Props.C17.aranges_headers_iter_total := @Gimli.Props.C17.aranges_headers_iter_total
theorem entry_aranges_parse_entry : type_of% @Gimli.Props.C17.aranges_parse_entry_total := @Gimli.Props.C17.aranges_parse_entry_total
theorem entry_aranges_next : type_of% @Gimli.Props.C17.aranges_next_total := @Gimli.Props.C17.aranges_next_total
theorem entry_aranges_entries_iter : type_of% @Gimli.Props.C17.aranges_entries_iter_total := @Gimli.Props.C17.aranges_entries_iter_total
theorem entry_pub_header : type_of% @Gimli.Props.C17.pub_header_total := @Gimli.Props.C17.pub_header_total
theorem entry_pub_entry : type_of% @Gimli.Props.C17.pub_entry_total := @Gimli.Props.C17.pub_entry_total
theorem entry_pub_next : type_of% @Gimli.Props.C17.pub_next_total := @Gimli.Props.C17.pub_next_total
theorem entry_pub_items_iter : type_of% @Gimli.Props.C17.pub_items_iter_total := @Gimli.Props.C17.pub_items_iter_total
theorem entry_names_header : type_of% @Gimli.Props.C17.names_header_total := @Gimli.Props.C17.names_header_total
theorem entry_names_headers_iter : type_of% @Gimli.Props.C17.names_headers_iter_total := @Gimli.Props.C17.names_headers_iter_total
theorem entry_names_abbrevs : type_of% @Gimli.Props.C17.names_abbrevs_total := @Gimli.Props.C17.names_abbrevs_total
theorem entry_names_new : type_of% @Gimli.Props.C17.names_new_total := @Gimli.Props.C17.names_new_total
theorem entry_names_accessors : type_of% @Gimli.Props.C17.names_accessors_total := @Gimli.Props.C17.names_accessors_total
theorem entry_names_lookup : type_of% @Gimli.Props.C17.names_lookup_total := @Gimli.Props.C17.names_lookup_total
theorem entry_names_bucket_next : type_of% @Gimli.Props.C17.names_bucket_next_total := @Gimli.Props.C17.names_bucket_next_total
theorem entry_names_bucket_iter : type_of% @Gimli.Props.C17.names_bucket_iter_total := @Gimli.Props.C17.names_bucket_iter_total
theorem entry_names_entry : type_of% @Gimli.Props.C17.names_entry_total := @Gimli.Props.C17.names_entry_total
theorem entry_names_entries_iter : type_of% @Gimli.Props.C17.names_entries_iter_total := @Gimli.Props.C17.names_entries_iter_total
theorem entry_index_parse : type_of% @Gimli.Props.C17.index_parse_total := @Gimli.Props.C17.index_parse_total
theorem entry_index_sections : type_of% @Gimli.Props.C17.index_sections_total := @Gimli.Props.C17.index_sections_total
theorem entry_index_find_unit : type_of% @Gimli.Props.C17.index_find_unit_total := @Gimli.Props.C17.index_find_unit_total
theorem entry_str_offsets : type_of% @Gimli.Props.C17.str_offsets_total := @Gimli.Props.C17.str_offsets_total
theorem entry_addr : type_of% @Gimli.Props.C17.addr_total := @Gimli.Props.C17.addr_total
theorem entry_attr_resolution : type_of% @Gimli.Props.C17.attr_resolution_total := @Gimli.Props.C17.attr_resolution_total

/-! ### read→write conversion entry points (component Models of C12) -/
/-- `RangeList::from` / `LocationList::from` -/
theorem entry_convert_lists : type_of% @Gimli.Props.C12.convert_total := @Gimli.Props.C12.convert_total
/-- `CallFrameInstruction::from` and the instruction loops of `FrameTable::from` -/
theorem entry_convert_cfi : type_of% @Gimli.Props.C12.cfi_convert_total := @Gimli.Props.C12.cfi_convert_total
/-- `Expression::from`: total, and the converted operations nest at most 64 deep (repaired C12-E1) -/
theorem entry_convert_expr : type_of% @Gimli.Props.C12.convert_expr_total := @Gimli.Props.C12.convert_expr_total
/-- unit conversion fails only with the error of one attribute's conversion -/
theorem entry_convert_unit : type_of% @Gimli.Props.C12.convert_fails_only_on_attr := @Gimli.Props.C12.convert_fails_only_on_attr

end Gimli.Props.C01
