import Gimli.Lemmas.ConvLists
/-!
# C12, range / location list component — conversion preserves the ranges and location
expressions, or fails

Property theorems only (helper lemmas: `Gimli/Lemmas/ConvLists.lean`). They are about the Model
`Gimli/Model/ConvLists.lean` of `RangeList::from` / `LocationList::from` (src/write/range.rs,
src/write/loc.rs, `mod convert`), which the driver (`Drv/C12Lists.lean`) executes and the
correspondence run (`harness/src/prop/c12lists.rs`) ties to `write::Dwarf::from`; the input side is
C08's reader Model and Spec (`Model/Lists.lean`, `Spec/Lists.lean`), the output side C16's writer
Model and Spec (`Model/WLists.lean`, `Spec/WLists.lean`).

"Meaning" of a list is C08's `resolveList`: the ranges — for location lists the (range,
expression bytes) pairs — it denotes relative to the unit's base address and `.debug_addr`, entries
that denote nothing (empty, inverted, tombstone) dropped. Parameters: `ca` = `convert_address`
(`IdConv ca`: the executable case `|a| Some(Address::Constant(a))`), `ce` = the expression conversion
(`Expression::from`, C12's expression component), `enc` = the bytes a converted expression is
written as; `gdata k ce enc d` = the input expression bytes `d` after conversion and re-encoding.
-/
namespace Gimli.Props.C12
open Gimli Gimli.Ints Gimli.Lists Gimli.WLists Gimli.ConvLists Gimli.Spec.Lists Gimli.Spec.WLists

/-! ## (a) the converted list means what the input list means — or the conversion is an error -/

/-- **Conversion preserves the meaning of a list.** For every sequence of results of the raw
list iterator (any entry kinds, any values; `hb` = the unit has a non-zero `low_pc`, `base` = that
`low_pc`), every byte order / format / version / valid address size, any `.debug_addr` contents and
`addr_base`: if `RangeList::from` / `LocationList::from` succeeds, then the raw iterator returned no
`Err`, and the list it produced means — as C16's writer Spec reads it — exactly what the input list
means, with every location description replaced by its converted and re-encoded form. (If it does
not succeed it is an error: the result type has nothing else.) -/
theorem convert_list_meaning (k : Kind) (c : Cfg) (ca : Nat → Option Addr) (ce : Bytes → CR WExpr)
    (addr : Bytes) (ab : Nat) (enc : WExpr → Bytes)
    (hid : IdConv ca) (hs : ValidSize c.addrSize) (hlen : addr.length < 2 ^ 64)
    (evs : List (Ev Entry)) (hb : Bool) (base : Nat) (hbase : hb = false → base = 0)
    (hfit : ∀ x, Ev.item x ∈ evs → RawFits c x) (out : WList)
    (h : convertEntries k c ca ce addr ab hb evs = .ok out) :
    ∃ l : List Entry, evs = l.map .item ∧
      meaning c.addrSize enc base out =
        (resolveList c.addrSize (tableOf c.endian c.addrSize addr ab) base l).map
          (mapDenotData (gdata k ce enc)) := by
  obtain ⟨l, rfl⟩ := convertEntries_ok_items evs hb out h
  refine ⟨l, rfl, ?_⟩
  have := convertEntries_meaning enc hid hs hlen l hb base out hbase
    (fun x hx => hfit x (by simpa using List.mem_map_of_mem (f := Ev.item) hx)) h
  rw [meaning, ← this, resolveList_mapData]

/-- the same when the expression conversion is faithful (converted expressions are written as the
bytes they were read from — e.g. every expression in a range list, where there is none):
literally the same ranges and (range, expression) pairs -/
theorem convert_list_meaning_faithful (k : Kind) (c : Cfg) (ca : Nat → Option Addr) (ce : Bytes → CR WExpr)
    (addr : Bytes) (ab : Nat) (enc : WExpr → Bytes)
    (hid : IdConv ca) (hs : ValidSize c.addrSize) (hlen : addr.length < 2 ^ 64)
    (hg : ∀ d, gdata k ce enc d = d)
    (evs : List (Ev Entry)) (hb : Bool) (base : Nat) (hbase : hb = false → base = 0)
    (hfit : ∀ x, Ev.item x ∈ evs → RawFits c x) (out : WList)
    (h : convertEntries k c ca ce addr ab hb evs = .ok out) :
    ∃ l : List Entry, evs = l.map .item ∧
      meaning c.addrSize enc base out =
        resolveList c.addrSize (tableOf c.endian c.addrSize addr ab) base l := by
  obtain ⟨l, hl, hm⟩ := convert_list_meaning k c ca ce addr ab enc hid hs hlen evs hb base hbase hfit out h
  refine ⟨l, hl, ?_⟩
  rw [hm]
  have : mapDenotData (gdata k ce enc) = id := by
    funext d; cases d <;> simp [mapDenotData, hg]
  rw [this, List.map_id]

/-- **Conversion preserves the meaning of a list, from the sections**: for every unit (any
encoding, `low_pc`, `addr_base`), every content of the list sections and of `.debug_addr`, every
offset: if `convert_range_list` / `convert_location_list` succeeds, then the reader resolves the
input list at that offset without error, and the converted list means exactly what the reader
yields for the input (location descriptions re-encoded). No hypothesis on the input bytes. -/
theorem convert_list_meaning_at (k : Kind) (u : UnitCtx) (secs : Sections) (ca : Nat → Option Addr)
    (ce : Bytes → CR WExpr) (enc : WExpr → Bytes) (hid : IdConv ca) (hs : ValidSize u.cfg.addrSize)
    (hlen : secs.debugAddr.length < 2 ^ 64) (offset : Nat) (out : WList)
    (h : convertList k u secs ca ce offset = .ok out) :
    ∃ evsIn : List (Ev Item),
      cookedAt k u.cfg (decide (k = .loc) && u.dwo)
        (legacySec k secs) (v5Sec k secs) offset u.lowPc secs.debugAddr u.addrBase = .ok evsIn ∧
      meaning u.cfg.addrSize enc u.lowPc out =
        (evsIn.map denot).map (mapDenotData (gdata k ce enc)) := by
  unfold convertList at h
  obtain ⟨evs, h1, h2⟩ := except_bind_ok h
  have hraw := liftRead_ok h1
  have hfit := rawAt_fits _ _ _ _ _ _ evs hraw
  obtain ⟨l, hl, hm⟩ := convert_list_meaning k u.cfg ca ce secs.debugAddr u.addrBase enc hid hs hlen evs
    (decide (u.lowPc ≠ 0)) u.lowPc (by simp) hfit out h2
  obtain ⟨evsIn, hin1, hin2⟩ := Props.C08.resolve_refines_entries u.cfg secs.debugAddr u.addrBase hs hlen l u.lowPc
  refine ⟨evsIn, ?_, by rw [hm, hin2]⟩
  rw [cookedAt_eq, hraw, hl]
  exact hin1

/-- **`have_base_address` agrees between converter and writer**: the converter starts with
`from_unit.low_pc != 0`, the writer with "the root has a `DW_AT_low_pc` other than
`Address::Constant(0)`"; for a unit whose `low_pc` attribute (if any) is converted by the identity
these are the same flag, and when it is false the reader's base address is 0. -/
theorem have_base_agrees (low : Option Nat) :
    haveBaseAddress (low.map .const) = decide (unitBase (low.map .const) ≠ 0) ∧
    (haveBaseAddress (low.map .const) = false → unitBase (low.map .const) = 0) := by
  cases low with
  | none => simp [haveBaseAddress, unitBase]
  | some v =>
    cases v with
    | zero => simp [haveBaseAddress, unitBase]
    | succ n => simp [haveBaseAddress, unitBase]

/-! ## (b) convert → write → read resolves to the same ranges / pairs -/

/-- **Round trip through the writer.** Let the converted list `out` be one of the lists added to a
unit's table (`lists[j]`), and let the table be written by C16's writer Model into a section after
arbitrary earlier content `prior` (`ub` = the writer's `have_base_address`, equal to the converter's
start flag `hb`, see `have_base_agrees`). If writing succeeds, then reading the offset handed to the
attribute with C08's reader Model, through the same base address, yields exactly what reading the
INPUT list yields (`evsIn`: the reader's results on the input entries), location descriptions
re-encoded, with no error on either side. Holds for DWARF 5 and for DWARF 2–4. -/
theorem convert_write_read (m : Mode) (k : Kind) (c : Cfg) (ca : Nat → Option Addr) (ce : Bytes → CR WExpr)
    (addr : Bytes) (ab : Nat) (eo : EOff) (uoff : Nat) (ub : Bool) (prior : Bytes)
    (lists : List WList) (r : Bytes × List Nat)
    (hv : 2 ≤ c.version ∧ c.version ≤ 5) (hs : ValidSize c.addrSize) (hid : IdConv ca)
    (hlen : addr.length < 2 ^ 64) (he : U64EOff eo)
    (hm : ∀ l ∈ lists, ∀ x ∈ l, Machine k c eo uoff x)
    (evs : List (Ev Entry)) (base : Nat) (hbase : ub = false → base = 0)
    (hfit : ∀ x, Ev.item x ∈ evs → RawFits c x) (j : Nat) (hj : j < lists.length)
    (hc : convertEntries k c ca ce addr ab ub evs = .ok lists[j])
    (hw : writeTable m k c eo uoff ub prior.length (addAll [] lists).1 = .ok r) :
    ∃ (l : List Entry) (evsIn evsOut : List (Ev Item)) (off : Nat),
      evs = l.map .item ∧
      cook c addr ab base evs = .ok evsIn ∧
      (handOver r.2 (addAll [] lists).2)[j]? = some off ∧
      cookedAt k c false (prior ++ r.1) (prior ++ r.1) off base [] 0 = .ok evsOut ∧
      evsOut.map denot = (evsIn.map denot).map (mapDenotData (gdata k ce (dataBytes k c eo uoff))) := by
  obtain ⟨l, hl, hmean⟩ := convert_list_meaning k c ca ce addr ab (dataBytes k c eo uoff) hid hs hlen
    evs ub base hbase hfit lists[j] hc
  obtain ⟨evsIn, hin1, hin2⟩ := Props.C08.resolve_refines_entries c addr ab hs hlen l base
  by_cases h5 : c.version = 5
  · obtain ⟨off, evsOut, h1, h2, h3⟩ := lists_roundtrip_v5 m k c eo uoff ub prior (prior ++ r.1) lists r
      h5 hs he hm hw base j hj
    exact ⟨l, evsIn, evsOut, off, hl, by rw [hl]; exact hin1, h1, h2, by rw [h3, hmean, hin2]⟩
  · obtain ⟨off, evsOut, h1, h2, h3⟩ := lists_roundtrip_prev5 m k c eo uoff ub prior (prior ++ r.1) lists r
      (by omega) he hm hw base hbase j hj
    exact ⟨l, evsIn, evsOut, off, hl, by rw [hl]; exact hin1, h1, h2, by rw [h3, hmean, hin2]⟩

/-! ## (c) nothing is silently dropped or merged -/

/-- **Shape of the converted list.** A successful conversion converts every input entry, one for
one and in order (`ws`), and returns them all except the entries `isEmptyEntry` names: a
`StartLength` of length 0, a `StartEnd` or `OffsetPair` with `begin == end`. Nothing is merged,
reordered or truncated; base-address entries, default locations, tombstone and inverted ranges are
kept as they are. -/
theorem convert_keeps_entries (k : Kind) (c : Cfg) (ca : Nat → Option Addr) (ce : Bytes → CR WExpr)
    (addr : Bytes) (ab : Nat) (l : List Entry) (hb : Bool) (out : WList)
    (h : convertEntries k c ca ce addr ab hb (l.map .item) = .ok out) :
    ∃ ws : List WEntry, ws.length = l.length ∧
      (∀ p ∈ l.zip ws, ∃ h h', convertEntry k c ca ce addr ab h p.1 = .ok (p.2, h')) ∧
      out = ws.filter (fun w => !isEmptyEntry w) :=
  convertEntries_shape l hb out h

/-- **What is dropped denotes nothing**: an entry the conversion filters out contributes no range
to the meaning of any list, whatever the base address, address size and what follows — this is
C08's Spec: an empty range is not kept (`Keep` requires `begin < end`). -/
theorem dropped_entries_denote_nothing (s : Nat) (enc : WExpr → Bytes) (w : WEntry)
    (h : isEmptyEntry w = true) (base : Nat) (ws : WList) :
    meaning s enc base (w :: ws) = meaning s enc base ws := by
  simp only [meaning, List.map_cons]
  exact empty_denotes_nothing s enc w h base _

/-- the kinds are mapped as the entry names say (for the identity `convert_address`): in
particular a base-address entry stays one and keeps its address, and the `have_base_address` flag
is raised exactly by base-address entries -/
theorem convert_entry_kinds (k : Kind) (c : Cfg) (ca : Nat → Option Addr) (ce : Bytes → CR WExpr)
    (addr : Bytes) (ab : Nat) (hid : IdConv ca) (hb hb' : Bool) (x : Entry) (w : WEntry)
    (h : convertEntry k c ca ce addr ab hb x = .ok (w, hb')) :
    match x with
    | .pair b e _ => hb' = hb ∧ if hb then ∃ d, w = .offsetPair b e d else ∃ d, w = .startEnd (.const b) (.const e) d
    | .baseAddress a => hb' = true ∧ w = .baseAddress (.const a)
    | .baseAddressx _ => hb' = true ∧ ∃ a, w = .baseAddress (.const a)
    | .startxEndx _ _ _ => hb' = hb ∧ ∃ b e d, w = .startEnd (.const b) (.const e) d
    | .startxLength _ len _ => hb' = hb ∧ ∃ b d, w = .startLength (.const b) len d
    | .offsetPair b e _ => hb' = hb ∧ ∃ d, w = .offsetPair b e d
    | .defaultLocation _ => hb' = hb ∧ ∃ d, w = .defaultLocation d
    | .startEnd b e _ => hb' = hb ∧ ∃ d, w = .startEnd (.const b) (.const e) d
    | .startLength b len _ => hb' = hb ∧ ∃ d, w = .startLength (.const b) len d := by
  cases x with
  | pair b e d =>
    simp only [convertEntry] at h
    obtain ⟨b', h1, h⟩ := except_bind_ok h
    obtain ⟨e', h2, h⟩ := except_bind_ok h
    obtain ⟨x, _, h⟩ := except_bind_ok h
    rw [convAddr_id hid] at h1 h2
    cases h1; cases h2
    cases hb with
    | true =>
      simp only [if_true, pure, Except.pure, Except.ok.injEq, Prod.mk.injEq] at h
      exact ⟨h.2.symm, by simp [← h.1]⟩
    | false =>
      simp only [Bool.false_eq_true, if_false, pure, Except.pure, Except.ok.injEq, Prod.mk.injEq] at h
      exact ⟨h.2.symm, by simp [← h.1]⟩
  | baseAddress a =>
    simp only [convertEntry] at h
    obtain ⟨a', h1, h⟩ := except_bind_ok h
    rw [convAddr_id hid] at h1; cases h1
    simp only [pure, Except.pure, Except.ok.injEq, Prod.mk.injEq] at h
    exact ⟨h.2.symm, h.1.symm⟩
  | baseAddressx i =>
    simp only [convertEntry] at h
    obtain ⟨a0, _, h⟩ := except_bind_ok h
    obtain ⟨a', h1, h⟩ := except_bind_ok h
    rw [convAddr_id hid] at h1; cases h1
    simp only [pure, Except.pure, Except.ok.injEq, Prod.mk.injEq] at h
    exact ⟨h.2.symm, a0, h.1.symm⟩
  | startxEndx b e d =>
    simp only [convertEntry] at h
    obtain ⟨b0, _, h⟩ := except_bind_ok h
    obtain ⟨b', h1, h⟩ := except_bind_ok h
    obtain ⟨e0, _, h⟩ := except_bind_ok h
    obtain ⟨e', h2, h⟩ := except_bind_ok h
    obtain ⟨x, _, h⟩ := except_bind_ok h
    rw [convAddr_id hid] at h1 h2; cases h1; cases h2
    simp only [pure, Except.pure, Except.ok.injEq, Prod.mk.injEq] at h
    exact ⟨h.2.symm, b0, e0, x, h.1.symm⟩
  | startxLength b l d =>
    simp only [convertEntry] at h
    obtain ⟨b0, _, h⟩ := except_bind_ok h
    obtain ⟨b', h1, h⟩ := except_bind_ok h
    obtain ⟨x, _, h⟩ := except_bind_ok h
    rw [convAddr_id hid] at h1; cases h1
    simp only [pure, Except.pure, Except.ok.injEq, Prod.mk.injEq] at h
    exact ⟨h.2.symm, b0, x, h.1.symm⟩
  | offsetPair b e d =>
    simp only [convertEntry] at h
    obtain ⟨x, _, h⟩ := except_bind_ok h
    simp only [pure, Except.pure, Except.ok.injEq, Prod.mk.injEq] at h
    exact ⟨h.2.symm, x, h.1.symm⟩
  | defaultLocation d =>
    simp only [convertEntry] at h
    obtain ⟨x, _, h⟩ := except_bind_ok h
    simp only [pure, Except.pure, Except.ok.injEq, Prod.mk.injEq] at h
    exact ⟨h.2.symm, x, h.1.symm⟩
  | startEnd b e d =>
    simp only [convertEntry] at h
    obtain ⟨b', h1, h⟩ := except_bind_ok h
    obtain ⟨e', h2, h⟩ := except_bind_ok h
    obtain ⟨x, _, h⟩ := except_bind_ok h
    rw [convAddr_id hid] at h1 h2; cases h1; cases h2
    simp only [pure, Except.pure, Except.ok.injEq, Prod.mk.injEq] at h
    exact ⟨h.2.symm, x, h.1.symm⟩
  | startLength b l d =>
    simp only [convertEntry] at h
    obtain ⟨b', h1, h⟩ := except_bind_ok h
    obtain ⟨x, _, h⟩ := except_bind_ok h
    rw [convAddr_id hid] at h1; cases h1
    simp only [pure, Except.pure, Except.ok.injEq, Prod.mk.injEq] at h
    exact ⟨h.2.symm, x, h.1.symm⟩

/-! ## (d) totality and the errors -/

/-- **The conversion returns normally**: for every sequence of raw-iterator results, every
configuration, any `.debug_addr` bytes, it yields a list or a `ConvertError` — it never panics or
diverges (as long as the expression conversion does not). -/
theorem convert_total (k : Kind) (c : Cfg) (ca : Nat → Option Addr) (ce : Bytes → CR WExpr)
    (addr : Bytes) (ab : Nat) (hce : ∀ d, ce d ≠ .error .crash) (evs : List (Ev Entry)) (hb : Bool) :
    convertEntries k c ca ce addr ab hb evs ≠ .error .crash :=
  convertEntries_no_crash hce evs hb

/-- **Errors are passed on, not swallowed**: an `Err` of the raw iterator (the list is cut off or
malformed) fails the conversion with that error as soon as it is reached; so does an index outside
`.debug_addr` and an address `convert_address` refuses. -/
theorem convert_errors (k : Kind) (c : Cfg) (ca : Nat → Option Addr) (ce : Bytes → CR WExpr)
    (addr : Bytes) (ab : Nat) (hb : Bool) :
    (∀ e rest, convertEntries k c ca ce addr ab hb (.error e :: rest) = .error (.read e)) ∧
    (∀ x rest er, convertEntry k c ca ce addr ab hb x = .error er →
      convertEntries k c ca ce addr ab hb (.item x :: rest) = .error er) ∧
    (∀ i e, getAddress c addr ab i = .err e →
      convertEntry k c ca ce addr ab hb (.baseAddressx i) = .error (.read e)) ∧
    (∀ a, ca a = none → convertEntry k c ca ce addr ab hb (.baseAddress a) = .error .invalidAddress) := by
  refine ⟨fun e rest => rfl, ?_, ?_, ?_⟩
  · intro x rest er h
    simp [convertEntries, h, bind, Except.bind]
  · intro i e h
    simp [convertEntry, unitAddress, h, liftRead, bind, Except.bind]
  · intro a h
    simp [convertEntry, convAddr, h, bind, Except.bind]

/-! ## non-vacuity -/

private def cfg4 : Cfg := { endian := .little, format := .dwarf32, version := 4, addrSize := 4 }
private def cfg5 : Cfg := { endian := .little, format := .dwarf32, version := 5, addrSize := 4 }
private def idc : Nat → Option Addr := fun a => some (.const a)
private def ceRaw : Bytes → CR WExpr := fun d => .ok [.raw d]

example : IdConv idc := fun _ => rfl
example : ∀ x ∈ [Entry.pair 0x10 0x20 [], .baseAddress 0x1000, .pair 1 1 [], .pair 3 9 []], RawFits cfg4 x := by decide
-- DWARF 4, low_pc = 0: address pair → StartEnd; after the base address entry → OffsetPair; the empty pair is dropped
example : convertEntries .rng cfg4 idc ceRaw [] 0 false
    ([Entry.pair 0x10 0x20 [], .baseAddress 0x1000, .pair 1 1 [], .pair 3 9 []].map .item) =
    .ok [.startEnd (.const 0x10) (.const 0x20) [], .baseAddress (.const 0x1000), .offsetPair 3 9 []] := by decide
-- DWARF 5 with indexed entries resolved through `.debug_addr` (two 4-byte slots), a failing index is an error
example : convertEntries .loc cfg5 idc ceRaw [0, 0x10, 0, 0, 0x40, 0x10, 0, 0] 0 true
    ([Entry.startxEndx 0 1 [0x50], .startxLength 1 0 [0x51], .defaultLocation [0x52]].map .item) =
    .ok [.startEnd (.const 0x1000) (.const 0x1040) [.raw [0x50]], .defaultLocation [.raw [0x52]]] := by decide
example : convertEntries .rng cfg5 idc ceRaw [0, 0x10, 0, 0] 0 false [.item (.baseAddressx 1)] =
    .error (.read .rUnexpectedEof) := by decide
example : convertEntries .rng cfg4 (fun _ => none) ceRaw [] 0 false [.item (.pair 1 2 [])] =
    .error .invalidAddress := by decide
example : convertEntries .rng cfg4 (fun a => some (.symbol 0 a)) ceRaw [] 0 true [.item (.pair 1 2 [])] =
    .error .invalidRangeRelativeAddress := by decide
example : ∀ d, gdata .loc ceRaw (dataBytes .loc cfg5 (fun _ => none) 0) d = d := by
  intro d; simp [gdata, convData, ceRaw, dataBytes, exprBytes, writeOps, writeOp]

end Gimli.Props.C12
