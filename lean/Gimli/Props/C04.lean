import Gimli.Lemmas.LineSeq
import Gimli.Lemmas.LineHeader
import Gimli.Lemmas.LineEncode
import Gimli.Lemmas.LineHeaderRt
import Gimli.Lemmas.LineHeaderV5
import Gimli.Lemmas.LineNext
/-!
# C04 — Line-number rows equal the DWARF state machine; sequences are consistent

Property theorems only (helper lemmas live in `Gimli/Lemmas/Line.lean`). Every theorem is about
the Model functions of `Gimli/Model/Line.lean` — the definitions the driver executes and the
correspondence run ties to `src/read/line.rs` — and the Spec of `Gimli/Spec/Line.lean` (the
DWARF §6.2 machine over unbounded integers).

Quantifiers: every header parameter tuple (`Params`, constrained only by what
`LineProgramHeader::parse` itself guarantees, `Params.Valid`), every byte string, every
instruction list, every register state.
-/
namespace Gimli.Props.C04
open Gimli Gimli.Line Gimli.Spec.Line

/-! ## "For any input whatsoever, row addresses never decrease within a sequence and never
exceed the address size" -/

/-- **Monotone on every input, as the caller sees it.** For every header and every byte string,
in what `next_row()` returns until `Ok(None)`: every returned row's address is at least the
address of the previous returned row of the same sequence and at most the all-ones value of the
address size, where a sequence ends exactly at a *returned* row with `end_sequence`. Errors
returned by `next_row` (the iteration goes on after an `execute` error) and rows swallowed as
tombstones do not break it. No hypothesis on the header at all.

Holds since the `fix:` for the end row of a partially tombstoned sequence (former finding C04-1:
before it a tombstoned `end_sequence` was swallowed together with its register reset, so the
caller saw addresses go backwards inside one sequence; the invariant that carries the proof is
"`in_sequence = false` ⇒ no row of the current sequence has been returned", so a swallowed
`end_sequence` can no longer follow a returned row). -/
theorem monotone_any_input (h : Params) (bs : Bytes) :
    MonoObserved h.addrSize 0 (run h bs) ∧ MonoObserved h.addrSize 0 (trace h bs) := by
  have ht : MonoObserved h.addrSize 0 (trace h bs) := by
    unfold trace
    apply traceLoop_mono
    · exact reset_endSequence h _
    · exact Nat.zero_le _
    · rw [reset_new]; simp [Row.new]
    · intro _; rfl
  exact ⟨monoObserved_filter _ _ 0 ht, ht⟩

/-- **Never beyond the address size**, unconditionally, for what the caller sees. -/
theorem address_bound_any_input (h : Params) (bs : Bytes) (r : Row) (hr : Ev.row r ∈ run h bs) :
    r.address ≤ onesSized h.addrSize :=
  row_bound_of_observed _ _ 0 (monotone_any_input h bs).1 r hr

/-- resuming a sequence is running its instructions, so the same holds for `resume_from` -/
theorem monotone_resume (h : Params) (s : Seq) : MonoObserved h.addrSize 0 (resume h s) :=
  (monotone_any_input h s.instructions).1

/-- a usual header: version 4, 8-byte addresses, line_base −5, line_range 14, opcode_base 13 -/
def hdr4 : Params where
  endian := .little
  format := .dwarf32
  version := 4
  addrSize := 8
  minInstLen := 1
  maxOps := 1
  defaultIsStmt := true
  lineBase := -5
  lineRange := 14
  opcodeBase := 13
  stdLens := [0, 1, 1, 1, 1, 0, 0, 0, 1, 0, 0, 1]

/-- a VLIW header: version 5, 4-byte addresses, min_inst_len 4, max_ops 3, opcode_base 10 -/
def hdrVliw : Params where
  endian := .big
  format := .dwarf64
  version := 5
  addrSize := 4
  minInstLen := 4
  maxOps := 3
  defaultIsStmt := false
  lineBase := -3
  lineRange := 12
  opcodeBase := 10
  stdLens := [0, 1, 1, 1, 1, 0, 0, 0, 1]

example : hdr4.Valid := by decide
example : hdrVliw.Valid := by decide

/-- regression witness of the repaired finding C04-1: `set_address 0x5000; copy; set_address 0`
(lower ⇒ tombstone)`; end_sequence; set_address 0x1000; copy; end_sequence`. The first sequence
now gets its end row, at the address where the tombstone started, so the caller receives
0x5000, 0x5000(end), 0x1000, 0x1000(end) — before the fix: 0x5000, 0x1000, 0x1000(end). -/
example : (run hdr4
      [0, 9, 2, 0, 0x50, 0, 0, 0, 0, 0, 0,  1,  0, 9, 2, 0, 0, 0, 0, 0, 0, 0, 0,  0, 1, 1,
       0, 9, 2, 0, 0x10, 0, 0, 0, 0, 0, 0,  1,  0, 1, 1]).map
      (fun e => match e with | .row r => (r.address, r.endSequence) | _ => (0, false)) =
    [(0x5000, false), (0x5000, true), (0x1000, false), (0x1000, true)] := by
  decide

/-- a sequence that is tombstoned from its start is still skipped entirely, end row included -/
example : (run hdr4
      [0, 9, 2, 0xff, 0xff, 0xff, 0xff, 0xff, 0xff, 0xff, 0xff,  1,  0, 1, 1,
       0, 9, 2, 0, 0x10, 0, 0, 0, 0, 0, 0,  1,  0, 1, 1]).map
      (fun e => match e with | .row r => (r.address, r.endSequence) | _ => (0, false)) =
    [(0x1000, false), (0x1000, true)] := by
  decide

/-! ## special opcodes: all 256 opcode values × all header parameters -/

/-- §6.2.5.1 read backwards: the opcode the standard prescribes for a desired line increment and
operation advance, `(line_increment − line_base) + line_range·operation_advance + opcode_base`,
is decoded by `exec_special_opcode`'s arithmetic into exactly that pair — for every header. -/
theorem special_opcode_inverse (h : Params) (lineInc : Int) (opAdv : Nat)
    (hlr : 0 < h.lineRange) (hlo : h.lineBase ≤ lineInc) (hhi : lineInc < h.lineBase + h.lineRange) :
    let opcode := (lineInc - h.lineBase).toNat + h.lineRange * opAdv + h.opcodeBase
    adjustOpcode h opcode / h.lineRange = opAdv ∧
    h.lineBase + ((adjustOpcode h opcode % h.lineRange : Nat) : Int) = lineInc := by
  intro opcode
  have hx : (lineInc - h.lineBase).toNat < h.lineRange := by omega
  have hadj : adjustOpcode h opcode = (lineInc - h.lineBase).toNat + h.lineRange * opAdv := by
    simp only [adjustOpcode, opcode]; omega
  rw [hadj, Nat.add_mul_div_left _ _ hlr, Nat.add_mul_mod_self_left, Nat.div_eq_of_lt hx,
    Nat.mod_eq_of_lt hx]
  omega

/-- **Every special opcode, every header, every state.** For all valid header parameters
(min_inst_len 1..255, max_ops 1..255, line_base −128..127, line_range 1..255, opcode_base 1..255,
address size 1/2/4/8), every opcode value `opcode_base ≤ opcode ≤ 255` and every register state
that is not tombstoned: `exec_special_opcode` adds `line_base + (adjusted mod line_range)` to the
line (clamped at 0, wrapping at 2^64 as the `u64` register does) and moves the operation pointer
by `adjusted / line_range` exactly as §6.2.5.1 says, or reports `AddressOverflow` — leaving the
address untouched — exactly when the new address does not fit the address size. -/
theorem special_opcode_table (h : Params) (hv : h.Valid) (opcode : Nat)
    (hop : h.opcodeBase ≤ opcode ∧ opcode ≤ 255) (row : Row) (hnt : row.tombstone = false)
    (hidx : row.opIndex < h.maxOps) (hl : row.line < 2 ^ 64) :
    let adjusted := opcode - h.opcodeBase
    let lineInc : Int := h.lineBase + ((adjusted % h.lineRange : Nat) : Int)
    let opAdv := adjusted / h.lineRange
    let newLine : Int := (row.line : Int) + lineInc
    let line' := if newLine < 0 then 0 else newLine.toNat % 2 ^ 64
    let address' := row.address + h.minInstLen * ((row.opIndex + opAdv) / h.maxOps)
    let opIndex' := (row.opIndex + opAdv) % h.maxOps
    execSpecial h row opcode =
      if address' ≤ onesSized h.addrSize then
        ({ row with line := line', opIndex := opIndex', address := address' }, none)
      else ({ row with line := line', opIndex := opIndex' }, some .rAddressOverflow) := by
  intro adjusted lineInc opAdv newLine line' address' opIndex'
  obtain ⟨_, _, hsz, hmin1, hmin2, hmax1, hmax2, hlb1, hlb2, hlr1, hlr2, hob1, hob2, _, _⟩ := hv
  have hadv : opAdv ≤ 255 := by
    have : adjusted / h.lineRange ≤ adjusted := Nat.div_le_self _ _
    omega
  have hq : (row.opIndex + opAdv) / h.maxOps ≤ 510 := by
    have : (row.opIndex + opAdv) / h.maxOps ≤ row.opIndex + opAdv := Nat.div_le_self _ _
    omega
  have hprod : h.minInstLen * ((row.opIndex + opAdv) / h.maxOps) ≤ 255 * 510 :=
    Nat.mul_le_mul hmin2 hq
  have hA := applyLineAdvance_eq row lineInc hl
  show applyOperationAdvance h (applyLineAdvance row lineInc) opAdv = _
  rw [hA]
  exact applyOperationAdvance_eq h { row with line := line' } opAdv hnt (by omega) hmax1 hidx
    (by simp only; omega) (by simp only; omega)

/-- under the well-formedness conditions (the new line stays in `0 .. 2^64`, the new address fits)
this is literally the Spec's special-opcode equation of §6.2.5.1 -/
theorem special_opcode_refines (h : Params) (hv : h.Valid) (opcode : Nat) (r : Regs)
    (hidx : r.opIndex < h.maxOps) (hr : RegsOk h r = true)
    (hop : InstrOk h (.special opcode) = true)
    (hr' : RegsOk h (step h r (.special opcode)).1 = true) :
    execute h (toRow r) (.special opcode) = (toRow (step h r (.special opcode)).1, .emit) :=
  (execute_spec h hv r (.special opcode) hidx hr hop rfl hr').1

/-! ## "for every well-formed line-number program the emitted rows are exactly those of the DWARF
line-number state machine" -/

/-- **Rows refine the Spec.** For every valid header and every byte string that the instruction
decoder (`LineInstruction::parse`, iterated) decodes completely into a program `prog` that is
well-formed (`WF`: operands encodable, no register leaves its width, the line never goes below 0,
`set_address` never goes backwards inside a sequence and is not a tombstone), what the caller
receives from `next_row()` is exactly the matrix of the DWARF §6.2 machine, row by row, register by
register, with no error and nothing swallowed. Covers min_inst_len/max_ops 1..255 (VLIW `op_index`
arithmetic), line_base −128..127, line_range 1..255, opcode_base 1..255 with arbitrary
`standard_opcode_lengths`, unknown standard/extended opcodes, address sizes 1/2/4/8. -/
theorem rows_refine (h : Params) (hv : h.Valid) (bs : Bytes) (prog : List Instr)
    (hdec : decodeAll h (bs.length + 1) bs = .ok prog) (hwf : WF h prog = true) :
    run h bs = (rows h prog).map (fun r => Ev.row (toRow r)) ∧
    trace h bs = (rows h prog).map (fun r => Ev.row (toRow r)) := by
  have htrace : trace h bs = (rows h prog).map (fun r => Ev.row (toRow r)) := by
    unfold trace
    rw [traceLoop_decodeAll h _ _ _ _ _ hdec, reset_new]
    have hinit : Row.new h = toRow (init h) := by simp [Row.new, toRow, init]
    have hmax1 : 1 ≤ h.maxOps := hv.2.2.2.2.2.1
    rw [hinit, traceInstrs_spec h hv prog (init h) false (by simp [init]; omega)
      (by rw [regsOk_iff]; simp [init]; exact Nat.two_pow_pos _) hwf]
    rfl
  refine ⟨?_, htrace⟩
  unfold run
  rw [htrace]
  simp only [List.filter_map, Ev.visible, Function.comp_def]
  congr 1
  exact List.filter_eq_self.mpr (fun _ _ => rfl)

/-- … and the file table: the entries `DW_LNE_define_file` appends while the program runs are
exactly the Spec's, in order -/
theorem files_refine (h : Params) (bs : Bytes) (prog : List Instr)
    (hdec : decodeAll h (bs.length + 1) bs = .ok prog) :
    Line.definedFiles h (bs.length + 1) bs = Spec.Line.definedFiles prog :=
  definedFiles_decodeAll h _ bs prog hdec

/-! ### non-vacuity of `rows_refine`: concrete programs that decode, are well-formed, and whose
matrix is what one computes by hand from §6.2 -/

def prog4 : List Instr :=
  [.setAddress 0x1000, .copy, .special 0x4b, .advancePc 3, .advanceLine 10, .setColumn 7,
   .special 0xf1, .constAddPc, .fixedAddPc 0x100, .setDiscriminator 5, .copy, .endSequence,
   .setAddress 0x2000, .special 20, .endSequence]

def bytes4 : Bytes :=
  [0, 9, 2, 0, 0x10, 0, 0, 0, 0, 0, 0,  1,  0x4b,  2, 3,  3, 10,  5, 7,  0xf1,  8,  9, 0, 1,
   0, 2, 4, 5,  1,  0, 1, 1,  0, 9, 2, 0, 0x20, 0, 0, 0, 0, 0, 0,  20,  0, 1, 1]

example : decodeAll hdr4 (bytes4.length + 1) bytes4 = .ok prog4 := by decide
example : WF hdr4 prog4 = true := by decide
example : encodeProg hdr4 prog4 = bytes4 := by decide
example : (rows hdr4 prog4).map (fun r => (r.address, r.line, r.endSequence)) =
    [(0x1000, 1, false), (0x1004, 2, false), (0x1017, 11, false), (0x1128, 11, false),
     (0x1128, 11, true), (0x2000, 3, false), (0x2000, 3, true)] := by decide

/-- VLIW: min_inst_len 4, max_ops 3, opcode_base 10, big-endian 4-byte addresses, an unknown
extended opcode in the middle -/
def progV : List Instr :=
  [.setAddress 0x100, .special 100, .special 255, .advancePc 7, .copy,
   .unknownExtended 0x80 [1, 2, 3], .constAddPc, .special 10, .endSequence]

def bytesV : Bytes :=
  [0, 5, 2, 0, 0, 1, 0,  100,  255,  2, 7,  1,  0, 4, 128, 1, 2, 3,  8,  10,  0, 1, 1]

example : decodeAll hdrVliw (bytesV.length + 1) bytesV = .ok progV := by decide
example : WF hdrVliw progV = true := by decide
example : (rows hdrVliw progV).map (fun r => (r.address, r.opIndex, r.line, r.endSequence)) =
    [(264, 1, 4, false), (292, 0, 6, false), (300, 1, 6, false), (328, 0, 3, false),
     (328, 0, 3, true)] := by decide
example : run hdrVliw bytesV = (rows hdrVliw progV).map (fun r => Ev.row (toRow r)) :=
  (rows_refine hdrVliw (by decide) bytesV progV (by decide) (by decide)).1

/-- **decode ∘ encode = id**: the decoder (`LineInstruction::parse`) inverts the §6.2.5 encoding
of every instruction the header can express (`EncOk`: the opcode number is below `opcode_base` for
standard opcodes, at or above it for special ones; operands fit; unknown standard opcodes carry the
announced number of ULEB operands; extended opcodes of any length), whatever follows — standard,
special, extended, unknown standard (0/1/N operands) and unknown extended opcodes, including
`DW_LNS_advance_line` with every `i64` (signed LEB128 round trip, `Leb.signed_roundtrip`). -/
theorem decode_encode (h : Params) (hv : h.Valid) (i : Instr) (hok : EncOk h i) (rest : Bytes) :
    parseInstr h (encodeInstr h i ++ rest) = .ok (i, rest) :=
  parseInstr_encode h hv i hok rest

/-- **Rows refine the Spec, from the abstract program.** For every valid header and every
instruction list that is expressible (`EncOk`) and well-formed (`WF`), running the implementation's
model over the §6.2.5 *encoding* of the program yields exactly the rows of the §6.2 machine. -/
theorem rows_refine_encoded (h : Params) (hv : h.Valid) (prog : List Instr)
    (henc : ∀ i ∈ prog, EncOk h i) (hwf : WF h prog = true) :
    run h (encodeProg h prog) = (rows h prog).map (fun r => Ev.row (toRow r)) := by
  refine (rows_refine h hv _ prog ?_ hwf).1
  exact decodeAll_encodeProg h hv prog henc _ (by have := encodeProg_length h prog; omega)

example : ∀ i ∈ prog4, EncOk hdr4 i := by decide
example : ∀ i ∈ progV, EncOk hdrVliw i := by decide

/-! ## "Splitting a program into sequences and resuming any sequence yields exactly the rows a
straight run yields for it, and each sequence's reported address bounds are its first and end
addresses" -/

/-- **Sequences and resume, every input.** Whenever `sequences()` succeeds (for any header, any
bytes): the straight run `rows()` is exactly the concatenation, in order, of what
`resume_from(s)` yields for each reported sequence `s`, followed by trailing rows that do not end
a sequence (and belong to none); resuming a sequence yields only rows (no error), exactly one of
them — the last — with `end_sequence`; and `s.end` is that row's address. -/
theorem sequences_resume (h : Params) (bs : Bytes) (seqs : List Seq)
    (hs : sequences h bs = .ok seqs) :
    ∃ tail : List Row,
      run h bs = seqs.flatMap (resume h) ++ tail.map Ev.row ∧
      (∀ r ∈ tail, r.endSequence = false) ∧
      ∀ s ∈ seqs, ∃ (rows : List Row) (last : Row),
        resume h s = rows.map Ev.row ++ [Ev.row last] ∧ last.endSequence = true ∧
        (∀ r ∈ rows, r.endSequence = false) ∧ s.end = last.address := by
  obtain ⟨tail, h1, h2, h3⟩ := sequences_spec h bs seqs hs
  refine ⟨tail, h1, h2, fun s hs' => ?_⟩
  obtain ⟨rows, last, a, b, c, d, _⟩ := h3 s hs'
  exact ⟨rows, last, a, b, c, d⟩

/-- **Reported bounds, every input.** For every sequence `sequences()` reports, `start` is the
address of the first row `resume_from` yields for it — the end row itself when the sequence has
no other row (holds since the `fix:` for `LineSequence::start`, former finding C04-2; before it
such a sequence was reported with `start = 0`) — and `end` is the address of its last row, the
`end_sequence` row. -/
theorem sequences_start (h : Params) (bs : Bytes) (seqs : List Seq)
    (hs : sequences h bs = .ok seqs) (s : Seq) (hmem : s ∈ seqs) :
    ∃ first last : Row, (resume h s).head? = some (Ev.row first) ∧
      (resume h s).getLast? = some (Ev.row last) ∧ last.endSequence = true ∧
      s.start = first.address ∧ s.end = last.address := by
  obtain ⟨_, _, _, h3⟩ := sequences_spec h bs seqs hs
  obtain ⟨rows, last, a, b, _, d, e⟩ := h3 s hmem
  cases rows with
  | nil => exact ⟨last, last, by rw [a]; simp, by rw [a]; simp, b, e, d⟩
  | cons r rs =>
    refine ⟨r, last, by rw [a]; simp, ?_, b, e, d⟩
    rw [a, List.getLast?_append]
    simp

/-- regression witness of the repaired finding C04-2: `set_address 0x1000; end_sequence` is the
empty sequence at 0x1000 -/
example : sequences hdr4 [0, 9, 2, 0, 0x10, 0, 0, 0, 0, 0, 0,  0, 1, 1] =
    .ok [{ start := 0x1000, «end» := 0x1000,
           instructions := [0, 9, 2, 0, 0x10, 0, 0, 0, 0, 0, 0,  0, 1, 1] }] := by
  decide

/-- **Ordered bounds, every input**: `start ≤ end` for every sequence `sequences()` reports, and
every row the sequence yields lies in `start ..= end` (holds since the `fix:` for the end row of a
partially tombstoned sequence, former finding C04-1, which was the only way to get
`start > end`). -/
theorem sequences_ordered (h : Params) (bs : Bytes) (seqs : List Seq)
    (hs : sequences h bs = .ok seqs) (s : Seq) (hmem : s ∈ seqs) :
    s.start ≤ s.end ∧ ∀ r, Ev.row r ∈ resume h s → s.start ≤ r.address ∧ r.address ≤ s.end := by
  obtain ⟨_, _, _, h3⟩ := sequences_spec h bs seqs hs
  obtain ⟨rows, last, a, _, c, d, e⟩ := h3 s hmem
  have hm := monotone_resume h s
  rw [a] at hm
  obtain ⟨h1, h2⟩ := monoObserved_last _ rows last 0 c hm
  have hfirst := monoObserved_first _ rows last 0 c hm
  rw [d, e, a]
  cases rows with
  | nil =>
    refine ⟨Nat.le_refl _, fun r hr => ?_⟩
    simp at hr; subst hr; exact ⟨Nat.le_refl _, Nat.le_refl _⟩
  | cons r0 rs =>
    refine ⟨h2 r0 List.mem_cons_self, fun r hr => ?_⟩
    simp only [List.map_cons, List.cons_append, List.mem_cons, Ev.row.injEq, List.mem_append,
      List.mem_map, List.mem_singleton, List.not_mem_nil, or_false] at hr
    rcases hr with rfl | ⟨x, hx, rfl⟩ | rfl
    · exact ⟨Nat.le_refl _, h2 _ List.mem_cons_self⟩
    · exact ⟨hfirst.1 x hx, h2 x (List.mem_cons_of_mem _ hx)⟩
    · exact ⟨h2 r0 List.mem_cons_self, Nat.le_refl _⟩

/-- non-vacuity: a program with two sequences and trailing rows -/
example : (sequences hdr4 (bytes4 ++ [1, 1])).map (fun ss => ss.map (fun s => (s.start, s.end))) =
    .ok [(0x1000, 0x1128), (0x2000, 0x2000)] := by decide

/-! ## termination / totality of everything modelled -/

/-- **`next_row()` terminates and the decoder never panics**: on every input the trace contains
no `stuck` (fuel exhausted / decoder panic) — the fuel `length + 1` always suffices because every
instruction consumes at least one byte. -/
theorem run_total (h : Params) (bs : Bytes) : Ev.stuck ∉ trace h bs ∧ Ev.stuck ∉ run h bs := by
  have h1 : Ev.stuck ∉ trace h bs := traceLoop_not_stuck h _ _ _ bs (by omega)
  exact ⟨h1, fun hm => h1 (List.mem_filter.mp hm).1⟩

/-- **The trace is the API**: a caller that constructs `LineRows` (registers `LineRow::new`) and
calls `next_row()` until it returns `Ok(None)` receives, call by call, exactly `run h bs` — the
list all theorems above are about (`nextRow` mirrors one call: reset, then the loop with tombstone
suppression; a parse error empties the input; an `execute` error is returned and the next call
goes on). -/
theorem next_row_iteration (h : Params) (bs : Bytes) :
    collect h (bs.length + 1) (Row.new h) false bs = run h bs :=
  collect_eq_run h _ _ _ bs (by omega)

/-- `LineInstruction::parse` returns an instruction or an error on every input and header, and a
successful parse consumes at least one byte and does not depend on what follows the instruction -/
theorem decode_total (h : Params) (input : Bytes) :
    (parseInstr h input).Normal ∧
    ∀ ins rest, parseInstr h input = .ok (ins, rest) →
      rest.length < input.length ∧
      ∃ pre, input = pre ++ rest ∧ ∀ rest', parseInstr h (pre ++ rest') = .ok (ins, rest') := by
  refine ⟨parseInstr_normal h input, fun ins rest hp => ⟨parseInstr_consumes h input ins rest hp, ?_⟩⟩
  obtain ⟨pre, a, _, b⟩ := parseInstr_local h input ins rest hp
  exact ⟨pre, a, b⟩

/-- `sequences()` returns the list or an error on every input (never panics, always terminates) -/
theorem sequences_total (h : Params) (bs : Bytes) : (sequences h bs).Normal :=
  seqLoop_normal h _ _ _ bs bs none [] (by omega)

/-! ## the header -/

/-- **Accepted headers are valid**: whatever `LineProgramHeader::parse` accepts (versions 2–5,
either format, any bytes) has min_inst_len, max_ops, line_range, opcode_base in 1..255, line_base
in −128..127, version in 2..5, `standard_opcode_lengths` of length opcode_base − 1, max_ops = 1
before version 4, and a supported address size (its own for version 5, the caller's before). So
the hypothesis `h.Valid` of the theorems above is exactly "the header was parsed". -/
theorem header_valid (e : Endian) (asz : Nat) (cd cn : Option Bytes) (input : Bytes) (hd : Header)
    (hasz : asz = 1 ∨ asz = 2 ∨ asz = 4 ∨ asz = 8)
    (hp : parseHeader e asz cd cn input = .ok hd) : hd.p.Valid :=
  (parseHeader_valid e asz cd cn input hd hasz hp).1

/-- `DebugLine::program` / `LineProgramHeader::parse` return a header or an error on every input
(versions 2–5 incl. the v5 entry-format tables): no panic — the two `path_name.unwrap()` are safe
because a format without exactly one `DW_LNCT_path` is rejected — and no non-termination. -/
theorem header_total (e : Endian) (sec : Bytes) (off asz : Nat) (cd cn : Option Bytes) :
    (program e sec off asz cd cn).Normal :=
  program_normal e sec off asz cd cn

/-- **Header round trip, versions 2–4.** For every well-formed abstract header
(`HeaderV4.WF`: valid parameters, non-empty NUL-free directory and file names, `u64` file
attributes, lengths that fit their fields), either format, either byte order, any
`standard_opcode_lengths`: parsing its §6.2.4 encoding (followed by anything) returns exactly its
parameters, its include directories, its file table (name, directory index, time, size), its
program bytes, and the caller's `comp_dir`/`comp_name` as directory 0 / file 0. (Version 5:
`header_roundtrip_v5`.) -/
theorem header_roundtrip (hs : HeaderV4) (hwf : hs.WF) (cd cn : Option Bytes)
    (bytes trailing : Bytes) (henc : encodeHeaderV4 hs = .ok bytes) :
    parseHeader hs.p.endian hs.p.addrSize cd cn (bytes ++ trailing) = .ok (hs.expected cd cn) :=
  parseHeader_encodeV4 hs hwf cd cn bytes trailing henc

/-- and the table lookups on what was read back: directory/file index 0 is the compilation
directory / primary file, index `i ≥ 1` the `i`-th entry (versions 2–4) -/
theorem header_lookup_v4 (hs : HeaderV4) (cd cn : Option Bytes) (hver : hs.p.version ≤ 4) (i : Nat) :
    (hs.expected cd cn).directory 0 = cd.map .string ∧
    (hs.expected cd cn).directory (i + 1) = (hs.dirs.map AttrVal.string)[i]? ∧
    ((hs.expected cd cn).file 0).map (·.path) = cn.map .string ∧
    (hs.expected cd cn).file (i + 1) = (hs.expected cd cn).files[i]? := by
  simp [Header.directory, Header.file, HeaderV4.expected, hver]
  cases cn <;> simp

/-- non-vacuity: a version-3, 64-bit-format, big-endian header with two directories and two files -/
def hdrEx : HeaderV4 where
  p := { hdr4 with endian := .big, format := .dwarf64, version := 3, addrSize := 4 }
  dirs := [[0x2f, 0x61], [0x62]]
  files := [([0x78, 0x2e, 0x63], 1, 0, 0), ([0x79], 2, 0x1234, 300)]
  program := [0, 1, 1]

example : hdrEx.WF := by decide
example : (encodeHeaderV4 hdrEx).isOk = true := by decide

/-- **Header round trip, version 5.** For every well-formed abstract version-5 header
(`HeaderV5.WF`: valid parameters; `directory_entry_format` and `file_name_entry_format` with up to
255 fields, any content types that fit `u16` — known, unknown, vendor —, exactly one
`DW_LNCT_path`; any number of entries, each written field by field in the announced form, over
*all* forms the line reader accepts: block1/2/4/block, data1/2/4/8/16, udata, sdata, flag,
sec_offset, string, strp, strp_sup, GNU_strp_alt, line_strp, strx, GNU_str_index, strx1–4; either
format and byte order): parsing the §6.2.4 encoding returns exactly the parameters (address size
from the header itself), both format tables, the directory of every entry (its `DW_LNCT_path`
value), the file of every entry (fields applied left to right: path, directory index, timestamp,
size, MD5, source; unknown content types skipped) and the program bytes; `comp_dir`/`comp_name`
are ignored. The field semantics (`FileAcc.update`) is shared between Model and Spec; what the
theorem adds is that the byte-level decoding of formats, counts and every form is exact. -/
theorem header_roundtrip_v5 (hs : HeaderV5) (hwf : hs.WF) (asz : Nat) (cd cn : Option Bytes)
    (bytes trailing : Bytes) (henc : encodeHeaderV5 hs = .ok bytes) :
    parseHeader hs.p.endian asz cd cn (bytes ++ trailing) = .ok hs.expected :=
  parseHeader_encodeV5 hs hwf asz cd cn bytes trailing henc

/-- non-vacuity: directories (path as `line_strp`, plus an unknown vendor content type as `udata`),
files with path/`string`, directory index/`udata`, MD5/`data16`, size/`data2`, timestamp/`sdata` -/
def hdrEx5 : HeaderV5 where
  p := hdrVliw
  dirFormat := [(0x2002, 0x0f), (1, 0x1f)]
  dirs := [[.udata 7, .lineStrp 0], [.udata 300, .lineStrp 0x1234]]
  fileFormat := [(1, 0x08), (2, 0x0f), (5, 0x1e), (4, 0x05), (3, 0x0d)]
  files := [[.string [0x61, 0x2e, 0x63], .udata 1, .data16 (List.replicate 16 0xab), .data2 515, .sdata 99],
            [.string [0x62], .udata 0, .data16 (List.replicate 16 1), .data2 0, .sdata (-1)]]
  program := [0, 1, 1]

example : hdrEx5.WF := by decide +kernel
example : hdrEx5.expected.files.map (fun f => (f.dirIndex, f.size, f.timestamp)) = [(1, 515, 99), (0, 0, 0)] := by
  decide +kernel

end Gimli.Props.C04
