import Gimli.Model.Line
import Gimli.Spec.Line
/-! # C04 (work in progress) -/
namespace Gimli.Props.C04
open Gimli Gimli.Line

theorem reset_new (h : Params) : reset h (Row.new h) = Row.new h := by
  simp [reset, Row.new]

end Gimli.Props.C04
