import Gimli.Lemmas.Die
import Gimli.Lemmas.DieForest
import Gimli.Lemmas.Abbrev
import Gimli.Lemmas.UnitHeader
import Gimli.Lemmas.DieSibling
import Gimli.Lemmas.DieTree
import Gimli.Lemmas.DieTotal
import Gimli.Lemmas.AbbrevTable
import Gimli.Props.C03
/-!
# C02 — The DIE forest is reported exactly as encoded, by every navigation API

Property theorems only (helper lemmas: `Gimli/Lemmas/{Die,DieForest,Abbrev}.lean`). The Model
functions (`Gimli/Model/{Die,Abbrev}.lean`) mirror `src/read/unit.rs` and `src/read/abbrev.rs`
and are tied to them by the correspondence run on every check.

Vocabulary. `Spec.Forest` is the abstract forest, `Forest.encodeUnit f pad` the DWARF encoding
of its entries followed by `pad` null bytes, `Forest.listingUnit off f pad` the exact list of
(unit offset, depth, tag, children flag) — null entries included — that a faithful reader reports
when the body starts at unit offset `off`. `ForestOK ctx f` says that the unit's abbreviation
table (`ctx.abbrevs`) resolves every entry's code to a declaration with that entry's tag and
children flag and that the entry's attribute bytes are an encoding of the declared attributes
(which is what C03 provides); it is the well-formedness hypothesis, for *any* abbreviation-code
assignment, forest shape, attribute content and encoding parameters.
-/
namespace Gimli.Props.C02
open Gimli Gimli.Attr Gimli.Abbrev Gimli.Die Gimli.Spec Gimli.Spec.Forest Gimli.Spec.Unit Gimli.Spec.AbbrevTable

/-! ## (0) well-formedness comes from the spec encoders -/

/-- An entry whose attribute bytes are the DWARF encoding (`Spec.Attr.encodeAttrs`, C03) of some
payloads for the attributes its abbreviation declares is readable (`NodeOK`): the hypothesis of
the theorems below is met by everything a producer writes according to the spec. -/
theorem node_ok_of_encoded (ctx : Ctx) (d : Node) (a : Abbreviation) (ps : List Payload)
    (hc0 : d.code ≠ 0) (hc64 : d.code < 2 ^ 64) (ht0 : d.tag ≠ 0)
    (hget : ctx.abbrevs.get d.code = some a) (htag : a.tag = d.tag) (hch : a.hasChildren = d.children)
    (hlen : ps.length = a.attrs.length)
    (henc : Spec.Attr.encodeAttrs ctx.enc (a.attrs.zip ps) = some d.attrBytes)
    (himp : ∀ sp ∈ a.attrs.zip ps, sp.1.form = .implicitConst → sp.2 = .int sp.1.implicitConst) :
    NodeOK ctx d := by
  refine ⟨hc0, hc64, ht0, a, hget, htag, hch,
    (a.attrs.zip ps).map (fun sp => ⟨Spec.Attr.rawKind ctx.enc sp.1.name sp.1.form, sp.2⟩), fun rest => ?_⟩
  have h := C03.read_attributes_roundtrip ctx.enc (a.attrs.zip ps) d.attrBytes rest henc himp
  rw [List.map_fst_zip (by omega)] at h
  exact h

/-! ## (1) raw entry reading reports exactly the depth-first listing -/

/-- **`raw_is_dfs`.** Reading the body of a well-formed unit entry by entry
(`while !entries.is_empty() { entries.read_entry(..)? }`) yields exactly the depth-first list of
(offset, depth, tag, children flag) of the encoded forest, null entries and trailing padding
included, and then ends normally — for every forest, padding, start offset and any fuel of at
least `length + 1` (so the loop bound is never hit). -/
theorem raw_is_dfs (ctx : Ctx) (f : Forest) (hok : ForestOK ctx f) (pad off fuel : Nat)
    (hfuel : (encodeUnit f pad).length + 1 ≤ fuel) :
    ∃ es, es.map Entry.item = listingUnit off f pad ∧
      rawAll ctx fuel (Raw.new (encodeUnit f pad) off) = (es, .ok ()) :=
  rawAll_unit ctx f hok pad off fuel hfuel

/-- the same inside any surrounding input: a forest is read as its listing and the reader is
left exactly behind it, at the same depth (this is the induction that carries everything else) -/
theorem raw_is_dfs_prefix (ctx : Ctx) (f : Forest) (hok : ForestOK ctx f) (k off : Nat) (depth : Int)
    (rest : Bytes) :
    ∃ es, es.map Entry.item = listing off depth f ∧
      rawAll ctx (count f + k) ⟨encode f ++ rest, off + (encode f ++ rest).length, depth⟩ =
        (es ++ (rawAll ctx k ⟨rest, off + (encode f ++ rest).length, depth⟩).1,
          (rawAll ctx k ⟨rest, off + (encode f ++ rest).length, depth⟩).2) :=
  rawAll_forest ctx f hok k off depth rest

/-- `read_abbreviation` + `skip_attributes` (the other documented way to use `EntriesRaw`)
reports the same entries at the same offsets and depths — by C03's `skip_eq_read`. Holds for
every input on which the reading loop ends normally, well formed or not. -/
theorem rawskip_eq (ctx : Ctx) (n : Nat) (r : Raw) (es : List Entry)
    (h : rawAll ctx n r = (es, .ok ())) :
    rawSkipAll ctx n r = (es.map Entry.strip, .ok ()) :=
  rawSkipAll_of_rawAll ctx n r es h

/-! ## (2) the cursor styles report the same forest -/

/-- `EntriesCursor::next_entry` in a loop is the raw loop: identical entries, offsets, depths and
ending — for every input and fuel. -/
theorem entry_cursor_eq (ctx : Ctx) (fuel : Nat) (c : Cursor) :
    entryAll ctx fuel c = rawAll ctx fuel c.raw :=
  entryAll_eq_rawAll ctx fuel c

/-- **`dfs_cursor_eq`.** `EntriesCursor::next_dfs` in a loop reports exactly the raw listing
without its null entries, and ends the same way (normally or with the same error) — for every
input, well formed or not. -/
theorem dfs_cursor_eq (ctx : Ctx) (n : Nat) (r : Raw) (es : List Entry) (en : Out Unit)
    (h : rawAll ctx n r = (es, en)) (hd : en ≠ .diverge) (m : Nat) (cur : Entry) (hm : n ≤ m) :
    dfsAll ctx m ⟨r, cur⟩ = (es.filter (fun e => !e.isNull), en) :=
  dfsAll_of_rawAll ctx n r es en h hd m cur hm

/-- … hence on a well-formed unit: the non-null items of the depth-first listing, in order -/
theorem dfs_cursor_forest (ctx : Ctx) (f : Forest) (hok : ForestOK ctx f) (pad off fuel : Nat)
    (hfuel : (encodeUnit f pad).length + 1 ≤ fuel) :
    ∃ es, es.map Entry.item = (listingUnit off f pad).filter (fun i => !i.isNull) ∧
      dfsAll ctx fuel (Cursor.new (encodeUnit f pad) off) = (es, .ok ()) := by
  obtain ⟨es, hl, hr⟩ := rawAll_unit ctx f hok pad off fuel hfuel
  refine ⟨es.filter (fun e => !e.isNull), ?_, ?_⟩
  · rw [← hl, List.filter_map]
    rfl
  · exact dfsAll_of_rawAll ctx fuel _ es _ hr (by simp) fuel _ (Nat.le_refl _)

/-- **`sibling_eq`.** Walking a well-formed unit with `next_entry` (to step into a child list) and
`next_sibling` (to iterate it), recursively, visits exactly the non-null entries of the
depth-first listing in order, with the same offsets, depths, tags and children flags — whether
entries carry no `DW_AT_sibling` attribute, a correct one (pointing just behind the entry's
subtree), or a mixture (`SibOK`: for every entry with the children flag the fast-path target is
absent or correct). In particular the fast path only jumps forward and keeps the depth. -/
theorem sibling_eq (ctx : Ctx) (f : Forest) (hok : ForestOK ctx f) (pad off : Nat)
    (hsib : SibOK ctx off f) (fuel : Nat) (hfuel : count f < fuel) :
    ∃ es, es.map Entry.item = (listingUnit off f pad).filter (fun i => !i.isNull) ∧
      siblingAll ctx fuel (Cursor.new (encodeUnit f pad) off) = (es, .ok ()) :=
  siblingAll_unit ctx f hok pad off hsib fuel hfuel

/-- the single step behind it: from any entry, `next_sibling` ends on that entry's next sibling —
or on no entry when it was the last of its list — with or without the fast path -/
theorem next_sibling_step (ctx : Ctx) (d : Node) (kids sibs : Forest) (hok : ForestOK ctx (.node d kids sibs))
    (off : Nat) (hsib : SibOK ctx off (.node d kids sibs)) (D : Int) (tail : Bytes)
    (htail : tail = [] ∨ ∃ t, tail = 0 :: t) (c : Cursor) (hc : PosAt ctx c off D tail (.node d kids sibs)) :
    ∃ c', PosAt ctx c' (if d.children then off + (headBytes d).length + (encode kids).length + 1
                        else off + (headBytes d).length) D tail sibs ∧
      c.nextSibling ctx = .ok (c'.current, c') :=
  nextSibling_posAt ctx d kids sibs hok off hsib D tail htail c hc

/-- **`tree_eq`.** `entries_tree(None)?.root()` followed by the complete recursion over
`children()` reports the root entry and then exactly its descendants in depth-first order, with
their offsets, depths, tags and children flags: the tree view reproduces the encoded tree
(whatever follows the root's subtree in the unit). -/
theorem tree_eq (ctx : Ctx) (d : Node) (kids sibs : Forest) (hok : ForestOK ctx (.node d kids sibs))
    (tail : Bytes) (off fuel : Nat) (hfuel : count kids + 1 < fuel) :
    ∃ es, es.map Entry.item =
        ⟨off, 0, d.tag, d.children⟩ ::
          (if d.children then (listing (off + (headBytes d).length) 1 kids).filter (fun i => !i.isNull) else []) ∧
      treeAll ctx fuel (Tree.new (encode (.node d kids sibs) ++ tail) off) = (es, .ok ()) :=
  treeAll_unit ctx d kids sibs hok tail off fuel hfuel

/-- **`tree_next_skips_subtree`**: the tree's `DW_AT_sibling` fast path. When the caller did not
iterate (all of) an entry's children and asks the parent's iterator for the next child,
`EntriesTree::next` passes over the rest of the subtree — by reading it, or by jumping through a
usable `DW_AT_sibling` — and ends on the entry's next sibling (`true`) or on the end of the
list (`false`), at the same depth. (`TagsOK`: no declaration has the null tag, which
`Abbreviation::parse` guarantees.) -/
theorem tree_next_skips_subtree (ctx : Ctx) (htags : TagsOK ctx) (d : Node) (kids sibs : Forest)
    (hok : ForestOK ctx (.node d kids sibs)) (off : Nat) (hsib : SibOK ctx off (.node d kids sibs)) (D : Int)
    (tail : Bytes) (htail : tail = [] ∨ ∃ t, tail = 0 :: t) (t : Tree)
    (hc : PosAt ctx ⟨t.raw, t.entry⟩ off D tail (.node d kids sibs)) :
    ∃ c', PosAt ctx c' (if d.children then off + (headBytes d).length + (encode kids).length + 1
                        else off + (headBytes d).length) D tail sibs ∧
      t.next ctx D = .ok (c'.current.isSome, Tree.mk t.root c'.raw c'.cur) :=
  treeNext_skips_subtree ctx htags d kids sibs hok off hsib D tail htail t hc

/-- the children iterator at any level: a complete traversal of a child list reports exactly its
entries and leaves the tree on the list's terminating null entry -/
theorem tree_children_eq (ctx : Ctx) (g : Forest) (hok : ForestOK ctx g) (off : Nat) (D : Int) (rest : Bytes)
    (t : Tree) (hraw : t.raw = ⟨encode g ++ 0 :: rest, off + (encode g ++ 0 :: rest).length, D⟩)
    (hm : TreeMode t D) (fuel : Nat) (hf : count g < fuel) :
    ∃ es, es.map Entry.item = (listing off D g).filter (fun i => !i.isNull) ∧
      treeChildren ctx fuel t D =
        ((es, .ok ()), Tree.mk t.root ⟨rest, off + (encode g ++ 0 :: rest).length, D - 1⟩
          ⟨off + (encode g).length, D, 0, false, []⟩) :=
  treeChildren_forest ctx g hok off D rest t hraw hm fuel hf

/-! ## (3) positioned reads -/

/-- **`entry_at_offset_eq`.** `UnitHeader::entry(abbrevs, offset)` at the offset of any entry of
the listing returns that entry (its tag and children flag, depth 0 as documented); at the
offset of a null entry it returns `NoEntryAtGivenOffset`. -/
theorem entry_at_offset_eq (ctx : Ctx) (h : UnitHeader) (f : Forest) (pad : Nat) (hok : ForestOK ctx f)
    (hbuf : h.entriesBuf = encodeUnit f pad) (i : Item) (hi : i ∈ listingUnit h.headerSize f pad) :
    (i.tag = 0 → h.entry ctx i.offset = .err .rNoEntryAtGivenOffset) ∧
    (i.tag ≠ 0 → ∃ e, h.entry ctx i.offset = .ok e ∧ e.item = ⟨i.offset, 0, i.tag, i.children⟩) :=
  entry_at_item ctx h f pad hok hbuf i hi

/-- the same through `entries_tree(abbrevs, Some(offset))?.root()` -/
theorem tree_root_at_offset_eq (ctx : Ctx) (h : UnitHeader) (f : Forest) (pad : Nat) (hok : ForestOK ctx f)
    (hbuf : h.entriesBuf = encodeUnit f pad) (i : Item) (hi : i ∈ listingUnit h.headerSize f pad) :
    (i.tag = 0 → (h.entriesTree i.offset >>= fun t => t.rootNode ctx) = .err .rNoEntryAtGivenOffset) ∧
    (i.tag ≠ 0 → ∃ t, (h.entriesTree i.offset >>= fun t => t.rootNode ctx) = .ok t ∧
      t.entry.item = ⟨i.offset, 0, i.tag, i.children⟩) :=
  tree_root_at_item ctx h f pad hok hbuf i hi

/-- and `range_from(offset..)` (which `entries_raw`, `entries_at_offset`, `entries_tree` start
from) yields the body from that item on, so every traversal started there sees the suffix -/
theorem range_from_offset (ctx : Ctx) (h : UnitHeader) (f : Forest) (pad : Nat) (hok : ForestOK ctx f)
    (hbuf : h.entriesBuf = encodeUnit f pad) (i : Item) (hi : i ∈ listingUnit h.headerSize f pad) :
    ∃ tl, h.rangeFrom i.offset = .ok tl ∧ StartsAt ctx i tl :=
  rangeFrom_item ctx h f pad hok hbuf i hi

/-! ## (4) abbreviation lookup -/

/-- **`abbrev_get_insert`.** Let `ds` be the declarations that `Abbreviations::parse` reads from
`bs` (in order, up to the null abbreviation). If their codes are pairwise distinct, parsing
succeeds and `get c` returns, for every `c`, exactly the declaration carrying code `c` (`none`
if there is none) — whatever the codes are: sequential, permuted, sparse, or anywhere up to
2^64. If some code occurs twice, parsing fails with `DuplicateAbbreviationCode`. -/
theorem abbrev_get_insert (bs : Bytes) (ds : List Abbreviation)
    (h : parseDecls (bs.length + 1) bs = .ok ds) :
    (((ds.map (·.code)).Nodup) →
      ∃ t, Abbreviations.parse bs = .ok t ∧ ∀ c, t.get c = ds.find? (fun a => a.code = c)) ∧
    ((¬ (ds.map (·.code)).Nodup) → Abbreviations.parse bs = .err .rDuplicateAbbreviationCode) := by
  obtain ⟨hl, hz⟩ := parseLoop_of_parseDecls (bs.length + 1) .empty bs ds h
  have hspec := insertAll_spec ds [] .empty
    (by intro c; simp [lookup, Abbreviations.get, Abbreviations.empty, mapGet]) hz (by simp)
  simp only [List.nil_append] at hspec
  unfold Abbreviations.parse
  constructor
  · intro hnd
    obtain ⟨t, hins, hget⟩ := hspec.1 hnd
    exact ⟨t, by rw [hl, hins], hget⟩
  · intro hnd
    rw [hl, hspec.2 hnd]

/-- **`abbrev_table_roundtrip`.** The same against the DWARF encoding of a table
(`Spec.AbbrevTable.encodeTable`: any declarations a producer can write — any non-zero codes up
to 2^64 in any order, any tags, attribute lists with implicit constants): when the codes are
pairwise distinct, parsing the encoded table (followed by anything) succeeds and `get c`
returns exactly the declaration carrying `c`; when a code repeats, parsing fails with
`DuplicateAbbreviationCode`. -/
theorem abbrev_table_roundtrip (ds : List Abbreviation) (hv : ∀ a ∈ ds, DeclValid a) (rest : Bytes) :
    (((ds.map (·.code)).Nodup) →
      ∃ t, Abbreviations.parse (encodeTable ds ++ rest) = .ok t ∧
        ∀ c, t.get c = ds.find? (fun a => a.code = c)) ∧
    ((¬ (ds.map (·.code)).Nodup) →
      Abbreviations.parse (encodeTable ds ++ rest) = .err .rDuplicateAbbreviationCode) :=
  abbrev_get_insert (encodeTable ds ++ rest) ds
    (parseDecls_rt ds _ rest hv (by
      have := encodeTable_length ds
      simp only [List.length_append]; omega))

/-- the storage level: inserting a code that `get` does not find succeeds and afterwards `get`
finds exactly it in addition; inserting one that `get` finds fails (dense vector or map, for
any code) -/
theorem insert_get (t : Abbreviations) (a : Abbreviation) (h0 : a.code ≠ 0) :
    (t.get a.code = none →
      ∃ t', t.insert a = some t' ∧ ∀ c, t'.get c = if c = a.code then some a else t.get c) ∧
    ((t.get a.code).isSome → t.insert a = none) :=
  ⟨insert_some_of_get_none t a h0, insert_none_of_get_some t a h0⟩

/-! ## (5) unit headers -/

/-- **`header_roundtrip`.** For every valid header (DWARF 2–5, 32/64-bit format, every unit type,
address size 1/2/4/8, either byte order) followed by any entries and any further input:
`parse_unit_header` reports exactly the encoded unit length, format, version, address size,
abbreviation offset, unit type with its signature / type offset / DWO id, the section and unit
offset it was given; its entries buffer is exactly the entries and the input is left exactly
behind the unit. -/
theorem header_roundtrip (e : Endian) (sect : Sect) (off : Nat) (h : Header) (entries after : Bytes)
    (hv : Valid h sect (unitLength e h entries)) :
    parseUnitHeader e sect off (encodeUnit e h entries ++ after) =
      .ok ({ enc := { endian := e, addressSize := h.addressSize, format := h.format, version := h.version },
             unitLength := unitLength e h entries, unitType := h.unitType,
             abbrevOffset := h.abbrevOffset, sect := sect, unitOffset := off, entriesBuf := entries },
           after) :=
  parseUnitHeader_rt e sect off h entries after hv

/-- and the sizes it derives are the encoded ones: `header_size()` (from the buffer) and
`size_of_header()` (from the fields) both equal the number of bytes before the entries, so the
root entry sits at that unit offset and `length_including_self` is the length of the whole unit -/
theorem header_sizes (e : Endian) (sect : Sect) (off : Nat) (h : Header) (entries : Bytes) :
    let H : UnitHeader :=
      { enc := { endian := e, addressSize := h.addressSize, format := h.format, version := h.version },
        unitLength := unitLength e h entries, unitType := h.unitType,
        abbrevOffset := h.abbrevOffset, sect := sect, unitOffset := off, entriesBuf := entries }
    H.headerSize + entries.length = (encodeUnit e h entries).length ∧
      H.sizeOfHeader = H.headerSize ∧ H.rootOffset = H.headerSize ∧
      H.lengthIncludingSelf = (encodeUnit e h entries).length := by
  cases hu : h.unitType <;>
    simp only [UnitHeader.headerSize, UnitHeader.lengthIncludingSelf, UnitHeader.sizeOfHeader,
      UnitHeader.rootOffset, Unit.encodeUnit, unitLength, List.length_append, encodeLength_length,
      encodeBody_length, hu] <;>
    refine ⟨by first | omega | trivial, by first | omega | trivial, trivial, by first | omega | trivial⟩

/-! ## (6) totality: every input, well formed or not -/

/-- reading entries until the input is empty never panics and never runs out of the supplied
fuel (`input length + 1` steps always suffice): it ends normally or with an error -/
theorem raw_total (ctx : Ctx) (fuel : Nat) (r : Raw) (h : r.input.length < fuel) :
    (rawAll ctx fuel r).2.Normal :=
  rawAll_total ctx fuel r h

/-- `next_entry`, `next_dfs`, `next_sibling` and `EntriesTree::next` terminate with a value or an
error on every input and from every state -/
theorem cursor_steps_total (ctx : Ctx) (c : Cursor) (t : Tree) (D : Int) :
    (c.nextEntry ctx).Normal ∧ (Cursor.nextDfs ctx (c.raw.input.length + 1) c).Normal ∧
      (c.nextSibling ctx).Normal ∧ (t.next ctx D).Normal :=
  ⟨nextEntry_normal ctx c, nextDfs_total ctx _ c (Nat.lt_succ_self _), nextSibling_total ctx c,
    treeNext_total ctx t D⟩

/-- `Abbreviations::parse` and `parse_unit_header` on every byte string -/
theorem parse_total (e : Endian) (sect : Sect) (off : Nat) (bs : Bytes) :
    (Abbreviations.parse bs).Normal ∧ (parseUnitHeader e sect off bs).Normal :=
  ⟨abbreviationsParse_total bs, parseUnitHeader_total e sect off bs⟩

/-! ## non-vacuity: a concrete unit that satisfies the hypotheses -/

namespace Example
def enc : Encoding := { endian := .little, addressSize := 8, format := .dwarf32, version := 4 }
/-- code 1: `DW_TAG_compile_unit`, children, `DW_AT_sibling` as `DW_FORM_ref4`;
code 2: `DW_TAG_base_type`, no children, `DW_AT_byte_size` as `DW_FORM_data1` -/
def a1 : Abbreviation := { code := 1, tag := 0x11, hasChildren := true, attrs := [⟨0x01, .ref4, 0⟩] }
def a2 : Abbreviation := { code := 2, tag := 0x24, hasChildren := false, attrs := [⟨0x0b, .data1, 0⟩] }
def ctx : Ctx := { enc := enc, abbrevs := { vec := [a1, a2], map := [] } }
def root : Node := { code := 1, tag := 0x11, children := true, attrBytes := [21, 0, 0, 0] }
def leaf (n : UInt8) : Node := { code := 2, tag := 0x24, children := false, attrBytes := [n] }
/-- a root at unit offset 11 with two children; its `DW_AT_sibling` points behind its subtree (21) -/
def forest : Forest := .node root (.node (leaf 4) .nil (.node (leaf 8) .nil .nil)) .nil
end Example
open Example

theorem example_attrs1 (rest : Bytes) :
    readAttributes enc a1.attrs (root.attrBytes ++ rest) = .ok ([⟨.unitRef, .num 21⟩], rest) := by
  have h := C03.form_value_roundtrip enc ⟨0x01, .ref4, 0⟩ (.num 21) [21, 0, 0, 0] rest
    (by decide) (by intro h; cases h)
  simp only [a1, root, readAttributes, h, Out.bind_ok, Out.pure_eq]
  rfl

theorem example_attrs2 (n : UInt8) (rest : Bytes) :
    readAttributes enc a2.attrs ((leaf n).attrBytes ++ rest) = .ok ([⟨.data1, .num n.toNat⟩], rest) := by
  have h := C03.form_value_roundtrip enc ⟨0x0b, .data1, 0⟩ (.num n.toNat) [n] rest
    (by
      have : n.toNat < 2 ^ (8 * 1) := UInt8.toNat_lt n
      simp [Spec.Attr.encodeForm, Spec.Attr.encFixed, this, enc, Ints.toBytes, Ints.leBytes])
    (by intro h; cases h)
  simp only [a2, leaf, readAttributes, h, Out.bind_ok, Out.pure_eq]
  rfl

theorem example_forestOK : ForestOK ctx forest := by
  refine ⟨⟨by decide, by decide, by decide, a1, by decide, rfl, rfl, _, example_attrs1⟩, ?_, trivial⟩
  refine ⟨⟨by decide, by decide, by decide, a2, by decide, rfl, rfl, _, example_attrs2 4⟩, trivial, ?_⟩
  exact ⟨⟨by decide, by decide, by decide, a2, by decide, rfl, rfl, _, example_attrs2 8⟩, trivial, trivial⟩

theorem example_sibOK : SibOK ctx 11 forest := by
  have hkids : SibOK ctx (11 + (headBytes root).length) (.node (leaf 4) .nil (.node (leaf 8) .nil .nil)) := by
    simp [SibOK, leaf]
  refine ⟨fun _ => Or.inr ?_, hkids, trivial⟩
  intro a vs depth hget hattrs
  have ha : a = a1 := by
    have : ctx.abbrevs.get root.code = some a1 := by decide
    rw [this] at hget; exact (Option.some.inj hget).symm
  subst ha
  have hv := hattrs []
  have he := example_attrs1 []
  change readAttributes enc a1.attrs (root.attrBytes ++ []) = _ at hv
  rw [he] at hv
  simp only [Out.ok.injEq, Prod.mk.injEq, and_true] at hv
  subst hv
  have h21 : (if root.children = true then
        11 + (headBytes root).length + (encode (.node (leaf 4) .nil (.node (leaf 8) .nil .nil))).length + 1
      else 11 + (headBytes root).length) = 21 := by decide
  rw [h21]
  simp [Entry.sibling, a1, normalise, rules]

example : encodeUnit forest 1 = [1, 21, 0, 0, 0, 2, 4, 2, 8, 0, 0] := by decide
example : listingUnit 11 forest 1 =
    [⟨11, 0, 0x11, true⟩, ⟨16, 1, 0x24, false⟩, ⟨18, 1, 0x24, false⟩, ⟨20, 1, 0, false⟩, ⟨21, 0, 0, false⟩] := by
  decide
/-- so `raw_is_dfs`, `dfs_cursor_forest`, `sibling_eq` (through the fast path) and `tree_eq` apply -/
example : ∃ es, es.map Entry.item = (listingUnit 11 forest 1).filter (fun i => !i.isNull) ∧
    siblingAll ctx 100 (Cursor.new (encodeUnit forest 1) 11) = (es, .ok ()) :=
  sibling_eq ctx forest example_forestOK 1 11 example_sibOK 100 (by decide)
-- an abbreviation table with codes out of order, one of them huge, and a duplicate
example : (Abbreviations.parse [0x02, 0x24, 0x00, 0x0b, 0x0b, 0, 0, 0x80, 0x80, 0x80, 0x80, 0x10, 0x11, 0x01, 0, 0,
    0x01, 0x2e, 0x00, 0, 0, 0]).map (fun t => ((t.get 2).map (·.tag), (t.get (2 ^ 32)).map (·.tag), (t.get 1).map (·.tag), (t.get 3).map (·.tag)))
    = .ok (some 0x24, some 0x11, some 0x2e, none) := by decide
example : Abbreviations.parse [0x02, 0x24, 0x00, 0, 0, 0x01, 0x2e, 0x00, 0, 0, 0x02, 0x11, 0x01, 0, 0, 0]
    = .err .rDuplicateAbbreviationCode := by decide
example : DeclValid ⟨2 ^ 40, 0x2e, true, [⟨0x03, .strp, 0⟩, ⟨0x3a, .implicitConst, -5⟩]⟩ := by
  simp [DeclValid, SpecValid, Form.ofCode, Form.code]
example : Valid ⟨.dwarf64, 5, 8, .splitType 0x1122334455667788 0x30, 0x40⟩ .debugInfo 100 := by
  simp [Valid, Format.wordSize]

end Gimli.Props.C02
