import Gimli.Model.Die
/-! # C02 — placeholder while the correspondence is brought up (replaced below) -/
namespace Gimli.Props.C02
open Gimli Gimli.Die

theorem raw_new_offset (input : Bytes) (off : Nat) : (Raw.new input off).nextOffset = off := by
  simp [Raw.new, Raw.nextOffset]

end Gimli.Props.C02
