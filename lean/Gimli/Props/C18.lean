import Gimli.Lemmas.RelocWrite
/-!
# C18 — Relocation is transparent on both the reading and the writing side

Property theorems only; they are about the definitions of `Gimli/Model/Reloc.lean` (and, for the
reading side, of `Gimli/Model/Reader.lean`), which the driver executes and the correspondence
check (`harness/src/prop/c18.rs`) ties to `src/write/relocate.rs`, `src/write/writer.rs`,
`src/write/endian_vec.rs`, `src/read/relocate.rs`.
-/
namespace Gimli.Props.C18
open Gimli Gimli.Wr

/-! ## (1) writing -/

/-- **Writing through the recording writer and then applying the recorded relocations gives the
bytes that writing directly gives** — for every sequence of `Writer` calls (plain data, LEB128,
positioned writes, `write_address`, `write_offset`, `write_offset_at`, `write_eh_pointer`, constant
and symbolic addresses, every size and pointer encoding), every byte order and every assignment
`env` of addresses to symbols and sections:
if the recording writer accepts the sequence, producing bytes `b0` and relocations `ρ`, then
applying `ρ` to `b0` succeeds with bytes `b` **iff** writing directly (resolving symbols and
section bases on the spot; with constant addresses and zero bases this is the plain `EndianVec`)
succeeds with the same `b`.

Hypothesis `NoClobber`: no positioned *plain* write (`write_at`, `write_udata_at`) lands on a field
that already carries a relocation — otherwise the relocation would overwrite the later data
(gimli's writers use positioned plain writes only for lengths and plain placeholders;
`write_offset_at` itself may overwrite anything, including relocated fields). -/
theorem reloc_write_transparent (env : Env) (e : Endian) (calls : List Call) (b0 : Bytes)
    (ρ : List Reloc) (hnc : NoClobber e ([], []) calls) (hr : runR e ([], []) calls = .ok (b0, ρ))
    (b : Bytes) : applyW env e ρ b0 = .ok b ↔ runD env e [] calls = .ok b := by
  have hinv : Inv env e (.ok []) (([], []) : Bytes × List Reloc) :=
    ⟨fun r hr => (nomatch hr), fun _ => Iff.rfl⟩
  exact (runR_inv calls _ _ hinv hnc _ hr).eq b

/-- … and the recorded relocations all lie inside the section that was written -/
theorem reloc_write_in_bounds (e : Endian) (calls : List Call) (b0 : Bytes) (ρ : List Reloc)
    (hnc : NoClobber e ([], []) calls) (hr : runR e ([], []) calls = .ok (b0, ρ)) :
    ∀ r ∈ ρ, r.off + r.size ≤ b0.length := by
  have hinv : Inv ⟨fun _ => 0, fun _ => 0⟩ e (.ok []) (([], []) : Bytes × List Reloc) :=
    ⟨fun r hr => (nomatch hr), fun _ => Iff.rfl⟩
  exact (runR_inv calls _ _ hinv hnc _ hr).bounds

/-! ## non-vacuity -/

/-- the unit test of `src/write/relocate.rs`, extended by a `write_offset_at` over a placeholder
and a pc-relative symbolic pointer: recorded, applied, and equal to direct writing -/
example :
    let calls : List Call :=
      [.udata 0x12345678 4, .address (.const 0x87654321) 4, .address (.sym 1 0x12345678) 4,
       .offset 0x12345678 2 4, .udata 1 4, .offsetAt 16 7 1 4, .ehPointer (.const 100) 27 8,
       .ehPointer (.sym 0 4) 27 8, .udataAt 0 9 2]
    let env : Env := ⟨fun i => [4096, 8192].getD i 0, fun i => [0, 0, 16].getD i 0⟩
    NoClobber .little ([], []) calls ∧
    (∃ b0 ρ b, runR .little ([], []) calls = .ok (b0, ρ) ∧ ρ.length = 4 ∧
      applyW env .little ρ b0 = .ok b ∧ runD env .little [] calls = .ok b) := by
  refine ⟨by decide, _, _, _, rfl, rfl, rfl, ?_⟩
  decide

/-- without `NoClobber` the statement is false: a plain positioned write over a relocated field -/
example :
    let calls : List Call := [.offset 5 0 4, .writeAt 0 [1, 2, 3, 4]]
    let env : Env := ⟨fun _ => 0, fun _ => 0⟩
    ¬ NoClobber .little ([], []) calls ∧
    runD env .little [] calls = .ok [1, 2, 3, 4] ∧
    (∃ b0 ρ, runR .little ([], []) calls = .ok (b0, ρ) ∧ applyW env .little ρ b0 = .ok [5, 0, 0, 0]) := by
  refine ⟨by decide, by decide, _, _, rfl, by decide⟩

end Gimli.Props.C18
