import Gimli.Lemmas.RelocWrite
import Gimli.Lemmas.RelocWriteComplete
import Gimli.Lemmas.RelocReadSim
import Gimli.Model.Utf8
/-!
# C18 — Relocation is transparent on both the reading and the writing side

Property theorems only; they are about the definitions of `Gimli/Model/Reloc.lean` (and, for the
reading side, of `Gimli/Model/Reader.lean`), which the driver executes and the correspondence
check (`harness/src/prop/c18.rs`) ties to `src/write/relocate.rs`, `src/write/writer.rs`,
`src/write/endian_vec.rs`, `src/read/relocate.rs`.
-/
namespace Gimli.Props.C18
open Gimli Gimli.Wr

/-! ## (1) writing -/

/-- **Writing through the recording writer and then applying the recorded relocations gives the
bytes that writing directly gives** — for every sequence of `Writer` calls (plain data, LEB128,
positioned writes, `write_address`, `write_offset`, `write_offset_at`, `write_eh_pointer`, constant
and symbolic addresses, every size and pointer encoding), every byte order and every assignment
`env` of addresses to symbols and sections:
if the recording writer accepts the sequence, producing bytes `b0` and relocations `ρ`, then
applying `ρ` to `b0` succeeds with bytes `b` **iff** writing directly (resolving symbols and
section bases on the spot; with constant addresses and zero bases this is the plain `EndianVec`)
succeeds with the same `b`.

Hypothesis `NoClobber`: no positioned *plain* write (`write_at`, `write_udata_at`) lands on a field
that already carries a relocation — otherwise the relocation would overwrite the later data
(gimli's writers use positioned plain writes only for lengths and plain placeholders;
`write_offset_at` itself may overwrite anything, including relocated fields). -/
theorem reloc_write_transparent (env : Env) (e : Endian) (calls : List Call) (b0 : Bytes)
    (ρ : List Reloc) (hnc : NoClobber e ([], []) calls) (hr : runR e ([], []) calls = .ok (b0, ρ))
    (b : Bytes) : applyW env e ρ b0 = .ok b ↔ runD env e [] calls = .ok b := by
  have hinv : Inv env e (.ok []) (([], []) : Bytes × List Reloc) :=
    ⟨fun r hr => (nomatch hr), fun _ => Iff.rfl⟩
  exact (runR_inv calls _ _ hinv hnc _ hr).eq b

/-- … and the recorded relocations all lie inside the section that was written -/
theorem reloc_write_in_bounds (e : Endian) (calls : List Call) (b0 : Bytes) (ρ : List Reloc)
    (hnc : NoClobber e ([], []) calls) (hr : runR e ([], []) calls = .ok (b0, ρ)) :
    ∀ r ∈ ρ, r.off + r.size ≤ b0.length := by
  have hinv : Inv ⟨fun _ => 0, fun _ => 0⟩ e (.ok []) (([], []) : Bytes × List Reloc) :=
    ⟨fun r hr => (nomatch hr), fun _ => Iff.rfl⟩
  exact (runR_inv calls _ _ hinv hnc _ hr).bounds

/-- **The recording writer accepts whatever direct writing accepts**, with a section of the same
length — except symbolic `.eh_frame` pointers whose encoding has no fixed size (LEB128) or is
unknown (`SymSized`), which `RelocateWriter::write_eh_pointer` refuses. Together with
`reloc_write_transparent`: for such call sequences without clobbering, direct writing succeeds
with `b` iff recording succeeds and applying the recorded relocations gives `b`. -/
theorem reloc_write_complete (env : Env) (e : Endian) (calls : List Call) (b : Bytes)
    (hd : runD env e [] calls = .ok b) (hs : ∀ c ∈ calls, SymSized c) :
    ∃ b0 ρ, runR e ([], []) calls = .ok (b0, ρ) ∧ b0.length = b.length := by
  obtain ⟨st', h1, h2⟩ := runR_of_runD calls [] b ([], []) rfl hd hs
  exact ⟨st'.1, st'.2, h1, h2⟩

/-! ## (2) reading -/

open Gimli.Rd Gimli.Rr in
/-- **Reading through the relocating reader gives what reading the pre-relocated section gives.**
For every parser `P` — a program over the required `Reader` methods and
`read_address`/`read_offset`/`read_sized_offset`, branching arbitrarily on what they return; every
other `Reader` method and so every gimli parser is such a program — every section `b`, byte
order, build mode, UTF-8 predicate, and every relocation set `ρ` (offset, size, addend):
if the entries of `ρ` are non-empty and pairwise disjoint (`separated`), applying them to `b`
succeeds with `b'` (every field inside the section, every relocated value fits its field), and
along the run of `P` every relocated field is only ever read by a relocatable primitive with
exactly its size (`compat`: no plain read, `find`, or string/slice conversion touches a relocated
byte; a relocatable read covers exactly one entry or none), then running `P` on
`RelocateReader(b, ρ)` and on the plain reader over `b'` gives the same result. -/
theorem reloc_read_transparent {α : Type} (m : Mode) (e : Endian) (valid : Bytes → Bool)
    (lossy : Bytes → Bytes) (ρ : List RRel) (b b' : Bytes) (P : Prog α)
    (hsep : separated ρ = true) (happ : applyR e ρ b = .ok b')
    (hc : compat ρ m e valid lossy P (St.init (RCur.new (Cur.ofSec b))) = true) :
    run (relocImpl sharedImpl (relOf ρ)) m e valid lossy P (St.init (RCur.new (Cur.ofSec b))) =
      run sharedImpl m e valid lossy P (St.init (Cur.ofSec b')) := by
  have hf := Facts.of_apply ((separated_iff ρ).mp hsep) happ
  exact run_transparent hf m valid lossy P _ _ (StRel.init (RR.init hf)) hc

open Gimli.Rd Gimli.Rr in
/-- the relocation function is consulted with the field's section offset and its raw value; it
answers with the value the linker would have stored there -/
theorem reloc_read_value (e : Endian) (ρ : List RRel) (b b' : Bytes) (hsep : separated ρ = true)
    (happ : applyR e ρ b = .ok b') (r : RRel) (hr : r ∈ ρ) (h8 : r.size ≤ 8) :
    (relOf ρ).addr r.off (Ints.fromBytes e (ext b r.off r.size)) =
      .ok (Ints.fromBytes e (ext b' r.off r.size)) := by
  have hf := Facts.of_apply ((separated_iff ρ).mp hsep) happ
  obtain ⟨_, q0, q1, q2⟩ := hf.hit r hr
  rw [relOf_addr, relFun_hit hf.sep hr, q2, Ints.fromBytes_toBytes]
  congr 1
  have hnv : newVal e b r = (Ints.fromBytes e (ext b r.off r.size) : Int) + r.addend := rfl
  have hN : (2 : Nat) ^ (8 * r.size) ≤ 2 ^ 64 := Nat.pow_le_pow_right (by omega) (by omega)
  have hc : ((2 ^ (8 * r.size) : Nat) : Int) = (2 : Int) ^ (8 * r.size) := by simp
  have hmod : (256 : Nat) ^ r.size = 2 ^ (8 * r.size) := Ints.pow256 r.size
  unfold Wr.addWrap
  rw [← hnv]
  have h64 : newVal e b r % 2 ^ 64 = newVal e b r := Int.emod_eq_of_lt q0 (by omega)
  rw [h64]
  have hlt : (newVal e b r).toNat < 2 ^ (8 * r.size) := by
    have : ((newVal e b r).toNat : Int) = newVal e b r := Int.toNat_of_nonneg q0
    omega
  rw [hmod, Nat.mod_eq_of_lt hlt]

/-! ## non-vacuity -/

open Gimli.Rd Gimli.Rr in
/-- a parser that reads two plain bytes, a relocated 4-byte address, a plain byte, a relocated
2-byte offset, and the rest as a slice: hypotheses hold, both runs give the same observations -/
example :
    let b : Bytes := [1, 2, 3, 4, 5, 6, 7, 8, 9, 10]
    let ρ : List RRel := [⟨2, 4, 16⟩, ⟨7, 2, -1⟩]
    let P := Prog.ofList [.readSlice 0 2, .addr 0 4, .readSlice 0 1, .sizedOff 0 2, .toSlice 0] []
    separated ρ = true ∧ applyR .little ρ b = .ok [1, 2, 19, 4, 5, 6, 7, 7, 9, 10] ∧
    compat ρ .debug .little Utf8.valid Utf8.lossy P (St.init (RCur.new (Cur.ofSec b))) = true ∧
    (run (relocImpl sharedImpl (relOf ρ)) .debug .little Utf8.valid Utf8.lossy P
        (St.init (RCur.new (Cur.ofSec b)))).isOk = true := by
  decide

/-- the unit test of `src/write/relocate.rs`, extended by a `write_offset_at` over a placeholder
and a pc-relative symbolic pointer: recorded, applied, and equal to direct writing -/
example :
    let calls : List Call :=
      [.udata 0x12345678 4, .address (.const 0x87654321) 4, .address (.sym 1 0x12345678) 4,
       .offset 0x12345678 2 4, .udata 1 4, .offsetAt 16 7 1 4, .ehPointer (.const 100) 27 8,
       .ehPointer (.sym 0 4) 27 8, .udataAt 0 9 2]
    let env : Env := ⟨fun i => [4096, 8192].getD i 0, fun i => [0, 0, 16].getD i 0⟩
    NoClobber .little ([], []) calls ∧
    (∃ b0 ρ b, runR .little ([], []) calls = .ok (b0, ρ) ∧ ρ.length = 4 ∧
      applyW env .little ρ b0 = .ok b ∧ runD env .little [] calls = .ok b) := by
  refine ⟨by decide, _, _, _, rfl, rfl, rfl, ?_⟩
  decide

/-- without `NoClobber` the statement is false: a plain positioned write over a relocated field -/
example :
    let calls : List Call := [.offset 5 0 4, .writeAt 0 [1, 2, 3, 4]]
    let env : Env := ⟨fun _ => 0, fun _ => 0⟩
    ¬ NoClobber .little ([], []) calls ∧
    runD env .little [] calls = .ok [1, 2, 3, 4] ∧
    (∃ b0 ρ, runR .little ([], []) calls = .ok (b0, ρ) ∧ applyW env .little ρ b0 = .ok [5, 0, 0, 0]) := by
  refine ⟨by decide, by decide, _, _, rfl, by decide⟩

end Gimli.Props.C18
