import Gimli.Model.ConvLineRows
import Gimli.Props.C13
/-!
# C12, line-program component — conversion preserves the line rows and the file tables, or fails

Theorems about `Model/ConvLineRows.lean` (the mirror of `ConvertLineProgram` and of the
line-program part of `write::Dwarf::from`, tied to the code by the op `c12-line`,
`Drv/C12Line.lean` / `harness/src/prop/c12line.rs`), composed with the writer Model of C13
(`Gimli.WLine`, `Props/C13.lean`) and the reader Model of C04 (`Gimli.Line`).
Every theorem name starts with `line_`.
-/
namespace Gimli.Props.C12
open Gimli Gimli.Line Gimli.WLine Gimli.ConvLineRows Gimli.Props.C13


theorem convertString_ok (strs : Strs) (v : Nat) (tabs tabs' : Tabs) (a : AttrVal) (s : LineStr)
    (h : convertString strs v tabs a = .ok (tabs', s)) :
    ofRead (attrLineString strs a) = .ok s.val ∧
    s.form = (if v ≤ 4 then SForm.string else SForm.lineStrp) := by
  unfold convertString at h
  cases hr : ofRead (attrLineString strs a) with
  | ok r =>
    rw [hr] at h
    simp only [CRes.bind_ok] at h
    unfold LineStr.make at h
    by_cases hv : v ≤ 4
    · simp only [hv, ↓reduceIte, ofWrite, CRes.ok.injEq, Prod.mk.injEq] at h
      obtain ⟨_, rfl⟩ := h
      simp [hv]
    · simp only [hv, ↓reduceIte] at h
      cases ha : tabs.lineStrings.add r with
      | ok x =>
        simp only [ha, Out.bind_ok, Out.pure_eq, ofWrite, CRes.ok.injEq, Prod.mk.injEq] at h
        obtain ⟨_, rfl⟩ := h
        simp [hv]
      | err e => simp [ha, ofWrite] at h
      | panic w => simp [ha, ofWrite] at h
      | diverge => simp [ha, ofWrite] at h
  | err e => rw [hr] at h; simp at h
  | panic w => rw [hr] at h; simp at h

/-- what a successful `convert_file` + `add_file` step guarantees (see `line_files_preserved`) -/
def FileStepOk (strs : Strs) (st st' : CSt) (f : FileEntry) : Prop :=
    ∃ (id : Nat) (name : LineStr) (ent : FileEnt),
      st'.files = st.files ++ [id] ∧ st'.dirs = st.dirs ∧
      ofRead (attrLineString strs f.path) = .ok name.val ∧
      name.form = (if st.prog.enc.version ≤ 4 then SForm.string else SForm.lineStrp) ∧
      f.dirIndex < st.dirs.length ∧
      st'.prog.files[id]? = some ent ∧ ent.name = name ∧ ent.dir = st.dirs.getD f.dirIndex 0 ∧
      ent.info.timestamp = f.timestamp ∧ ent.info.size = f.size ∧ ent.info.md5 = f.md5 ∧
      (∀ s, f.source = some s → ∃ src, ent.info.source = some src ∧
        ofRead (attrLineString strs s) = .ok src.val) ∧
      (f.source = none → ent.info.source = none) ∧
      (∀ j e, st.prog.files[j]? = some e → ∃ e', st'.prog.files[j]? = some e' ∧ e'.name = e.name ∧
        e'.dir = e.dir ∧ (j ≠ id → e' = e)) 

/-- **One file entry, converted** (`convert_file` + `add_file`; header entries and
`DW_LNE_define_file` alike). Whenever the step succeeds, the new element `id` of the index mapping
points to an entry of the converted table whose name is the *resolved* path of the source entry
(inline for versions ≤ 4, in `.debug_line_str` for version 5), whose directory is the image of the
source directory index under the directory mapping, and whose timestamp / size / MD5 / source are
the source entry's; every index handed out before keeps its name and directory, and keeps its
info unless it is the same entry (`id`) — i.e. **duplicates (same name and directory) are merged
and the last one's info wins** (finding C12-L1, `line_files_duplicate_counterexample`). -/
theorem line_files_preserved (strs : Strs) (st st' : CSt) (f : FileEntry)
    (h : convertFile strs st f = .ok st') : FileStepOk strs st st' f := by
  unfold convertFile at h
  dsimp only at h
  cases hn : convertString strs st.prog.enc.version st.tabs f.path with
  | err e => rw [hn] at h; simp at h
  | panic w => rw [hn] at h; simp at h
  | ok v1 =>
    obtain ⟨tabs1, name⟩ := v1
    rw [hn] at h
    simp only [CRes.bind_ok] at h
    obtain ⟨hname, hform⟩ := convertString_ok _ _ _ _ _ _ hn
    by_cases hemp : name.form = SForm.string ∧ name.val.isEmpty = true ∧ st.prog.enc.version ≤ 4
    · rw [if_pos hemp] at h; cases h
    rw [if_neg hemp] at h
    by_cases hdir : f.dirIndex ≥ st.dirs.length
    · rw [if_pos hdir] at h; cases h
    · rw [if_neg hdir] at h
      -- the source string, if any
      have key : ∀ (tabs2 : Tabs) (source : Option LineStr),
          (∀ s, f.source = some s → ∃ src, source = some src ∧ ofRead (attrLineString strs s) = .ok src.val) →
          (f.source = none → source = none) →
          (do let (prog, id) ← ofWrite (addFile st.prog name (st.dirs.getD f.dirIndex 0)
                (some { timestamp := f.timestamp, size := f.size, md5 := f.md5, source }))
              pure ({ st with prog, tabs := tabs2, files := st.files ++ [id] } : CSt)) = CRes.ok st' →
          FileStepOk strs st st' f := by
        intro tabs2 source hs1 hs2 hadd
        cases haf : addFile st.prog name (st.dirs.getD f.dirIndex 0)
            (some { timestamp := f.timestamp, size := f.size, md5 := f.md5, source }) with
        | ok v =>
          obtain ⟨prog, id⟩ := v
          rw [haf] at hadd
          simp only [ofWrite, CRes.bind_ok, CRes.pure_eq, CRes.ok.injEq] at hadd
          subst hadd
          obtain ⟨⟨ent, he, hen, hed, hei⟩, hpres, _⟩ := file_ids_stable _ _ _ _ _ _ haf
          have hinfo := hei _ rfl
          exact ⟨id, name, ent, rfl, rfl, hname, hform, by omega, he, hen, hed, by rw [hinfo], by rw [hinfo],
            by rw [hinfo], fun s hs => by rw [hinfo]; exact hs1 s hs, fun hs => by rw [hinfo]; exact hs2 hs,
            hpres⟩
        | err e => rw [haf] at hadd; simp [ofWrite] at hadd
        | panic w => rw [haf] at hadd; simp [ofWrite] at hadd
        | diverge => rw [haf] at hadd; simp [ofWrite] at hadd
      cases hsrc : f.source with
      | none =>
        rw [hsrc] at h
        simp only [CRes.pure_eq, CRes.bind_ok] at h
        exact key tabs1 none (fun s hs => by rw [hsrc] at hs; cases hs) (fun _ => rfl) h
      | some s =>
        rw [hsrc] at h
        dsimp only at h
        cases hs : convertString strs st.prog.enc.version tabs1 s with
        | err e => rw [hs] at h; simp at h
        | panic w => rw [hs] at h; simp at h
        | ok v2 =>
          obtain ⟨tabs2, src⟩ := v2
          rw [hs] at h
          simp only [CRes.bind_ok, CRes.pure_eq] at h
          obtain ⟨hsv, _⟩ := convertString_ok _ _ _ _ _ _ hs
          exact key tabs2 (some src)
            (fun s' hs' => by rw [hsrc] at hs'; cases hs'; exact ⟨src, rfl, hsv⟩)
            (fun hn' => by rw [hsrc] at hn'; cases hn') h

/-! ## rows: which writer row is generated for a reader row -/

/-- **`convert_row` copies every register and maps the file through the converted table.** If the
row conversion succeeds, the writer row has the reader row's (sequence-relative) address and
op_index, line (`None` ↦ 0), column (`LeftEdge` ↦ 0), discriminator, is_stmt, basic_block,
prologue_end, epilogue_begin and isa unchanged, and its file is the image of the reader's file
register under the index mapping; the file register was a legal index for the version (not 0 for
versions ≤ 4) and the relative address is a multiple of the minimum instruction length. Otherwise the
conversion fails with `UnsupportedLineInstruction` (unaligned address, `address_offset()`, checked
first) or `InvalidFileIndex` — never anything else. -/
theorem line_row_registers (st : CSt) :
    (∃ w, convertRow st = .ok w ∧
      w.addressOffset = st.fromRow.address ∧ w.opIndex = st.fromRow.opIndex ∧ w.line = st.fromRow.line ∧
      w.column = st.fromRow.column ∧ w.discriminator = st.fromRow.discriminator ∧
      w.isStmt = st.fromRow.isStmt ∧ w.basicBlock = st.fromRow.basicBlock ∧
      w.prologueEnd = st.fromRow.prologueEnd ∧ w.epilogueBegin = st.fromRow.epilogueBegin ∧
      w.isa = st.fromRow.isa ∧ st.files[st.fromRow.file]? = some w.file ∧
      ¬ (st.fromRow.file = 0 ∧ st.prog.enc.version ≤ 4) ∧
      st.fromRow.address % st.prog.enc.minInstLen = 0) ∨
    (convertRow st = .err .unsupportedLineInstruction ∧
      st.fromRow.address % st.prog.enc.minInstLen ≠ 0) ∨
    (convertRow st = .err .invalidFileIndex ∧
      (st.files.length ≤ st.fromRow.file ∨ (st.fromRow.file = 0 ∧ st.prog.enc.version ≤ 4))) := by
  unfold convertRow
  by_cases h0 : st.fromRow.address % st.prog.enc.minInstLen ≠ 0
  · right; left
    rw [if_pos h0]
    exact ⟨rfl, h0⟩
  rw [if_neg h0]
  by_cases h1 : st.fromRow.file ≥ st.files.length
  · right; right
    rw [if_pos h1]
    exact ⟨rfl, Or.inl h1⟩
  · by_cases h2 : st.fromRow.file = 0 ∧ st.prog.enc.version ≤ 4
    · right; right
      rw [if_neg h1, if_pos h2]
      exact ⟨rfl, Or.inr h2⟩
    · left
      rw [if_neg h1, if_neg h2]
      have hlt : st.fromRow.file < st.files.length := by omega
      refine ⟨_, rfl, rfl, rfl, rfl, rfl, rfl, rfl, rfl, rfl, rfl, rfl, ?_, h2, by omega⟩
      simp [List.getD, List.getElem?_eq_getElem hlt]

/-- **`DW_AT_decl_file`-style indices** (`convert_file_index`): index 0 of a version ≤ 4 unit is
"no file" and stays so; every other index is mapped through the same index mapping as the rows,
and an index outside the (header + `DW_LNE_define_file`) table is `InvalidFileIndex`. -/
theorem line_file_index (version : Nat) (files : List Nat) (index : Nat) :
    convertFileIndex version files index =
      if index = 0 ∧ version ≤ 4 then .ok none
      else if h : index < files.length then .ok (some files[index]) else .err .invalidFileIndex := by
  unfold convertFileIndex
  by_cases h0 : index = 0 ∧ version ≤ 4
  · simp [h0]
  · simp only [h0, ↓reduceIte]
    by_cases h : index < files.length
    · simp [h, List.getElem?_eq_getElem h]
    · simp [h, List.getElem?_eq_none (Nat.le_of_not_lt h)]

/-! ## totality -/

/-- the loop of `read_row` always consumes the instructions it looks at: when it hands a row to
the caller, what remains is strictly shorter (so the fuel of `convLoop`, the instruction count + 1,
is enough and `ConvertLineProgram::convert` terminates).

Totality after the repairs of C12-L2/L3: the conversion Model returns a value or a `ConvertError`
on every input, except for panics that all come from the *writer*: the unchecked arithmetic of
`generate_row` / `op_advance` (line numbers ≥ 2^63, finding C13-3; operation advances ≥ 2^64,
C13-4; an operation pointer that goes backwards in a VLIW program, C12-L5 — all debug builds only)
and the `assert!`s of `add_directory` / `add_file` on strings a parsed header cannot contain (an
empty include directory of a version ≤ 4 table, a NUL inside a name). `line_rows_preserved`
(`Props/C12LineRows.lean`) shows that for non-VLIW programs (tombstones included) whose reported
rows have line numbers below 2^63 no step of the row loop panics. -/
theorem line_read_row_consumes (strs : Strs) (h : Params) : ∀ (is : List Instr) (tomb : Bool)
    (address : Option Nat) (st st' : CSt) (ev : RowEv) (rest : List Instr),
    readRowLoop strs h tomb address st is = .ok (some ev, st', rest) → rest.length < is.length := by
  intro is
  induction is with
  | nil => intro tomb address st st' ev rest hr; simp [readRowLoop] at hr
  | cons ins is ih =>
    intro tomb address st st' ev rest hr
    unfold readRowLoop at hr
    have fin : ∀ {tomb address st}, readRowLoop strs h tomb address st is = .ok (some ev, st', rest) →
        rest.length < (ins :: is).length := by
      intro tomb address st hx
      have := ih _ _ _ _ _ _ hx
      simp only [List.length_cons]; omega
    split at hr
    · dsimp only at hr
      repeat' (first | exact fin hr | split at hr)
    · split at hr
      · exact fin hr
      · cases hr
      · cases hr
    · cases hex : execute h st.fromRow ins with
      | mk row x =>
        rw [hex] at hr
        cases x with
        | err e => cases hr
        | noEmit => exact fin hr
        | emit =>
          dsimp only at hr
          split at hr
          · split at hr <;> exact fin hr
          · split at hr
            · split at hr
              · cases hr
              · simp only [CRes.ok.injEq, Prod.mk.injEq] at hr
                obtain ⟨_, _, rfl⟩ := hr; simp
            · split at hr
              · simp only [CRes.ok.injEq, Prod.mk.injEq] at hr
                obtain ⟨_, _, rfl⟩ := hr; simp
              · cases hr
              · cases hr

/-! ## pinned findings (the code really differs from the property here) -/

/-- version 4, min_inst_len 4, max_ops 2, one include directory "i", comp dir "/" -/
def linePar4 : Params :=
  { endian := .little, format := .dwarf32, version := 4, addrSize := 8, minInstLen := 4, maxOps := 2,
    defaultIsStmt := true, lineBase := -5, lineRange := 14, opcodeBase := 13, stdLens := WLine.stdLens }

def lineFe (n : Bytes) (d t : Nat) : FileEntry :=
  { path := .string n, dirIndex := d, timestamp := t, size := 0, md5 := List.replicate 16 0, source := none }

/-- files 1 and 3 are both "i/a", with timestamps 7 and 9 -/
def lineHdDup : Header :=
  { p := linePar4, unitLength := 0, headerLength := 0, dirFormat := [], dirs := [.string [0x69]],
    fileFormat := [], files := [lineFe [0x61] 1 7, lineFe [0x62] 0 0, lineFe [0x61] 1 9], program := [],
    compDir := some [0x2f], compFile := some (lineFe [0x6d] 0 0) }

def lineNoStrs : Strs := { debugStr := [], debugLineStr := [] }
def lineNoTabs : Tabs := { lineStrings := [], strings := [] }

/-- observable summary of a conversion: the index mapping -/
def lineMap : CRes CSt → Option (List Nat)
  | .ok st => some st.files
  | _ => none

/-- … the converted file table as (name, directory, timestamp) -/
def lineTable : CRes CSt → Option (List (Bytes × Nat × Nat))
  | .ok st => some (st.prog.files.map (fun f => (f.name.val, f.dir, f.info.timestamp)))
  | _ => none

/-- … and the instructions of the converted program -/
def lineInstrs : CRes CSt → Option (List WInstr)
  | .ok st => some st.prog.instrs
  | _ => none

def lineIsPanic : CRes CSt → Bool
  | .panic _ => true
  | _ => false

/-- **Finding C12-L1, pinned**: source files 1 and 3 (same name and directory, timestamps 7 and 9)
are merged into converted file 0 with timestamp 9 — what file 1 meant (timestamp 7) is gone. -/
theorem line_files_duplicate_counterexample :
    lineMap (convertProgram .debug lineNoStrs lineHdDup lineNoTabs [] none) = some [0, 0, 1, 0] ∧
    lineTable (convertProgram .debug lineNoStrs lineHdDup lineNoTabs [] none) =
      some [([0x61], 1, 9), ([0x62], 0, 0)] := by decide

def lineErr : CRes CSt → Option CErr
  | .err e => some e
  | _ => none

/-- **Regression for the repaired finding C12-L2** (`a88ed16`): `fixed_advance_pc 3` with
min_inst_len 4 puts the second row at 0x1003, which the writer cannot express: the conversion now
fails with `UnsupportedLineInstruction` in both build modes (it used to panic in debug builds and to
move the row to 0x1000 in release builds). -/
theorem line_rows_unaligned_regression (m : Mode) :
    lineErr (convertProgram m lineNoStrs lineHdDup lineNoTabs
      [.setAddress 0x1000, .copy, .fixedAddPc 3, .copy, .advancePc 2, .endSequence] none) =
      some .unsupportedLineInstruction := by
  cases m <;> decide

/-- **Regression for the repaired finding C12-L3** (`75911da`): `DW_LNE_define_file` with an empty
name (version ≤ 4) now fails with `UnsupportedLineInstruction` instead of panicking in `add_file`. -/
theorem line_define_file_empty_regression (m : Mode) :
    lineErr (convertProgram m lineNoStrs lineHdDup lineNoTabs
      [.defineFile (lineFe [] 0 0), .copy, .endSequence] none) = some .unsupportedLineInstruction := by
  cases m <;> decide

/-- **Finding C12-L5, pinned**: max_ops 2; `fixed_advance_pc 0` at op_index 1 puts the next row's
operation pointer behind the previous row's: `op_advance` underflows — a debug build panics; a
release build wraps (`advance_pc 2^64 − 1`), which the reader's wrapping arithmetic undoes. -/
theorem line_op_pointer_backwards_counterexample :
    lineIsPanic (convertProgram .debug lineNoStrs lineHdDup lineNoTabs
      [.setAddress 0x1000, .copy, .advancePc 1, .copy, .fixedAddPc 0, .copy, .advancePc 4, .endSequence] none)
      = true ∧
    lineInstrs (convertProgram .release lineNoStrs lineHdDup lineNoTabs
      [.setAddress 0x1000, .copy, .advancePc 1, .copy, .fixedAddPc 0, .copy, .advancePc 4, .endSequence] none) =
      some [.setAddress (some 0x1000), .copy, .special 32, .advancePc (2 ^ 64 - 1), .copy, .advancePc 4,
            .endSequence] := by decide

/-- **Finding C12-L4, pinned**: max_ops 2, the end row has op_index 1 in the source
(`advance_pc 1`); the converted program ends the sequence right after the row: op_index 0. -/
theorem line_end_op_index_counterexample :
    lineInstrs (convertProgram .release lineNoStrs lineHdDup lineNoTabs
      [.setAddress 0x1000, .copy, .advancePc 1, .endSequence] none) =
      some [.setAddress (some 0x1000), .copy, .endSequence] := by decide

/-! ## rows: from the converted rows to the written program and back -/

/-- the driver loop of `ConvertLineProgram::convert` on a list of events -/
def applyEvs (m : Mode) : CSt → List RowEv → CRes CSt
  | st, [] => .ok st
  | st, ev :: evs => do
    let st ← applyEv m st ev
    applyEvs m st evs

/-- events of one converted sequence that starts with a `DW_LNE_set_address`: the first row carries
the address, the others and the end do not -/
def seqEvents (a : Nat) (r1 : WRow) (rows : List WRow) (off : Nat) : List RowEv :=
  RowEv.row (some a) r1 :: (rows.map (RowEv.row none) ++ [RowEv.endSeq none off])

theorem applyEvs_rows (m : Mode) : ∀ (rows : List WRow) (st : CSt) (p' : Prog) (tail : List RowEv),
    genRows m st.prog rows = .ok p' →
    applyEvs m st (rows.map (RowEv.row none) ++ tail) = applyEvs m { st with prog := p' } tail := by
  intro rows
  induction rows with
  | nil =>
    intro st p' tail h
    simp only [genRows, Out.ok.injEq] at h
    subst h
    rfl
  | cons r rs ih =>
    intro st p' tail h
    rw [genRows] at h
    cases hg : ({ st.prog with row := r } : Prog).generateRow m with
    | ok p1 =>
      rw [hg] at h
      simp only [Out.bind_ok] at h
      simp only [List.map_cons, List.cons_append, applyEvs, applyEv, hg, ofWrite, CRes.bind_ok, CRes.pure_eq]
      exact ih { st with prog := p1 } p' tail h
    | err e => rw [hg] at h; simp at h
    | panic w => rw [hg] at h; simp at h
    | diverge => rw [hg] at h; simp at h

/-- the driver loop on the events of one sequence is C13's `writeSequence` on the program -/
theorem applyEvs_seq (m : Mode) (st : CSt) (a : Nat) (r1 : WRow) (rows : List WRow) (off : Nat) (p' : Prog)
    (h : writeSequence m st.prog a (r1 :: rows) off = .ok p') :
    applyEvs m st (seqEvents a r1 rows off) = .ok { st with prog := p' } := by
  unfold writeSequence at h
  rw [genRows] at h
  cases hg : ({ st.prog.setAddress (some a) with row := r1 } : Prog).generateRow m with
  | ok p1 =>
    rw [hg] at h
    simp only [Out.bind_ok] at h
    cases hr : genRows m p1 rows with
    | ok p2 =>
      rw [hr] at h
      simp only [Out.bind_ok] at h
      unfold seqEvents
      simp only [applyEvs, applyEv, hg, ofWrite, CRes.bind_ok, CRes.pure_eq]
      rw [applyEvs_rows m rows { st with prog := p1 } p2 _ hr]
      simp only [applyEvs, applyEv, h, ofWrite, CRes.bind_ok, CRes.pure_eq]
    | err e => rw [hr] at h; simp at h
    | panic w => rw [hr] at h; simp at h
    | diverge => rw [hr] at h; simp at h
  | err e => rw [hg] at h; simp at h
  | panic w => rw [hg] at h; simp at h
  | diverge => rw [hg] at h; simp at h

/-- **Rows are preserved — partial: from the converted rows to the written program and back.**
For a converter state between sequences (the writer's `prev_row`/`row` in their initial state), an
encoding the writer accepts (`EncOk`), version ≤ 5, address size 1/2/4/8, both build modes: when
`read_row` hands over the events of one sequence — `SetAddress(a)`, rows `r₁ … rₙ`,
`EndSequence(off)` — whose rows are legal successors of one another (`ChainOk`/`EndOk`: aligned
offsets, op_index < max_ops, operation pointer not going backwards, lines < 2^63, addresses inside
the address size; exactly the conditions that findings C12-L2 and C13-3/4 violate), then the
driver loop (`set_address`, `generate_row`…, `end_sequence`) succeeds, and **reading the
instructions it appended (C04's reader) returns exactly `r₁ … rₙ` at `a + offset`, every register
equal, then the end row at `a + off`**, and reader and writer are back in their initial states.
By `line_row_registers` each `rᵢ` carries the source row's registers with the file mapped through
the converted table (`line_files_preserved`), so the rows read back are the source rows.

The full statement — the simulation between `LineRows::next_row` and `read_row` over all
instructions, tombstones included, with `ChainOk`/`EndOk` derived — is `line_rows_preserved`
(`Props/C12LineRows.lean`) for `max_ops = 1`; for VLIW programs this partial form and the
differential oracle `rows-differ` of `c12-line` remain. Where the code really differs:
`line_*_counterexample`. -/
theorem line_rows_preserved_partial (m : Mode) (en : Endian) (format : Format) (addrSize : Nat)
    (st : CSt) (a : Nat) (r1 : WRow) (rows : List WRow) (off : Nat)
    (henc : EncOk st.prog.enc) (hv : st.prog.enc.version ≤ 5)
    (hasz : addrSize = 1 ∨ addrSize = 2 ∨ addrSize = 4 ∨ addrSize = 8)
    (hprev : st.prog.prevRow = WRow.initial st.prog.enc) (hrow : st.prog.row = WRow.initial st.prog.enc)
    (ha : a < minTombstone addrSize)
    (hchain : ChainOk st.prog.enc addrSize a (WRow.initial st.prog.enc) (r1 :: rows))
    (hend : EndOk st.prog.enc addrSize a (lastRow (WRow.initial st.prog.enc) (r1 :: rows))
      (lastRow (WRow.initial st.prog.enc) (r1 :: rows)) off) :
    let h := readerParams en format addrSize st.prog.enc
    let last := lastRow (WRow.initial st.prog.enc) (r1 :: rows)
    ∃ st' is, applyEvs m st (seqEvents a r1 rows off) = .ok st' ∧
      st'.prog.instrs = st.prog.instrs ++ is ∧ st'.files = st.files ∧
      st'.prog.prevRow = WRow.initial st.prog.enc ∧ st'.prog.row = WRow.initial st.prog.enc ∧
      st'.prog.inSequence = false ∧
      ∀ (inSeq : Bool) (rest : List Instr),
      traceInstrs h (Row.new h) inSeq (is.map (WInstr.toInstr st.prog.enc.version) ++ rest) =
        (r1 :: rows).map (fun r => Ev.row (rowOf st.prog.enc.version a r)) ++
          Ev.row { rowOf st.prog.enc.version a last with address := a + off, opIndex := last.opIndex,
                                                         endSequence := true } ::
            traceInstrs h (Row.new h) false rest := by
  intro h last
  obtain ⟨p', is, hw, hins, hp, hr, hs, htr⟩ :=
    sequence_roundtrip m en format addrSize st.prog a (r1 :: rows) off henc hv hasz hprev hrow ha hchain hend
  exact ⟨{ st with prog := p' }, is, applyEvs_seq m st a r1 rows off p' hw, hins, rfl, hp, hr, hs, htr⟩
end Gimli.Props.C12
