import Gimli.Lemmas.ConvOpNest
import Gimli.Lemmas.ConvOpWf
import Gimli.Lemmas.WOpExpr
/-!
# C12, expression component — `write::Expression::from` preserves every operation or fails

About `Model/ConvOp.lean` (the Model of `Expression::from`, tied to the code by the `c12-expr`
correspondence), C07's decoder (`Op.parse`, `Op.iterAll`) on the input side and C15's writer Model
(`WOp.image`, `WOp.exprWrite`, `Props.C15.expr_decode_emit`, `branch_lands`) on the output side.
`ConvOp.mapOp` (`Spec/ConvOp.lean`) says what "the same operation" means.

Assumptions about the abstract environment are exactly `ConvOp.EnvSpec` (the writer has an output
offset `u o` for the entry `unitRef o` returns; `convert_address` yields constants; `.debug_addr`
look-ups yield `addrx`).
-/
namespace Gimli.Props.C12
open Gimli Gimli.ConvOp
open Gimli.Op (Encoding)

/-- **(a) A converted operation is the same operation.** For every decoded input operation `r`
other than a branch: whenever its conversion succeeds with the writer operation `w`, what the
reader decodes from `w` once written (`WOp.image`, by C15 `op_decode_emit`) is `mapOp … r`: `r`
itself with unit references mapped to the output offset of the same DIE, section references to the
fixed-up value, the `entry_value` body to the converted body, addresses through
`convert_address`/`.debug_addr` — every other operand unchanged (`deref_size` of the address size
is `deref`, i.e. the identical reader operation; typed and sized forms are kept). Otherwise the
conversion is an error: there is no third outcome. -/
theorem convert_op_image (env : Env) (enc : Encoding) (offs : Nat → Option Nat) (u addr addrx : Nat → Nat)
    (hE : EnvSpec env offs u addr addrx) (offsets : List Nat) (endOff : Nat)
    (sub : Bytes → CR (List WOp.Operation)) (r : Op.Operation) (w : WOp.Operation)
    (hnb : isBranch r = false) (h : convertOp env enc offsets endOff sub r = .ok w)
    (disp : Int) (body : Bytes) (refv : Nat) :
    WOp.image enc offs disp body refv w = some (mapOp u addr addrx refv body r) :=
  convertOp_image env enc offs u addr addrx hE offsets endOff sub r w hnb h disp body refv

/-- **(b) A converted branch designates the operation at the input target.** `DW_OP_skip`/`bra`
with displacement `d`, decoded with its end at `endOff`, converts to the writer branch to index `k`
exactly when entry `k` of the input offsets vector is the (wrapped) input target offset
`endOff + d`, and `k` is the first such entry (the only one: `input_offsets_increasing`)… -/
theorem convert_branch_target (env : Env) (enc : Encoding) (offsets : List Nat) (endOff : Nat)
    (sub : Bytes → CR (List WOp.Operation)) (d : Int) (w : WOp.Operation) :
    (convertOp env enc offsets endOff sub (.skip d) = .ok w →
      ∃ k, w = .skip k ∧ offsets[k]? = some (wrapOff endOff d) ∧ ∀ j, j < k → offsets[j]? ≠ some (wrapOff endOff d)) ∧
    (convertOp env enc offsets endOff sub (.bra d) = .ok w →
      ∃ k, w = .branch k ∧ offsets[k]? = some (wrapOff endOff d) ∧ ∀ j, j < k → offsets[j]? ≠ some (wrapOff endOff d)) := by
  constructor <;> intro h <;>
    simp only [convertOp, except_bind_ok, pure, Except.pure, Except.ok.injEq] at h <;>
    obtain ⟨k, hk, rfl⟩ := h <;>
    exact ⟨k, rfl, branchIndex_ok offsets endOff d k hk⟩

/-- … and a target that is not the start of an operation (the middle of one, before the start,
past the end) is `InvalidBranchTarget`, never a retargeted branch. -/
theorem convert_branch_invalid (env : Env) (enc : Encoding) (offsets : List Nat) (endOff : Nat)
    (sub : Bytes → CR (List WOp.Operation)) (d : Int) (hno : wrapOff endOff d ∉ offsets) :
    convertOp env enc offsets endOff sub (.skip d) = .error .invalidBranchTarget ∧
    convertOp env enc offsets endOff sub (.bra d) = .error .invalidBranchTarget := by
  have hb : branchIndex offsets endOff d = .error .invalidBranchTarget := by
    cases hbi : branchIndex offsets endOff d with
    | ok k =>
      have := (branchIndex_ok offsets endOff d k hbi).1
      exact absurd (List.mem_of_getElem? this) hno
    | error x => rw [(branchIndex_err offsets endOff d x hbi).1]
  constructor <;> simp [convertOp, hb, bind, Except.bind]

/-- the wrapped target offset is the mathematical one whenever that is not negative, and a
negative one wraps above 2^63 — beyond any offset of an expression that fits in memory -/
theorem branch_target_math (endOff : Nat) (d : Int) (he : endOff < 2 ^ 63) (hd : -(2:Int) ^ 63 ≤ d ∧ d < 2 ^ 63) :
    (0 ≤ (endOff : Int) + d → (wrapOff endOff d : Int) = endOff + d) ∧
    ((endOff : Int) + d < 0 → 2 ^ 63 ≤ wrapOff endOff d) :=
  wrapOff_math endOff d he hd

/-- the end offsets `OperationIter` reports — hence the offsets vector of the first pass — are
strictly increasing, the last one is the length: `binary_search` finds at most one index -/
theorem input_offsets_increasing (e : Endian) (enc : Encoding) (bs : Bytes) (ops : List (Op.Operation × Nat))
    (h : Op.iterAll e enc bs.length (bs.length + 1) bs = (ops, none)) :
    (ops.map (·.2)).Pairwise (· < ·) ∧ (∀ p ∈ ops, 0 < p.2 ∧ p.2 ≤ bs.length) ∧
      (ops ≠ [] → (ops.map (·.2)).getLast? = some bs.length) := by
  obtain ⟨h1, h2, h3, _⟩ := iterAll_ends e enc bs.length (bs.length + 1) bs ops (Nat.le_refl _) (Nat.lt_succ_self _) h
  exact ⟨h1, fun p hp => ⟨by have := (h2 p hp).1; omega, (h2 p hp).2⟩, h3⟩

/-- every operand C07's decoder yields is in the range of its Rust type — for every opcode byte -/
theorem decoded_in_range (e : Endian) (enc : Encoding) (bs : Bytes) (op : Op.Operation) (rest : Bytes)
    (h : Op.parse e enc bs = .ok (op, rest)) : RWf enc op :=
  (parse_rwf e enc bs).out op rest h

/-- and conversion carries them to the writer's operand ranges (`WOp.OpWf`), given an environment
that hands out `u64` addresses -/
theorem converted_in_range (env : Env) (henv : EnvRanges env) (e : Endian) (enc : Encoding) (bs : Bytes)
    (ws : List WOp.Operation) (h : convert env e enc bs = .ok ws) : ∀ w ∈ ws, WOp.OpWf w :=
  convertNested_wf env henv e enc maxEntryValueDepth bs ws h

/-- **(c) Whole expressions.** If the conversion of `bs` succeeds with the writer operations `ws`
and writing them succeeds with the bytes `out`, then: the input decoded without error into
operations `ins`; `ws` is, position by position, the conversion of `ins` (so by (a) every
non-branch operation of the output is `mapOp` of the input operation at the same position, and by
(b) every branch designates the operation at the input target); and decoding `out` yields exactly
the images of `ws`, as many as were converted, with operation boundaries at the writer's offsets
vector (C15 `expr_decode_emit`; with C15 `branch_lands` each converted branch lands on the start of
the operation it designates). The only assumptions: the environment hands out `u64` addresses
(`EnvRanges`), output entry offsets and the output length fit `u64`. -/
theorem convert_expr_decode (env : Env) (henv : EnvRanges env) (e : Endian) (enc : Encoding) (bs : Bytes)
    (ws : List WOp.Operation) (hconv : convert env e enc bs = .ok ws)
    (offs : Nat → Option Nat) (hasRefs : Bool) (pos : Nat) (out : Bytes) (fx : List WOp.Fixup)
    (hw : WOp.exprWrite e enc (some offs) hasRefs pos ws = .ok (out, fx))
    (hoffs : ∀ en o, offs en = some o → o < 2 ^ 64)
    (hlen : out.length < 2 ^ 64) (fuel : Nat) (hfuel : ws.length ≤ fuel) :
    ∃ ins offsOut,
      Op.iterAll e enc bs.length (bs.length + 1) bs = (ins, none) ∧
      AllPairs (fun p w => convertOp env enc (inputOffsets ins bs.length) p.2
        (subAt env e enc maxEntryValueDepth) p.1 = .ok w) ins ws ∧
      WOp.exprOffsets enc (some offs) ws pos = .ok offsOut ∧
      Op.iterAll e enc out.length fuel out =
        (WOp.expectedDecode e enc (some offs) hasRefs offsOut pos 0 ws, none) := by
  have hwf := converted_in_range env henv e enc bs ws hconv
  unfold convert at hconv
  rw [convertNested_unfold] at hconv
  cases hI : Op.iterAll e enc bs.length (bs.length + 1) bs with
  | mk ins er =>
    rw [hI] at hconv
    cases er with
    | some x => simp at hconv
    | none =>
      simp only at hconv
      have hf := convertList_allPairs env enc _ _ ins ws hconv
      simp only [WOp.exprWrite, WOp.bind_eq_ok] at hw
      obtain ⟨offsOut, ho, hw⟩ := hw
      have hd := WOp.iterAll_emit e enc (some offs) hasRefs offsOut
        (fun f hf' en o ho => by simp only [Option.some.injEq] at hf'; subst hf'; exact hoffs en o ho)
        ws pos out fx out.length fuel hw hwf (Nat.le_refl _) hlen hfuel
      simp only [Nat.sub_self] at hd
      exact ⟨ins, offsOut, rfl, hf, ho, hd⟩

/-- **(d) Totality, with the native recursion bounded.** `Expression::from` as modelled is a total
function — the recursion into `DW_OP_entry_value` is structural on the number of nesting levels
still allowed (64 at the top), so no input needs more than 65 nested calls — and for every byte
string it returns either a `ConvertError`, or converted operations that nest `entry_value` at most
64 deep (so the writer's own recursion in `size`/`write` is bounded as well). Since the `fix:` for
finding C12-E1. -/
theorem convert_expr_total (env : Env) (e : Endian) (enc : Encoding) (bs : Bytes) :
    (∃ c, convert env e enc bs = .error c) ∨
      (∃ ws, convert env e enc bs = .ok ws ∧ exprDepth ws ≤ maxEntryValueDepth) := by
  cases h : convert env e enc bs with
  | error c => exact Or.inl ⟨c, rfl⟩
  | ok ws => exact Or.inr ⟨ws, rfl, convertNested_depth env e enc maxEntryValueDepth bs ws h⟩

/-- at every level: what is converted with `left` more levels allowed nests at most `left` deep -/
theorem converted_nesting_bounded (env : Env) (e : Endian) (enc : Encoding) (left : Nat) (bs : Bytes)
    (ws : List WOp.Operation) (h : convertNested env e enc left bs = .ok ws) : exprDepth ws ≤ left :=
  convertNested_depth env e enc left bs ws h

/-- **the 65th nested `entry_value` is refused**: with no level left, an `entry_value` operation is
`UnsupportedOperation` — before its sub-expression is looked at (whatever it contains) -/
theorem entry_value_depth_refused (env : Env) (enc : Encoding) (offsets : List Nat) (endOff : Nat) (x : Bytes) :
    convertOp env enc offsets endOff refuseNested (.entryValue x) = .error .unsupportedOperation := by
  simp [convertOp, refuseNested, bind, Except.bind]

/-- the bytes of a decoded `entry_value` are strictly shorter than the expression they are in -/
theorem entry_value_shorter (e : Endian) (enc : Encoding) (bs : Bytes) (p : Op.Operation × Nat) (x : Bytes)
    (hp : p ∈ (Op.iterAll e enc bs.length (bs.length + 1) bs).1) (hx : p.1 = .entryValue x) :
    x.length < bs.length :=
  iterAll_entryValue_short e enc bs.length (bs.length + 1) bs p x hp hx

/-! ## non-vacuity -/

private def demoEnv : Env where
  unitRef o := if o = 14 ∨ o = 19 then .ok o else .error .invalidUnitRef
  infoRef o := if o = 14 then .ok (.entry 0 o) else .error .invalidDebugInfoRef
  convAddr a := if a = 0xdead then none else some (.constant a)
  addrIndex := none

-- const1u 5; bra -3 (to itself is not a boundary … -3 lands on offset 2 = the bra); deref_size 8; GNU_deref_type 4, base 14
example : convert demoEnv .little ⟨8, .dwarf32, 4⟩ [0x08, 0x05, 0x28, 0xfd, 0xff, 0x94, 0x08, 0xf6, 0x04, 0x0e] =
    .ok [.unsignedConstant 5, .branch 1, .deref false, .derefType false 4 14] := by rfl
-- a branch into the middle of `const1u 5`
example : convert demoEnv .little ⟨8, .dwarf32, 4⟩ [0x08, 0x05, 0x2f, 0xfc, 0xff] = .error .invalidBranchTarget := by rfl
-- a dangling base type
example : convert demoEnv .little ⟨8, .dwarf32, 4⟩ [0xf7, 0x0f] = .error .invalidUnitRef := by rfl
-- 64 levels of nesting convert, the 65th is refused
private def nest : Nat → Bytes → Bytes
  | 0, x => x
  | n + 1, x => nest n (0xf3 :: UInt8.ofNat x.length :: x)
example : (convert demoEnv .little ⟨8, .dwarf32, 4⟩ (nest 3 [0x50])).toOption.map exprDepth = some 3 := by rfl

end Gimli.Props.C12
