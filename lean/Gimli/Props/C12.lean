import Gimli.Model.ConvCfi
import Gimli.Model.ConvLine
/-!
# C12 — read-to-write conversion preserves meaning or fails; never silently alters

Per-component theorems of the form "either an error, or the meaning is preserved". Proved so far:
the arithmetic of frame-table conversion (alignment factors, factored offsets, advances) and the
address handling of line-program conversion (`DW_LNE_set_address` inside a sequence). The
whole-`Dwarf` composition (forest, attributes, expressions, lists) is established by the
differential run and its semantic-dump oracle (partial, see props/C12.json).
-/
namespace Gimli.Props.C12
open Gimli Gimli.ConvCfi Gimli.ConvLine

/-! ## frame tables -/

/-- alignment factors are never silently narrowed: a code alignment factor converts iff it fits
the writer's `u8` (256 used to become 0) -/
theorem cfi_code_factor_narrow (caf : Nat) :
    (narrowU8 caf = .ok caf ∧ caf < 256) ∨ (narrowU8 caf = .err .wValueTooLarge ∧ 256 ≤ caf) := by
  unfold narrowU8; by_cases h : caf < 256 <;> simp [h] <;> omega

theorem cfi_data_factor_narrow (daf : Int) :
    (narrowI8 daf = .ok daf ∧ -128 ≤ daf ∧ daf < 128) ∨
      (narrowI8 daf = .err .wValueTooLarge ∧ ¬ (-128 ≤ daf ∧ daf < 128)) := by
  unfold narrowI8; by_cases h : -128 ≤ daf ∧ daf < 128 <;> simp [h]

/-- **a converted data offset is the exact product** `factored * data_alignment_factor` (what the
reader means by the operand), within `i32`; otherwise the conversion fails — never a truncated or
wrapped offset -/
theorem cfi_data_offset_exact (daf f off : Int) (h : dataOffset daf f = .ok off) :
    off = f * daf ∧ inI32 off := by
  unfold dataOffset at h
  split at h
  · unfold narrowI32 at h
    split at h
    · simp only [Out.ok.injEq] at h; subst h; simp_all
    · simp at h
  · simp at h

theorem cfi_data_offset_total (daf f : Int) :
    (∃ off, dataOffset daf f = .ok off) ∨ dataOffset daf f = .err .wValueTooLarge := by
  unfold dataOffset narrowI32
  by_cases h1 : inI64 (f * daf) <;> by_cases h2 : inI32 (f * daf) <;> simp [h1, h2]

/-- **writing re-factors exactly**: if the writer accepts an offset under factor `d`, the factored
operand it emits means the same offset again (`f' * d = off`); offsets that are not multiples of the
factor, a zero factor and the `i32::MIN / -1` overflow are errors -/
theorem cfi_refactor_exact (off d f' : Int) (h : factoredDataOffset off d = .ok f') :
    f' * d = off ∧ d ≠ 0 := by
  unfold factoredDataOffset at h
  split at h
  · simp at h
  · rename_i h0
    split at h
    · simp at h
    · rename_i hex
      simp only [Out.ok.injEq] at h
      subst h
      refine ⟨?_, by omega⟩
      have : off = Int.tdiv off d * d := Decidable.of_not_not hex
      exact this.symm

/-- composition: reader meaning → converter → writer → reader meaning is the identity on data
offsets, for every factored operand and every alignment factor, whenever both steps succeed -/
theorem cfi_data_offset_roundtrip (daf f off f' : Int)
    (h1 : dataOffset daf f = .ok off) (h2 : factoredDataOffset off daf = .ok f') :
    f' * daf = f * daf := by
  rw [(cfi_refactor_exact off daf f' h2).1, (cfi_data_offset_exact daf f off h1).1]

/-- code offsets: the converted location is the exact sum, or the conversion fails -/
theorem cfi_advance_exact (caf offset delta off' : Nat) (h : advance caf offset delta = .ok off') :
    off' = offset + delta * caf ∧ off' < 2 ^ 32 := by
  unfold advance narrowU32 at h
  by_cases hc : caf < 2 ^ 32
  · simp only [hc, if_true, Out.bind_ok] at h
    split at h
    · simp only [Out.ok.injEq] at h; omega
    · simp at h
  · simp [hc] at h

/-- and the writer's advance re-factors exactly (or rejects a decreasing / unaligned offset or a
zero factor) -/
theorem cfi_code_delta_exact (prev off factor d : Nat) (h : factoredCodeDelta prev off factor = .ok d) :
    d * factor = off - prev ∧ prev ≤ off ∧ factor ≠ 0 := by
  unfold factoredCodeDelta at h
  split at h
  · simp at h
  · split at h
    · simp at h
    · split at h
      · simp at h
      · rename_i h1 h2 h3
        simp only [Out.ok.injEq] at h
        subst h
        refine ⟨?_, by omega, h2⟩
        have : off - prev = (off - prev) / factor * factor := Decidable.of_not_not h3
        exact this.symm

/-! ## line programs: `DW_LNE_set_address` inside a sequence -/

theorem line_addresses_aux (is : List Ins) :
    ∀ (rel prev cur addr : Nat) (p : Option Nat),
      (p = none → prev ≤ rel ∧ addr = cur + (rel - prev)) →
      (∀ a, p = some a → addr = a + rel) →
      NoEmptySeq p is →
      replay prev cur (convert rel p is) = readRows addr is := by
  induction is with
  | nil => intro rel prev cur addr p _ _ _; simp [convert, replay, readRows]
  | cons i is ih =>
    intro rel prev cur addr p hn hs hne
    cases i with
    | setAddress a =>
      simp only [convert, readRows]
      exact ih 0 prev cur a (some a) (by simp) (by intro b hb; simp at hb; omega) hne
    | advance d =>
      simp only [convert, readRows]
      apply ih (rel + d) prev cur (addr + d) p
      · intro hp; have := hn hp; omega
      · intro a ha; have := hs a ha; omega
      · exact hne
    | row =>
      cases p with
      | none =>
        simp only [convert, replay, readRows]
        have := hn rfl
        rw [show cur + (rel - prev) = addr by omega]
        congr 1
        exact ih rel rel addr addr none (by intro _; omega) (by intro a ha; simp at ha) hne
      | some a =>
        simp only [convert, replay, readRows]
        have := hs a rfl
        rw [show a + (rel - 0) = addr by omega]
        congr 1
        exact ih rel rel addr addr none (by intro _; omega) (by intro b hb; simp at hb) hne
    | endSeq =>
      simp only [NoEmptySeq] at hne
      obtain ⟨hp, hne⟩ := hne
      subst hp
      simp only [convert, replay, readRows]
      have := hn rfl
      rw [show cur + (rel - prev) = addr by omega]
      congr 1
      exact ih 0 0 0 0 none (by intro _; omega) (by intro a ha; simp at ha) hne

/-- **line rows keep their addresses through conversion**, for every program — any number of
sequences, any placement of `DW_LNE_set_address` (at the start of a sequence, in the middle, several
in a row), any advances: reading the program written from the converted events yields exactly the
addresses the source program yields. (Before the `fix:` the rows after a mid-sequence set_address
were all converted with one wrong offset; `harness/corpus/C12.txt` keeps such a program.) -/
theorem line_addresses_preserved (is : List Ins) (h : NoEmptySeq none is) :
    replay 0 0 (convert 0 none is) = readRows 0 is :=
  line_addresses_aux is 0 0 0 0 none (by intro _; omega) (by intro a ha; simp at ha) h

/-! non-vacuity -/
example : NoEmptySeq none [.setAddress 0x2000, .row, .advance 4, .row, .setAddress 0x2800, .advance 4, .row, .advance 4, .row, .endSeq] := by
  simp [NoEmptySeq]
example : readRows 0 [.setAddress 0x2000, .row, .advance 4, .row, .setAddress 0x2800, .advance 4, .row, .advance 4, .row, .endSeq]
    = [(0x2000, false), (0x2004, false), (0x2804, false), (0x2808, false), (0x2808, true)] := by decide
example : dataOffset (-8) 2 = .ok (-16) := by decide
example : factoredDataOffset (-16) (-8) = .ok 2 := by decide
example : dataOffset 128 (2 ^ 40) = .err .wValueTooLarge := by decide

end Gimli.Props.C12
