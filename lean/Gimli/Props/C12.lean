import Gimli.Model.ConvCfi
import Gimli.Model.ConvLine
/-!
# C12 — read-to-write conversion preserves meaning or fails; never silently alters

Per-component theorems of the form "either an error, or the meaning is preserved". Proved so far:
the arithmetic of frame-table conversion (alignment factors, factored offsets, advances) and the
address handling of line-program conversion (`DW_LNE_set_address` inside a sequence). The
whole-`Dwarf` composition (forest, attributes, expressions, lists) is established by the
differential run and its semantic-dump oracle (partial, see props/C12.json).
-/
namespace Gimli.Props.C12
open Gimli Gimli.ConvCfi Gimli.ConvLine

/-! ## frame tables -/

/-- alignment factors are never silently narrowed: a code alignment factor converts iff it fits
the writer's `u8` (256 used to become 0) -/
theorem cfi_code_factor_narrow (caf : Nat) :
    (narrowU8 caf = .ok caf ∧ caf < 256) ∨ (narrowU8 caf = .err .wValueTooLarge ∧ 256 ≤ caf) := by
  unfold narrowU8; by_cases h : caf < 256 <;> simp [h] <;> omega

theorem cfi_data_factor_narrow (daf : Int) :
    (narrowI8 daf = .ok daf ∧ -128 ≤ daf ∧ daf < 128) ∨
      (narrowI8 daf = .err .wValueTooLarge ∧ ¬ (-128 ≤ daf ∧ daf < 128)) := by
  unfold narrowI8; by_cases h : -128 ≤ daf ∧ daf < 128 <;> simp [h]

/-- **a converted data offset is the exact product** `factored * data_alignment_factor` (what the
reader means by the operand), within `i32`; otherwise the conversion fails — never a truncated or
wrapped offset -/
theorem cfi_data_offset_exact (daf f off : Int) (h : dataOffset daf f = .ok off) :
    off = f * daf ∧ inI32 off := by
  unfold dataOffset at h
  split at h
  · unfold narrowI32 at h
    split at h
    · simp only [Out.ok.injEq] at h; subst h; simp_all
    · simp at h
  · simp at h

theorem cfi_data_offset_total (daf f : Int) :
    (∃ off, dataOffset daf f = .ok off) ∨ dataOffset daf f = .err .wValueTooLarge := by
  unfold dataOffset narrowI32
  by_cases h1 : inI64 (f * daf) <;> by_cases h2 : inI32 (f * daf) <;> simp [h1, h2]

/-- **writing re-factors exactly**: if the writer accepts an offset under factor `d`, the factored
operand it emits means the same offset again (`f' * d = off`); offsets that are not multiples of the
factor, a zero factor and the `i32::MIN / -1` overflow are errors -/
theorem cfi_refactor_exact (off d f' : Int) (h : factoredDataOffset off d = .ok f') :
    f' * d = off ∧ d ≠ 0 := by
  unfold factoredDataOffset at h
  split at h
  · simp at h
  · rename_i h0
    split at h
    · simp at h
    · rename_i hex
      simp only [Out.ok.injEq] at h
      subst h
      refine ⟨?_, by omega⟩
      have : off = Int.tdiv off d * d := Decidable.of_not_not hex
      exact this.symm

/-- composition: reader meaning → converter → writer → reader meaning is the identity on data
offsets, for every factored operand and every alignment factor, whenever both steps succeed -/
theorem cfi_data_offset_roundtrip (daf f off f' : Int)
    (h1 : dataOffset daf f = .ok off) (h2 : factoredDataOffset off daf = .ok f') :
    f' * daf = f * daf := by
  rw [(cfi_refactor_exact off daf f' h2).1, (cfi_data_offset_exact daf f off h1).1]

/-- code offsets: the converted location is the exact sum, or the conversion fails -/
theorem cfi_advance_exact (caf offset delta off' : Nat) (h : advance caf offset delta = .ok off') :
    off' = offset + delta * caf ∧ off' < 2 ^ 32 := by
  unfold advance narrowU32 at h
  by_cases hc : caf < 2 ^ 32
  · simp only [hc, if_true, Out.bind_ok] at h
    split at h
    · simp only [Out.ok.injEq] at h; omega
    · simp at h
  · simp [hc] at h

/-- and the writer's advance re-factors exactly (or rejects a decreasing / unaligned offset or a
zero factor) -/
theorem cfi_code_delta_exact (prev off factor d : Nat) (h : factoredCodeDelta prev off factor = .ok d) :
    d * factor = off - prev ∧ prev ≤ off ∧ factor ≠ 0 := by
  unfold factoredCodeDelta at h
  split at h
  · simp at h
  · split at h
    · simp at h
    · split at h
      · simp at h
      · rename_i h1 h2 h3
        simp only [Out.ok.injEq] at h
        subst h
        refine ⟨?_, by omega, h2⟩
        have : off - prev = (off - prev) / factor * factor := Decidable.of_not_not h3
        exact this.symm

/-! ## line programs: `DW_LNE_set_address` inside a sequence, tombstones -/

/-- what relates the reader on the source program (`addr`, `tomb`, `opn`), the converter (`rel`,
`fa`, `tomb`, `p`, `opn`), the writer (`prev`) and the reader on the written program (`cur`, not
tombstoned, same `opn`) -/
structure LInv (T rel fa : Nat) (tomb : Bool) (p : Option Nat) (prev cur addr : Nat) (opn : Bool) : Prop where
  live : tomb = false → addr = fa + rel
  frozen : tomb = true → addr = fa
  none_ : p = none → prev ≤ rel ∧ cur + (rel - prev) = addr
  some_ : ∀ a, p = some a → cur ≤ a ∧ a < T ∧ addr = a + rel
  le : cur ≤ addr
  closed : opn = false → cur = 0 ∧ prev = 0

theorem isTomb_false {T addr a : Nat} (h : isTomb T addr a = false) : addr ≤ a ∧ a < T := by
  simp [isTomb] at h; omega

theorem isTomb_of {T cur a : Nat} (h1 : cur ≤ a) (h2 : a < T) : isTomb T cur a = false := by
  simp [isTomb]; omega


theorem line_addresses_aux (T : Nat) (is : List Ins) :
    ∀ (rel fa : Nat) (tomb : Bool) (p : Option Nat) (prev cur addr : Nat) (opn : Bool),
      LInv T rel fa tomb p prev cur addr opn →
      readRows T cur false opn (emit prev (convert T rel fa tomb p opn is)) = readRows T addr tomb opn is := by
  have fresh : LInv T 0 0 false none 0 0 0 false :=
    ⟨by simp, by simp, by simp, by simp, by omega, by simp⟩
  induction is with
  | nil => intro rel fa tomb p prev cur addr opn _; simp [convert, emit, readRows]
  | cons i is ih =>
    intro rel fa tomb p prev cur addr opn inv
    cases i with
    | setAddress a =>
      have hfa : (if tomb then fa else fa + rel) = addr := by
        cases tomb
        · simp [inv.live rfl]
        · simp [inv.frozen rfl]
      simp only [convert, readRows, hfa]
      cases ht : isTomb T addr a with
      | true =>
        simp only [if_true]
        refine ih rel addr true p prev cur addr opn ?_
        exact ⟨by simp, by simp, inv.none_, inv.some_, inv.le, inv.closed⟩
      | false =>
        simp only [Bool.false_eq_true, if_false]
        have ⟨h1, h2⟩ := isTomb_false ht
        have := inv.le
        refine ih 0 a false (some a) prev cur a opn ?_
        exact ⟨by simp, by simp, by simp, fun b hb => by simp at hb; subst hb; omega,
          by omega, inv.closed⟩
    | advance d =>
      simp only [convert, readRows]
      cases tomb
      · simp only [Bool.false_eq_true, if_false]
        refine ih (rel + d) fa false p prev cur (addr + d) opn ?_
        have h1 := inv.live rfl
        have hle := inv.le
        refine ⟨fun _ => by omega, by simp, ?_, ?_, by omega, inv.closed⟩
        · intro hp
          have := inv.none_ hp
          omega
        · intro b hb
          have := inv.some_ b hb
          omega
      · simp only [if_true]
        exact ih rel fa true p prev cur addr opn inv
    | row =>
      cases tomb
      · -- a reported row
        have h1 := inv.live rfl
        cases p with
        | none =>
          have ⟨h2, h3⟩ := inv.none_ rfl
          simp only [convert, emit, readRows, Bool.false_eq_true, if_false]
          rw [h3]
          congr 1
          refine ih rel fa false none rel addr addr true ?_
          exact ⟨fun _ => h1, by simp, fun _ => by omega, by simp, by omega, by simp⟩
        | some a =>
          have ⟨h2, h3, h4⟩ := inv.some_ a rfl
          simp only [convert, emit, readRows, Bool.false_eq_true, if_false, isTomb_of h2 h3]
          rw [show a + (rel - 0) = addr by omega]
          congr 1
          refine ih rel fa false none rel addr addr true ?_
          exact ⟨fun _ => h1, by simp, fun _ => by omega, by simp, by omega, by simp⟩
      · -- a skipped row
        simp only [convert, readRows, if_true]
        exact ih rel fa true p prev cur addr opn inv
    | endSeq =>
      by_cases hskip : (tomb && !opn) = true
      · -- the whole sequence is a tombstone: nothing was written for it
        have hopn : opn = false := by cases opn <;> simp_all
        have ⟨hc, hp⟩ := inv.closed hopn
        subst hc; subst hp
        simp only [convert, readRows, hskip, if_true]
        subst hopn
        exact ih 0 0 false none 0 0 0 false fresh
      · simp only [convert, readRows, hskip, Bool.false_eq_true, if_false]
        cases p with
        | none =>
          have ⟨h2, h3⟩ := inv.none_ rfl
          simp only [emit, readRows, Bool.false_and, Bool.false_eq_true, if_false]
          rw [h3]
          congr 1
          exact ih 0 0 false none 0 0 0 false fresh
        | some a =>
          have ⟨h2, h3, h4⟩ := inv.some_ a rfl
          simp only [emit, readRows, Bool.false_and, Bool.false_eq_true, if_false, isTomb_of h2 h3]
          rw [show a + (rel - 0) = addr by omega]
          congr 1
          exact ih 0 0 false none 0 0 0 false fresh

/-- **line rows keep their addresses through conversion**, for EVERY program — any number of
sequences, any placement and value of `DW_LNE_set_address` (at the start of a sequence, in the
middle, several in a row, directly before the end; valid, lower than the current address, or a
tombstone value), tombstones that last to the end of their sequence, any advances: reading the
program written from the converted events yields exactly the rows, at exactly the addresses, that
reading the source program yields — rows the reader skips are not brought back, rows it reports
are not lost, every sequence that reported rows is ended where the reader ends it. (Before the
`fix:`es the rows after a mid-sequence set_address were converted with one wrong offset, an end
address given by set_address was dropped, rows after a lower address reappeared, and a sequence
whose tail was tombstoned lost its end — an assertion failure in debug builds;
`harness/corpus/C12.txt` keeps such programs.) -/
theorem line_addresses_preserved (T : Nat) (is : List Ins) :
    readRows T 0 false false (emit 0 (convert T 0 0 false none false is)) = readRows T 0 false false is :=
  line_addresses_aux T is 0 0 false none 0 0 0 false
    ⟨by simp, by simp, by simp, by simp, by omega, by simp⟩

/-- regression: rows, then a tombstone that lasts to the end of the sequence, then a sequence at a
lower address (before the `fix:` the first sequence had no end row) -/
theorem line_addresses_tombstoned_tail :
    let is := [Ins.setAddress 0x2000, .row, .advance 8, .setAddress 0x10, .row, .endSeq,
               .setAddress 0x1000, .row, .endSeq]
    readRows (2 ^ 64 - 2) 0 false false is
      = [(0x2000, false), (0x2008, true), (0x1000, false), (0x1000, true)] := by decide

/-! non-vacuity -/
example : readRows (2 ^ 64 - 2) 0 false false [.setAddress 0x2000, .row, .advance 4, .row, .setAddress 0x10, .row, .setAddress 0x2800, .advance 4, .row, .endSeq, .setAddress (2 ^ 64 - 1), .row, .endSeq]
    = [(0x2000, false), (0x2004, false), (0x2804, false), (0x2804, true)] := by decide
example : dataOffset (-8) 2 = .ok (-16) := by decide
example : factoredDataOffset (-16) (-8) = .ok 2 := by decide
example : dataOffset 128 (2 ^ 40) = .err .wValueTooLarge := by decide

end Gimli.Props.C12
