import Gimli.Lemmas.WLists
/-!
# C16 — Written range and location lists read back as the same lists

Property theorems only (helper lemmas: `Gimli/Lemmas/WLists.lean`). Every theorem is about the
Model functions of `Gimli/Model/WLists.lean` (the writer: `src/write/range.rs`, `src/write/loc.rs`,
the list part of `src/write/unit.rs`), which the driver executes and the correspondence run ties to
the Rust code, composed with C08's Model of the reader (`Gimli/Model/Lists.lean`) and C08's
theorems about it. The Spec is `Gimli/Spec/WLists.lean` (meaning of a list as built) on top of
`Gimli/Spec/Lists.lean`.

Quantifiers: every unit (any number of lists, any entries, any field values, any expressions of
the modelled operation kinds, duplicates), both list families, every byte order / DWARF format,
address sizes 1, 2, 4, 8, unit `DW_AT_low_pc` absent / any value. `Machine` collects what the Rust
types and a 64-bit address space guarantee (fields are `u64`s, a `Range` carries no expression,
expressions are shorter than 2^64 bytes).
-/
namespace Gimli.Props.C16
open Gimli Gimli.Ints Gimli.Lists Gimli.WLists Gimli.Spec.Lists Gimli.Spec.WLists

/-! ## "serialised in the encoding required by the unit's version and read back, through the
unit's base address, as the same ranges and (range, expression) pairs" -/

/-- **Round trip, DWARF 5.** A unit written at any position (`p`: its offset in `.debug_info`, the
current lengths of `.debug_rnglists` / `.debug_loclists`, whose contents `priorR` / `priorL` — the
tables of earlier units — are arbitrary). If writing the unit succeeds, then for every `add`ed
range list and every `add`ed location list: the offset handed to its `RangeListRef` /
`LocationListRef` attribute exists, and the reader (`Dwarf::ranges` / `Dwarf::locations` at that
offset of the section, C08's Model), started with the unit's base address, yields exactly the
ranges — for location lists the (range, expression bytes) pairs — the list as built means
(`Spec.WLists.meaning`), in order, with no error. Nothing else is assumed about the lists. -/
theorem list_roundtrip (m : Mode) (u : UnitIn) (p : Pos) (priorR priorL : Bytes) (out : UnitOut)
    (hv : u.cfg.version = 5) (he : ∀ o ∈ u.eoff, o < 2 ^ 64)
    (hmr : ∀ l ∈ u.rng, ∀ x ∈ l, Machine .rng u.cfg (unitEOff u) p.uoff x)
    (hml : ∀ l ∈ u.loc, ∀ x ∈ l, Machine .loc u.cfg (unitEOff u) p.uoff x)
    (hpr : p.rngStart = priorR.length) (hpl : p.locStart = priorL.length)
    (hw : writeUnitAt m u p = .ok out) :
    (∀ (j : Nat) (hj : j < u.rng.length), ∃ off evs, out.rngOffs[j]? = some off ∧
      cookedAt .rng u.cfg false out.debugRanges (priorR ++ out.debugRnglists) off (unitBase u.lowPc) [] 0 = .ok evs ∧
      evs.map denot = meaning u.cfg.addrSize (dataBytes .rng u.cfg (unitEOff u) p.uoff) (unitBase u.lowPc) u.rng[j]) ∧
    (∀ (j : Nat) (hj : j < u.loc.length), ∃ off evs, out.locOffs[j]? = some off ∧
      cookedAt .loc u.cfg false out.debugLoc (priorL ++ out.debugLoclists) off (unitBase u.lowPc) [] 0 = .ok evs ∧
      evs.map denot = meaning u.cfg.addrSize (dataBytes .loc u.cfg (unitEOff u) p.uoff) (unitBase u.lowPc) u.loc[j]) := by
  obtain ⟨hs, _, r, l, h1, h2, _, rfl⟩ := writeUnitAt_ok hw
  have heo := unitEOff_u64 u he
  have hleg : ¬ u.cfg.version ≤ 4 := by omega
  rw [hpr] at h1
  rw [hpl] at h2
  constructor
  · intro j hj
    have := lists_roundtrip_v5 m .rng u.cfg (unitEOff u) p.uoff _ priorR [] u.rng r hv hs heo hmr h1
      (unitBase u.lowPc) j hj
    simpa [mkOut, hleg] using this
  · intro j hj
    have := lists_roundtrip_v5 m .loc u.cfg (unitEOff u) p.uoff _ priorL [] u.loc l hv hs heo hml h2
      (unitBase u.lowPc) j hj
    simpa [mkOut, hleg] using this

/-- **Round trip, DWARF 2–4** (`.debug_ranges` / `.debug_loc`): the same statement, at full strength.
(Before repo fix 58a3924 this needed the hypothesis that no entry's first word is the all-ones
base-address marker — recorded finding C16-1; the writer now rejects such entries,
`prev5_ones_begin_rejected`, so acceptance implies it.) -/
theorem list_roundtrip_prev5 (m : Mode) (u : UnitIn) (p : Pos) (priorR priorL : Bytes)
    (out : UnitOut)
    (hv : 2 ≤ u.cfg.version ∧ u.cfg.version ≤ 4) (he : ∀ o ∈ u.eoff, o < 2 ^ 64)
    (hmr : ∀ l ∈ u.rng, ∀ x ∈ l, Machine .rng u.cfg (unitEOff u) p.uoff x)
    (hml : ∀ l ∈ u.loc, ∀ x ∈ l, Machine .loc u.cfg (unitEOff u) p.uoff x)
    (hpr : p.rngStart = priorR.length) (hpl : p.locStart = priorL.length)
    (hw : writeUnitAt m u p = .ok out) :
    (∀ (j : Nat) (hj : j < u.rng.length), ∃ off evs, out.rngOffs[j]? = some off ∧
      cookedAt .rng u.cfg false (priorR ++ out.debugRanges) out.debugRnglists off (unitBase u.lowPc) [] 0 = .ok evs ∧
      evs.map denot = meaning u.cfg.addrSize (dataBytes .rng u.cfg (unitEOff u) p.uoff) (unitBase u.lowPc) u.rng[j]) ∧
    (∀ (j : Nat) (hj : j < u.loc.length), ∃ off evs, out.locOffs[j]? = some off ∧
      cookedAt .loc u.cfg false (priorL ++ out.debugLoc) out.debugLoclists off (unitBase u.lowPc) [] 0 = .ok evs ∧
      evs.map denot = meaning u.cfg.addrSize (dataBytes .loc u.cfg (unitEOff u) p.uoff) (unitBase u.lowPc) u.loc[j]) := by
  obtain ⟨_, _, r, l, h1, h2, _, rfl⟩ := writeUnitAt_ok hw
  have heo := unitEOff_u64 u he
  have hbase := haveBase_false_base u.lowPc
  rw [hpr] at h1
  rw [hpl] at h2
  constructor
  · intro j hj
    have := lists_roundtrip_prev5 m .rng u.cfg (unitEOff u) p.uoff _ priorR [] u.rng r hv heo hmr h1
      (unitBase u.lowPc) hbase j hj
    simpa [mkOut, hv.2] using this
  · intro j hj
    have := lists_roundtrip_prev5 m .loc u.cfg (unitEOff u) p.uoff _ priorL [] u.loc l hv heo hml h2
      (unitBase u.lowPc) hbase j hj
    simpa [mkOut, hv.2] using this

/-- **Base address presence is derived from the root entry**: `have_base_address` is true exactly
when the root DIE has a `DW_AT_low_pc` other than `Address::Constant(0)`; when it is false the
reader's base address for the unit is 0 (so address pairs read back unchanged). -/
theorem have_base_address_derivation (low : Option Addr) :
    (haveBaseAddress low = true ↔ ∃ a, low = some a ∧ a ≠ .const 0) ∧
    (haveBaseAddress low = false → unitBase low = 0) := by
  refine ⟨?_, haveBase_false_base low⟩
  cases low with
  | none => simp [haveBaseAddress]
  | some a =>
    cases a with
    | const v =>
      cases v with
      | zero => simp [haveBaseAddress]
      | succ n => simp [haveBaseAddress]
    | symbol s a => simp [haveBaseAddress]

/-- **Emitted bytes, DWARF 5**: the table is the header (`unit_length` of the chosen format,
version 5, address size, segment selector size 0, offset entry count 0) followed by the Spec
encoding (`Spec.Lists.encodeList`: `DW_RLE_*` / `DW_LLE_*` codes, ULEB128 operands, ULEB128 counted
expression) of every list of the table as built, each at the offset handed back for it. -/
theorem emitted_v5 (m : Mode) (k : Kind) (c : Cfg) (eo : EOff) (uoff : Nat) (ub : Bool) (start : Nat)
    (tbl : List WList) (bytes : Bytes) (offs : List Nat) (hv : c.version = 5) (he : U64EOff eo)
    (hm : ∀ l ∈ tbl, ∀ x ∈ l, Machine k c eo uoff x) (hne : tbl ≠ [])
    (hw : writeTable m k c eo uoff ub start tbl = .ok (bytes, offs)) :
    ∃ len body, bytes = len ++ headerBody c ++ body ∧
      writeInitialLength c.endian c.format (8 + body.length) = .ok len ∧
      offs.length = tbl.length ∧
      ∀ (i : Nat) (hi : i < tbl.length), ∃ pre post,
        body = pre ++ encodeList k c .coded (tbl[i].map (asBuilt (dataBytes k c eo uoff))) ++ post ∧
        offs[i]? = some (start + (initialLengthSize c.format + 8) + pre.length) := by
  have hne' : tbl.isEmpty = false := by
    cases tbl with
    | nil => exact absurd rfl hne
    | cons _ _ => rfl
  simp only [writeTable, hne', Bool.false_eq_true, if_false, hv, if_true] at hw
  obtain ⟨⟨body, offs'⟩, h1, h2⟩ := bind_ok_inv hw
  obtain ⟨len, h3, h4⟩ := bind_ok_inv h2
  simp only [Out.pure_eq, Out.ok.injEq, Prod.mk.injEq] at h4
  obtain ⟨rfl, rfl⟩ := h4
  obtain ⟨hl, hat⟩ := writeLists_at _ tbl _ body offs' h1
  refine ⟨len, body, rfl, h3, hl, ?_⟩
  intro i hi
  obtain ⟨pre, bsi, post, e1, e2, e3⟩ := hat i hi
  obtain ⟨e4, _⟩ := writeEntriesCoded_enc he (by omega) tbl[i] bsi e2 (hm tbl[i] (List.getElem_mem hi))
  exact ⟨pre, post, by rw [e1, e4], e3⟩

/-! ## "Lists that cannot be represented unambiguously in the chosen encoding — empty ranges,
pairs that need or conflict with a base address, default locations before v5 — are rejected with
an error" -/

/-- **Rejections, DWARF 2–4, entry by entry** (`mk` = the all-ones marker of the address size,
`hb` = `have_base_address` when the entry is reached: the unit has a base address, or a
`BaseAddress` entry precedes in the list). Each named error is returned for exactly the entries it
is meant for:
* `OffsetPair`: `InvalidRange` iff empty (`begin = end`) or `begin` is the marker;
  `MissingBaseAddress` iff neither and there is no base address;
* `StartEnd`: `InvalidRange` iff `begin = end` or `begin` is the constant marker;
  `UnexpectedBaseAddress` iff neither and there is a base address;
* `StartLength`: `InvalidRange` iff the end address overflows, the length is 0 or `begin` is the
  constant marker; `UnexpectedBaseAddress` iff none of these and there is a base address;
* `DefaultLocation`: always `InvalidRange`. -/
theorem rejections (mk : Nat) (k : Kind) (c : Cfg) (eo : EOff) (uoff : Nat) (hb : Bool) :
    (∀ b e x, writeEntryBare mk k c eo uoff hb (.offsetPair b e x) = .err .wInvalidRange ↔
      (b = e ∨ b = mk)) ∧
    (∀ b e x, writeEntryBare mk k c eo uoff hb (.offsetPair b e x) = .err .wMissingBaseAddress ↔
      ¬ (b = e ∨ b = mk) ∧ hb = false) ∧
    (∀ b e x, writeEntryBare mk k c eo uoff hb (.startEnd b e x) = .err .wInvalidRange ↔
      (b = e ∨ b = .const mk)) ∧
    (∀ b e x, writeEntryBare mk k c eo uoff hb (.startEnd b e x) = .err .wUnexpectedBaseAddress ↔
      ¬ (b = e ∨ b = .const mk) ∧ hb = true) ∧
    (∀ b len x, writeEntryBare mk k c eo uoff hb (.startLength b len x) = .err .wInvalidRange ↔
      (endOf b len = .err .wInvalidRange ∨ len = 0 ∨ b = .const mk)) ∧
    (∀ b len x, writeEntryBare mk k c eo uoff hb (.startLength b len x) = .err .wUnexpectedBaseAddress ↔
      ((∃ e, endOf b len = .ok e) ∧ len ≠ 0 ∧ b ≠ .const mk ∧ hb = true)) ∧
    (∀ x, writeEntryBare mk k c eo uoff hb (.defaultLocation x) = .err .wInvalidRange) := by
  have tailOP : ∀ (b e : Nat) (x : WExpr) (er : Err), ListErr er →
      (do let b1 ← writeUdata c.endian b c.addrSize
          let b2 ← writeUdata c.endian e c.addrSize
          let d ← writeData k c eo uoff x
          pure (b1 ++ b2 ++ d, hb) : Out (Bytes × Bool)) ≠ .err er := by
    intro b e x er hle h
    rcases bind_err_inv h with h1 | ⟨b1, _, h2⟩
    · exact writeUdata_not_listErr h1 hle
    · rcases bind_err_inv h2 with h3 | ⟨b2, _, h4⟩
      · exact writeUdata_not_listErr h3 hle
      · rcases bind_err_inv h4 with h5 | ⟨d, _, h6⟩
        · exact writeData_not_listErr h5 hle
        · simp at h6
  have tailSE : ∀ (b e : Addr) (x : WExpr) (er : Err), ListErr er →
      (do let bs ← writeAddrPair k c eo uoff b e x
          pure (bs, hb) : Out (Bytes × Bool)) ≠ .err er := by
    intro b e x er hle h
    rcases bind_err_inv h with h1 | ⟨b1, _, h2⟩
    · exact writeAddrPair_not_listErr h1 hle
    · simp at h2
  refine ⟨?_, ?_, ?_, ?_, ?_, ?_, ?_⟩
  · intro b e x
    simp only [writeEntryBare]
    by_cases hP : b = e ∨ b = mk
    · simp [hP]
    · rw [if_neg hP]
      cases hb with
      | false => simp [hP]
      | true =>
        simp only [Bool.true_eq_false, if_false, hP, iff_false]
        exact tailOP b e x _ (by simp [ListErr])
  · intro b e x
    simp only [writeEntryBare]
    by_cases hP : b = e ∨ b = mk
    · simp [hP]
    · rw [if_neg hP]
      cases hb with
      | false => simp [hP]
      | true =>
        simp only [Bool.true_eq_false, if_false, and_false, iff_false]
        exact tailOP b e x _ (by simp [ListErr])
  · intro b e x
    simp only [writeEntryBare]
    by_cases hP : b = e ∨ b = .const mk
    · simp [hP]
    · rw [if_neg hP]
      cases hb with
      | true => simp [hP]
      | false =>
        simp only [Bool.false_eq_true, if_false, hP, iff_false]
        exact tailSE b e x _ (by simp [ListErr])
  · intro b e x
    simp only [writeEntryBare]
    by_cases hP : b = e ∨ b = .const mk
    · simp [hP]
    · rw [if_neg hP]
      cases hb with
      | true => simp [hP]
      | false =>
        simp only [Bool.false_eq_true, if_false, and_false, iff_false]
        exact tailSE b e x _ (by simp [ListErr])
  · intro b len x
    simp only [writeEntryBare]
    cases hend : endOf b len with
    | ok e =>
      simp only [Out.bind_ok, reduceCtorEq, false_or]
      have hiff := endOf_eq_iff hend
      by_cases hP : b = e ∨ b = .const mk
      · rw [if_pos hP]
        simp only [true_iff]
        rcases hP with h | h
        · exact .inl (hiff.mp h)
        · exact .inr h
      · rw [if_neg hP]
        have hQ : ¬ (len = 0 ∨ b = .const mk) := fun h => hP (h.elim (fun h => .inl (hiff.mpr h)) .inr)
        cases hb with
        | true => simp [hQ]
        | false =>
          simp only [Bool.false_eq_true, if_false, hQ, iff_false]
          exact tailSE b e x _ (by simp [ListErr])
    | err er =>
      have := endOf_err hend
      subst this
      simp
    | panic w => cases b <;> simp [endOf] at hend <;> split at hend <;> cases hend
    | diverge => cases b <;> simp [endOf] at hend <;> split at hend <;> cases hend
  · intro b len x
    simp only [writeEntryBare]
    cases hend : endOf b len with
    | ok e =>
      simp only [Out.bind_ok]
      have hiff := endOf_eq_iff hend
      by_cases hP : b = e ∨ b = .const mk
      · rw [if_pos hP]
        simp only [Out.err.injEq, reduceCtorEq, false_iff, not_and]
        intro _ hl hm
        rcases hP with h | h
        · exact absurd (hiff.mp h) hl
        · exact absurd h hm
      · rw [if_neg hP]
        have hl : ¬ len = 0 := fun h => hP (.inl (hiff.mpr h))
        have hm : ¬ b = .const mk := fun h => hP (.inr h)
        cases hb with
        | true => simp [hl, hm]
        | false =>
          simp only [Bool.false_eq_true, if_false, and_false, iff_false]
          exact tailSE b e x _ (by simp [ListErr])
    | err er =>
      have := endOf_err hend
      subst this
      simp
    | panic w => cases b <;> simp [endOf] at hend <;> split at hend <;> cases hend
    | diverge => cases b <;> simp [endOf] at hend <;> split at hend <;> cases hend
  · intro x; rfl

/-- **The all-ones begin is rejected** (DWARF 2–4, repo fix 58a3924; formerly finding C16-1): for a
supported address size, whatever the state, an `OffsetPair` / `StartEnd` / `StartLength` entry whose
first word would be the base-address marker (`OnesBegin`) is rejected with `InvalidRange` — it can
no longer be emitted and read back as a base-address selection. -/
theorem prev5_ones_begin_rejected (m : Mode) (mk : Nat) (k : Kind) (c : Cfg) (eo : EOff) (uoff : Nat)
    (hb : Bool) (x : WEntry) (hs : ValidSize c.addrSize) (hmk : marker m c.addrSize = .ok mk)
    (hones : OnesBegin c x) :
    writeEntryBare mk k c eo uoff hb x = .err .wInvalidRange := by
  have hmkv := marker_valid hmk hs
  obtain ⟨r1, _, r3, _, r5, _, _⟩ := rejections mk k c eo uoff hb
  cases x with
  | baseAddress a => exact absurd hones (by simp [OnesBegin])
  | offsetPair b e x =>
    simp only [OnesBegin] at hones
    exact (r1 b e x).mpr (.inr (by rw [hones, hmkv]))
  | startEnd b e x =>
    simp only [OnesBegin] at hones
    exact (r3 b e x).mpr (.inr (by rw [hones, hmkv]))
  | startLength b len x =>
    simp only [OnesBegin] at hones
    exact (r5 b len x).mpr (.inr (.inr (by rw [hones, hmkv])))
  | defaultLocation x => exact absurd hones (by simp [OnesBegin])

/-- the end address of a `StartLength` entry overflows exactly when `begin + length` leaves 64
bits (constant) resp. `addend + length` leaves `i64` (symbol) -/
theorem start_length_overflow_cases (b len : Nat) (s : Nat) (a : Int) :
    (endOf (.const b) len = .err .wInvalidRange ↔ 2 ^ 64 ≤ b + len) ∧
    (endOf (.symbol s a) len = .err .wInvalidRange ↔ ¬ (len < 2 ^ 63 ∧ a + (len : Int) < 2 ^ 63)) := by
  constructor
  · simp only [endOf]
    by_cases h : b + len < 2 ^ 64
    · simp [h]
    · simp [h]; omega
  · simp only [endOf]
    by_cases h : len < 2 ^ 63 ∧ a + (len : Int) < 2 ^ 63
    · simp [h]
    · simp

/-- **A rejected entry rejects the list, the table and the unit's lists**: if the lists before
list `i` of a table are accepted and list `i` is rejected with error `E` — because its first
entry that is not accepted is rejected with `E` (`rejected_list_head` / `rejected_list_tail`) —
then writing the table returns `E`. -/
theorem rejected_table (one : WList → Out Bytes) (E : Err) : ∀ (tbl : List WList) (start i : Nat)
    (hi : i < tbl.length), (∀ (j : Nat) (hj : j < i), ∃ bs, one (tbl[j]'(by omega)) = .ok bs) →
    one tbl[i] = .err E → writeLists one start tbl = .err E
  | [], _, i, hi, _, _ => absurd hi (by simp)
  | l :: ls, start, 0, _, _, h => by
    simp only [List.getElem_cons_zero] at h
    simp [writeLists, h]
  | l :: ls, start, i + 1, hi, hpre, h => by
    obtain ⟨bs, hbs⟩ := hpre 0 (by omega)
    simp only [List.getElem_cons_zero] at hbs
    simp only [List.getElem_cons_succ] at h
    have ih := rejected_table one E ls (start + bs.length) i (by simpa using hi)
      (fun j hj => by simpa using hpre (j + 1) (by omega)) h
    simp [writeLists, hbs, ih]

/-- a list whose first entry is rejected is rejected with that error -/
theorem rejected_list_head (mk : Nat) (k : Kind) (c : Cfg) (eo : EOff) (uoff : Nat) (hb : Bool)
    (x : WEntry) (xs : WList) (E : Err) (h : writeEntryBare mk k c eo uoff hb x = .err E) :
    writeEntriesBare mk k c eo uoff hb (x :: xs) = .err E := by
  simp [writeEntriesBare, h]

/-- after an accepted entry the list is rejected exactly when the rest is, in the state the entry
leaves (`have_base_address` becomes true after a `BaseAddress` entry) -/
theorem rejected_list_tail (mk : Nat) (k : Kind) (c : Cfg) (eo : EOff) (uoff : Nat) (hb hb' : Bool)
    (x : WEntry) (xs : WList) (bs : Bytes) (E : Err)
    (h : writeEntryBare mk k c eo uoff hb x = .ok (bs, hb')) :
    (writeEntriesBare mk k c eo uoff hb (x :: xs) = .err E ↔ writeEntriesBare mk k c eo uoff hb' xs = .err E) ∧
    (hb' = true ↔ hb = true ∨ ∃ a, x = .baseAddress a) := by
  constructor
  · simp only [writeEntriesBare, h, Out.bind_ok]
    cases hr : writeEntriesBare mk k c eo uoff hb' xs <;> simp
  · cases x with
    | baseAddress a =>
      simp only [writeEntryBare] at h
      obtain ⟨_, _, h1⟩ := bind_ok_inv h
      obtain ⟨_, _, h3⟩ := bind_ok_inv h1
      simp only [Out.pure_eq, Out.ok.injEq, Prod.mk.injEq] at h3
      simp [← h3.2]
    | offsetPair b e x =>
      simp only [writeEntryBare] at h
      split at h
      · cases h
      · split at h
        · cases h
        · obtain ⟨_, _, h1⟩ := bind_ok_inv h
          obtain ⟨_, _, h2⟩ := bind_ok_inv h1
          obtain ⟨_, _, h3⟩ := bind_ok_inv h2
          simp only [Out.pure_eq, Out.ok.injEq, Prod.mk.injEq] at h3
          simp [← h3.2]
    | startEnd b e x =>
      simp only [writeEntryBare] at h
      split at h
      · cases h
      · split at h
        · cases h
        · obtain ⟨_, _, h1⟩ := bind_ok_inv h
          simp only [Out.pure_eq, Out.ok.injEq, Prod.mk.injEq] at h1
          simp [← h1.2]
    | startLength b len x =>
      simp only [writeEntryBare] at h
      obtain ⟨_, _, h0⟩ := bind_ok_inv h
      split at h0
      · cases h0
      · split at h0
        · cases h0
        · obtain ⟨_, _, h1⟩ := bind_ok_inv h0
          simp only [Out.pure_eq, Out.ok.injEq, Prod.mk.injEq] at h1
          simp [← h1.2]
    | defaultLocation x => simp [writeEntryBare] at h

/-- **DWARF 5 rejects nothing of this kind**: every entry kind, empty ranges included, has an
unambiguous `DW_RLE_*` / `DW_LLE_*` encoding; `write_rnglists` / `write_loclists` never return
`InvalidRange`, `MissingBaseAddress` or `UnexpectedBaseAddress`. -/
theorem v5_never_rejects (k : Kind) (c : Cfg) (eo : EOff) (uoff : Nat) (x : WEntry) (er : Err)
    (h : writeEntryCoded k c eo uoff x = .err er) :
    er ≠ .wInvalidRange ∧ er ≠ .wMissingBaseAddress ∧ er ≠ .wUnexpectedBaseAddress := by
  have key : ¬ ListErr er := by
    cases x with
    | baseAddress a =>
      simp only [writeEntryCoded] at h
      rcases bind_err_inv h with h1 | ⟨_, _, h2⟩
      · exact writeAddress_not_listErr h1
      · simp at h2
    | offsetPair b e x =>
      simp only [writeEntryCoded] at h
      rcases bind_err_inv h with h1 | ⟨_, _, h2⟩
      · exact writeData_not_listErr h1
      · simp at h2
    | startEnd b e x =>
      simp only [writeEntryCoded] at h
      rcases bind_err_inv h with h1 | ⟨_, _, h2⟩
      · exact writeAddrPair_not_listErr h1
      · simp at h2
    | startLength b len x =>
      simp only [writeEntryCoded] at h
      rcases bind_err_inv h with h1 | ⟨_, _, h2⟩
      · exact writeAddress_not_listErr h1
      · rcases bind_err_inv h2 with h3 | ⟨_, _, h4⟩
        · exact writeData_not_listErr h3
        · simp at h4
    | defaultLocation x =>
      simp only [writeEntryCoded] at h
      rcases bind_err_inv h with h1 | ⟨_, _, h2⟩
      · exact writeData_not_listErr h1
      · simp at h2
  simp only [ListErr, not_or] at key
  exact key

/-- **Symbolic addresses are never accepted by the default writer** (`Writer::write_address` of an
`Address::Symbol` is `Err(InvalidAddress)`): every entry either writer accepts has constant
addresses only — so the value `Spec.WLists.addrVal` assigns to a symbol is never used, and
collisions of relocated symbols with the `(0,0)` terminator or the all-ones marker can only arise
with a relocating `Writer`, which is outside the Model. -/
theorem accepted_no_symbol (mk : Nat) (k : Kind) (c : Cfg) (eo : EOff) (uoff : Nat) (hb : Bool)
    (x : WEntry) :
    (∀ r, writeEntryBare mk k c eo uoff hb x = .ok r → NoSymbol x) ∧
    (∀ bs, writeEntryCoded k c eo uoff x = .ok bs → NoSymbol x) := by
  constructor
  · intro r h
    cases x with
    | baseAddress a =>
      simp only [writeEntryBare] at h
      obtain ⟨_, _, h2⟩ := bind_ok_inv h
      obtain ⟨_, h3, _⟩ := bind_ok_inv h2
      obtain ⟨v, hv, _⟩ := writeAddress_ok h3
      exact ⟨v, hv⟩
    | offsetPair b e x => trivial
    | startEnd b e x =>
      simp only [writeEntryBare] at h
      split at h
      · cases h
      · split at h
        · cases h
        · obtain ⟨_, h0, _⟩ := bind_ok_inv h
          simp only [writeAddrPair] at h0
          obtain ⟨_, h2, h3⟩ := bind_ok_inv h0
          obtain ⟨_, h4, _⟩ := bind_ok_inv h3
          obtain ⟨vb, hvb, _⟩ := writeAddress_ok h2
          obtain ⟨ve, hve, _⟩ := writeAddress_ok h4
          exact ⟨⟨vb, hvb⟩, ⟨ve, hve⟩⟩
    | startLength b len x =>
      simp only [writeEntryBare] at h
      obtain ⟨e, _, h01⟩ := bind_ok_inv h
      split at h01
      · cases h01
      · split at h01
        · cases h01
        · obtain ⟨_, h0, _⟩ := bind_ok_inv h01
          simp only [writeAddrPair] at h0
          obtain ⟨_, h2, _⟩ := bind_ok_inv h0
          obtain ⟨vb, hvb, _⟩ := writeAddress_ok h2
          exact ⟨vb, hvb⟩
    | defaultLocation x => trivial
  · intro bs h
    cases x with
    | baseAddress a =>
      simp only [writeEntryCoded] at h
      obtain ⟨_, h3, _⟩ := bind_ok_inv h
      obtain ⟨v, hv, _⟩ := writeAddress_ok h3
      exact ⟨v, hv⟩
    | offsetPair b e x => trivial
    | startEnd b e x =>
      simp only [writeEntryCoded, writeAddrPair] at h
      obtain ⟨_, h0, _⟩ := bind_ok_inv h
      obtain ⟨_, h2, h3⟩ := bind_ok_inv h0
      obtain ⟨_, h4, _⟩ := bind_ok_inv h3
      obtain ⟨vb, hvb, _⟩ := writeAddress_ok h2
      obtain ⟨ve, hve, _⟩ := writeAddress_ok h4
      exact ⟨⟨vb, hvb⟩, ⟨ve, hve⟩⟩
    | startLength b len x =>
      simp only [writeEntryCoded] at h
      obtain ⟨_, h2, _⟩ := bind_ok_inv h
      obtain ⟨vb, hvb, _⟩ := writeAddress_ok h2
      exact ⟨vb, hvb⟩
    | defaultLocation x => trivial

/-- **Emitted bytes, DWARF 2–4**: the table is the concatenation, without any header, of the Spec encoding of every distinct list in
the bare format: each entry as the address-or-offset pair / base-address selection `toBare` names
(location entries followed by the 2-byte counted expression), then the `(0, 0)` pair; each list at
the offset handed back for it. -/
theorem emitted_prev5 (m : Mode) (k : Kind) (c : Cfg) (eo : EOff) (uoff : Nat) (ub : Bool)
    (start : Nat) (tbl : List WList) (bytes : Bytes) (offs : List Nat)
    (hv : 2 ≤ c.version ∧ c.version ≤ 4) (he : U64EOff eo)
    (hm : ∀ l ∈ tbl, ∀ x ∈ l, Machine k c eo uoff x)
    (hw : writeTable m k c eo uoff ub start tbl = .ok (bytes, offs)) :
    offs.length = tbl.length ∧
    ∀ (i : Nat) (hi : i < tbl.length), ∃ pre post,
      bytes = pre ++ encodeList k c .bare (tbl[i].map (toBare (dataBytes k c eo uoff))) ++ post ∧
      offs[i]? = some (start + pre.length) := by
  by_cases hne : tbl.isEmpty = true
  · have : tbl = [] := by simpa using hne
    subst this
    simp only [writeTable, List.isEmpty_nil, if_true, Out.ok.injEq, Prod.mk.injEq] at hw
    obtain ⟨_, rfl⟩ := hw
    exact ⟨rfl, fun i hi => absurd hi (by simp)⟩
  · simp only [writeTable, hne, Bool.false_eq_true, if_false, hv, and_self, if_true] at hw
    obtain ⟨mk, hmk, hw⟩ := bind_ok_inv hw
    obtain ⟨hl, hat⟩ := writeLists_at _ tbl _ bytes offs hw
    refine ⟨hl, ?_⟩
    intro i hi
    obtain ⟨pre, bsi, post, e1, e2, e3⟩ := hat i hi
    obtain ⟨_, e4, _, _⟩ := writeEntriesBare_enc hmk he hv.2 tbl[i] ub bsi (if ub = false then 0 else 0) e2
      (hm tbl[i] (List.getElem_mem hi)) (by intro _; simp)
    exact ⟨pre, post, by rw [e1, e4], e3⟩

/-! ## "equal lists share one identifier and one emitted copy" -/

/-- **De-duplication.** For any sequence of `add` calls on a fresh table: two calls return the same
id exactly when their lists are equal; the table holds no list twice and nothing but the lists
added; the id returned for a list designates that list. -/
theorem dedup (lists : List WList) :
    (addAll [] lists).2.length = lists.length ∧
    (addAll [] lists).1.Nodup ∧
    (∀ t ∈ (addAll [] lists).1, t ∈ lists) ∧
    (∀ (i : Nat) (hi : i < lists.length), ∃ id, (addAll [] lists).2[i]? = some id ∧
      (addAll [] lists).1[id]? = some lists[i]) ∧
    (∀ (i j : Nat) (hi : i < lists.length) (hj : j < lists.length),
      (addAll [] lists).2[i]? = (addAll [] lists).2[j]? ↔ lists[i] = lists[j]) := by
  obtain ⟨h1, _, h3, h4, h5⟩ := addAll_spec lists [] List.nodup_nil
  refine ⟨h3, h1, ?_, h4, ?_⟩
  · intro t ht
    rcases h5 t ht with h | h
    · simp at h
    · exact h
  · intro i j hi hj
    obtain ⟨a, ha1, ha2⟩ := h4 i hi
    obtain ⟨b, hb1, hb2⟩ := h4 j hj
    constructor
    · intro h
      rw [ha1, hb1] at h
      simp only [Option.some.injEq] at h
      subst h
      rw [ha2] at hb2
      simpa using hb2
    · intro h
      rw [ha1, hb1, nodup_index_inj h1 ha2 (h ▸ hb2)]

/-- **One emitted copy.** The table is written once per distinct list: as many offsets as the
table has lists, every `add` is handed the offset of its table slot, so two `add`s of equal lists
get the same offset (`dedup` + this). -/
theorem dedup_one_copy (m : Mode) (k : Kind) (c : Cfg) (eo : EOff) (uoff : Nat) (ub : Bool)
    (start : Nat) (lists : List WList) (bytes : Bytes) (offs : List Nat)
    (hv : 2 ≤ c.version ∧ c.version ≤ 5)
    (hw : writeTable m k c eo uoff ub start (addAll [] lists).1 = .ok (bytes, offs)) :
    offs.length = (addAll [] lists).1.length ∧
    ∀ (i j : Nat) (hi : i < lists.length) (hj : j < lists.length), lists[i] = lists[j] →
      (handOver offs (addAll [] lists).2)[i]? = (handOver offs (addAll [] lists).2)[j]? := by
  constructor
  · unfold writeTable at hw
    split at hw
    · rename_i he
      simp only [Out.ok.injEq, Prod.mk.injEq] at hw
      rw [← hw.2]
      have : (addAll [] lists).1 = [] := by simpa using he
      simp [this]
    · split at hw
      · obtain ⟨mk, _, hw⟩ := bind_ok_inv hw
        exact (writeLists_at _ _ _ _ _ hw).1
      · split at hw
        · obtain ⟨⟨body, offs'⟩, h1, h2⟩ := bind_ok_inv hw
          obtain ⟨len, _, h4⟩ := bind_ok_inv h2
          simp only [Out.pure_eq, Out.ok.injEq, Prod.mk.injEq] at h4
          rw [← h4.2]
          exact (writeLists_at _ _ _ _ _ h1).1
        · omega
  · intro i j hi hj heq
    have := ((dedup lists).2.2.2.2 i j hi hj).mpr heq
    simp only [handOver, List.getElem?_map, this]

/-- **Different lists, different offsets**: the lists of a table start at strictly increasing
offsets, so two `add`s are handed the same offset exactly when their lists are equal. -/
theorem dedup_distinct_offsets (m : Mode) (k : Kind) (c : Cfg) (eo : EOff) (uoff : Nat) (ub : Bool)
    (start : Nat) (lists : List WList) (bytes : Bytes) (offs : List Nat)
    (hw : writeTable m k c eo uoff ub start (addAll [] lists).1 = .ok (bytes, offs))
    (hlen : offs.length = (addAll [] lists).1.length)
    (i j : Nat) (hi : i < lists.length) (hj : j < lists.length) :
    (handOver offs (addAll [] lists).2)[i]? = (handOver offs (addAll [] lists).2)[j]? ↔ lists[i] = lists[j] := by
  obtain ⟨_, _, _, hid, _⟩ := addAll_spec lists [] List.nodup_nil
  obtain ⟨a, ha1, ha2⟩ := hid i hi
  obtain ⟨b, hb1, hb2⟩ := hid j hj
  have hpw := writeTable_increasing hw
  have hal : a < offs.length := by
    rw [hlen]
    rcases Nat.lt_or_ge a (addAll [] lists).1.length with h | h
    · exact h
    · rw [List.getElem?_eq_none h] at ha2; simp at ha2
  have hbl : b < offs.length := by
    rw [hlen]
    rcases Nat.lt_or_ge b (addAll [] lists).1.length with h | h
    · exact h
    · rw [List.getElem?_eq_none h] at hb2; simp at hb2
  have hoa := handOver_at ha1 (List.getElem?_eq_getElem hal)
  have hob := handOver_at hb1 (List.getElem?_eq_getElem hbl)
  rw [hoa, hob, ← (dedup lists).2.2.2.2 i j hi hj, ha1, hb1]
  simp only [Option.some.injEq]
  constructor
  · intro h
    rcases Nat.lt_trichotomy a b with hlt | heq | hgt
    · have := List.pairwise_iff_getElem.mp hpw a b hal hbl hlt; omega
    · exact heq
    · have := List.pairwise_iff_getElem.mp hpw b a hbl hal hgt; omega
  · intro h; subst h; rfl

/-! ## "the pre-v5 format is ambiguous around (0,0) terminators and the all-ones base marker" -/

/-- **No accepted entry is the terminator** (DWARF 2–4). Whatever entry `write_ranges` /
`write_loc` accept (in either state), the reader does not take its bytes for the end-of-list pair
`(0, 0)`: the two words it starts with are not both zero. -/
theorem prev5_no_terminator (m : Mode) (mk : Nat) (k : Kind) (c : Cfg) (eo : EOff) (uoff : Nat) (hb hb' : Bool)
    (x : WEntry) (bs rest r : Bytes) (hu : U64Entry x) (hmk : marker m c.addrSize = .ok mk)
    (h : writeEntryBare mk k c eo uoff hb x = .ok (bs, hb')) :
    parseRaw k c .bare (bs ++ rest) ≠ .ok (none, r) := by
  obtain ⟨hs, h1, h2, hz, tail, rfl⟩ := writeEntryBare_words hmk h hu
  have := (parseRaw_words k c _ _ (tail ++ rest) hs h1 h2 hz).2 r
  simpa [List.append_assoc] using this

/-- **No accepted entry is read as another kind** (DWARF 2–4): every accepted entry reads back as
exactly the entry it was written as — a `BaseAddress` entry as a base-address selection, every
other entry as the address-or-offset pair `(begin, end)` (for `StartLength`: `end = begin +
length`, no wrap) with its expression bytes; in particular no accepted `OffsetPair` / `StartEnd` /
`StartLength` entry is read as a base-address selection. (Full strength since repo fix 58a3924;
before, the all-ones begin had to be excluded — finding C16-1.) -/
theorem prev5_ambiguity (m : Mode) (mk : Nat) (k : Kind) (c : Cfg) (eo : EOff) (uoff : Nat) (hb hb' : Bool)
    (x : WEntry) (bs rest : Bytes) (hm : Machine k c eo uoff x) (he : U64EOff eo) (hv : c.version ≤ 4)
    (hmk : marker m c.addrSize = .ok mk) (h : writeEntryBare mk k c eo uoff hb x = .ok (bs, hb')) :
    parseRaw k c .bare (bs ++ rest) = .ok (some (toBare (dataBytes k c eo uoff) x), rest) ∧
    ((∃ a, toBare (dataBytes k c eo uoff) x = .baseAddress a) ↔ ∃ a, x = .baseAddress a) := by
  obtain ⟨hs, e1, w1, _⟩ := writeEntryBare_enc hmk h hm he hv
  refine ⟨by rw [e1]; exact parseRaw_enc_bare k c _ rest hs w1, ?_⟩
  cases x <;> simp [toBare]

/-! ## "start/length ranges: no overflow" (after the repair `fix: overflow computing the end of a
start/length range or location`) -/

/-- **`StartLength` never wraps or panics** (DWARF 2–4, constant begin): the writer returns a value
or an error; `InvalidRange` when `begin + length` leaves 64 bits; and when the entry is accepted
the end address written is the exact sum `begin + length`, which fits the address size. In DWARF 5
the length is emitted as it is (ULEB128), no sum is computed (`emitted_v5`). -/
theorem start_length_no_overflow (m : Mode) (mk : Nat) (k : Kind) (c : Cfg) (eo : EOff) (uoff : Nat) (hb : Bool)
    (b len : Nat) (x : WExpr) (hbu : b < 2 ^ 64) (hlu : len < 2 ^ 64) (hx : ∀ op ∈ x, U64Op op)
    (hmk : marker m c.addrSize = .ok mk) :
    (writeEntryBare mk k c eo uoff hb (.startLength (.const b) len x)).Normal ∧
    (2 ^ 64 ≤ b + len →
      writeEntryBare mk k c eo uoff hb (.startLength (.const b) len x) = .err .wInvalidRange) ∧
    (∀ bs hb', writeEntryBare mk k c eo uoff hb (.startLength (.const b) len x) = .ok (bs, hb') →
      b + len < addrMod c.addrSize ∧ len ≠ 0 ∧
      ∃ tail, bs = encAddr c b ++ encAddr c (b + len) ++ tail) := by
  refine ⟨writeEntryBare_normal mk k c eo uoff hb _, ?_, ?_⟩
  · intro hov
    have : ¬ b + len < 2 ^ 64 := by omega
    simp [writeEntryBare, endOf, this]
  · intro bs hb' h
    obtain ⟨_, _, h2, _, tail, e⟩ :=
      writeEntryBare_words (x := .startLength (.const b) len x) hmk h ⟨hbu, hlu, hx⟩
    simp only [bareWords, addrVal] at h2 e
    refine ⟨h2, ?_, tail, e⟩
    intro h0; subst h0
    simp [writeEntryBare, endOf, hbu] at h

/-- **The writer returns normally**: writing a unit's lists yields a value or an error, for every
unit, position and arithmetic mode. (The only panic in the modelled code — the all-ones marker
computation `!0 >> (64 - address_size * 8)` for an address size outside 1..8 with overflow checks
on — is unreachable since `Unit::write` rejects such sizes first.) -/
theorem writer_total (m : Mode) (u : UnitIn) (p : Pos) : (writeUnitAt m u p).Normal :=
  writeUnitAt_normal m u p

/-- **Unsupported address sizes and versions are rejected before anything is written** -/
theorem unit_config_rejections (m : Mode) (u : UnitIn) (p : Pos) :
    (¬ ValidSize u.cfg.addrSize → writeUnitAt m u p = .err .wUnsupportedWordSize) ∧
    (ValidSize u.cfg.addrSize → ¬ (2 ≤ u.cfg.version ∧ u.cfg.version ≤ 5) →
      writeUnitAt m u p = .err .wUnsupportedVersion) := by
  constructor
  · intro h
    unfold ValidSize at h
    simp [writeUnitAt, h]
  · intro h hv
    unfold ValidSize at h
    simp [writeUnitAt, h, hv]

/-! ## the former finding's witnesses as regressions, and non-vacuity of the hypotheses -/

private def cfg4 : Cfg := { endian := .little, format := .dwarf32, version := 4, addrSize := 4 }
private def cfg5 : Cfg := { endian := .big, format := .dwarf64, version := 5, addrSize := 8 }

/-- `[StartEnd(0xffffffff, 5), StartEnd(0x10, 0x20)]` in a unit without base address -/
private def uBad : UnitIn :=
  { cfg := cfg4, lowPc := none, eoff := [],
    rng := [[.startEnd (.const 0xffffffff) (.const 5) [], .startEnd (.const 0x10) (.const 0x20) []]],
    loc := [] }

private def uBadLoc : UnitIn :=
  { cfg := cfg4, lowPc := some (.const 0x1000), eoff := [], rng := [],
    loc := [[.offsetPair 0xffffffff 1 [.raw [0xf4, 0xb5, 0x65, 0x5e]]]] }

/-- **The witnesses of the former finding C16-1 are rejected** (repo fix 58a3924). The DWARF 4
units with the range list `[StartEnd(0xffff_ffff, 5), StartEnd(0x10, 0x20)]` (no base address;
it means `[0x10, 0x20)` and used to read back as `[0x15, 0x25)`) and with the location list
`[OffsetPair(0xffff_ffff, 1, expr)]` (base address 0x1000; it means `[0xfff, 0x1001)` and used to
read back as an error) are now refused with `InvalidRange`, in both arithmetic modes. -/
theorem prev5_ones_begin_regression :
    writeUnit .debug uBad = .err .wInvalidRange ∧ writeUnit .release uBad = .err .wInvalidRange ∧
    writeUnit .debug uBadLoc = .err .wInvalidRange ∧ writeUnit .release uBadLoc = .err .wInvalidRange ∧
    meaning 4 (dataBytes .rng uBad.cfg (unitEOff uBad) 0) (unitBase uBad.lowPc) uBad.rng[0]! =
      [.range 0x10 0x20 []] ∧
    meaning 4 (dataBytes .loc uBadLoc.cfg (unitEOff uBadLoc) 0) (unitBase uBadLoc.lowPc) uBadLoc.loc[0]! =
      [.range 0xfff 0x1001 [0xf4, 0xb5, 0x65, 0x5e]] := by
  refine ⟨by decide, by decide, by decide, by decide, by decide, by decide⟩

/-- a DWARF 5 unit with base address 0x1000, two range lists (one added twice) and a location list
with a `DW_OP_call4` / `DW_OP_convert` / `DW_OP_call_ref` expression, an empty range, a default
location and a start/length entry whose end wraps -/
private def uGood : UnitIn :=
  { cfg := cfg5, lowPc := some (.const 0x1000), eoff := [33, 35],
    rng := [[.baseAddress (.const 0x2000), .offsetPair 1 5 [], .startEnd (.const 7) (.const 7) []],
            [.startLength (.const 0xffff_ffff_ffff_fff0) 0x20 []],
            [.baseAddress (.const 0x2000), .offsetPair 1 5 [], .startEnd (.const 7) (.const 7) []]],
    loc := [[.offsetPair 0xffff_ffff_ffff_ffff 8 [.call 0, .convert (some 1), .callRef 1, .addr (.const 77)],
             .defaultLocation [.raw [0x50]], .startLength (.const 0x10) 4 [.constu 0x1234]]] }

example : uGood.cfg.version = 5 ∧ (∀ o ∈ uGood.eoff, o < 2 ^ 64) ∧
    (∀ l ∈ uGood.rng, ∀ x ∈ l, Machine .rng uGood.cfg (unitEOff uGood) 0 x) ∧
    (∀ l ∈ uGood.loc, ∀ x ∈ l, Machine .loc uGood.cfg (unitEOff uGood) 0 x) ∧
    (writeUnit .debug uGood).isOk = true := by decide

example : (writeUnit .debug uGood).map (fun o => (o.rngIds, o.rngOffs, o.locOffs)) =
    .ok ([0, 1, 0], [20, 50, 20], [20]) := by decide

example : meaning 8 (dataBytes .rng cfg5 (unitEOff uGood) 0) 0x1000 uGood.rng[0]! = [.range 0x2001 0x2005 []] := by
  decide

/-- a DWARF 3 unit whose lists are accepted: offset pairs after a base address entry, address pairs
in a unit without base address -/
private def uOld : UnitIn :=
  { cfg := { cfg4 with version := 3 }, lowPc := some (.const 0), eoff := [],
    rng := [[.startEnd (.const 0x10) (.const 0x20) [], .baseAddress (.const 0x1000), .offsetPair 1 5 []]],
    loc := [[.startLength (.const 0x10) 4 [.raw [0x51, 0x52]]]] }

example : (2 ≤ uOld.cfg.version ∧ uOld.cfg.version ≤ 4) ∧
    (∀ l ∈ uOld.rng, ∀ x ∈ l, Machine .rng uOld.cfg (unitEOff uOld) 0 x ∧ ¬ OnesBegin uOld.cfg x) ∧
    (∀ l ∈ uOld.loc, ∀ x ∈ l, Machine .loc uOld.cfg (unitEOff uOld) 0 x ∧ ¬ OnesBegin uOld.cfg x) ∧
    (writeUnit .debug uOld).isOk = true := by decide

example : (writeUnit .release uOld).map (fun o => (o.debugRanges, o.debugLoc)) =
    .ok ([0x10, 0, 0, 0, 0x20, 0, 0, 0, 0xff, 0xff, 0xff, 0xff, 0, 0x10, 0, 0, 1, 0, 0, 0, 5, 0, 0, 0,
          0, 0, 0, 0, 0, 0, 0, 0],
         [0x10, 0, 0, 0, 0x14, 0, 0, 0, 2, 0, 0x51, 0x52, 0, 0, 0, 0, 0, 0, 0, 0]) := by decide

-- the rejections fire on concrete entries (`0xffff_ffff` = the marker of address size 4)
example : marker .debug cfg4.addrSize = .ok 0xffff_ffff := by decide
example : writeEntryBare 0xffff_ffff .rng cfg4 (fun _ => none) 0 false (.offsetPair 1 2 []) =
    .err .wMissingBaseAddress := by decide
example : writeEntryBare 0xffff_ffff .rng cfg4 (fun _ => none) 0 true (.startEnd (.const 1) (.const 2) []) =
    .err .wUnexpectedBaseAddress := by decide
example : writeEntryBare 0xffff_ffff .rng cfg4 (fun _ => none) 0 false (.startLength (.const (2 ^ 64 - 1)) 2 []) =
    .err .wInvalidRange := by decide
example : writeExprLen cfg4 65535 = .ok [0xff, 0xff] ∧ writeExprLen cfg4 65536 = .err .wValueTooLarge := by decide
-- an all-ones begin (hypothesis of `prev5_ones_begin_rejected`) is rejected, its neighbour is accepted
example : OnesBegin cfg4 (.offsetPair 0xffff_ffff 20 []) ∧
    writeEntryBare 0xffff_ffff .rng cfg4 (fun _ => none) 0 true (.offsetPair 0xffff_ffff 20 []) =
      .err .wInvalidRange ∧
    (writeEntryBare 0xffff_ffff .rng cfg4 (fun _ => none) 0 true (.offsetPair 0xffff_fffe 20 [])).isOk = true := by
  decide
-- the only panic of the table writers (address size 0 with overflow checks) is cut off by `Unit::write`
example : writeTable .debug .rng { cfg4 with addrSize := 0 } (fun _ => none) 0 false 0 [[.baseAddress (.const 1)]] =
    .panic "attempt to shift right with overflow" := by decide
example : writeUnit .debug { uBad with cfg := { cfg4 with addrSize := 0 }, rng := [[.baseAddress (.const 1)]] } =
    .err .wUnsupportedWordSize := by decide

end Gimli.Props.C16
