import Gimli.Lemmas.WCfiHeader
/-!
# C14 — Written frame tables read back with the same CIEs, FDEs and unwind rows

Property theorems only (helper lemmas: `Gimli/Lemmas/{WCfi,WCfiTable,WCfiHeader}.lean`).

* **Model** (`Gimli/Model/WCfi.lean`, tied to `src/write/cfi.rs` and
  `Writer::write_eh_pointer(_data)` by the byte-exact correspondence run):
  `CallFrameInstruction::write`, `write_advance_loc`, `factored_code_delta`,
  `factored_data_offset`, `write_nop`, `CommonInformationEntry::write`,
  `FrameDescriptionEntry::{add_instruction, write}`, `FrameTable::{add_cie, add_fde, write}`.
* **Reader side**: C06's Model of `CallFrameInstruction::parse` (`Cfi.parse`) and C06's
  declarative call-frame semantics (`Spec.Unwind.step`).
* **Spec** (`Gimli/Spec/WCfi.lean`): `wStep`, the meaning of a supplied (unfactored) instruction.
-/
namespace Gimli.Props.C14
open Gimli Gimli.WCfi Gimli.Cfi Gimli.Unwind Gimli.Spec.Unwind Gimli.Spec.WCfi

/-! ## 1. `write_advance_loc`: the form chosen for a factored delta decodes to exactly that delta -/

/-- **advance_loc widths.** For every factored delta below 2^32 (the writer's `u32`), whatever
follows in the section, the bytes chosen by `write_advance_loc` — `DW_CFA_advance_loc | delta`
below 0x40, `advance_loc1` below 0x100, `advance_loc2` below 0x10000, `advance_loc4` otherwise —
are decoded by `CallFrameInstruction::parse` (C06's Model) as `AdvanceLoc { delta }` with
exactly that delta, consuming exactly those bytes; and the emitted length is 1, 2, 3 or 5 bytes
on the respective side of each boundary (0x3f/0x40, 0xff/0x100, 0xffff/0x10000). -/
theorem advance_loc_widths (c : DecodeCfg) (pos delta : Nat) (rest : Bytes) (h : delta < 2 ^ 32) :
    parse c pos (advanceLocBytes c.endian delta ++ rest) = .ok (.advanceLoc delta, rest) ∧
    (advanceLocBytes c.endian delta).length =
      (if delta < 0x40 then 1 else if delta < 0x100 then 2 else if delta < 0x10000 then 3 else 5) := by
  refine ⟨parse_adv c pos delta rest h, ?_⟩
  unfold advanceLocBytes
  split
  · rfl
  · split
    · simp [Ints.toBytes_length]
    · split <;> simp [Ints.toBytes_length]

/-- **What `write_advance_loc` emits for a pair of code offsets**: nothing when the offset does not
move; otherwise the form above for `delta = (offset − prev) / factor`, and the decoded delta times
the code alignment factor is exactly the distance supplied — for every `u32` pair and factor. -/
theorem advance_loc_exact (c : DecodeCfg) (caf prev offset pos : Nat) (bs rest : Bytes)
    (ho : offset < 2 ^ 32) (h : writeAdvanceLoc c.endian caf prev offset = .ok bs) :
    (offset = prev ∧ bs = []) ∨
    (prev < offset ∧ ∃ d, parse c pos (bs ++ rest) = .ok (.advanceLoc d, rest) ∧ d * caf = offset - prev) := by
  unfold writeAdvanceLoc at h
  by_cases he : offset = prev
  · rw [if_pos he] at h
    cases h
    exact Or.inl ⟨he, rfl⟩
  · rw [if_neg he] at h
    obtain ⟨d, hd, hb⟩ := bind_ok_inv h
    obtain ⟨hle, hf, hmul⟩ := (code_ok_iff _ _ _ _).mp hd
    cases hb
    refine Or.inr ⟨by omega, d, ?_, hmul.symm⟩
    have hdlt : d < 2 ^ 32 := by
      have : d ≤ d * caf := Nat.le_mul_of_pos_right d (Nat.pos_of_ne_zero hf)
      omega
    exact parse_adv c pos d rest hdlt

/-! ## 2. factoring is exact -/

/-- **factoring_exact (code offsets).** `factored_code_delta` succeeds with `q` exactly when the
offset does not decrease, the factor is non-zero and the distance is `q · factor`; in every other
case — a decreasing offset, a zero factor, a distance that is not a multiple — it is the named
error `InvalidFrameCodeOffset` (never a panic, never a silently rounded value). -/
theorem factoring_exact_code (prev offset factor : Nat) :
    (∀ q, factoredCodeDelta prev offset factor = .ok q ↔
        (prev ≤ offset ∧ factor ≠ 0 ∧ offset - prev = q * factor)) ∧
    (factoredCodeDelta prev offset factor = .err .wInvalidFrameCodeOffset ↔
        (offset < prev ∨ factor = 0 ∨ (offset - prev) % factor ≠ 0)) ∧
    ((∃ q, factoredCodeDelta prev offset factor = .ok q) ∨
        factoredCodeDelta prev offset factor = .err .wInvalidFrameCodeOffset) := by
  refine ⟨fun q => code_ok_iff prev offset factor q, code_err_iff prev offset factor, ?_⟩
  unfold factoredCodeDelta
  split
  · exact Or.inr rfl
  · simp only []
    split
    · exact Or.inr rfl
    · split
      · exact Or.inr rfl
      · exact Or.inl ⟨_, rfl⟩

/-- **factoring_exact (data offsets).** `factored_data_offset` succeeds with `q` exactly when the
factor is non-zero, the pair is not `i32::MIN / -1` (whose quotient is not an `i32`) and the offset
is `q · factor`; otherwise — zero factor, `i32::MIN / -1`, not a multiple — it is the named error
`InvalidFrameDataOffset`. -/
theorem factoring_exact_data (offset factor : Int) :
    (∀ q, factoredDataOffset offset factor = .ok q ↔
        (factor ≠ 0 ∧ ¬(offset = -(2 ^ 31) ∧ factor = -1) ∧ offset = q * factor)) ∧
    (factoredDataOffset offset factor = .err .wInvalidFrameDataOffset ↔
        (factor = 0 ∨ (offset = -(2 ^ 31) ∧ factor = -1) ∨ ¬ factor ∣ offset)) ∧
    ((∃ q, factoredDataOffset offset factor = .ok q) ∨
        factoredDataOffset offset factor = .err .wInvalidFrameDataOffset) := by
  refine ⟨fun q => data_ok_iff offset factor q, data_err_iff offset factor, ?_⟩
  unfold factoredDataOffset
  split
  · exact Or.inr rfl
  · simp only []
    split
    · exact Or.inr rfl
    · exact Or.inl ⟨_, rfl⟩

/-- an instruction that carries an offset is written iff its offset factors exactly: which
instructions consult the data alignment factor, and that its failure is the instruction's failure -/
theorem instr_write_error_iff (daf : Int) (wi : WInstr) :
    instrWrite daf wi = .err .wInvalidFrameDataOffset ↔
      match wi with
      | .offset _ o | .valOffset _ o => factoredDataOffset o daf = .err .wInvalidFrameDataOffset
      | .cfa _ o | .cfaOffset o => o < 0 ∧ factoredDataOffset o daf = .err .wInvalidFrameDataOffset
      | _ => False := by
  cases wi <;> simp only [instrWrite]
  case cfa r o =>
    by_cases h : o < 0
    · simp only [h, if_true, true_and]
      cases factoredDataOffset o daf <;> simp
    · simp [h]
  case cfaOffset o =>
    by_cases h : o < 0
    · simp only [h, if_true, true_and]
      cases factoredDataOffset o daf <;> simp
    · simp [h]
  case offset r o =>
    cases factoredDataOffset o daf with
    | ok f => simp only [Out.bind_ok]; split <;> (try split) <;> simp
    | _ => simp
  case valOffset r o =>
    cases factoredDataOffset o daf with
    | ok f => simp only [Out.bind_ok]; split <;> simp
    | _ => simp
  case restore r => split <;> simp
  all_goals simp

/-! ## 3. every instruction round-trips through the decoder with the same meaning -/

/-- **instr_roundtrip.** For every `CallFrameInstruction` variant, every operand in the range of
its Rust type (`i32` offsets, `u32` argument size, any registers, any expression bytes), every
data alignment factor and every code alignment factor (`p`), whatever follows in the section and
whatever decoding context (`c`: byte order, address size, encodings, vendor — except that
`NegateRaState` needs the AArch64 vendor setting, without which `0x2d` is not a known opcode): if the writer emits the instruction at
all, then C06's decoder reads exactly one instruction from exactly those bytes, and C06's
call-frame semantics of that decoded instruction (operands multiplied back by the factors, in any
state `s`) is the meaning of the instruction supplied (`wStep`: unfactored offsets) — the same new
state or the same error.  This covers each choice of form: `def_cfa` / `def_cfa_sf`,
`def_cfa_offset` / `_sf`, `offset` / `offset_extended` / `offset_extended_sf`,
`val_offset` / `_sf`, `restore` / `restore_extended`. -/
theorem instr_roundtrip (c : DecodeCfg) (p : Params)
    (wi : WInstr) (hv : wi = .negateRaState → c.vendor = .aarch64) (hr : wi.InRange) (bs : Bytes)
    (h : instrWrite p.dataAlign wi = .ok bs) :
    ∃ i, (∀ (pos : Nat) (rest : Bytes), parse c pos (bs ++ rest) = .ok (i, rest)) ∧
      ∀ s : State, step p s i = wStep s wi :=
  instr_roundtrip_main c p wi hv hr bs h

/-- **rows_roundtrip (whole programs, the "unwind rows" clause).** Take any CIE program and any FDE
program with its code offsets (operands in range; `NegateRaState` only under the AArch64 vendor
setting), any factors, any address size, any initial address and length.  If the writer emits both
instruction streams, then — whatever the number of padding nops behind each, wherever they lie in
the section — C06's instruction iterator decodes both to the end without error, and C06's
call-frame semantics of the decoded streams (`Spec.Unwind.table`, unbounded storage) is exactly
`wTable`: the rows meant by the instructions supplied at their code offsets (each later offset
completes a row `[loc, loc + (offset − prev))` with the rules as they were; the last row ends at
the FDE's end address), or the same error after the same rows when the supplied program is not
meaningful (e.g. `RestoreState` with nothing remembered) or leaves the address space.
With C06's `unwind_bytes_refines` (Model of `UnwindTable` = that semantics) this is: the rows
gimli reads back from a written table are the rows supplied. -/
theorem rows_roundtrip (cc fc : DecodeCfg) (p : Params)
    (cie : List WInstr) (fde : List (Nat × WInstr))
    (hcr : ∀ i ∈ cie, i.InRange) (hcv : ∀ i ∈ cie, i = .negateRaState → cc.vendor = .aarch64)
    (hfr : ProgInRange fde) (hfv : ProgVendorOk fc fde)
    (cb fb : Bytes) (n1 n2 ciePos fdePos initial len : Nat)
    (hc : instrsWrite p.dataAlign cie = .ok cb)
    (hf : fdeInstrsWrite fc.endian p.codeAlign p.dataAlign 0 fde = .ok fb) :
    (decodeAll cc ciePos (cb ++ List.replicate n1 0)).2 = .ok () ∧
    (decodeAll fc fdePos (fb ++ List.replicate n2 0)).2 = .ok () ∧
    table p none none (decodeAll cc ciePos (cb ++ List.replicate n1 0)).1 none
        (decodeAll fc fdePos (fb ++ List.replicate n2 0)).1 none initial len =
      wTable p cie fde initial len :=
  rows_roundtrip_main cc fc p cie fde hcr hcv hfr hfv cb fb n1 n2 ciePos fdePos initial len hc hf

/-! ## 4. decreasing code offsets are rejected -/

/-- **decreasing_rejected.** A code offset lower than the previous one is
`InvalidFrameCodeOffset`, for every factor, and that error is the result of writing the FDE's
instructions whatever precedes (successfully) and whatever follows. -/
theorem decreasing_rejected (e : Endian) (caf prev offset : Nat) (h : offset < prev) :
    writeAdvanceLoc e caf prev offset = .err .wInvalidFrameCodeOffset := by
  unfold writeAdvanceLoc factoredCodeDelta
  rw [if_neg (by omega), if_pos h]
  rfl

/-- success of the FDE instruction loop implies that the supplied code offsets never decrease -/
def NonDecreasing : Nat → List (Nat × WInstr) → Prop
  | _, [] => True
  | prev, (o, _) :: is => prev ≤ o ∧ NonDecreasing o is

/-- **decreasing_rejected, for a whole FDE program.** If the instruction loop of
`FrameDescriptionEntry::write` succeeds, the code offsets were non-decreasing from the start
(`prev_offset = 0`); contrapositive: any decrease anywhere makes the FDE, hence the table, fail. -/
theorem fde_offsets_nondecreasing (e : Endian) (caf : Nat) (daf : Int) :
    ∀ (is : List (Nat × WInstr)) (prev : Nat) (bs : Bytes),
      fdeInstrsWrite e caf daf prev is = .ok bs → NonDecreasing prev is := by
  intro is
  induction is with
  | nil => intro _ _ _; trivial
  | cons oi is ih =>
    obtain ⟨o, i⟩ := oi
    intro prev bs h
    rw [fdeInstrsWrite] at h
    obtain ⟨adv, hadv, h⟩ := bind_ok_inv h
    obtain ⟨a, _, h⟩ := bind_ok_inv h
    obtain ⟨b, hb, _⟩ := bind_ok_inv h
    refine ⟨?_, ih o b hb⟩
    rcases Nat.lt_or_ge o prev with hlt | hge
    · rw [decreasing_rejected e caf prev o hlt] at hadv; cases hadv
    · exact hge

/-! ## 5. entries are padded -/

/-- **padding_aligned.** For every CIE and every FDE the writer emits — both sections, both
formats, address size 1, 2, 4 or 8 (section below 2^64 bytes): *(length-field size + length) ≡ 0
(mod address size)*, i.e. the whole entry, 4- or 12-byte initial length included, is a multiple of
the address size, so that entries written back to back stay aligned.  The entry is its length
field followed by exactly `length` bytes, and the padding bytes are `DW_CFA_nop` (0).
(Full strength since `fix: pad 64-bit format CFI entries to the address size`; before it the
64-bit format with 8-byte addresses gave 4 mod 8.) -/
theorem padding_aligned (m : Mode) (e : Endian) (eh : Bool) (c : WCie) (bs : Bytes)
    (ha : c.addressSize = 1 ∨ c.addressSize = 2 ∨ c.addressSize = 4 ∨ c.addressSize = 8)
    (hlen : bs.length < 2 ^ 64) :
    (∀ off, cieWrite m e eh c off = .ok bs →
      bs.length % c.addressSize = 0 ∧ EntryShape m e c.format c.addressSize bs) ∧
    (∀ off cieOff f, fdeWrite m e eh off cieOff c f = .ok bs →
      bs.length % c.addressSize = 0 ∧ EntryShape m e c.format c.addressSize bs) :=
  ⟨fun off h => ⟨(shape_aligned (cieWrite_shape m e eh c off bs h) ha hlen).1, cieWrite_shape m e eh c off bs h⟩,
   fun off cieOff f h => ⟨(shape_aligned (fdeWrite_shape m e eh off cieOff c f bs h) ha hlen).1,
     fdeWrite_shape m e eh off cieOff c f bs h⟩⟩

/-- the former witness of the padding defect, now aligned: a version 4 CIE in the 64-bit format with
8-byte addresses is written as 32 bytes (12 bytes of initial length + `length` = 20) -/
example : ∃ bs, cieWrite .release .little false
    { format := .dwarf64, version := 4, addressSize := 8, codeAlign := 1, dataAlign := -8, raReg := 16 } 0 = .ok bs ∧
    bs.length = 32 := ⟨_, rfl, by decide⟩

/-! ## 6. identical CIEs share one id and are emitted once, when first needed -/

/-- **cie_dedup (ids).** `add_cie` of a CIE that is already in the table returns the existing id and
leaves the table unchanged (idempotence); two consecutive calls return the same id exactly when
the CIEs are equal (all fields: encoding, factors, register, augmentation, instructions); the id
designates the added CIE, and ids handed out before keep designating theirs. -/
theorem cie_dedup (t : Table) (a b : WCie) :
    (t.addCie a).1.addCie a = ((t.addCie a).1, (t.addCie a).2) ∧
    ((t.addCie a).2 = ((t.addCie a).1.addCie b).2 ↔ a = b) ∧
    (t.addCie a).1.cies[(t.addCie a).2]? = some a ∧
    (∀ (i : Nat) (x : WCie), t.cies[i]? = some x → (t.addCie a).1.cies[i]? = some x) :=
  ⟨addCie_idem t a, addCie_eq_iff t a b, addCie_get t a, fun i x h => addCie_stable t a x i h⟩

/-- **cie_dedup (any call sequence).** After any sequence of `add_cie` calls on an empty table the
table holds no CIE twice, and two calls returned the same id **iff** they were given equal CIEs. -/
theorem cie_dedup_calls (cs : List WCie) (j k : Nat) (hj : j < cs.length) (hk : k < cs.length) :
    (({} : Table).addCies cs).1.cies.Nodup ∧
    ((({} : Table).addCies cs).2[j]? = (({} : Table).addCies cs).2[k]? ↔ cs[j] = cs[k]) := by
  obtain ⟨hnd, _, _, hget⟩ := addCies_spec cs ({} : Table) (by simp)
  refine ⟨hnd, ?_⟩
  obtain ⟨idj, hidj, hgj⟩ := hget j hj
  obtain ⟨idk, hidk, hgk⟩ := hget k hk
  rw [hidj, hidk]
  constructor
  · intro h
    injection h with h
    subst h
    rw [hgj] at hgk
    injection hgk
  · intro h
    rw [h] at hgj
    rw [nodup_getElem?_inj hnd hgj hgk]

/-- **cie_dedup (emission).** In the entries written for a table (either section): a CIE is written
at most once (`Nodup`), it is written **iff** some FDE refers to it (CIEs nobody uses are not
written), it is written right before the first FDE that uses it (`CieThenFde`: every CIE entry is
immediately followed by an FDE entry of that CIE, placed right behind it), and the entries lie back
to back from offset 0 (`Contiguous`), so the section is their concatenation. -/
theorem cie_emitted_once (m : Mode) (e : Endian) (eh : Bool) (t : Table) (es : List Entry)
    (h : tableEntries m e eh t = .ok es) :
    (cieIdxs es).Nodup ∧ (∀ i, i ∈ cieIdxs es ↔ ∃ f, (i, f) ∈ t.fdes) ∧
    CieThenFde es ∧ Contiguous 0 es ∧ tableWrite m e eh t = .ok (es.flatMap Entry.bytes) := by
  unfold tableEntries at h
  obtain ⟨h1, h2, h3, h4⟩ := writeLoop_inv m e eh t.cies t.fdes _ 0 es (by simp) h
  refine ⟨h1, ?_, h3, h4, ?_⟩
  · intro i
    rw [h2 i]
    have : (List.replicate t.cies.length (none : Option Nat)).getD i none = none := by
      simp only [List.getD_eq_getElem?_getD, List.getElem?_replicate]
      split <;> rfl
    rw [this]
    exact ⟨fun hh => hh.2, fun hh => ⟨rfl, hh⟩⟩
  · unfold tableWrite tableEntries
    rw [h]
    rfl

/-- **every FDE is bound to its CIE.** In the entries written for a table, every FDE entry is what
`FrameDescriptionEntry::write` produces for the CIE of its `CieId`, with the CIE pointer computed
against the offset of *the* CIE entry of that id in this section (unique by `cie_emitted_once`),
which lies before it.  (With `fde_header_roundtrip`: reading the FDE finds exactly that CIE.) -/
theorem fde_entries_bound (m : Mode) (e : Endian) (eh : Bool) (t : Table) (es : List Entry)
    (h : tableEntries m e eh t = .ok es) (ci off : Nat) (fb : Bytes) (hmem : Entry.fde ci off fb ∈ es) :
    ∃ c f cieOff cb, t.cies[ci]? = some c ∧ fdeWrite m e eh off cieOff c f = .ok fb ∧ cieOff ≤ off ∧
      Entry.cie ci cieOff cb ∈ es ∧ cieWrite m e eh c cieOff = .ok cb := by
  unfold tableEntries at h
  have hb := writeLoop_bound m e eh t.cies t.fdes _ 0 es (by simp) (by
    intro i o h'
    have : (List.replicate t.cies.length (none : Option Nat)).getD i none = none := by
      simp only [List.getD_eq_getElem?_getD, List.getElem?_replicate]
      split <;> rfl
    rw [this] at h'; cases h') h
  obtain ⟨c, f, cieOff, hc, hw, hle, hor⟩ := FdesBound.mem es hb ci off fb hmem
  rcases hor with h1 | ⟨cb, hm, hcw⟩
  · have : (List.replicate t.cies.length (none : Option Nat)).getD ci none = none := by
      simp only [List.getD_eq_getElem?_getD, List.getElem?_replicate]
      split <;> rfl
    rw [this] at h1; cases h1
  · exact ⟨c, f, cieOff, cb, hc, hw, hle, hm, hcw⟩

/-! ## 7. layout: pointers and entry headers read back -/

/-- **eh_pointer_roundtrip.** Every pointer encoding the writer supports — formats absptr, uleb128,
udata2/4/8, sleb128, sdata2/4/8 × applications absptr and pcrel, with or without the indirect
flag — for every address that fits the address size (1, 2, 4, 8) and every position in the
section: what `write_eh_pointer` emits is decoded by `parse_encoded_pointer` (C06's Model, section
base 0) to the same address and the encoding's indirect flag, consuming exactly those bytes.
(Every other encoding is `UnsupportedPointerEncoding`; a value that does not fit the format is
`ValueTooLarge` — the hypothesis `h` is "the writer did emit it".) -/
theorem eh_pointer_roundtrip (m : Mode) (e : Endian) (pos v enc size : Nat) (p : PtrParams) (bs rest : Bytes)
    (hs : size = 1 ∨ size = 2 ∨ size = 4 ∨ size = 8) (hv : v < 2 ^ (8 * size))
    (hp : p.addressSize = size) (hb : p.sectionBase = some 0)
    (h : ehPointer e pos (.const v) enc size = .ok bs) :
    parseEncodedPointer m e enc p pos (bs ++ rest) = .ok ((v, enc / 128 % 2 = 1), rest) :=
  ehPointer_roundtrip m e pos v enc size p bs rest hs hv hp hb h

/-- **cie_header_roundtrip.** For every CIE the writer emits — both sections, versions 1/3/4, both
formats, every factor, every return address register, every augmentation combination — the small
Spec reader (`Spec.WCfi.readCieHeader`: DWARF 5 §6.4.1 / LSB layout) finds, field by field, what
was supplied: format, a length field equal to the entry size minus the length field, the CIE id,
version, the augmentation string `z[L][P][R][S]`, the address size (version 4), both alignment
factors, the return address register (one byte in version 1 — in `.eh_frame` too since
`fix: write the .eh_frame CIE return address register as a byte` — ULEB128 from version 3 on),
the augmentation data, and after them exactly the emitted initial instructions followed by the
padding nops. -/
theorem cie_header_roundtrip (m : Mode) (e : Endian) (eh : Bool) (c : WCie) (off : Nat) (bs : Bytes)
    (hr : c.InRange) (hlen : bs.length < 2 ^ 64)
    (h : cieWrite m e eh c off = .ok bs) :
    ∃ aug ins n pos, cieAugData e c pos = .ok aug ∧ instrsWrite c.dataAlign c.instructions = .ok ins ∧
      readCieHeader e eh bs = .ok
        { format := c.format, length := bs.length - lenFieldSize c.format, version := c.version,
          augmentation := c.augString,
          addressSize := if c.version = 4 then some c.addressSize else none,
          codeAlign := c.codeAlign, dataAlign := c.dataAlign, raReg := c.raReg.toNat,
          augData := if c.hasAugmentation then some aug.tail else none,
          instructions := ins ++ List.replicate n 0 } :=
  cie_header_roundtrip_main m e eh c off bs hr hlen h

/-- the former witness of the return-address-register defect: an `.eh_frame` CIE with register 128
now carries the single byte `80`, and the reader finds register 128 and the `R` encoding `1b` -/
example : ∃ bs hdr, cieWrite .release .little true
    { format := .dwarf32, version := 1, addressSize := 8, codeAlign := 1, dataAlign := -8, raReg := 128,
      fdeAddressEncoding := 0x1b } 0 = .ok bs ∧
    readCieHeader .little true bs = .ok hdr ∧ hdr.raReg = 128 ∧ hdr.augData = some [0x1b] := by
  refine ⟨_, _, rfl, rfl, ?_, ?_⟩ <;> decide

/-- a version 1 CIE cannot carry a return address register above 255: `ValueTooLarge`, in both sections -/
example : cieWrite .release .little true { version := 1, raReg := 256 } 0 = .err .wValueTooLarge := by decide

/-- **fde_header_roundtrip.** For every FDE the writer emits — both sections and formats, plain
or `R`-encoded address fields, with or without an LSDA — for a constant address and LSDA that fit
the address size: the Spec reader (`Spec.WCfi.readFdeHeader`) finds the CIE the entry was written
for (`.debug_frame`: its section offset; `.eh_frame`: the distance back from the pointer field),
the initial location and address range supplied, the LSDA pointer supplied (with the indirect flag
of its encoding), a length field equal to the entry size minus the length field, and after them
exactly the emitted instructions followed by the padding nops. -/
theorem fde_header_roundtrip (m : Mode) (e : Endian) (eh : Bool) (off cieOff : Nat) (c : WCie) (f : WFde)
    (bs : Bytes) (a : Nat)
    (hs : c.addressSize = 1 ∨ c.addressSize = 2 ∨ c.addressSize = 4 ∨ c.addressSize = 8)
    (ha : f.address = .const a) (hav : a < 2 ^ (8 * c.addressSize)) (hl : f.length < 2 ^ 32)
    (hmatch : f.lsda.isSome = c.lsdaEncoding.isSome)
    (hlsda : ∀ l, f.lsda = some l → ∃ v, l = .const v ∧ v < 2 ^ (8 * c.addressSize))
    (hcie : cieOff ≤ off) (hend : off + bs.length < 2 ^ 64)
    (h : fdeWrite m e eh off cieOff c f = .ok bs) :
    ∃ ins n, fdeInstrsWrite e c.codeAlign c.dataAlign 0 f.instructions = .ok ins ∧
      readFdeHeader m e eh c.info off bs = .ok
        { format := c.format, length := bs.length - lenFieldSize c.format, cieOffset := cieOff,
          initialLocation := a, addressRange := f.length, lsda := expectedLsda c f,
          instructions := ins ++ List.replicate n 0 } :=
  fde_header_roundtrip_main m e eh off cieOff c f bs a hs ha hav hl hmatch hlsda hcie hend h

/-! ## non-vacuity: the hypotheses are satisfiable by concrete, non-trivial values -/

example : (WInstr.offset 16 (-8)).InRange := by unfold WInstr.InRange isI32; decide
example : instrWrite (-8) (.offset 16 (-8)) = .ok [0x90, 0x01] := by decide
example : instrWrite (-8) (.offset 16 8) = .ok [0x11, 0x10, 0x7f] := by decide
example : instrWrite 4 (.offset 16 (-6)) = .err .wInvalidFrameDataOffset := by decide
example : writeAdvanceLoc .little 4 8 0x108 = .ok [0x02, 0x40] := by decide
example : writeAdvanceLoc .little 4 8 0x104 = .ok [0x7f] := by decide
example : writeAdvanceLoc .little 1 0 0x100 = .ok [0x03, 0x00, 0x01] := by decide
example : ProgInRange [(0, .cfaOffset 16), (4, .offset 6 (-16)), (0x104, .restore 6)] := by
  simp [ProgInRange, WInstr.InRange, isI32]
example : (({} : WCie)).InRange := by
  refine ⟨by decide, by decide, by decide, by decide, ?_, ?_, by decide⟩ <;> intro _ <;> simp
example : ehPointer .little 0x20 (.const 0x1000) 0x1b 8 = .ok [0xe0, 0x0f, 0x00, 0x00] := by decide
example : ∃ bs, fdeWrite .release .little true 0x18 0 { fdeAddressEncoding := 0x1b, dataAlign := -8 }
    { address := .const 0x1000, length := 0x20, instructions := [(4, .cfaOffset 16)] } = .ok bs ∧ bs.length = 24 :=
  ⟨_, rfl, by decide⟩

end Gimli.Props.C14
