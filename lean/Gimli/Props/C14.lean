import Gimli.Lemmas.WCfi
/-!
# C14 — Written frame tables read back with the same CIEs, FDEs and unwind rows

Property theorems only (helper lemmas: `Gimli/Lemmas/{WCfi,WCfiSleb}.lean`).

* **Model** (`Gimli/Model/WCfi.lean`, tied to `src/write/cfi.rs` and
  `Writer::write_eh_pointer(_data)` by the byte-exact correspondence run):
  `CallFrameInstruction::write`, `write_advance_loc`, `factored_code_delta`,
  `factored_data_offset`, `write_nop`, `CommonInformationEntry::write`,
  `FrameDescriptionEntry::{add_instruction, write}`, `FrameTable::{add_cie, add_fde, write}`.
* **Reader side**: C06's Model of `CallFrameInstruction::parse` (`Cfi.parse`) and C06's
  declarative call-frame semantics (`Spec.Unwind.step`).
* **Spec** (`Gimli/Spec/WCfi.lean`): `wStep`, the meaning of a supplied (unfactored) instruction.
-/
namespace Gimli.Props.C14
open Gimli Gimli.WCfi Gimli.Cfi Gimli.Unwind Gimli.Spec.Unwind Gimli.Spec.WCfi

/-! ## 1. `write_advance_loc`: the form chosen for a factored delta decodes to exactly that delta -/

/-- **advance_loc widths.** For every factored delta below 2^32 (the writer's `u32`), whatever
follows in the section, the bytes chosen by `write_advance_loc` — `DW_CFA_advance_loc | delta`
below 0x40, `advance_loc1` below 0x100, `advance_loc2` below 0x10000, `advance_loc4` otherwise —
are decoded by `CallFrameInstruction::parse` (C06's Model) as `AdvanceLoc { delta }` with
exactly that delta, consuming exactly those bytes; and the emitted length is 1, 2, 3 or 5 bytes
on the respective side of each boundary (0x3f/0x40, 0xff/0x100, 0xffff/0x10000). -/
theorem advance_loc_widths (c : DecodeCfg) (pos delta : Nat) (rest : Bytes) (h : delta < 2 ^ 32) :
    parse c pos (advanceLocBytes c.endian delta ++ rest) = .ok (.advanceLoc delta, rest) ∧
    (advanceLocBytes c.endian delta).length =
      (if delta < 0x40 then 1 else if delta < 0x100 then 2 else if delta < 0x10000 then 3 else 5) := by
  refine ⟨parse_adv c pos delta rest h, ?_⟩
  unfold advanceLocBytes
  split
  · rfl
  · split
    · simp [Ints.toBytes_length]
    · split <;> simp [Ints.toBytes_length]

/-- **What `write_advance_loc` emits for a pair of code offsets**: nothing when the offset does not
move; otherwise the form above for `delta = (offset − prev) / factor`, and the decoded delta times
the code alignment factor is exactly the distance supplied — for every `u32` pair and factor. -/
theorem advance_loc_exact (c : DecodeCfg) (caf prev offset pos : Nat) (bs rest : Bytes)
    (ho : offset < 2 ^ 32) (h : writeAdvanceLoc c.endian caf prev offset = .ok bs) :
    (offset = prev ∧ bs = []) ∨
    (prev < offset ∧ ∃ d, parse c pos (bs ++ rest) = .ok (.advanceLoc d, rest) ∧ d * caf = offset - prev) := by
  unfold writeAdvanceLoc at h
  by_cases he : offset = prev
  · rw [if_pos he] at h
    cases h
    exact Or.inl ⟨he, rfl⟩
  · rw [if_neg he] at h
    obtain ⟨d, hd, hb⟩ := bind_ok_inv h
    obtain ⟨hle, hf, hmul⟩ := (code_ok_iff _ _ _ _).mp hd
    cases hb
    refine Or.inr ⟨by omega, d, ?_, hmul.symm⟩
    have hdlt : d < 2 ^ 32 := by
      have : d ≤ d * caf := Nat.le_mul_of_pos_right d (Nat.pos_of_ne_zero hf)
      omega
    exact parse_adv c pos d rest hdlt

/-! ## 2. factoring is exact -/

/-- **factoring_exact (code offsets).** `factored_code_delta` succeeds with `q` exactly when the
offset does not decrease, the factor is non-zero and the distance is `q · factor`; in every other
case — a decreasing offset, a zero factor, a distance that is not a multiple — it is the named
error `InvalidFrameCodeOffset` (never a panic, never a silently rounded value). -/
theorem factoring_exact_code (prev offset factor : Nat) :
    (∀ q, factoredCodeDelta prev offset factor = .ok q ↔
        (prev ≤ offset ∧ factor ≠ 0 ∧ offset - prev = q * factor)) ∧
    (factoredCodeDelta prev offset factor = .err .wInvalidFrameCodeOffset ↔
        (offset < prev ∨ factor = 0 ∨ (offset - prev) % factor ≠ 0)) ∧
    ((∃ q, factoredCodeDelta prev offset factor = .ok q) ∨
        factoredCodeDelta prev offset factor = .err .wInvalidFrameCodeOffset) := by
  refine ⟨fun q => code_ok_iff prev offset factor q, code_err_iff prev offset factor, ?_⟩
  unfold factoredCodeDelta
  split
  · exact Or.inr rfl
  · simp only []
    split
    · exact Or.inr rfl
    · split
      · exact Or.inr rfl
      · exact Or.inl ⟨_, rfl⟩

/-- **factoring_exact (data offsets).** `factored_data_offset` succeeds with `q` exactly when the
factor is non-zero, the pair is not `i32::MIN / -1` (whose quotient is not an `i32`) and the offset
is `q · factor`; otherwise — zero factor, `i32::MIN / -1`, not a multiple — it is the named error
`InvalidFrameDataOffset`. -/
theorem factoring_exact_data (offset factor : Int) :
    (∀ q, factoredDataOffset offset factor = .ok q ↔
        (factor ≠ 0 ∧ ¬(offset = -(2 ^ 31) ∧ factor = -1) ∧ offset = q * factor)) ∧
    (factoredDataOffset offset factor = .err .wInvalidFrameDataOffset ↔
        (factor = 0 ∨ (offset = -(2 ^ 31) ∧ factor = -1) ∨ ¬ factor ∣ offset)) ∧
    ((∃ q, factoredDataOffset offset factor = .ok q) ∨
        factoredDataOffset offset factor = .err .wInvalidFrameDataOffset) := by
  refine ⟨fun q => data_ok_iff offset factor q, data_err_iff offset factor, ?_⟩
  unfold factoredDataOffset
  split
  · exact Or.inr rfl
  · simp only []
    split
    · exact Or.inr rfl
    · exact Or.inl ⟨_, rfl⟩

/-- an instruction that carries an offset is written iff its offset factors exactly: which
instructions consult the data alignment factor, and that its failure is the instruction's failure -/
theorem instr_write_error_iff (daf : Int) (wi : WInstr) :
    instrWrite daf wi = .err .wInvalidFrameDataOffset ↔
      match wi with
      | .offset _ o | .valOffset _ o => factoredDataOffset o daf = .err .wInvalidFrameDataOffset
      | .cfa _ o | .cfaOffset o => o < 0 ∧ factoredDataOffset o daf = .err .wInvalidFrameDataOffset
      | _ => False := by
  cases wi <;> simp only [instrWrite]
  case cfa r o =>
    by_cases h : o < 0
    · simp only [h, if_true, true_and]
      cases factoredDataOffset o daf <;> simp
    · simp [h]
  case cfaOffset o =>
    by_cases h : o < 0
    · simp only [h, if_true, true_and]
      cases factoredDataOffset o daf <;> simp
    · simp [h]
  case offset r o =>
    cases factoredDataOffset o daf with
    | ok f => simp only [Out.bind_ok]; split <;> (try split) <;> simp
    | _ => simp
  case valOffset r o =>
    cases factoredDataOffset o daf with
    | ok f => simp only [Out.bind_ok]; split <;> simp
    | _ => simp
  case restore r => split <;> simp
  all_goals simp

/-! ## 3. every instruction round-trips through the decoder with the same meaning -/

/-- **instr_roundtrip.** For every `CallFrameInstruction` variant, every operand in the range of
its Rust type (`i32` offsets, `u32` argument size, any registers, any expression bytes), every
data alignment factor and every code alignment factor (`p`), whatever follows in the section and
whatever decoding context (`c`: byte order, address size, encodings, vendor — except that
`NegateRaState` needs the AArch64 vendor setting, without which `0x2d` is not a known opcode): if the writer emits the instruction at
all, then C06's decoder reads exactly one instruction from exactly those bytes, and C06's
call-frame semantics of that decoded instruction (operands multiplied back by the factors, in any
state `s`) is the meaning of the instruction supplied (`wStep`: unfactored offsets) — the same new
state or the same error.  This covers each choice of form: `def_cfa` / `def_cfa_sf`,
`def_cfa_offset` / `_sf`, `offset` / `offset_extended` / `offset_extended_sf`,
`val_offset` / `_sf`, `restore` / `restore_extended`. -/
theorem instr_roundtrip (c : DecodeCfg) (p : Params)
    (wi : WInstr) (hv : wi = .negateRaState → c.vendor = .aarch64) (hr : wi.InRange) (bs rest : Bytes) (pos : Nat) (s : State)
    (h : instrWrite p.dataAlign wi = .ok bs) :
    ∃ i, parse c pos (bs ++ rest) = .ok (i, rest) ∧ step p s i = wStep s wi :=
  instr_roundtrip_main c p wi hv hr bs rest pos s h

/-! ## 4. decreasing code offsets are rejected -/

/-- **decreasing_rejected.** A code offset lower than the previous one is
`InvalidFrameCodeOffset`, for every factor, and that error is the result of writing the FDE's
instructions whatever precedes (successfully) and whatever follows. -/
theorem decreasing_rejected (e : Endian) (caf prev offset : Nat) (h : offset < prev) :
    writeAdvanceLoc e caf prev offset = .err .wInvalidFrameCodeOffset := by
  unfold writeAdvanceLoc factoredCodeDelta
  rw [if_neg (by omega), if_pos h]
  rfl

end Gimli.Props.C14
