import Gimli.Model.Reuse
import Gimli.Model.ReuseUnwind
/-!
# C20 — reused contexts, buffers, iterators and caches behave like fresh ones
-/
namespace Gimli.Props.C20
open Gimli Gimli.Reuse

variable {α Row Rule Fde Res ρ : Type}

/-! ## ArrayVec: stale storage is unobservable -/

/-- after `clear`, whatever was stored before, the vector observes as empty -/
theorem avec_clear_observe (v : AVec α) : v.clear.observe = [] := rfl

/-- pushing onto two vectors with the same live contents gives the same observation and the same
success/failure, whatever their unused slots contain -/
theorem avec_push_observe (cap : Nat) (v w : AVec α) (x : α) (h : v.observe = w.observe) :
    (AVec.tryPush cap v x).map AVec.observe = (AVec.tryPush cap w x).map AVec.observe := by
  simp only [AVec.observe] at h
  unfold AVec.tryPush
  rw [h]
  split <;> simp [AVec.observe]

theorem avec_pop_observe (v w : AVec α) (h : v.observe = w.observe) :
    v.pop.map (fun p => (p.1, p.2.observe)) = w.pop.map (fun p => (p.1, p.2.observe)) := by
  simp only [AVec.observe] at h
  unfold AVec.pop
  rw [h]
  split <;> simp [AVec.observe]

/-- inserting into two vectors with the same live contents gives the same observation and the same
success/failure, whatever their unused slots contain — in particular nothing from beyond the live
length can become observable (`save_initial_rules` on a context whose upper slots still hold rows
of an earlier evaluation) -/
theorem avec_insert_observe (cap : Nat) (v w : AVec α) (i : Nat) (x : α) (h : v.observe = w.observe) :
    (AVec.tryInsert cap v i x).map AVec.observe = (AVec.tryInsert cap w i x).map AVec.observe := by
  simp only [AVec.observe] at h
  unfold AVec.tryInsert
  rw [h]
  split <;> simp [AVec.observe]

/-- and the inserted vector observes as the live elements with `x` at position `i` -/
theorem avec_insert_spec (cap : Nat) (v : AVec α) (i : Nat) (x : α) (v' : AVec α)
    (h : AVec.tryInsert cap v i x = some v') :
    v'.observe = v.observe.take i ++ x :: v.observe.drop i := by
  unfold AVec.tryInsert at h
  split at h
  · simp only [Option.some.injEq] at h; subst h; rfl
  · simp at h

/-! ## UnwindContext -/

/-- **reset = fresh**, for EVERY context state — whatever rows, initial rule and flag an earlier
(successful, failed mid-CIE, failed mid-FDE, overflowed) evaluation left behind -/
theorem reset_is_fresh (dflt : Row) (c : Ctx Row Rule) :
    (Ctx.reset dflt c).observe = (Ctx.fresh dflt : Ctx Row Rule).observe := rfl

/-- one evaluation on any context gives what a fresh context gives -/
theorem eval_reused_eq_fresh (E : Evaluator Row Rule Fde Res) (c : Ctx Row Rule) (f : Fde) :
    (E.eval c f).1 = (E.eval (Ctx.fresh E.dflt) f).1 :=
  E.respects _ _ f rfl

/-- **histories**: evaluating any sequence of FDEs on one reused context yields, step by step,
exactly what evaluating each FDE on its own fresh context yields -/
theorem history_reused_eq_fresh (E : Evaluator Row Rule Fde Res) (fs : List Fde) :
    ∀ c : Ctx Row Rule, E.history c fs = fs.map (fun f => (E.eval (Ctx.fresh E.dflt) f).1) := by
  induction fs with
  | nil => intro c; rfl
  | cons f fs ih =>
    intro c
    simp only [Evaluator.history, List.map_cons]
    rw [ih, eval_reused_eq_fresh E c f]

/-! ## the unwind machine of C06 on a reused context -/

open Gimli.ReuseUnwind in
/-- `unwind` (Model/Unwind.lean, the function C06's theorems and correspondence run are about) is
`unwindOn` started on the context its own `reset` creates -/
theorem unwind_eq_unwindOn (x : FdeIn) (h : x.cfg.R.hasRoom 0 = true) :
    Unwind.unwind x.cfg x.cie x.cieTail x.fde x.fdeTail x.initial x.len
      = unwindOn x { stack := [{}], initialRule := none, isInitialized := false } := by
  simp [Unwind.unwind, unwindOn, Unwind.initializeCtx, Unwind.reset, h]

open Gimli.ReuseUnwind in
/-- **a reused `UnwindContext` unwinds like C06's fresh one**: for EVERY context — whatever rows,
initial rule, flag and unused storage contents earlier evaluations (successful, failed in the CIE,
failed in the FDE, stack overflowed) left behind — every FDE, CIE, configuration and capacity
(≥ 1), evaluating on that context yields exactly the rows and the outcome that `Unwind.unwind`
yields; so every theorem of Props/C06.lean about `unwind` holds on reused contexts. -/
theorem unwind_reused_eq_fresh (c : Reuse.Ctx Unwind.Row IRule) (x : FdeIn) (h : x.cfg.R.hasRoom 0 = true) :
    (evaluator.eval c x).1 = Unwind.unwind x.cfg x.cie x.cieTail x.fde x.fdeTail x.initial x.len := by
  rw [unwind_eq_unwindOn x h]
  rfl

open Gimli.ReuseUnwind in
/-- histories of FDEs on one context, with C06's machine -/
theorem unwind_history_reused_eq_fresh (fs : List FdeIn) (c : Reuse.Ctx Unwind.Row IRule)
    (h : ∀ x ∈ fs, x.cfg.R.hasRoom 0 = true) :
    evaluator.history c fs
      = fs.map (fun x => Unwind.unwind x.cfg x.cie x.cieTail x.fde x.fdeTail x.initial x.len) := by
  induction fs generalizing c with
  | nil => rfl
  | cons x xs ih =>
    simp only [Evaluator.history, List.map_cons]
    rw [unwind_reused_eq_fresh c x (h x (by simp)), ih _ (fun y hy => h y (by simp [hy]))]

/-! ## abbreviation cache -/

theorem lookup_map (parse : Nat → ρ) (l : List Nat) (o : Nat) :
    (Cache.lookup ⟨l.map (fun o => (o, parse o))⟩ o) = none ∨
    (Cache.lookup ⟨l.map (fun o => (o, parse o))⟩ o) = some (parse o) := by
  induction l with
  | nil => left; rfl
  | cons x xs ih =>
    simp only [Cache.lookup, List.map_cons, List.find?_cons]
    by_cases hx : x = o
    · right; simp [hx]
    · have : (x == o) = false := by simpa using hx
      simp only [this]
      simpa [Cache.lookup] using ih

theorem get_map (parse : Nat → ρ) (l : List Nat) (o : Nat) :
    Cache.get parse ⟨l.map (fun o => (o, parse o))⟩ o = parse o := by
  unfold Cache.get
  rcases lookup_map parse l o with h | h <;> simp [h]

/-- **cache transparency**: under either population strategy, for any list of unit abbreviation
offsets (shared or not, valid or not — `parse` returns a `Result`, errors are values), and
whatever the cache held before, `get` returns exactly what parsing returns -/
theorem cache_transparent (parse : Nat → ρ) (s : Strategy) (unitOffsets : List Nat) (old : Cache ρ)
    (o : Nat) : Cache.get parse (Cache.populate parse s unitOffsets old) o = parse o := by
  exact get_map parse _ o

/-- the empty cache (no strategy) parses -/
theorem cache_empty (parse : Nat → ρ) (o : Nat) : Cache.get parse ⟨[]⟩ o = parse o := rfl

/-! non-vacuity -/
example : dupOffsets [0, 15, 0, 23, 15, 7] = [0, 15] := by decide
example : (AVec.tryPush 2 (⟨[1], [9, 9]⟩ : AVec Nat) 5).map AVec.observe =
    (AVec.tryPush 2 (⟨[1], []⟩ : AVec Nat) 5).map AVec.observe := by decide

end Gimli.Props.C20
