import Gimli.Model.ConvUnit
import Gimli.Model.Op
import Gimli.Lemmas.Leb
/-!
# C12, vtable slots: what `convert_attribute_value` copies verbatim

`DW_AT_vtable_elem_location` is the one place where the converter bypasses `Expression::from` and
copies the input bytes (`Expression::raw`): nothing inside a raw expression is re-encoded, so any
entry reference, typed operation, branch or indexed address in it would keep its *input* offsets.
The theorems below show that the raw path (`ConvUnit.vtableRaw`, as repaired by fix ac9183c) is
taken only for an expression that the decoder reads as exactly one `DW_OP_constu` operation — an
expression that contains nothing to retarget — and that it is taken for every such expression.
Before the repair the test was "the first byte is `DW_OP_constu`" (`vtable_raw_old_rule_differs`
pins an input on which the two rules differ).
-/
namespace Gimli.Props.C12
open Gimli Gimli.ConvUnit

/-- the raw path is taken only for `DW_OP_constu v` with nothing after it: the decoder reads the
whole expression as that one operation -/
theorem vtable_raw_is_lone_constu (e : Endian) (enc : Op.Encoding) (bs : Bytes) (h : vtableRaw bs = true) :
    ∃ v, Op.parse e enc bs = .ok (.unsignedConstant v, []) := by
  unfold vtableRaw at h
  match bs, h with
  | op :: rest, h =>
    simp only [Bool.and_eq_true, beq_iff_eq] at h
    obtain ⟨hop, hrest⟩ := h
    subst hop
    split at hrest
    · rename_i v hv
      refine ⟨v, ?_⟩
      show Op.parseOperands e enc 0x10 rest = _
      unfold Op.parseOperands
      simp only [hv]
      rfl
    · exact absurd hrest (by decide)

/-- and for every such expression (canonical ULEB128 of any 64-bit value) -/
theorem vtable_raw_of_constu (v : Nat) (hv : v < 2 ^ 64) : vtableRaw (0x10 :: Leb.encodeU v) = true := by
  unfold vtableRaw
  have h := Leb.unsigned_roundtrip v hv []
  rw [List.append_nil] at h
  simp only [h, beq_self_eq_true, Bool.and_self]

/-- anything after the `DW_OP_constu` (here `DW_OP_call4 0x14`), and any other first operation,
is converted -/
example : vtableRaw [0x10, 0x01, 0x99, 0x14, 0, 0, 0] = false := by decide
example : vtableRaw [0x31] = false := by decide
example : vtableRaw [0x10] = false := by decide
example : vtableRaw [0x10, 0x05] = true := by decide

/-- the rule before fix ac9183c ("starts with `DW_OP_constu`") accepted expressions the repaired
rule converts -/
theorem vtable_raw_old_rule_differs :
    ∃ bs : Bytes, bs.head? = some 0x10 ∧ vtableRaw bs = false := ⟨[0x10, 0x01, 0x99, 0x14, 0, 0, 0], by decide⟩

end Gimli.Props.C12
