import Gimli.Lemmas.ReaderKinds
import Gimli.Lemmas.ReaderViews
import Gimli.Lemmas.ReaderNoPanic
import Gimli.Lemmas.Leb
import Gimli.Model.Utf8
/-!
# C10 — Readers are faithful zero-copy views; all reader kinds behave identically

Property theorems only. They are about the definitions of `Gimli/Model/Reader.lean`, which the
driver executes and the correspondence check (`harness/src/prop/c10.rs`) ties to
`src/read/endian_slice.rs`, `src/read/endian_reader.rs` (`SubRange`), `src/read/relocate.rs` and
the default methods of `src/read/reader.rs`.

Quantifiers: every section (`Bytes`, any length), every history (`List Op`, any length, every
operation with every argument — in range or not — applied to any reader of the table, live or
not), both byte orders, both build modes, every UTF-8 validity predicate / lossy conversion
(`valid`, `lossy` are parameters), every relocation function where one occurs.

* `sharedImpl` is `EndianReader<Endian, T>` for every `T : CloneStableDeref` — `EndianRcSlice`,
  `EndianArcSlice` and custom buffers are the same generic code and therefore the same Model;
  that the three instantiations agree is checked on the real code only (harness oracle
  `kinds-differ`).
* Memory safety of the shared-buffer reader under clone/split/truncate/drop **in any order** is
  carried here only as far as a pure model can: every reachable `(ptr, len)` stays inside the
  allocation (`subrange_inv`), for every history including `clone` and `drop`. Reference counts,
  the allocator and `Send`/`Sync` are not modelled — that clause is PARTIAL (observed by the
  harness: live-handle counter of a custom buffer, drop in scrambled order; Miri in the
  thorough tier where available).
-/
namespace Gimli.Props.C10
open Gimli Gimli.Rd

variable (m : Mode) (e : Endian) (valid : Bytes → Bool) (lossy : Bytes → Bytes)

/-! ## (1) `subrange_inv` -/

/-- **Every reachable `SubRange` stays inside the allocation.** For every section, every history of
reader operations (any operation, any argument, any order, including `clone` and `drop`) and every
reader `c` that is live afterwards: `c` is a window of the original section and
`off + len ≤ sec.length`. Since every prefix of a history is a history, this holds at every
intermediate point too — so each `ptr.add(n)` and each `slice::from_raw_parts(ptr, len)` executed
by `SubRange::{bytes, skip, read_slice}` is in bounds. (Induction over histories:
`Rd.runHist_all`, with `Rd.sharedImpl_safe` for the single operations.) -/
theorem subrange_inv (sec : Bytes) (ops : List Op) (c : Cur)
    (hc : some c ∈ (runHist sharedImpl m e valid lossy (St.init (Cur.ofSec sec)) ops).2.rs) :
    c.sec = sec ∧ c.off + c.len ≤ sec.length :=
  (runHist_all (sharedImpl_safe sec) m e valid lossy ops _ (St.All.init (Win.ofSec sec))).2 c hc

/-- the same for `EndianSlice` (safe code; the bound is what makes `&self.slice[..len]` not panic) -/
theorem subrange_inv_slice (sec : Bytes) (ops : List Op) (c : Cur)
    (hc : some c ∈ (runHist sliceImpl m e valid lossy (St.init (Cur.ofSec sec)) ops).2.rs) :
    c.sec = sec ∧ c.off + c.len ≤ sec.length :=
  (runHist_all (sliceImpl_safe sec) m e valid lossy ops _ (St.All.init (Win.ofSec sec))).2 c hc

/-- … and for `RelocateReader` over the shared-buffer reader with ANY relocation function; its
`section` field is never changed -/
theorem subrange_inv_reloc (sec : Bytes) (rel : Rel) (ops : List Op) (s : RCur Cur)
    (hs : some s ∈ (runHist (relocImpl sharedImpl rel) m e valid lossy
      (St.init (RCur.new (Cur.ofSec sec))) ops).2.rs) :
    (s.rdr.sec = sec ∧ s.rdr.off + s.rdr.len ≤ sec.length) ∧ s.sect = Cur.ofSec sec :=
  (runHist_all (relocImpl_safe (Q := fun c => c = Cur.ofSec sec) (sharedImpl_safe sec) rel)
    m e valid lossy ops _ (St.All.init ⟨Win.ofSec sec, rfl⟩)).2 s hs

/-- The `assert!(len <= self.len)` of `SubRange::{truncate, skip}` is never reached from the
`Reader` methods (each call site has compared with `self.len()` before), for any argument. -/
theorem subrange_asserts_unreachable (n : Nat) (c : Cur) (w : String) :
    (Shared.truncate n c).1 ≠ .panic w ∧ (Shared.skip n c).1 ≠ .panic w ∧
    (Shared.split n c).1 ≠ .panic w ∧ (Shared.readSlice n c).1 ≠ .panic w := by
  rw [Shared.truncate_eq, Shared.skip_eq, Shared.split_eq, Shared.readSlice_eq]
  unfold Slice.truncate Slice.skip Slice.split Slice.readSlice Slice.readSliceRaw M.bind M.pure
  by_cases h : c.len < n <;> simp [h]

/-- **Along every history no operation on the shared-buffer reader panics**, API misuse apart
(`read_uint(n)` with `n > 8`, documented; `offset_from` with a base the reader does not lie in,
a `debug_assert!`): so none of `SubRange`'s `assert!`s, which guard its pointer arithmetic, fires,
whatever the history before (`st` is arbitrary) and whatever the arguments. -/
theorem subrange_hist_no_panic (st : St Cur) (op : Op) (h : Op.misuse m op = false) (w : String) :
    (step sharedImpl m e valid lossy st op).1.res ≠ .panic w :=
  step_no_panic m e valid lossy st op h w

/-- The raw-pointer arithmetic of `SubRange` computes exactly the windows that safe slicing
(`&s[..n]`, `&s[n..]`) computes, for in-range and out-of-range arguments. -/
theorem subrange_eq_safe_slicing (n : Nat) (c : Cur) :
    Shared.truncate n c = Slice.truncate n c ∧ Shared.skip n c = Slice.skip n c ∧
    Shared.split n c = Slice.split n c ∧ Shared.readSlice n c = Slice.readSlice n c :=
  ⟨Shared.truncate_eq n c, Shared.skip_eq n c, Shared.split_eq n c, Shared.readSlice_eq n c⟩

/-! ## (2) `views_are_views` -/

/-- **What a reader shows is the section at its offset.** `to_slice` of a window `c` of `sec` is
`sec.extract off (off+len)`; so are `to_string` (when it succeeds) and the borrowed
`to_string_lossy`. -/
theorem views_are_views_slices (sec : Bytes) (c : Cur) (hc : c.sec = sec) :
    Shared.toSlice c = .ok (sec.extract c.off (c.off + c.len)) ∧
    Slice.toSlice c = .ok (sec.extract c.off (c.off + c.len)) ∧
    (∀ b, Shared.toStr valid c = .ok b → b = sec.extract c.off (c.off + c.len)) ∧
    (∀ b, Shared.toLossy valid lossy c = .ok (true, b) → b = sec.extract c.off (c.off + c.len)) := by
  subst hc
  refine ⟨by simp [Shared.toSlice, SubRange.bytes, Cur.bytes_eq_extract],
    by simp [Slice.toSlice, Cur.bytes_eq_extract], fun b hb => ?_, fun b hb => ?_⟩
  · unfold Shared.toStr at hb
    split at hb
    · cases hb; exact Cur.bytes_eq_extract c
    · cases hb
  · unfold Shared.toLossy at hb
    split at hb
    · cases hb; exact Cur.bytes_eq_extract c
    · cases hb

/-- **`split` hands back a view, not a copy.** The returned reader is `(sec, off, n)`, the reader
itself continues at `(sec, off+n, len-n)`; the two windows are adjacent, and together they are
the old window (nothing reordered, nothing from outside). Same statement for both concrete kinds
(`subrange_eq_safe_slicing`). -/
theorem views_are_views_split (n : Nat) (c r c' : Cur) (h : Shared.split n c = (.ok r, c')) :
    n ≤ c.len ∧ r = { c with len := n } ∧ c' = { c with off := c.off + n, len := c.len - n } ∧
    r.bytes = c.sec.extract c.off (c.off + n) ∧ r.bytes ++ c'.bytes = c.bytes := by
  rw [Shared.split_eq] at h
  obtain ⟨h1, h2, h3⟩ := Slice.split_ok h
  obtain ⟨_, _, h6⟩ := Slice.split_bytes h
  refine ⟨h1, h2, h3, ?_, h6⟩
  subst h2
  simp [Cur.bytes, List.extract_eq_take_drop]

/-- **`read_slice` copies out exactly `sec[off .. off+n]`** and advances by `n`. -/
theorem views_are_views_read (n : Nat) (c c' : Cur) (bs : Bytes)
    (h : Shared.readSlice n c = (.ok bs, c')) :
    n ≤ c.len ∧ bs = c.sec.extract c.off (c.off + n) ∧
      c' = { c with off := c.off + n, len := c.len - n } := by
  rw [Shared.readSlice_eq] at h
  obtain ⟨h1, h2, _, h4⟩ := Slice.readSlice_ok h
  exact ⟨h1, h2, h4⟩

/-- **`read_null_terminated_slice`**: the returned reader is the window up to the first NUL of
the old window (`sec[off .. off+idx]`, no NUL inside), the reader continues after the NUL. -/
theorem views_are_views_nts (c r c' : Cur) (h : Dflt.readNts sliceCore c = (.ok r, c')) :
    ∃ idx, idx + 1 ≤ c.len ∧ r = { c with len := idx } ∧
      c' = { c with off := c.off + idx + 1, len := c.len - idx - 1 } ∧
      ∃ hi : idx < c.bytes.length, c.bytes[idx] = 0 ∧ ∀ j (hj : j < idx), c.bytes[j]'(by omega) ≠ 0 := by
  obtain ⟨idx, hp, h1, h2, h3⟩ := Slice.readNts_ok h
  exact ⟨idx, h1, h2, h3, position_spec hp⟩

/-- **`read_uleb128` through a reader is the C09 decoder on the reader's window**: the value is the
mathematical value of exactly one LEB128 number `pre` at the front of the window (all of C09's
`uleb_sound` carries over), and the reader continues right behind it, still a view of the same
section. -/
theorem views_are_views_uleb (c c' : Cur) (v : Nat) (hinv : c.Inv)
    (h : Dflt.readUleb sharedCore c = (.ok v, c')) :
    ∃ pre, c.bytes = pre ++ c'.bytes ∧ Spec.IsLebEnc pre ∧ pre.length ≤ 10 ∧ v = Spec.ulebVal pre ∧
      c'.sec = c.sec ∧ c'.off = c.off + pre.length ∧ c'.len = c.len - pre.length := by
  obtain ⟨rest, hf, hsec, hbytes, hoff, hlen⟩ := via_ok Leb.unsigned _ c c' v hinv
    (fun v rest hv => by
      obtain ⟨pre, hp, _⟩ := Leb.unsigned_sound _ v rest hv
      exact ⟨pre, hp⟩) h
  obtain ⟨pre, hp, henc, hl10, hv, _⟩ := Leb.unsigned_sound _ v rest hf
  have hl : c.bytes.length = c.len := Cur.bytes_length hinv
  have hpl : pre.length + rest.length = c.len := by rw [← hl, hp]; simp
  exact ⟨pre, by rw [hbytes]; exact hp, henc, hl10, hv, hsec, by omega, by omega⟩

/-- **Along every history** every reader in the table — hence every sub-reader ever returned by
`split`, `clone` or `read_null_terminated_slice`, since each is entered into the table — is
`(sec, off', len')` with `off' + len' ≤ sec.length`, its bytes are `sec.extract off' (off'+len')`,
and the window reported in the trace is `(off', len')`. -/
theorem views_are_views (sec : Bytes) (ops : List Op) (i : Nat) (c : Cur)
    (hc : (runHist sharedImpl m e valid lossy (St.init (Cur.ofSec sec)) ops).2.get i = some c) :
    c.sec = sec ∧ c.off + c.len ≤ sec.length ∧ c.bytes = sec.extract c.off (c.off + c.len) ∧
    (step sharedImpl m e valid lossy
        (runHist sharedImpl m e valid lossy (St.init (Cur.ofSec sec)) ops).2 (.toSlice i)).1 =
      { res := .ok (.bytes (sec.extract c.off (c.off + c.len))),
        tgt := some { off := c.off, len := c.len }, new := none } := by
  have hw : Win sec c :=
    (runHist_all (sharedImpl_safe sec) m e valid lossy ops _ (St.All.init (Win.ofSec sec))).get hc
  obtain ⟨h1, h2⟩ := hw
  refine ⟨h1, h2, by rw [← h1]; exact Cur.bytes_eq_extract c, ?_⟩
  simp only [step, runQ, hc]
  subst h1
  simp [sharedImpl, Core.withDefaults, sharedCore, Shared.toSlice, SubRange.bytes,
    Cur.bytes_eq_extract, Cur.toView, Out.map]

/-! ## (3) `offset_id_inverse` -/

/-- **Offset ids map back to the position they came from.** If the window `r` lies inside the
window `s` (same section) then looking up `r`'s id in `s` gives exactly `r`'s offset relative to
`s` — which is also what `offset_from` reports, in both build modes. Conversely an id that `s`
resolves to `k` is the id of position `s.off + k`, and `k ≤ s.len`. -/
theorem offset_id_inverse (s r : Cur) (h1 : s.off ≤ r.off) (h2 : r.off + r.len ≤ s.off + s.len) :
    Shared.lookupOffsetId s (Shared.offsetId r) = some (r.off - s.off) ∧
    Shared.offsetFrom m r s = .ok (r.off - s.off) ∧
    (∀ id k, Shared.lookupOffsetId s id = some k → id = .inSec (s.off + k) ∧ k ≤ s.len) :=
  ⟨ptrLookup_offsetId h1 (by omega), ptrOffsetFrom_within m h1 h2, fun _ _ h => ptrLookup_some h⟩

/-- the same for `EndianSlice` readers -/
theorem offset_id_inverse_slice (s r : Cur) (h1 : s.off ≤ r.off) (h2 : r.off + r.len ≤ s.off + s.len) :
    Slice.lookupOffsetId s (Slice.offsetId r) = some (r.off - s.off) ∧
    Slice.offsetFrom m r s = .ok (r.off - s.off) :=
  ⟨ptrLookup_offsetId h1 (by omega), ptrOffsetFrom_within m h1 h2⟩

/-- **`empty()` keeps the reader's position** (both concrete readers, the repaired C10-1): an
emptied reader is still a window of the section, so if it lay inside the window `s` before,
`offset_from(s)` and `lookup_offset_id` of its id still report its position afterwards. -/
theorem empty_keeps_position (s r : Cur) (h1 : s.off ≤ r.off) (h2 : r.off + r.len ≤ s.off + s.len) :
    Slice.empty r = { r with len := 0 } ∧ Shared.empty r = { r with len := 0 } ∧
    Slice.offsetFrom m (Slice.empty r) s = .ok (r.off - s.off) ∧
    Slice.lookupOffsetId s (Slice.offsetId (Slice.empty r)) = some (r.off - s.off) ∧
    Shared.offsetFrom m (Shared.empty r) s = .ok (r.off - s.off) ∧
    Shared.lookupOffsetId s (Shared.offsetId (Shared.empty r)) = some (r.off - s.off) := by
  have he : Shared.empty r = { r with len := 0 } := Shared.empty_eq r
  have hs := offset_id_inverse_slice m s { r with len := 0 } h1 (by simp only; omega)
  refine ⟨rfl, he, hs.2, hs.1, ?_, ?_⟩
  · rw [he]; exact hs.2
  · rw [he]; exact hs.1

/-- **Along every history**: the id of any live reader resolves, against the section reader, to
that reader's section offset — and `offset_from(section)` agrees. -/
theorem offset_id_inverse_hist (sec : Bytes) (ops : List Op) (i : Nat) (c : Cur)
    (hc : (runHist sharedImpl m e valid lossy (St.init (Cur.ofSec sec)) ops).2.get i = some c) :
    Shared.lookupOffsetId (Cur.ofSec sec) (Shared.offsetId c) = some c.off ∧
    Shared.offsetFrom m c (Cur.ofSec sec) = .ok c.off := by
  have hw : Win sec c :=
    (runHist_all (sharedImpl_safe sec) m e valid lossy ops _ (St.All.init (Win.ofSec sec))).get hc
  have := offset_id_inverse m (Cur.ofSec sec) c (by simp [Cur.ofSec]) (by simpa [Cur.ofSec] using hw.2)
  simpa [Cur.ofSec] using ⟨this.1, this.2.1⟩

/-! ## (4) `kinds_bisimilar` -/

/-- **The identity-relocating reader is indistinguishable from the reader it wraps**, for every
history (shared-buffer kind; `Rc`, `Arc` and custom buffers are this one Model). -/
theorem kinds_bisimilar_reloc (sec : Bytes) (ops : List Op) :
    trace (relocImpl sharedImpl Rel.id) (RCur.new (Cur.ofSec sec)) m e valid lossy ops =
      trace sharedImpl (Cur.ofSec sec) m e valid lossy ops := by
  have hoff : ∀ (m : Mode) (t : Cur), Win sec t → ∃ o, sharedImpl.offsetFrom m t (Cur.ofSec sec) = .ok o :=
    fun m t ht => ⟨_, ptrOffsetFrom_within m (by simp [Cur.ofSec]) (by simpa [Cur.ofSec] using ht.2)⟩
  have hsim := sim_reloc_id (sct := Cur.ofSec sec) (sharedImpl_safe sec).toImplSafeNE hoff
    Shared.split_eq_splitTS
  exact runHist_sim hsim m e valid lossy ops
    (Or.inl (fun s t ⟨h1, h2, h3⟩ => ⟨by simp [relocImpl, h1], h2, (sharedImpl_safe sec).empty t h3⟩))
    (StRel.init ⟨rfl, rfl, Win.ofSec sec⟩)

/-- **Borrowed, shared-buffer and identity-relocating readers give identical observation traces**
for EVERY history (full strength since the repair of C10-1; before it `EndianSlice::empty()`
assigned the static `&[]` and the statement only held for histories without `empty`):
`EndianSlice`, `RelocateReader<EndianSlice>` and `RelocateReader<EndianReader>` with the identity
relocation all produce the trace of `EndianReader` (`Rc`, `Arc`, custom buffers). -/
theorem kinds_bisimilar (sec : Bytes) (ops : List Op) :
    trace sliceImpl (Cur.ofSec sec) m e valid lossy ops =
      trace sharedImpl (Cur.ofSec sec) m e valid lossy ops ∧
    trace (relocImpl sliceImpl Rel.id) (RCur.new (Cur.ofSec sec)) m e valid lossy ops =
      trace sharedImpl (Cur.ofSec sec) m e valid lossy ops ∧
    trace (relocImpl sharedImpl Rel.id) (RCur.new (Cur.ofSec sec)) m e valid lossy ops =
      trace sharedImpl (Cur.ofSec sec) m e valid lossy ops := by
  have h1 : trace sliceImpl (Cur.ofSec sec) m e valid lossy ops =
      trace sharedImpl (Cur.ofSec sec) m e valid lossy ops :=
    runHist_sim sim_slice_shared m e valid lossy ops
      (Or.inl (fun s t hst => by rw [hst]; exact empty_slice_shared t)) (StRel.init rfl)
  refine ⟨h1, ?_, kinds_bisimilar_reloc m e valid lossy sec ops⟩
  rw [← h1]
  have hoff : ∀ (m : Mode) (t : Cur), Win sec t → ∃ o, sliceImpl.offsetFrom m t (Cur.ofSec sec) = .ok o :=
    fun m t ht => ⟨_, ptrOffsetFrom_within m (by simp [Cur.ofSec]) (by simpa [Cur.ofSec] using ht.2)⟩
  have hsim := sim_reloc_id (sct := Cur.ofSec sec) (sliceImpl_safe sec).toImplSafeNE hoff
    Slice.split_eq_splitTS
  exact runHist_sim hsim m e valid lossy ops
    (Or.inl (fun s t ⟨h1, h2, h3⟩ => ⟨by simp [relocImpl, h1], h2, (sliceImpl_safe sec).empty t h3⟩))
    (StRel.init ⟨rfl, rfl, Win.ofSec sec⟩)

/-- the former witness of C10-1 (`empty` then `offset_id`), now a regression: equal traces, and
the emptied borrowed reader's id is still the section offset -/
theorem empty_offset_id_regression :
    trace sliceImpl (Cur.ofSec [1, 2]) .debug .little (fun _ => true) id [.skip 0 1, .empty 0, .offId 0] =
      trace sharedImpl (Cur.ofSec [1, 2]) .debug .little (fun _ => true) id [.skip 0 1, .empty 0, .offId 0] ∧
    ((trace sliceImpl (Cur.ofSec [1, 2]) .debug .little (fun _ => true) id
      [.skip 0 1, .empty 0, .offId 0]).map (·.res))[2]? = some (.ok (.addr (.inSec 1))) := by
  decide

/-! ## (5) `relocate_delegates` -/

/-- is this one of `read_address`, `read_offset`, `read_sized_offset`? -/
def Op.relocatable : Op → Bool
  | .addr .. | .offset .. | .sizedOff .. => true
  | _ => false

/-- **Only `read_address` / `read_offset` / `read_sized_offset` consult the relocation.** Every
other operation of a `RelocateReader` (over any inner kind) gives the same observation and the
same state whatever the relocation function is. -/
theorem relocate_delegates {σ : Type} (I : Impl σ) (rel rel' : Rel) (st : St (RCur σ)) (op : Op)
    (hop : Op.relocatable op = false) :
    step (relocImpl I rel) m e valid lossy st op = step (relocImpl I rel') m e valid lossy st op := by
  cases op <;> first | rfl | (simp [Op.relocatable] at hop)

/-- … and the three that do: the offset handed to the relocation is the reader's position in
the section (`offset_from(section)`), the value is what the inner reader read, the relocation's
answer (value or error) is the result, and the reader advances as the inner read does. -/
theorem relocate_consults (sec : Bytes) (rel : Rel) (n : Nat) (s : RCur Cur)
    (hs : s.sect = Cur.ofSec sec) (hw : s.rdr.off + s.rdr.len ≤ sec.length) :
    (relocImpl sharedImpl rel).readAddress m e n s =
      (match sharedImpl.readAddress m e n s.rdr with
       | (.ok v, r') => (rel.addr s.rdr.off v, { s with rdr := r' })
       | (.err x, r') => (.err x, { s with rdr := r' })
       | (.panic w, r') => (.panic w, { s with rdr := r' })
       | (.diverge, r') => (.diverge, { s with rdr := r' })) := by
  have hoff : sharedImpl.offsetFrom m s.rdr s.sect = .ok s.rdr.off := by
    rw [hs]
    have := ptrOffsetFrom_within m (s := Cur.ofSec sec) (r := s.rdr) (by simp [Cur.ofSec])
      (by simpa [Cur.ofSec] using hw)
    show ptrOffsetFrom m s.rdr (Cur.ofSec sec) = _
    simpa [Cur.ofSec] using this
  show Reloc.relocated sharedImpl m (sharedImpl.readAddress m e n) rel.addr s = _
  generalize sharedImpl.readAddress m e n = rd
  unfold Reloc.relocated
  rw [hoff]
  unfold M.bind M.liftOut Reloc.onReader
  rcases rd s.rdr with ⟨o, r'⟩
  cases o <;> rfl

/-! ## non-vacuity -/

/-- a history with in-range and out-of-range arguments, sub-readers, ids, strings -/
example : (trace sharedImpl (Cur.ofSec [0x61, 0x62, 0, 0xe5, 0x8e, 0x26, 7]) .debug .little
    Utf8.valid Utf8.lossy
    [.nts 0, .toStr 1, .uleb 0, .split 0 9, .split 0 1, .offId 2, .lookup 0 0, .offFrom 2 0]).map
      (fun o => (o.res, o.new)) =
    [(.ok .rdr, some ⟨0, 2⟩), (.ok (.bytes [0x61, 0x62]), none), (.ok (.nat 624485), none),
     (.err .rUnexpectedEof, none), (.ok .rdr, some ⟨6, 1⟩), (.ok (.addr (.inSec 6)), none),
     (.ok (.opt none), none), (.panic "assertion failed: base_ptr <= ptr", none)] := by decide

example : Shared.split 2 (Cur.ofSec [1, 2, 3]) =
    (.ok ⟨[1, 2, 3], 0, 2⟩, ⟨[1, 2, 3], 2, 1⟩) := by decide

end Gimli.Props.C10
