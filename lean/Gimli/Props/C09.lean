import Gimli.Lemmas.Leb
import Gimli.Lemmas.Ints
/-!
# C09 — Primitive codecs: LEB128, sized integers and lengths are exact

Property theorems only (helper lemmas live in `Gimli/Lemmas`). Every theorem is about the
Model functions of `Gimli/Model/{Leb,Ints}.lean`, which the correspondence check ties to
`src/leb128.rs`, `src/endianity.rs`, `src/read/reader.rs`, `src/write/writer.rs`.

Quantifiers: every byte string (`Bytes = List UInt8`, any length), every value, both byte
orders, every size argument.
-/
namespace Gimli.Props.C09
open Gimli Gimli.Spec Gimli.Leb Gimli.Ints

/-! ## unsigned LEB128 -/

/-- **Exact value, exact consumption, never wrapped.** If the 64-bit reader accepts, then the
consumed prefix is exactly one LEB128 number of at most 10 bytes, the result is its
mathematical value `Σ (bᵢ mod 128)·128^i`, and that value is below 2^64. -/
theorem uleb_sound (bs : Bytes) (v : Nat) (rest : Bytes) (h : Leb.unsigned bs = .ok (v, rest)) :
    ∃ pre, bs = pre ++ rest ∧ IsLebEnc pre ∧ pre.length ≤ 10 ∧ v = ulebVal pre ∧ v < 2 ^ 64 :=
  unsigned_sound bs v rest h

/-- **Completeness.** Every encoding of at most 10 bytes whose value fits in 64 bits is
accepted, whatever follows it. -/
theorem uleb_complete (pre rest : Bytes) (henc : IsLebEnc pre) (hlen : pre.length ≤ 10)
    (hfit : ulebVal pre < 2 ^ 64) : Leb.unsigned (pre ++ rest) = .ok (ulebVal pre, rest) :=
  unsigned_complete pre rest henc hlen hfit

/-- **Rejection instead of wrapping.** An encoding whose value does not fit in 64 bits — or
which is longer than 10 bytes (zero padded; the reader is stricter than "fits" here, never
laxer) — is reported as `BadUnsignedLeb128`. -/
theorem uleb_reject (pre rest : Bytes) (henc : IsLebEnc pre)
    (hbad : 10 < pre.length ∨ 2 ^ 64 ≤ ulebVal pre) :
    Leb.unsigned (pre ++ rest) = .err .rBadUnsignedLeb128 :=
  unsigned_reject pre rest henc hbad

/-- **Write then read is the identity**, and what follows the number is untouched. -/
theorem uleb_roundtrip (v : Nat) (hv : v < 2 ^ 64) (rest : Bytes) :
    Leb.unsigned (encodeU v ++ rest) = .ok (v, rest) :=
  unsigned_roundtrip v hv rest

/-- **Reported size = emitted size**, between 1 and 10 bytes. -/
theorem uleb_size_eq (v : Nat) (hv : v < 2 ^ 64) :
    sizeU v = (encodeU v).length ∧ 1 ≤ sizeU v ∧ sizeU v ≤ 10 := by
  obtain ⟨_, _, h10, h1, hsz⟩ := encodeU_spec v hv
  omega

/-- the writer always produces a single well-formed number meaning `v` -/
theorem uleb_encode_wf (v : Nat) (hv : v < 2 ^ 64) : IsLebEnc (encodeU v) ∧ ulebVal (encodeU v) = v := by
  obtain ⟨h1, h2, _⟩ := encodeU_spec v hv
  exact ⟨h1, h2⟩

/-- `read_uleb128_u32` accepts exactly the 64-bit results below 2^32 (no truncation). -/
theorem u32_narrow (bs : Bytes) (v : Nat) (rest : Bytes) :
    readUlebU32 bs = .ok (v, rest) ↔ Leb.unsigned bs = .ok (v, rest) ∧ v < 2 ^ 32 :=
  readUlebU32_iff bs v rest

/-! ## the 16-bit unsigned reader (`leb128::read::u16`, used for `DW_FORM_indirect` form codes) -/

/-- exact value < 2^16, exact consumption of at most 3 bytes -/
theorem u16leb_sound (bs : Bytes) (v : Nat) (rest : Bytes) (h : Leb.u16 bs = .ok (v, rest)) :
    ∃ pre, bs = pre ++ rest ∧ IsLebEnc pre ∧ pre.length ≤ 3 ∧ v = ulebVal pre ∧ v < 2 ^ 16 :=
  u16_sound bs v rest h

theorem u16leb_complete (pre rest : Bytes) (henc : IsLebEnc pre) (hlen : pre.length ≤ 3)
    (hfit : ulebVal pre < 2 ^ 16) : Leb.u16 (pre ++ rest) = .ok (ulebVal pre, rest) :=
  u16_complete pre rest henc hlen hfit

/-- values that do not fit 16 bits (or encodings longer than 3 bytes) are rejected, not truncated -/
theorem u16leb_reject (pre rest : Bytes) (henc : IsLebEnc pre)
    (hbad : 3 < pre.length ∨ 2 ^ 16 ≤ ulebVal pre) :
    Leb.u16 (pre ++ rest) = .err .rBadUnsignedLeb128 :=
  u16_reject pre rest henc hbad

/-! ## signed LEB128 -/

/-- **Exact value, exact consumption, never wrapped.** If the signed 64-bit reader accepts, the
consumed prefix is exactly one LEB128 number of at most 10 bytes and the result is its two's
complement value (sign-extended from bit 6 of the last group), which lies in the `i64` range. -/
theorem sleb_sound (bs : Bytes) (v : Int) (rest : Bytes) (h : Leb.signed bs = .ok (v, rest)) :
    ∃ pre, bs = pre ++ rest ∧ IsLebEnc pre ∧ pre.length ≤ 10 ∧ v = slebVal pre ∧
      -(2 : Int) ^ 63 ≤ v ∧ v < 2 ^ 63 :=
  signed_sound bs v rest h

/-- every encoding of at most 10 bytes whose value is in the `i64` range is accepted -/
theorem sleb_complete (pre rest : Bytes) (henc : IsLebEnc pre) (hlen : pre.length ≤ 10)
    (hlo : -(2 : Int) ^ 63 ≤ slebVal pre) (hhi : slebVal pre < 2 ^ 63) :
    Leb.signed (pre ++ rest) = .ok (slebVal pre, rest) :=
  signed_complete pre rest henc (sfits_of_range pre henc hlen hlo hhi)

/-- out-of-range values (and encodings longer than 10 bytes) are `BadSignedLeb128` -/
theorem sleb_reject (pre rest : Bytes) (henc : IsLebEnc pre)
    (hbad : 10 < pre.length ∨ slebVal pre < -(2 : Int) ^ 63 ∨ 2 ^ 63 ≤ slebVal pre) :
    Leb.signed (pre ++ rest) = .err .rBadSignedLeb128 :=
  signed_reject pre rest henc hbad

/-- write then read is the identity for every `i64` -/
theorem sleb_roundtrip (v : Int) (hlo : -(2 : Int) ^ 63 ≤ v) (hhi : v < 2 ^ 63) (rest : Bytes) :
    Leb.signed (encodeS v ++ rest) = .ok (v, rest) :=
  signed_roundtrip v hlo hhi rest

/-- reported size = emitted size, between 1 and 10 bytes -/
theorem sleb_size_eq (v : Int) (hlo : -(2 : Int) ^ 63 ≤ v) (hhi : v < 2 ^ 63) :
    sizeS v = (encodeS v).length ∧ 1 ≤ sizeS v ∧ sizeS v ≤ 10 := by
  obtain ⟨_, _, h10, h1, hsz⟩ := encodeS_spec v hlo hhi
  omega

example : Leb.signed [0x7f] = .ok (-1, []) := by decide
example : slebVal [0x80, 0x7f] = -128 ∧ IsLebEnc [0x80, 0x7f] := by decide
example : encodeS (-12345) = [0xc7, 0x9f, 0x7f] := by decide

/-! ## fixed-width integers, either byte order -/

/-- a successful `n`-byte read consumes exactly `n` bytes and returns their positional value -/
theorem fixed_sound (e : Endian) (n : Nat) (bs : Bytes) (v : Nat) (rest : Bytes)
    (h : readFixed e n bs = .ok (v, rest)) :
    n ≤ bs.length ∧ rest = bs.drop n ∧ v = fromBytes e (bs.take n) ∧ v < 2 ^ (8 * n) := by
  obtain ⟨a, b, c, d⟩ := readFixed_ok e n bs v rest h
  exact ⟨a, b, c, by rw [← pow256]; exact d⟩

/-- and it fails (with end-of-input, never a short read) exactly when fewer bytes remain -/
theorem fixed_eof (e : Endian) (n : Nat) (bs : Bytes) (h : bs.length < n) :
    readFixed e n bs = .err .rUnexpectedEof :=
  readFixed_eof e n bs h

/-- write∘read = id for every width (u8/u16/u32/u64/u128 are n = 1,2,4,8,16) and both orders -/
theorem fixed_roundtrip (e : Endian) (n v : Nat) (rest : Bytes) (hv : v < 2 ^ (8 * n)) :
    readFixed e n (toBytes e n v ++ rest) = .ok (v, rest) ∧ (toBytes e n v).length = n :=
  ⟨readFixed_toBytes e n v rest (by rw [pow256]; exact hv), toBytes_length e n v⟩

/-- `write_udata` succeeds iff the size is 1/2/4/8 and the value fits — never truncates. -/
theorem udata_fits (e : Endian) (v size : Nat) (hv : v < 2 ^ 64) :
    (∃ bs, writeUdata e v size = .ok bs) ↔
      (size = 1 ∨ size = 2 ∨ size = 4 ∨ size = 8) ∧ v < 2 ^ (8 * size) :=
  writeUdata_ok_iff e v size hv

/-- and what it emits has the advertised size and reads back as the value -/
theorem udata_roundtrip (e : Endian) (v size : Nat) (bs rest : Bytes)
    (h : writeUdata e v size = .ok bs) (hv : v < 2 ^ 64) :
    bs.length = size ∧ readFixed e size (bs ++ rest) = .ok (v, rest) :=
  writeUdata_roundtrip e v size bs rest h hv

/-- `write_sdata`: sizes 1/2/4 accept exactly the signed range of that size (no truncation, no
wrap-around), size 8 accepts every `i64`, other sizes are errors -/
theorem sdata_fits (e : Endian) (val : Int) (size : Nat)
    (hlo : -(2 : Int) ^ 63 ≤ val) (hhi : val < 2 ^ 63) :
    (∃ bs, writeSdata e val size = .ok bs) ↔
      (size = 1 ∨ size = 2 ∨ size = 4 ∨ size = 8) ∧
        -(2 : Int) ^ (8 * size - 1) ≤ val ∧ val < 2 ^ (8 * size - 1) :=
  writeSdata_ok_iff e val size hlo hhi

/-- `read_uint(n)` for every `n` in 0..8 and both byte orders: exact consumption, positional value -/
theorem uint_exact (e : Endian) (n : Nat) (bs : Bytes) (hn : n ≤ 8) :
    readUint e n bs =
      if n ≤ bs.length then .ok (fromBytes e (bs.take n), bs.drop n) else .err .rUnexpectedEof :=
  readUint_eq e n bs hn

/-! ## initial lengths, addresses -/

/-- `read_initial_length`, all cases: `< 0xffff_fff0` → (value, 32-bit) consuming 4 bytes;
`0xffff_ffff` → the following 64-bit value consuming 12 (an error if it does not fit the
offset type); every other value is the reserved-length error; short input is end-of-input. -/
theorem initial_length_cases (e : Endian) (offBits : Nat) (bs : Bytes) :
    readInitialLength e offBits bs =
      if bs.length < 4 then .err .rUnexpectedEof
      else
        let w := fromBytes e (bs.take 4)
        if w < 0xffff_fff0 then .ok ((w, .dwarf32), bs.drop 4)
        else if w = 0xffff_ffff then
          if bs.length < 12 then .err .rUnexpectedEof
          else
            let v := fromBytes e ((bs.drop 4).take 8)
            if v < 2 ^ offBits then .ok ((v, .dwarf64), bs.drop 12) else .err .rUnsupportedOffset
        else .err .rUnknownReservedLength :=
  readInitialLength_cases e offBits bs

/-- whatever initial length the writer accepts reads back as the same length and format
(holds on the tree with the `fix:` for reserved 32-bit lengths; before it, lengths
0xffff_fff0..0xffff_ffff were written and could not be read back) -/
theorem initial_length_roundtrip (e : Endian) (f : Format) (len : Nat) (bs rest : Bytes)
    (hlen : len < 2 ^ 64) (h : writeInitialLength e f len = .ok bs) :
    readInitialLength e 64 (bs ++ rest) = .ok ((len, f), rest) ∧
      bs.length = (match f with | .dwarf32 => 4 | .dwarf64 => 12) :=
  writeInitialLength_roundtrip e f len bs rest hlen h

/-- `read_address` accepts exactly the sizes 1, 2, 4, 8 (given enough input) … -/
theorem address_sizes (e : Endian) (size : Nat) (bs : Bytes) :
    (∃ v rest, readAddress e size bs = .ok (v, rest)) ↔
      (size = 1 ∨ size = 2 ∨ size = 4 ∨ size = 8) ∧ size ≤ bs.length :=
  readAddress_ok_iff e size bs

/-- … consumes exactly `size` bytes and returns their positional value -/
theorem address_value (e : Endian) (size : Nat) (bs : Bytes) (v : Nat) (rest : Bytes)
    (h : readAddress e size bs = .ok (v, rest)) :
    rest = bs.drop size ∧ v = fromBytes e (bs.take size) ∧ v < 2 ^ (8 * size) :=
  readAddress_value e size bs v rest h

/-- `read_address_size` accepts exactly the bytes 1, 2, 4, 8 -/
theorem address_size_byte (bs : Bytes) (v : Nat) (rest : Bytes) :
    readAddressSize bs = .ok (v, rest) ↔
      ∃ b, bs = b :: rest ∧ v = b.toNat ∧ (v = 1 ∨ v = 2 ∨ v = 4 ∨ v = 8) :=
  readAddressSize_ok_iff bs v rest

/-! ## non-vacuity: the hypotheses above are met by concrete non-trivial inputs -/

example : IsLebEnc [0xe5, 0x8e, 0x26] ∧ ulebVal [0xe5, 0x8e, 0x26] = 624485 := by decide
example : Leb.unsigned [0xe5, 0x8e, 0x26, 0xaa] = .ok (624485, [0xaa]) := by decide
example : IsLebEnc [0x80, 0x80, 0x80, 0x80, 0x80, 0x80, 0x80, 0x80, 0x80, 0x02] ∧
    2 ^ 64 ≤ ulebVal [0x80, 0x80, 0x80, 0x80, 0x80, 0x80, 0x80, 0x80, 0x80, 0x02] := by decide
example : writeUdata .big 0x1234 2 = .ok [0x12, 0x34] := by decide

end Gimli.Props.C09
