import Gimli.Lemmas.WLine
import Gimli.Lemmas.Leb
import Gimli.Lemmas.WLineHeader
import Gimli.Lemmas.WLineHeaderV5
import Gimli.Props.C04
/-!
# C13 — Written line programs read back to exactly the rows that were generated

Property theorems only (helper lemmas: `Gimli/Lemmas/WLine.lean`). Every theorem is about the
writer Model `Gimli.WLine` (`Gimli/Model/WLine.lean`, the definitions the driver executes and the
correspondence run ties to `src/write/line.rs`) and the reader Model `Gimli.Line` of C04
(`Gimli/Model/Line.lean`, tied to `src/read/line.rs`): "reads back" means *the reader Model
executes what the writer Model emits*.

Quantifiers: every `LineEncoding` (`line_base`, `line_range`, `minimum_instruction_length`,
`maximum_operations_per_instruction`), every header version, every address size, both build modes,
every previous row and every next row, under the hypotheses stated in each theorem.
-/
namespace Gimli.Props.C13
open Gimli Gimli.Line Gimli.WLine Gimli.Spec.Line

/-- the header parameters a reader parses from what `LineProgram::write` emits for `e`
(`OPCODE_BASE = 13`, the fixed `standard_opcode_lengths`) -/
def readerParams (en : Endian) (format : Format) (addrSize : Nat) (e : Enc) : Params :=
  { endian := en, format, version := e.version, addrSize, minInstLen := e.minInstLen,
    maxOps := e.maxOps, defaultIsStmt := e.defaultIsStmt, lineBase := e.lineBase,
    lineRange := e.lineRange, opcodeBase := 13, stdLens := WLine.stdLens }

/-- **the row the caller asked for**, as a reader row: the writer's `LineRow` `w` generated in a
sequence whose current base address (the most recent `set_address`, or 0) is `base` -/
def rowOf (version base : Nat) (w : WRow) : Row :=
  { tombstone := false, address := base + w.addressOffset, opIndex := w.opIndex,
    file := fileRaw version w.file, line := w.line, column := w.column, isStmt := w.isStmt,
    basicBlock := w.basicBlock, endSequence := false, prologueEnd := w.prologueEnd,
    epilogueBegin := w.epilogueBegin, isa := w.isa, discriminator := w.discriminator }

/-- exactly what `LineProgram::new` requires of `line_base`/`line_range` (`new_accepts_iff`):
`line_base` −128..0, `line_range` 1..255 with `line_base + line_range > 0` — plus non-zero
`minimum_instruction_length` and `maximum_operations_per_instruction` (which a reader insists on) -/
def EncOk (e : Enc) : Prop :=
  -128 ≤ e.lineBase ∧ e.lineBase ≤ 0 ∧ 0 < e.lineBase + e.lineRange ∧ e.lineRange ≤ 255 ∧
  1 ≤ e.minInstLen ∧ 1 ≤ e.maxOps

instance (e : Enc) : Decidable (EncOk e) := by unfold EncOk; infer_instance

/-- the next row is a legal successor of the previous one: aligned addresses, operation indices
inside the instruction bundle, the operation pointer `(address, op_index)` does not go backwards,
the operation advance fits 64 bits, line numbers below 2^63 (finding C13-3 beyond), and the row's
address fits the address size -/
def StepOk (e : Enc) (addrSize base : Nat) (prev row : WRow) : Prop :=
  prev.addressOffset % e.minInstLen = 0 ∧ row.addressOffset % e.minInstLen = 0 ∧
  prev.opIndex < e.maxOps ∧ row.opIndex < e.maxOps ∧
  prev.addressOffset ≤ row.addressOffset ∧
  (prev.addressOffset = row.addressOffset → prev.opIndex ≤ row.opIndex) ∧
  (row.addressOffset - prev.addressOffset) / e.minInstLen * e.maxOps + row.opIndex < 2 ^ 64 ∧
  prev.line < 2 ^ 63 ∧ row.line < 2 ^ 63 ∧
  base + row.addressOffset ≤ onesSized addrSize

instance (e : Enc) (a b : Nat) (p r : WRow) : Decidable (StepOk e a b p r) := by
  unfold StepOk; infer_instance

theorem reset_rowOf (h : Params) (version base : Nat) (w : WRow) :
    reset h (rowOf version base w) = rowOf version base w.cleared := by
  simp [reset, rowOf, WRow.cleared]

/-- **`generate_row` is correct — whichever opcode it chooses.** For every `LineEncoding` with
`line_base ≤ 0 < line_base + line_range` (`line_base` −128..0, `line_range` 1..255), every
`minimum_instruction_length ≥ 1`, every `maximum_operations_per_instruction ≥ 1`, every version,
address size 1/2/4/8, both build modes, every previous row `prev` (as `generate_row` leaves it:
per-row fields cleared) and every next row `row` that is a legal successor (`StepOk`):
`generate_row` succeeds, leaves `row.cleared` as the new previous row, and the instructions it
pushes — discriminator/flag setters, `negate_stmt`, `set_file`, `set_column`, `set_isa`,
`advance_line`, and one of special opcode / `const_add_pc` + special opcode / `advance_pc` +
special opcode or `copy` — executed by the reader (C04's `execute` via `traceInstrs`) from the
registers it has after the previous row, produce **exactly one row, equal to the requested one in
every register**, and leave the reader in the state that corresponds to the writer's new
`prev_row`. `rest` is whatever follows in the program. -/
theorem generate_row_correct (m : Mode) (en : Endian) (format : Format) (addrSize : Nat) (e : Enc)
    (base : Nat) (prev row : WRow)
    (henc : EncOk e) (hasz : addrSize = 1 ∨ addrSize = 2 ∨ addrSize = 4 ∨ addrSize = 8)
    (hprev : prev.cleared = prev) (hstep : StepOk e addrSize base prev row) :
    ∃ is, generateRow m e prev row = .ok (is, row.cleared) ∧ ∀ (inSeq : Bool) (rest : List Instr),
      traceInstrs (readerParams en format addrSize e) (rowOf e.version base prev) inSeq
          (is.map (WInstr.toInstr e.version) ++ rest) =
        Ev.row (rowOf e.version base row) ::
          traceInstrs (readerParams en format addrSize e) (rowOf e.version base row.cleared) true rest := by
  obtain ⟨hb1, hb2, hrng, hlr, hmin, hmax⟩ := henc
  obtain ⟨hal1, hal2, hop1, hop2, hle, hsame, hfit, hl1, hl2, haddr⟩ := hstep
  let h := readerParams en format addrSize e
  have hagree : Agrees h e := ⟨rfl, rfl, rfl, rfl, rfl, rfl⟩
  -- the operation advance is well defined
  have hge : prev.opIndex ≤ (row.addressOffset - prev.addressOffset) / e.minInstLen * e.maxOps + row.opIndex := by
    by_cases heq : prev.addressOffset = row.addressOffset
    · have := hsame heq; omega
    · have hpos : 0 < row.addressOffset - prev.addressOffset := by omega
      have hdvd : e.minInstLen ∣ row.addressOffset - prev.addressOffset :=
        Nat.dvd_sub (Nat.dvd_of_mod_eq_zero hal2) (Nat.dvd_of_mod_eq_zero hal1)
      have h1 : 1 ≤ (row.addressOffset - prev.addressOffset) / e.minInstLen :=
        Nat.div_pos (Nat.le_of_dvd hpos hdvd) (by omega)
      have h2 : e.maxOps ≤ (row.addressOffset - prev.addressOffset) / e.minInstLen * e.maxOps :=
        Nat.le_mul_of_pos_left _ h1
      omega
  have hoa := opAdvance_spec m e prev row hmin hle hal2 hfit hge
  have hla := lineAdvance_spec m prev.line row.line hl1 hl2
  obtain ⟨hptr1, hptr2⟩ := pointer_arith e.minInstLen e.maxOps prev.addressOffset row.addressOffset
    prev.opIndex row.opIndex hmin hmax hal1 hal2 hle hop2 hge
  -- the reader's registers after the field setters
  let ra : Row := { rowOf e.version base prev with
    discriminator := row.discriminator, basicBlock := row.basicBlock,
    prologueEnd := row.prologueEnd, epilogueBegin := row.epilogueBegin }
  let rb : Row := { ra with isStmt := row.isStmt, file := fileRaw e.version row.file,
                            column := row.column, isa := row.isa }
  have hcl : prev.discriminator = 0 ∧ prev.basicBlock = false ∧ prev.prologueEnd = false ∧
      prev.epilogueBegin = false := by
    rw [← hprev]; simp [WRow.cleared]
  have hsz : h.addrSize ≤ 8 := by show addrSize ≤ 8; omega
  have hfinal : advBy h { rb with line := ((rb.line : Int) + ((row.line : Int) - prev.line)).toNat }
      ((row.addressOffset - prev.addressOffset) / e.minInstLen * e.maxOps + row.opIndex - prev.opIndex) =
      rowOf e.version base row := by
    have hline : (((prev.line : Int) + ((row.line : Int) - prev.line))).toNat = row.line := by omega
    simp only [advBy, rowOf, rb, ra, h, readerParams, hline, hptr1]
    have : base + prev.addressOffset + e.minInstLen *
        ((prev.opIndex + ((row.addressOffset - prev.addressOffset) / e.minInstLen * e.maxOps +
          row.opIndex - prev.opIndex)) / e.maxOps) = base + row.addressOffset := by omega
    rw [this]
  obtain ⟨ais, hadv, htr⟩ := advanceInstrs_trace m e h hagree e.version rb
    ((row.line : Int) - prev.line)
    ((row.addressOffset - prev.addressOffset) / e.minInstLen * e.maxOps + row.opIndex - prev.opIndex)
    hb1 hb2 hrng hlr (by omega) (by show prev.line < 2 ^ 64; omega)
    (by show 0 ≤ (prev.line : Int) + _ ∧ (prev.line : Int) + _ < 2 ^ 64; omega) rfl hsz hmax hop1
    (by show prev.opIndex + _ < 2 ^ 64; omega)
    (by
      have := congrArg Row.address hfinal
      exact this ▸ haddr)
  rw [hfinal] at htr
  refine ⟨resetFieldInstrs row ++ stickyFieldInstrs prev row ++ ais, ?_, ?_⟩
  · unfold generateRow
    simp only [hla, hoa, hadv, Out.bind_ok, Out.pure_eq]
  · intro inSeq rest
    simp only [List.map_append, List.append_assoc]
    rw [trace_resetFields h e.version (rowOf e.version base prev) inSeq row _
      ⟨hcl.1, hcl.2.1, hcl.2.2.1, hcl.2.2.2⟩]
    rw [trace_stickyFields h e.version ra inSeq prev row _ rfl rfl rfl rfl]
    rw [htr, reset_rowOf]
    rfl

/-! ## special opcodes are special opcodes; what `new` accepts -/

/-- a special opcode pushed by `generate_row` comes from its final step -/
theorem generateRow_special_mem (m : Mode) (e : Enc) (prev row : WRow) (is : List WInstr) (row' : WRow)
    (h : generateRow m e prev row = .ok (is, row')) (op : Nat) (hm : WInstr.special op ∈ is) :
    ∃ la oa ais, lineAdvance m prev.line row.line = .ok la ∧ advanceInstrs m e la oa = .ok ais ∧
      WInstr.special op ∈ ais := by
  unfold generateRow at h
  cases hla : lineAdvance m prev.line row.line with
  | ok la =>
    cases hoa : opAdvance m e prev row with
    | ok oa =>
      cases hadv : advanceInstrs m e la oa with
      | ok ais =>
        simp only [hla, hoa, hadv, Out.bind_ok, Out.pure_eq, Out.ok.injEq, Prod.mk.injEq] at h
        obtain ⟨h, _⟩ := h
        subst h
        simp only [List.mem_append] at hm
        rcases hm with (hm | hm) | hm
        · exact absurd hm (resetFieldInstrs_noSpecial row op)
        · exact absurd hm (stickyFieldInstrs_noSpecial prev row op)
        · exact ⟨la, oa, ais, rfl, hadv, hm⟩
      | err x => simp [hla, hoa, hadv] at h
      | panic w => simp [hla, hoa, hadv] at h
      | diverge => simp [hla, hoa, hadv] at h
    | err x => simp [hla, hoa] at h
    | panic w => simp [hla, hoa] at h
    | diverge => simp [hla, hoa] at h
  | err x => simp [hla] at h
  | panic w => simp [hla] at h
  | diverge => simp [hla] at h

/-- **Every emitted `Special(op)` has 13 ≤ op ≤ 255 — debug builds, no hypothesis at all.** For
every `LineEncoding` whatsoever and every pair of rows: if `generate_row` returns (does not
panic), each special opcode it pushed is a real special opcode (`OPCODE_BASE = 13 ≤ op ≤ 255`) —
the two `debug_assert!`s turn everything else into a panic. -/
theorem special_opcode_in_range_debug (e : Enc) (prev row : WRow) (is : List WInstr) (row' : WRow)
    (h : generateRow .debug e prev row = .ok (is, row')) (op : Nat) (hm : WInstr.special op ∈ is) :
    13 ≤ op ∧ op ≤ 255 := by
  obtain ⟨la, oa, ais, _, hadv, hm'⟩ := generateRow_special_mem .debug e prev row is row' h op hm
  obtain ⟨s, us, _, hF, _⟩ := advanceInstrs_special_mem .debug e la oa ais hadv op hm'
  exact finalPart_debug_range e s us op hF

/-- **Every emitted `Special(op)` has 13 ≤ op ≤ 255 — any build mode**, for every `LineEncoding`
that `LineProgram::new` accepts (`line_base` −128..0, `line_range` 1..255,
`line_base + line_range > 0`, see `new_accepts_iff`), every min_inst_len/max_ops, every pair of
rows for which `generate_row` returns. -/
theorem special_opcode_in_range (m : Mode) (e : Enc) (prev row : WRow) (is : List WInstr) (row' : WRow)
    (h1 : -128 ≤ e.lineBase) (h2 : e.lineBase ≤ 0) (hr : 0 < e.lineBase + e.lineRange)
    (hlr : e.lineRange ≤ 255)
    (h : generateRow m e prev row = .ok (is, row')) (op : Nat) (hm : WInstr.special op ∈ is) :
    13 ≤ op ∧ op ≤ 255 := by
  obtain ⟨la, oa, ais, hla, hadv, hm'⟩ := generateRow_special_mem m e prev row is row' h op hm
  exact advanceInstrs_special_range m e la oa ais h1 h2 hr hlr (lineAdvance_range m _ _ la hla) hadv op hm'

/-- the `LineEncoding` of the repaired finding C13-2: the widest one -/
def enc255 : Enc :=
  { version := 4, minInstLen := 1, maxOps := 1, defaultIsStmt := true, lineBase := -128, lineRange := 255 }

/-- **Regression for the repaired finding C13-2** (`f134118`): with `line_base = −128`,
`line_range = 255` a line advance of +120 would need special opcode 261; the writer now falls back
to `advance_line` + `copy` (it used to emit `261 as u8 = 5 = DW_LNS_set_column` in release builds),
while +114 still gets the last special opcode 255. -/
theorem special_opcode_regression (m : Mode) :
    newCheck m enc255.lineBase enc255.lineRange = .ok () ∧
    generateRow m enc255 (WRow.initial enc255) { WRow.initial enc255 with line := 121 } =
      .ok ([.advanceLine 120, .copy], { WRow.initial enc255 with line := 121 }) ∧
    generateRow m enc255 (WRow.initial enc255) { WRow.initial enc255 with line := 115 } =
      .ok ([.special 255], { WRow.initial enc255 with line := 115 }) := by
  cases m <;> decide

/-- **What `LineProgram::new` accepts** (its two `assert!`s, as repaired in `1141615`): in both
build modes exactly the documented contract `line_base ≤ 0 < line_base + line_range` — every
`line_base` −128..0 and `line_range` 1..255 whose sum is positive. -/
theorem new_accepts_iff (m : Mode) (lineBase : Int) (lineRange : Nat) :
    newCheck m lineBase lineRange = .ok () ↔ (lineBase ≤ 0 ∧ 0 < lineBase + lineRange) := by
  unfold newCheck
  by_cases h0 : lineBase ≤ 0
  · rw [if_neg (by omega)]
    by_cases hp : lineBase + (lineRange : Int) > 0
    · rw [if_pos hp]; simp; omega
    · rw [if_neg hp]; simp; omega
  · rw [if_pos h0]
    simp; omega

/-- **Regression for the repaired finding C13-1**: gcc's own `line_base = −10`, `line_range = 242`
is accepted in both build modes (it used to hit the `line_range as i8` assert) -/
theorem new_accepts_gcc_encoding (m : Mode) : newCheck m (-10) 242 = .ok () := by
  cases m <;> decide

/-! ## file identity -/

/-- **File ids are stable and identify the key.** For every program state and every
`add_file(name, directory, info)` that returns (does not hit its `assert!`s) with id `i`:
1. entry `i` of the table has exactly that `(name, directory)` key, and the given info if one
   was given;
2. every entry that existed before keeps its index and its key (only the info of entry `i` may
   have been replaced) — ids handed out earlier stay valid;
3. adding the same key again — with any info — returns the **same id** and does not grow the
   table: duplicate names map to one id. -/
theorem file_ids_stable (p p1 : Prog) (name : LineStr) (dir : Nat) (info : Option FileInfo) (i : Nat)
    (h : addFile p name dir info = .ok (p1, i)) :
    (∃ f, p1.files[i]? = some f ∧ f.name = name ∧ f.dir = dir ∧ ∀ x, info = some x → f.info = x) ∧
    (∀ j f, p.files[j]? = some f →
      ∃ f', p1.files[j]? = some f' ∧ f'.name = f.name ∧ f'.dir = f.dir ∧ (j ≠ i → f' = f)) ∧
    (∀ info', ∃ p2, addFile p1 name dir info' = .ok (p2, i) ∧ p2.files.length = p1.files.length) := by
  have hfind := addFile_find p name dir info p1 i h
  refine ⟨?_, fun j f hj => addFile_preserves p name dir info p1 i h j f hj, ?_⟩
  · obtain ⟨f, hf, hk, _⟩ := findIdx?_some _ _ _ hfind
    rw [fkey_iff] at hk
    refine ⟨f, hf, hk.1, hk.2, ?_⟩
    intro x hx
    subst hx
    rcases addFile_unfold p name dir (some x) p1 i h with ⟨_, hp⟩ | ⟨_, hi, hp⟩
    · subst hp
      simp only [updInfo, setInfo_get] at hf
      cases hq : p.files[i]? with
      | none => simp [hq] at hf
      | some g => simp [hq] at hf; rw [← hf]
    · subst hp hi
      simp at hf
      rw [← hf]
  · intro info'
    -- the asserts passed for this name once, they pass again
    have hassert : ¬ (name.form = .string ∧ p.enc.version ≤ 4 ∧ name.val.isEmpty) ∧
        ¬ (name.form = .string ∧ name.val.contains 0) := by
      unfold addFile at h
      split at h
      · cases h
      · split at h
        · cases h
        · constructor <;> assumption
    have henc : p1.enc = p.enc := by
      rcases addFile_unfold p name dir info p1 i h with ⟨_, hp⟩ | ⟨_, _, hp⟩ <;> subst hp <;> rfl
    unfold addFile
    rw [henc, if_neg hassert.1, if_neg hassert.2]
    have hk : (fun f : FileEnt => f.name == name && f.dir == dir) = fkey name dir := rfl
    rw [hk, hfind]
    cases info' with
    | some x => exact ⟨_, rfl, by simp [setInfo_length]⟩
    | none => exact ⟨_, rfl, rfl⟩

/-- **Different keys get different ids**: two successive `add_file` calls with different
`(name, directory)` keys never return the same id. -/
theorem file_ids_injective (p p1 p2 : Prog) (n1 n2 : LineStr) (d1 d2 : Nat) (i1 i2 : Option FileInfo)
    (i j : Nat) (h1 : addFile p n1 d1 i1 = .ok (p1, i)) (h2 : addFile p1 n2 d2 i2 = .ok (p2, j))
    (hne : ¬ (n1 = n2 ∧ d1 = d2)) : i ≠ j := by
  intro hij
  subst hij
  obtain ⟨⟨f, hf, hn, hd, _⟩, _, _⟩ := file_ids_stable p p1 n1 d1 i1 i h1
  obtain ⟨⟨g, hg, hn', hd', _⟩, hpres, _⟩ := file_ids_stable p1 p2 n2 d2 i2 i h2
  obtain ⟨f', hf', hfn, hfd, _⟩ := hpres i f hf
  rw [hg] at hf'
  cases hf'
  exact hne ⟨by rw [← hn, ← hfn, hn'], by rw [← hd, ← hfd, hd']⟩

/-- **Index base by version**: the raw file number written for id `i` (`FileId::raw`) is `i + 1`
for versions ≤ 4 and `i` for version 5, and that is exactly the number under which the reader's
`LineProgramHeader::file` (C04's `Header.file`) finds entry `i` of the file table — for every
header of version 2–5 (for versions ≤ 4 the raw number is never 0, so it never aliases the
compilation unit's own name). -/
theorem file_index_base (hd : Header) (i : Nat) :
    fileRaw hd.p.version i = (if hd.p.version ≤ 4 then i + 1 else i) ∧
    hd.file (fileRaw hd.p.version i) = hd.files[i]? := by
  constructor
  · rfl
  · unfold Header.file fileRaw
    by_cases hv : hd.p.version ≤ 4
    · simp [hv]
    · simp [hv]

/-- the initial `file` register: `FileId::initial_state` made raw is the DWARF default 1 for
every version 2–5 -/
theorem file_initial_raw (version : Nat) (hv : version ≤ 5) : fileRaw version (fileInitial version) = 1 := by
  unfold fileRaw fileInitial
  by_cases h5 : version = 5
  · subst h5; simp
  · have : version ≤ 4 := by omega
    simp [h5, this]

/-- a small encoding for the examples: version 4, line_base −5, line_range 14 -/
def enc4 : Enc :=
  { version := 4, minInstLen := 1, maxOps := 1, defaultIsStmt := true, lineBase := -5, lineRange := 14 }

def prog0 : Prog :=
  { format := .dwarf32, addrSize := 8, enc := enc4, dirs := [], files := [], hasTimestamp := false,
    hasSize := false, hasMd5 := false, hasSource := false, prevRow := WRow.initial enc4,
    row := WRow.initial enc4, instrs := [], inSequence := false }

/-- non-vacuity: "a" twice (the second time with an info) is one entry, "b" is another -/
example :
    (do let (p, i) ← addFile prog0 ⟨.string, [0x61]⟩ 0 none
        let (p, j) ← addFile p ⟨.string, [0x61]⟩ 0 (some FileInfo.default)
        let (p, k) ← addFile p ⟨.string, [0x62]⟩ 0 none
        pure (i, j, k, p.files.length) : Out (Nat × Nat × Nat × Nat)) = .ok (0, 0, 1, 2) := by
  decide

/-! ## instruction bytes -/

/-- **Every emitted instruction decodes back.** For every header a reader parses from the writer's
output (`opcode_base = 13`, address size 1/2/4/8, any version, either byte order), every
instruction the writer can hold whose operands fit its own field types (`WInstr.Encodable`: `u8`
special opcode ≥ 13, `u64` operands, `i64` line advance, a constant address), and any following
bytes `rest`: C04's `LineInstruction::parse` Model on the bytes `LineInstruction::write` emits
returns exactly that instruction (file ids made raw) and `rest` — incl. the extended-opcode
length prefixes of `end_sequence`, `set_address`, `set_discriminator` and the signed LEB128 operand
of `advance_line` (`Leb.signed_roundtrip`, proved in `Lemmas/Leb.lean`). -/
theorem instr_bytes_roundtrip (h : Params) (hh : WriterHeader h) (i : WInstr)
    (henc : i.Encodable h.version)
    (bs : Bytes) (hw : writeInstr h.endian h.version h.addrSize i = .ok bs) (rest : Bytes) :
    parseInstr h (bs ++ rest) = .ok (i.toInstr h.version, rest) := by
  refine instr_bytes_roundtrip_aux h hh i henc ?_ bs hw rest
  intro v rest' hv
  subst hv
  exact Leb.signed_roundtrip v henc.1 henc.2 rest'

/-- the same for a whole program: `header.instructions()` on the written bytes is the instruction
list that was written, and running the reader on the bytes is running it on that list — so
`generate_row_correct` and `sequence_roundtrip` speak about the emitted **bytes** -/
theorem program_bytes_roundtrip (h : Params) (hh : WriterHeader h) (is : List WInstr)
    (henc : ∀ i ∈ is, i.Encodable h.version)
    (bs : Bytes) (hw : writeInstrs h.endian h.version h.addrSize is = .ok bs) :
    decodeAll h (bs.length + 1) bs = .ok (is.map (WInstr.toInstr h.version)) ∧
    trace h bs = traceInstrs h (Row.new h) false (is.map (WInstr.toInstr h.version)) := by
  have hd := writeInstrs_decodeAll h hh is henc
    (fun v rest hv => by
      have := henc _ hv
      exact Leb.signed_roundtrip v this.1 this.2 rest) bs hw (bs.length + 1) (by omega)
  refine ⟨hd, ?_⟩
  unfold trace
  rw [traceLoop_decodeAll h _ _ _ _ _ hd, reset_new]

/-- concrete signed LEB128 round trips (instances of `Leb.signed_roundtrip`) -/
example : ∀ v ∈ [(0 : Int), 1, -1, 63, 64, -64, -65, 300, -300, 8191, 8192, -8192, -8193,
    2 ^ 62, -(2 ^ 62), 2 ^ 63 - 1, -(2 ^ 63)],
    Leb.signed (Leb.encodeS v ++ [0xaa, 0x01]) = .ok (v, [0xaa, 0x01]) := by decide

example : writeInstr .little 4 8 (.setAddress (some 0x1000)) = .ok [0, 9, 2, 0, 0x10, 0, 0, 0, 0, 0, 0] := by
  decide
example : writeInstr .little 4 8 (.setDiscriminator 300) = .ok [0, 3, 4, 0xac, 0x02] := by decide

/-! ## sequences: `set_address`, `end_sequence`, state reset -/

/-- `LineRow::initial_state` is the reader's `LineRow::new`, for every version 2–5 -/
theorem rowOf_initial (en : Endian) (format : Format) (addrSize : Nat) (e : Enc) (hv : e.version ≤ 5) :
    rowOf e.version 0 (WRow.initial e) = Row.new (readerParams en format addrSize e) := by
  simp [rowOf, WRow.initial, Row.new, readerParams, file_initial_raw e.version hv]

/-- **`set_address`** (at the start of a sequence or in the middle of one). For every program
state and every constant address `a` that is not below the address of the previous row (the
caller's documented obligation) and below the tombstone values of the address size: the writer
pushes one `DW_LNE_set_address(a)` and restarts the previous row's `address_offset`/`op_index` at 0;
the reader, executing it, is in the state that corresponds to that new previous row **with base
`a`** — so offsets of the following rows are relative to `a`. -/
theorem set_address_correct (en : Endian) (format : Format) (addrSize : Nat) (p : Prog) (base a : Nat)
    (inSeq : Bool) (rest : List Instr) (hlo : base + p.prevRow.addressOffset ≤ a) (hhi : a < minTombstone addrSize) :
    let p' := p.setAddress (some a)
    p'.instrs = p.instrs ++ [.setAddress (some a)] ∧
    p'.prevRow = { p.prevRow with addressOffset := 0, opIndex := 0 } ∧ p'.row = p.row ∧
    p'.inSequence = true ∧
    traceInstrs (readerParams en format addrSize p.enc) (rowOf p.enc.version base p.prevRow) inSeq
        ((WInstr.setAddress (some a)).toInstr p.enc.version :: rest) =
      traceInstrs (readerParams en format addrSize p.enc) (rowOf p.enc.version a p'.prevRow) inSeq rest := by
  refine ⟨rfl, rfl, rfl, rfl, ?_⟩
  rw [traceInstrs]
  have h1 : ¬ a < base + p.prevRow.addressOffset := by omega
  have h2 : ¬ a ≥ minTombstone addrSize := by omega
  simp [WInstr.toInstr, execute, rowOf, readerParams, Prog.setAddress, h1, h2]

/-- the operation pointer of `end_sequence(address_offset)` is a legal successor of the previous
row -/
def EndOk (e : Enc) (addrSize base : Nat) (prev row : WRow) (off : Nat) : Prop :=
  prev.addressOffset % e.minInstLen = 0 ∧ off % e.minInstLen = 0 ∧
  prev.opIndex < e.maxOps ∧ row.opIndex < e.maxOps ∧
  prev.addressOffset ≤ off ∧ (prev.addressOffset = off → prev.opIndex ≤ row.opIndex) ∧
  (off - prev.addressOffset) / e.minInstLen * e.maxOps + row.opIndex < 2 ^ 64 ∧
  base + off ≤ onesSized addrSize

/-- **`end_sequence`.** For every encoding with min_inst_len, max_ops ≥ 1, every previous row
and current row (only its `op_index` is used) and every end offset that is a legal successor
(`EndOk`): the writer pushes `advance_pc` (if the operation pointer moves) and
`DW_LNE_end_sequence`; the reader produces exactly one row, with `end_sequence` set, at address
`base + address_offset` and the current `op_index`, and is then back in its initial state —
like the writer, whose `prev_row` and `row` are reset to `LineRow::initial_state`. -/
theorem end_sequence_correct (m : Mode) (en : Endian) (format : Format) (addrSize : Nat) (e : Enc)
    (base : Nat) (prev row : WRow) (off : Nat)
    (hmin : 1 ≤ e.minInstLen) (hmax : 1 ≤ e.maxOps)
    (hasz : addrSize = 1 ∨ addrSize = 2 ∨ addrSize = 4 ∨ addrSize = 8)
    (hend : EndOk e addrSize base prev row off) :
    ∃ is, endSequence m e prev row off = .ok is ∧ ∀ (inSeq : Bool) (rest : List Instr),
      traceInstrs (readerParams en format addrSize e) (rowOf e.version base prev) inSeq
          (is.map (WInstr.toInstr e.version) ++ rest) =
        Ev.row { rowOf e.version base prev with address := base + off, opIndex := row.opIndex,
                                                endSequence := true } ::
          traceInstrs (readerParams en format addrSize e) (Row.new (readerParams en format addrSize e))
            false rest := by
  obtain ⟨hal1, hal2, hop1, hop2, hle, hsame, hfit, haddr⟩ := hend
  let h := readerParams en format addrSize e
  let row' : WRow := { row with addressOffset := off }
  have hge : prev.opIndex ≤ (off - prev.addressOffset) / e.minInstLen * e.maxOps + row.opIndex := by
    by_cases heq : prev.addressOffset = off
    · have := hsame heq; omega
    · have hpos : 0 < off - prev.addressOffset := by omega
      have hdvd : e.minInstLen ∣ off - prev.addressOffset :=
        Nat.dvd_sub (Nat.dvd_of_mod_eq_zero hal2) (Nat.dvd_of_mod_eq_zero hal1)
      have h1 : 1 ≤ (off - prev.addressOffset) / e.minInstLen :=
        Nat.div_pos (Nat.le_of_dvd hpos hdvd) (by omega)
      have h2 : e.maxOps ≤ (off - prev.addressOffset) / e.minInstLen * e.maxOps :=
        Nat.le_mul_of_pos_left _ h1
      omega
  have hoa := opAdvance_spec m e prev row' hmin hle hal2 hfit hge
  obtain ⟨hptr1, hptr2⟩ := pointer_arith e.minInstLen e.maxOps prev.addressOffset off
    prev.opIndex row.opIndex hmin hmax hal1 hal2 hle hop2 hge
  have hsz : h.addrSize ≤ 8 := by show addrSize ≤ 8; omega
  let oa := (off - prev.addressOffset) / e.minInstLen * e.maxOps + row.opIndex - prev.opIndex
  have hadv : advBy h (rowOf e.version base prev) oa =
      { rowOf e.version base prev with address := base + off, opIndex := row.opIndex } := by
    simp only [advBy, rowOf, h, readerParams, oa, hptr1]
    have : base + prev.addressOffset + e.minInstLen *
        ((prev.opIndex + ((off - prev.addressOffset) / e.minInstLen * e.maxOps +
          row.opIndex - prev.opIndex)) / e.maxOps) = base + off := by omega
    rw [this]
  have hend_exec : ∀ (inSeq : Bool) (rest : List Instr) (r : Row), r.tombstone = false →
      r.endSequence = false →
      traceInstrs h r inSeq (Instr.endSequence :: rest) =
        Ev.row { r with endSequence := true } :: traceInstrs h (Row.new h) false rest := by
    intro inSeq rest r hnt _
    rw [traceInstrs]
    simp [execute, hnt, reset, skipRow]
  refine ⟨(if oa ≠ 0 then [WInstr.advancePc oa] else []) ++ [.endSequence], ?_, ?_⟩
  · unfold endSequence
    rw [show opAdvance m e prev { row with addressOffset := off } = _ from hoa]
    rfl
  · intro inSeq rest
    by_cases hz : oa = 0
    · simp only [hz, ne_eq, not_true_eq_false, ↓reduceIte, List.nil_append, List.map_cons,
        List.map_nil, WInstr.toInstr, List.cons_append]
      rw [hend_exec inSeq rest _ rfl rfl]
      have heq := hadv
      rw [hz, advBy_zero h _ hop1] at heq
      have ha : base + prev.addressOffset = base + off := congrArg Row.address heq
      have ho : prev.opIndex = row.opIndex := congrArg Row.opIndex heq
      simp only [rowOf, ha, ho]
      rfl
    · simp only [ne_eq, hz, not_false_eq_true, ↓reduceIte, List.cons_append, List.nil_append,
        List.map_cons, List.map_nil, WInstr.toInstr]
      have hx := exec_advancePc h (rowOf e.version base prev) oa rfl hsz hmax hop1
        (by show prev.opIndex + _ < 2 ^ 64; omega)
        (by rw [hadv]; exact haddr)
      rw [trace_noEmit h _ _ inSeq _ _ hx, hadv, hend_exec inSeq rest _ rfl rfl]

/-- `Prog.endSequence` resets the writer's rows to the initial state and leaves the sequence -/
theorem end_sequence_resets (m : Mode) (p p' : Prog) (off : Nat) (h : p.endSequence m off = .ok p') :
    p'.prevRow = WRow.initial p.enc ∧ p'.row = WRow.initial p.enc ∧ p'.inSequence = false ∧
    ∃ is, WLine.endSequence m p.enc p.prevRow p.row off = .ok is ∧ p'.instrs = p.instrs ++ is := by
  unfold Prog.endSequence at h
  cases hes : WLine.endSequence m p.enc p.prevRow p.row off with
  | ok is =>
    simp only [hes, Out.bind_ok, Out.pure_eq, Out.ok.injEq] at h
    subst h
    exact ⟨rfl, rfl, rfl, is, rfl, rfl⟩
  | err x => simp [hes] at h
  | panic w => simp [hes] at h
  | diverge => simp [hes] at h

/-- `*program.row() = r; program.generate_row();` for each row of a list -/
def genRows (m : Mode) : Prog → List WRow → Out Prog
  | p, [] => .ok p
  | p, r :: rs => do
    let p ← ({ p with row := r } : Prog).generateRow m
    genRows m p rs

/-- every row is a legal successor of the one before it -/
def ChainOk (e : Enc) (addrSize base : Nat) : WRow → List WRow → Prop
  | _, [] => True
  | prev, r :: rs => StepOk e addrSize base prev r ∧ ChainOk e addrSize base r.cleared rs

/-- the writer's `prev_row` after a list of rows -/
def lastRow : WRow → List WRow → WRow
  | prev, [] => prev
  | _, r :: rs => lastRow r.cleared rs

theorem cleared_cleared (r : WRow) : r.cleared.cleared = r.cleared := rfl

theorem genRows_correct (m : Mode) (en : Endian) (format : Format) (addrSize : Nat) (base : Nat)
    (hasz : addrSize = 1 ∨ addrSize = 2 ∨ addrSize = 4 ∨ addrSize = 8) :
    ∀ (rows : List WRow) (p : Prog), EncOk p.enc → p.prevRow.cleared = p.prevRow →
      ChainOk p.enc addrSize base p.prevRow rows →
      ∃ p' is, genRows m p rows = .ok p' ∧ p'.instrs = p.instrs ++ is ∧ p'.enc = p.enc ∧
        p'.prevRow = lastRow p.prevRow rows ∧ (rows ≠ [] → p'.row = p'.prevRow) ∧
        (rows = [] → p'.row = p.row) ∧ p'.prevRow.cleared = p'.prevRow ∧
        ∀ (inSeq : Bool) (rest : List Instr),
        traceInstrs (readerParams en format addrSize p.enc) (rowOf p.enc.version base p.prevRow) inSeq
            (is.map (WInstr.toInstr p.enc.version) ++ rest) =
          rows.map (fun r => Ev.row (rowOf p.enc.version base r)) ++
            traceInstrs (readerParams en format addrSize p.enc)
              (rowOf p.enc.version base (lastRow p.prevRow rows)) (inSeq || !rows.isEmpty) rest := by
  intro rows
  induction rows with
  | nil =>
    intro p _ hcl _
    exact ⟨p, [], rfl, by simp, rfl, rfl, fun h => absurd rfl h, fun _ => rfl, hcl,
      fun inSeq rest => by simp [lastRow]⟩
  | cons r rs ih =>
    intro p henc hcl hchain
    obtain ⟨hstep, hrest⟩ := hchain
    obtain ⟨is1, hg, htr⟩ := generate_row_correct m en format addrSize p.enc base p.prevRow r
      henc hasz hcl hstep
    -- the program after this row
    let p1 : Prog := { p with inSequence := true, instrs := p.instrs ++ is1, prevRow := r.cleared, row := r.cleared }
    have hp1 : ({ p with row := r } : Prog).generateRow m = .ok p1 := by
      unfold Prog.generateRow
      simp only [hg, Out.bind_ok, Out.pure_eq]
      rfl
    obtain ⟨p', is2, hg2, hins, henc2, hprev, hrow, _, hcl2, htr2⟩ :=
      ih p1 henc (cleared_cleared r) hrest
    refine ⟨p', is1 ++ is2, ?_, ?_, henc2, hprev, fun _ => ?_, fun h => (List.cons_ne_nil _ _ h).elim, hcl2, ?_⟩
    · rw [genRows]
      simp only [hp1, Out.bind_ok]
      exact hg2
    · rw [hins]; simp [p1]
    · by_cases hrs : rs = []
      · subst hrs
        simp only [genRows, Out.ok.injEq] at hg2
        subst hg2
        rfl
      · exact hrow hrs
    · intro inSeq rest
      simp only [List.map_append, List.append_assoc, List.map_cons, List.cons_append]
      rw [htr]
      congr 1
      have h2 := htr2 true rest
      rw [Bool.true_or] at h2
      have e : (inSeq || !(r :: rs).isEmpty) = true := by simp
      rw [e]
      exact h2


/-- `set_address(a); (row() = r; generate_row())*; end_sequence(off)` -/
def writeSequence (m : Mode) (p : Prog) (a : Nat) (rows : List WRow) (off : Nat) : Out Prog := do
  let p ← genRows m (p.setAddress (some a)) rows
  p.endSequence m off

/-- **A whole sequence reads back.** For every encoding accepted by `EncOk`, version ≤ 5, address
size 1/2/4/8, both build modes; a program between sequences (`prev_row = row = initial state`, as
`new` and `end_sequence` leave it); every start address below the tombstone values; every list of
rows each of which is a legal successor of the one before (`ChainOk`, offsets relative to the
start address) and every legal end offset (`EndOk`):
`set_address`, the `generate_row` calls and `end_sequence` succeed, append instructions `is`, put
the writer back into the between-sequences state, and the reader — started in its own initial
state (whatever `in_sequence` flag `LineRows` carries) — executing `is` returns **exactly the requested rows, in order, then one `end_sequence`
row at `a + off`, and is back in its initial state** for whatever follows (`rest`): the next
sequence starts from a clean slate on both sides. -/
theorem sequence_roundtrip (m : Mode) (en : Endian) (format : Format) (addrSize : Nat) (p : Prog)
    (a : Nat) (rows : List WRow) (off : Nat)
    (henc : EncOk p.enc) (hv : p.enc.version ≤ 5)
    (hasz : addrSize = 1 ∨ addrSize = 2 ∨ addrSize = 4 ∨ addrSize = 8)
    (hprev : p.prevRow = WRow.initial p.enc) (hrow : p.row = WRow.initial p.enc)
    (ha : a < minTombstone addrSize)
    (hchain : ChainOk p.enc addrSize a (WRow.initial p.enc) rows)
    (hend : EndOk p.enc addrSize a (lastRow (WRow.initial p.enc) rows)
      (lastRow (WRow.initial p.enc) rows) off) :
    let h := readerParams en format addrSize p.enc
    let last := lastRow (WRow.initial p.enc) rows
    ∃ p' is, writeSequence m p a rows off = .ok p' ∧ p'.instrs = p.instrs ++ is ∧
      p'.prevRow = WRow.initial p.enc ∧ p'.row = WRow.initial p.enc ∧ p'.inSequence = false ∧
      ∀ (inSeq : Bool) (rest : List Instr),
      traceInstrs h (Row.new h) inSeq (is.map (WInstr.toInstr p.enc.version) ++ rest) =
        rows.map (fun r => Ev.row (rowOf p.enc.version a r)) ++
          Ev.row { rowOf p.enc.version a last with address := a + off, opIndex := last.opIndex,
                                                   endSequence := true } ::
            traceInstrs h (Row.new h) false rest := by
  intro h last
  let p1 := p.setAddress (some a)
  have hp1prev : p1.prevRow = WRow.initial p.enc := by
    show ({ p.prevRow with addressOffset := 0, opIndex := 0 } : WRow) = _
    rw [hprev]; rfl
  -- rows
  obtain ⟨p2, is2, hg, hins2, henc2, hprev2, hrow2, hrow2', hcl2, htr2⟩ :=
    genRows_correct m en format addrSize a hasz rows p1 henc
      (by rw [hp1prev]; rfl) (by rw [hp1prev]; exact hchain)
  have hp2prev : p2.prevRow = last := by rw [hprev2, hp1prev]
  have hp2row : p2.row = last := by
    by_cases hr : rows = []
    · rw [hrow2' hr]
      show p.row = last
      rw [hrow]
      show _ = lastRow (WRow.initial p.enc) rows
      rw [hr]; rfl
    · rw [hrow2 hr, hp2prev]
  have hp2enc : p2.enc = p.enc := henc2
  -- end_sequence
  obtain ⟨is3, hes, htr3⟩ := end_sequence_correct m en format addrSize p.enc a last last off
    henc.2.2.2.2.1 henc.2.2.2.2.2 hasz hend
  let p3 : Prog := { p2 with inSequence := false, instrs := p2.instrs ++ is3,
                             prevRow := WRow.initial p2.enc, row := WRow.initial p2.enc }
  have hp3 : p2.endSequence m off = .ok p3 := by
    have hes' : WLine.endSequence m p2.enc p2.prevRow p2.row off = .ok is3 := by
      rw [hp2prev, hp2row, hp2enc]; exact hes
    unfold Prog.endSequence
    rw [hes']
    rfl
  refine ⟨p3, [.setAddress (some a)] ++ is2 ++ is3, ?_, ?_, ?_, ?_, rfl, ?_⟩
  · show (genRows m p1 rows >>= fun p => p.endSequence m off) = _
    rw [hg]
    exact hp3
  · show p2.instrs ++ is3 = _
    rw [hins2]
    show (p.instrs ++ [WInstr.setAddress (some a)]) ++ is2 ++ is3 = _
    simp
  · show WRow.initial p2.enc = _; rw [hp2enc]
  · show WRow.initial p2.enc = _; rw [hp2enc]
  · intro inSeq rest
    obtain ⟨_, _, _, _, hs5⟩ := set_address_correct en format addrSize p 0 a inSeq
      ((is2 ++ is3).map (WInstr.toInstr p.enc.version) ++ rest)
      (by rw [hprev]; simp [WRow.initial]) ha
    have h0 : Row.new h = rowOf p.enc.version 0 p.prevRow := by
      rw [hprev]; exact (rowOf_initial en format addrSize p.enc hv).symm
    rw [h0]
    simp only [List.map_append, List.append_assoc, List.map_cons, List.cons_append,
      List.nil_append] at hs5 ⊢
    rw [hs5]
    have this : traceInstrs (readerParams en format addrSize p.enc) (rowOf p.enc.version a p1.prevRow) inSeq
        (is2.map (WInstr.toInstr p.enc.version) ++ (is3.map (WInstr.toInstr p.enc.version) ++ rest)) =
        rows.map (fun r => Ev.row (rowOf p.enc.version a r)) ++
          traceInstrs (readerParams en format addrSize p.enc)
            (rowOf p.enc.version a (lastRow p1.prevRow rows)) (inSeq || !rows.isEmpty)
            (is3.map (WInstr.toInstr p.enc.version) ++ rest) :=
      htr2 inSeq (is3.map (WInstr.toInstr p.enc.version) ++ rest)
    rw [show (p.setAddress (some a)).prevRow = p1.prevRow from rfl]
    rw [this]
    congr 1
    rw [hp1prev, ← h0]
    exact htr3 _ rest


/-! ## the unit header, versions 2–4 -/

/-- **A written version 2–4 header parses back** (version 5: `header_written_parses_v5`; all
versions from the success of `write`: `header_written_parses`). For every program whose
parameters a reader accepts (`EncReadable`: byte-sized non-zero min_inst_len / max_ops /
line_range, `max_ops = 1` before version 4), whose include directories (all but the working
directory, which is not emitted) and file names are non-empty inline strings without NUL, whose
file fields fit `u64`, and for which the three fallible writer steps succeed (instruction
serialisation, `header_length`, `unit_length`): `LineProgram::write` returns exactly
`unit_length ++ version ++ header_length ++ parameters ++ tables ++ instructions`, and C04's
`LineProgramHeader::parse` on those bytes returns the writer's parameters, the include
directories in order, **the file table entry for entry (name, directory index, timestamp, size)**,
and the instruction bytes as the program. -/
theorem header_written_parses_v4 (en : Endian) (m : Mode) (p : Prog) (uver : Nat) (tabs : Tabs)
    (cd cn : Option Bytes) (prog hl il : Bytes)
    (he : EncReadable p.enc)
    (hds : ∀ d ∈ p.dirs.drop 1, InlineOk d) (hfs : ∀ f ∈ p.files, InlineOk f.name ∧ FileFits f)
    (hprog : writeInstrs en p.enc.version p.addrSize p.instrs = .ok prog)
    (hhl : Ints.writeUdata en
      (headerBodyV4 p.enc (dirBytes (p.dirs.drop 1) ++ 0 :: (fileBytes p.files ++ [0]))).length
      p.format.wordSize = .ok hl)
    (hil : Ints.writeInitialLength en p.format
      (Ints.toBytes en 2 p.enc.version ++ hl ++
        headerBodyV4 p.enc (dirBytes (p.dirs.drop 1) ++ 0 :: (fileBytes p.files ++ [0])) ++ prog).length = .ok il)
    (hsmall : (Ints.toBytes en 2 p.enc.version ++ hl ++
        headerBodyV4 p.enc (dirBytes (p.dirs.drop 1) ++ 0 :: (fileBytes p.files ++ [0])) ++ prog).length < 2 ^ 64) :
    ∃ bytes ul hdl, p.write en m uver p.addrSize tabs = .ok (bytes, tabs) ∧
      parseHeader en p.addrSize cd cn bytes =
        .ok { p := readerParams en p.format p.addrSize p.enc, unitLength := ul, headerLength := hdl,
              dirFormat := [], dirs := (p.dirs.drop 1).map (fun d => AttrVal.string d.val),
              fileFormat := [], files := p.files.map FileEnt.toEntry, program := prog, compDir := cd,
              compFile := cn.map fun n => { path := .string n, dirIndex := 0, timestamp := 0, size := 0,
                                             md5 := List.replicate 16 0, source := none } } := by
  obtain ⟨hv2, hv4, _, _, _, _, hv3, _⟩ := he
  refine ⟨_, (Ints.toBytes en 2 p.enc.version ++ hl ++
      headerBodyV4 p.enc (dirBytes (p.dirs.drop 1) ++ 0 :: (fileBytes p.files ++ [0])) ++ prog).length,
    (headerBodyV4 p.enc (dirBytes (p.dirs.drop 1) ++ 0 :: (fileBytes p.files ++ [0]))).length,
    write_v4_layout en m p uver p.addrSize tabs hv2 hv4 rfl (fun h => hv3 (by omega)) hds
    (fun f hf => (hfs f hf).1) prog hl il hprog hhl hil, ?_⟩
  exact parseHeader_v4_layout en p.format p.addrSize cd cn p.enc ⟨hv2, hv4, ‹_›, ‹_›, ‹_›, ‹_›, hv3, ‹_›⟩
    (p.dirs.drop 1) p.files prog il hl hds hfs hhl hil hsmall

/-! ## the unit header, version 5 -/

/-- **A written version 5 header parses back.** For every version 5 program whose parameters a
reader accepts (`EncReadable5`: byte-sized non-zero min_inst_len / max_ops / line_range, line_base
in `i8`; address size 1/2/4/8), whose inline strings have no NUL and whose file fields fit (`u64`
directory index / timestamp / size, a 16-byte MD5 — `FileOk5`), whatever the string forms
(**inline `DW_FORM_string`, `DW_FORM_line_strp`, `DW_FORM_strp`** for directories, file names and
sources, the directory table in the form of directory 0, the file names in the form of file 0, the
sources in the form of the first source), whichever of the optional fields the program carries
(**`file_has_timestamp`, `file_has_size`, `file_has_md5`, `file_has_source`**: 16 entry formats),
files with and without a source (a missing source is written as the empty string, which `write`
adds to the string table: `tabs'` extends `tabs`): **if `LineProgram::write` succeeds**, its output
is exactly the §6.2.4 encoding (`Spec.Line.encodeHeaderV5`) of the abstract header `headerV5Of` —
directory_entry_format `(DW_LNCT_path, form)`, one field per directory; file_name_entry_format
`path, directory_index[, timestamp][, size][, MD5][, LLVM_source]`, the fields of every file in
that order — followed by the serialised instructions, and **C04's `LineProgramHeader::parse`
(`header_roundtrip_v5`) returns**: the writer's parameters and address size, both entry formats,
**every directory including directory 0** (inline, or the offset of its content in the string
table — `refOff_resolves`: the C string at that offset of the written table is the directory),
**the file table entry for entry** (`FileEnt.toEntry5`: path, directory index, and timestamp /
size / MD5 / source where the format announces them, the reader's defaults where not), and the
instruction bytes as the program; `comp_dir` / `comp_name` are not used. Side conditions that
always hold in the code: the string sections and the unit are smaller than 2^64 bytes
(`TabsSmall`, `hsmall`), fewer than 2^64 directories and files. -/
theorem header_written_parses_v5 (en : Endian) (m : Mode) (p : Prog) (uver asz : Nat) (tabs tabs' : Tabs)
    (cd cn : Option Bytes) (bytes : Bytes)
    (he : EncReadable5 p.enc) (hasz : p.addrSize = 1 ∨ p.addrSize = 2 ∨ p.addrSize = 4 ∨ p.addrSize = 8)
    (hds : ∀ d ∈ p.dirs, NulFree d) (hfs : ∀ f ∈ p.files, FileOk5 f) (hsm : TabsSmall tabs')
    (hcount : p.dirs.length < 2 ^ 64 ∧ p.files.length < 2 ^ 64) (hsmall : bytes.length < 2 ^ 64)
    (hw : p.write en m uver p.addrSize tabs = .ok (bytes, tabs')) :
    Tabs.le tabs tabs' ∧
    ∃ prog ul hdl, writeInstrs en 5 p.addrSize p.instrs = .ok prog ∧
      encodeHeaderV5 (headerV5Of en p tabs' prog) = .ok bytes ∧
      parseHeader en asz cd cn bytes =
        .ok { p := readerParams en p.format p.addrSize p.enc, unitLength := ul, headerLength := hdl,
              dirFormat := [(1, (dirFormOf p).code)], dirs := p.dirs.map (attrOf tabs'),
              fileFormat := fileFormatOf p (fileFormOf p) (firstSourceForm p.files),
              files := p.files.map (FileEnt.toEntry5 p tabs' (firstSourceForm p.files)),
              program := prog, compDir := none, compFile := none } := by
  obtain ⟨prog, hprog, henc, hwf, hle⟩ := write_v5_layout en m p uver p.addrSize tabs tabs' bytes he hasz hds hfs hsm
    hcount hsmall hw
  refine ⟨hle, prog, (encodeBodyV5 (headerV5Of en p tabs' prog)).length,
    (encodeFieldsV5 (headerV5Of en p tabs' prog)).length, hprog, henc, ?_⟩
  have := Gimli.Props.C04.header_roundtrip_v5 (headerV5Of en p tabs' prog) hwf asz cd cn bytes [] henc
  rw [List.append_nil, headerV5Of_expected en p tabs' prog (fun f hf => (hfs f hf).2.2.1)] at this
  exact this

/-! ## the unit header, every version -/

/-- the header a reader gets from a written program: versions 2–4 (directory 0 and file 0 are the
caller's `comp_dir` / `comp_name`, the tables are inline strings) and version 5 (the tables carry
entry formats and directory 0; strings are inline or offsets into `tabs'`) -/
def writtenHeader (en : Endian) (p : Prog) (tabs' : Tabs) (prog : Bytes) (ul hdl : Nat) (cd cn : Option Bytes) :
    Header :=
  if p.enc.version ≤ 4 then
    { p := readerParams en p.format p.addrSize p.enc, unitLength := ul, headerLength := hdl,
      dirFormat := [], dirs := (p.dirs.drop 1).map (fun d => AttrVal.string d.val),
      fileFormat := [], files := p.files.map FileEnt.toEntry, program := prog, compDir := cd,
      compFile := cn.map fun n => { path := .string n, dirIndex := 0, timestamp := 0, size := 0,
                                     md5 := List.replicate 16 0, source := none } }
  else
    { p := readerParams en p.format p.addrSize p.enc, unitLength := ul, headerLength := hdl,
      dirFormat := [(1, (dirFormOf p).code)], dirs := p.dirs.map (attrOf tabs'),
      fileFormat := fileFormatOf p (fileFormOf p) (firstSourceForm p.files),
      files := p.files.map (FileEnt.toEntry5 p tabs' (firstSourceForm p.files)),
      program := prog, compDir := none, compFile := none }

/-- what `header_written_parses` asks of the program, per version: the hypotheses of
`header_written_parses_v4` / `header_written_parses_v5` -/
def WriteReadable (p : Prog) : Prop :=
  (p.enc.version ≤ 4 → EncReadable p.enc ∧ (∀ d ∈ p.dirs.drop 1, InlineOk d) ∧
    ∀ f ∈ p.files, InlineOk f.name ∧ FileFits f) ∧
  (5 ≤ p.enc.version → EncReadable5 p.enc ∧ (p.addrSize = 1 ∨ p.addrSize = 2 ∨ p.addrSize = 4 ∨ p.addrSize = 8) ∧
    (∀ d ∈ p.dirs, NulFree d) ∧ (∀ f ∈ p.files, FileOk5 f) ∧ p.dirs.length < 2 ^ 64 ∧ p.files.length < 2 ^ 64)

/-- **A written header parses back — versions 2, 3, 4 and 5.** For every program that is
`WriteReadable` (parameters a reader accepts; versions ≤ 4: non-empty NUL-free inline strings;
version 5: any mix of inline / `line_strp` / `strp` strings, any of the optional timestamp / size /
MD5 / source fields), both byte orders and formats, both build modes: **if `LineProgram::write`
returns `bytes`, then the instructions serialise to some `prog` and C04's
`LineProgramHeader::parse` on `bytes` returns `writtenHeader`** — the writer's parameters, the
directories in order, the file table entry for entry, and `prog` as the program. (Versions 2–4
also in the forward direction — `write` succeeds when its three fallible steps do —:
`header_written_parses_v4`; version 5 with the §6.2.4 encoding spelled out:
`header_written_parses_v5`.) -/
theorem header_written_parses (en : Endian) (m : Mode) (p : Prog) (uver : Nat) (tabs tabs' : Tabs)
    (cd cn : Option Bytes) (bytes : Bytes)
    (hr : WriteReadable p) (hsm : TabsSmall tabs') (hsmall : bytes.length < 2 ^ 64)
    (hw : p.write en m uver p.addrSize tabs = .ok (bytes, tabs')) :
    ∃ prog ul hdl, writeInstrs en p.enc.version p.addrSize p.instrs = .ok prog ∧
      parseHeader en p.addrSize cd cn bytes = .ok (writtenHeader en p tabs' prog ul hdl cd cn) := by
  by_cases hv4 : p.enc.version ≤ 4
  · obtain ⟨he, hds, hfs⟩ := hr.1 hv4
    have he' := he
    obtain ⟨hv2, _, _, _, _, _, hv3, _⟩ := he'
    -- read the three fallible steps off the success of `write`
    have hw' := hw
    unfold Prog.write at hw'
    have c2 : ¬ (p.enc.version < 2 ∨ p.enc.version > 5) := by omega
    have c3 : ¬ (p.enc.version < 4 ∧ p.enc.maxOps ≠ 1) := by
      intro h; exact h.2 (hv3 (by omega))
    have c5 : ¬ p.enc.version ≥ 5 := by omega
    simp only [c2, c3, c5, ↓reduceIte, hv4, writeStrs_inline en p.format p.enc.version m tabs _ hds,
      writeFilesV4_inline en p.format p.enc.version m tabs _ (fun f hf => (hfs f hf).1), Out.bind_ok, Out.pure_eq,
      List.append_nil] at hw'
    have hbody : ([UInt8.ofNat p.enc.minInstLen] ++ (if p.enc.version ≥ 4 then [UInt8.ofNat p.enc.maxOps] else []) ++
        [UInt8.ofNat (b2n p.enc.defaultIsStmt), UInt8.ofNat (Leb.ofI64 p.enc.lineBase % 256),
          UInt8.ofNat p.enc.lineRange, UInt8.ofNat opcodeBase] ++ stdLens ++
        (dirBytes (List.drop 1 p.dirs) ++ [0] ++ fileBytes p.files ++ [0])) =
        headerBodyV4 p.enc (dirBytes (p.dirs.drop 1) ++ 0 :: (fileBytes p.files ++ [0])) := by
      unfold headerBodyV4; simp
    rw [hbody, if_neg (by simp)] at hw'
    obtain ⟨hl, hhl, hw'⟩ := (bind_eq_ok _ _ _).mp hw'
    obtain ⟨prog, hprog, hw'⟩ := (bind_eq_ok _ _ _).mp hw'
    obtain ⟨il, hil, hw'⟩ := (bind_eq_ok _ _ _).mp hw'
    simp only [Out.ok.injEq, Prod.mk.injEq] at hw'
    obtain ⟨hbytes, _⟩ := hw'
    have hsm' : (Ints.toBytes en 2 p.enc.version ++ hl ++
        headerBodyV4 p.enc (dirBytes (p.dirs.drop 1) ++ 0 :: (fileBytes p.files ++ [0])) ++ prog).length < 2 ^ 64 := by
      rw [← hbytes] at hsmall
      simp only [List.length_append] at hsmall ⊢
      omega
    obtain ⟨bytes0, ul, hdl, hw0, hparse⟩ := header_written_parses_v4 en m p uver tabs cd cn prog hl il he hds hfs
      hprog hhl hil hsm'
    rw [hw] at hw0
    simp only [Out.ok.injEq, Prod.mk.injEq] at hw0
    refine ⟨prog, ul, hdl, hprog, ?_⟩
    rw [hw0.1, hparse]
    simp [writtenHeader, hv4]
  · obtain ⟨he, hasz, hds, hfs, hc1, hc2⟩ := hr.2 (by omega)
    obtain ⟨_, prog, ul, hdl, hprog, _, hparse⟩ := header_written_parses_v5 en m p uver p.addrSize tabs tabs' cd cn
      bytes he hasz hds hfs hsm ⟨hc1, hc2⟩ hsmall hw
    refine ⟨prog, ul, hdl, by rw [he.1]; exact hprog, ?_⟩
    rw [hparse]
    simp [writtenHeader, hv4]

/-! ## non-vacuity: the hypotheses are satisfiable, and every opcode choice occurs -/

instance decChainOk (e : Enc) (addrSize base : Nat) : (prev : WRow) → (rows : List WRow) →
    Decidable (ChainOk e addrSize base prev rows)
  | _, [] => isTrue trivial
  | prev, r :: rs => by
    unfold ChainOk
    have := decChainOk e addrSize base r.cleared rs
    infer_instance

instance (e : Enc) (a b : Nat) (p r : WRow) (off : Nat) : Decidable (EndOk e a b p r off) := by
  unfold EndOk; infer_instance

/-- VLIW: min_inst_len 4, max_ops 3, version 5 -/
def encV : Enc :=
  { version := 5, minInstLen := 4, maxOps := 3, defaultIsStmt := false, lineBase := -3, lineRange := 12 }

def w0 : WRow := WRow.initial enc4

example : EncOk enc4 ∧ EncOk encV := by decide
example : EncOk enc255 := by decide

/-- the four shapes of `generate_row`'s output for (−5, 14): special opcode alone; `const_add_pc` +
special; `advance_pc` + special carrying the line; `advance_line` + `advance_pc` + `copy` -/
example : generateRow .debug enc4 w0 { w0 with addressOffset := 3, line := 4 } =
    .ok ([.special 63], { w0 with addressOffset := 3, line := 4 }) := by decide
example : generateRow .debug enc4 w0 { w0 with addressOffset := 20, line := 2 } =
    .ok ([.constAddPc, .special 61], { w0 with addressOffset := 20, line := 2 }) := by decide
example : generateRow .debug enc4 w0 { w0 with addressOffset := 100, line := 2 } =
    .ok ([.advancePc 100, .special 19], { w0 with addressOffset := 100, line := 2 }) := by decide
example : generateRow .release enc4 w0 { w0 with addressOffset := 100, line := 200, column := 7,
                                                  discriminator := 3, isStmt := false } =
    .ok ([.setDiscriminator 3, .negateStatement, .setColumn 7, .advanceLine 199, .advancePc 100, .copy],
         { w0 with addressOffset := 100, line := 200, column := 7, isStmt := false }) := by decide
example : StepOk enc4 8 0x1000 w0 { w0 with addressOffset := 100, line := 200 } := by decide
example : StepOk encV 4 0x1000 { WRow.initial encV with addressOffset := 8, opIndex := 2 }
    { WRow.initial encV with addressOffset := 12, opIndex := 0, line := 7 } := by decide
/-- VLIW: from (8, op 2) to (12, op 0) is an operation advance of 1 -/
example : generateRow .debug encV { WRow.initial encV with addressOffset := 8, opIndex := 2 }
    { WRow.initial encV with addressOffset := 12, opIndex := 0, line := 3 } =
    .ok ([.special 30], { WRow.initial encV with addressOffset := 12, opIndex := 0, line := 3 }) := by decide

/-- a two-row sequence satisfies the hypotheses of `sequence_roundtrip`, and this is what it is -/
def rowsEx : List WRow :=
  [{ w0 with line := 5 }, { w0 with addressOffset := 40, line := 3, column := 2, basicBlock := true }]

example : ChainOk enc4 8 0x1000 (WRow.initial enc4) rowsEx := by decide
example : EndOk enc4 8 0x1000 (lastRow (WRow.initial enc4) rowsEx) (lastRow (WRow.initial enc4) rowsEx) 48 := by
  decide
example : (writeSequence .debug prog0 0x1000 rowsEx 48).map (·.instrs) =
    .ok [.setAddress (some 0x1000), .special 22, .setBasicBlock, .setColumn 2, .advancePc 40, .special 16,
         .advancePc 8, .endSequence] := by decide

/-- a version 4 program with two include directories and two files -/
def progEx : Prog :=
  { prog0 with
    dirs := [⟨.string, [0x2f, 0x77]⟩, ⟨.string, [0x73]⟩],
    files := [{ name := ⟨.string, [0x61]⟩, dir := 1, info := { FileInfo.default with timestamp := 7, size := 300 } },
              { name := ⟨.string, [0x62]⟩, dir := 0, info := FileInfo.default }],
    instrs := [.setAddress (some 0x1000), .special 22, .advancePc 8, .endSequence] }

instance (e : Enc) : Decidable (EncReadable e) := by unfold EncReadable; infer_instance

example : EncReadable progEx.enc := by decide
/-- what the reader gets from the written header of `progEx` -/
def progExReadBack : Option Header :=
  match progEx.write .little .debug 4 8 { lineStrings := [], strings := [] } with
  | .ok (bytes, _) =>
    match parseHeader .little 8 none none bytes with
    | .ok hd => some hd
    | _ => none
  | _ => none

example : progExReadBack.map (·.p) = some (readerParams .little .dwarf32 8 enc4) := by decide
example : progExReadBack.map (·.dirs) = some [.string [0x73]] := by decide
example : progExReadBack.map (fun hd => hd.files.map (fun f => (f.path, f.dirIndex, f.timestamp, f.size))) =
    some [(.string [0x61], 1, 7, 300), (.string [0x62], 0, 0, 0)] := by decide
example : progExReadBack.map (·.program) =
    some [0, 9, 2, 0, 0x10, 0, 0, 0, 0, 0, 0, 22, 2, 8, 0, 1, 1] := by decide

/-- a version 5 program: directories as `DW_FORM_line_strp`, file names inline, MD5 and source
fields; the first file has a `DW_FORM_strp` source, the second none (written as the empty string,
which `write` adds to `.debug_str`) -/
def progEx5 : Prog :=
  { prog0 with
    enc := { enc4 with version := 5 }, hasMd5 := true, hasSource := true,
    dirs := [⟨.lineStrp, [0x2f, 0x77]⟩, ⟨.lineStrp, [0x73]⟩],
    files := [{ name := ⟨.string, [0x61]⟩, dir := 1,
                info := { timestamp := 7, size := 300, md5 := List.replicate 16 0xab, source := some ⟨.strp, [0x78]⟩ } },
              { name := ⟨.string, [0x62]⟩, dir := 0, info := FileInfo.default }],
    instrs := [.setAddress (some 0x1000), .special 22, .advancePc 8, .endSequence] }

def tabsEx5 : Tabs := { lineStrings := [[0x2f, 0x77], [0x73]], strings := [[0x78]] }

instance (s : LineStr) : Decidable (InlineOk s) := by unfold InlineOk; infer_instance
instance (f : FileEnt) : Decidable (FileFits f) := by unfold FileFits; infer_instance
instance (p : Prog) : Decidable (WriteReadable p) := by
  unfold WriteReadable; infer_instance

example : WriteReadable progEx5 := by decide
/-- what the reader gets from the written header of `progEx5`, and the string tables afterwards -/
def progEx5ReadBack : Option (Header × Tabs) :=
  match progEx5.write .little .debug 5 8 tabsEx5 with
  | .ok (bytes, tabs') =>
    match parseHeader .little 4 none none bytes with
    | .ok hd => some (hd, tabs')
    | _ => none
  | _ => none

example : progEx5ReadBack.map (·.2) = some { lineStrings := [[0x2f, 0x77], [0x73]], strings := [[0x78], []] } := by
  decide
example : progEx5ReadBack.map (·.1.p) = some (readerParams .little .dwarf32 8 { enc4 with version := 5 }) := by decide
example : progEx5ReadBack.map (fun x => (x.1.dirFormat, x.1.dirs)) =
    some ([(1, 0x1f)], [.lineStrp 0, .lineStrp 3]) := by decide
example : progEx5ReadBack.map (fun x => x.1.fileFormat) = some [(1, 0x08), (2, 0x0f), (5, 0x1e), (0x2001, 0x0e)] := by
  decide
example : progEx5ReadBack.map (fun x => x.1.files.map (fun f => (f.path, f.dirIndex, f.timestamp))) =
    some [(.string [0x61], 1, 0), (.string [0x62], 0, 0)] := by decide
example : progEx5ReadBack.map (fun x => x.1.files.map (fun f => (f.md5.head?, f.source))) =
    some [(some 0xab, some (.strp 0)), (some 0, some (.strp 2))] := by decide
end Gimli.Props.C13
