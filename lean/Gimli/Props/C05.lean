import Gimli.Lemmas.CfiEntry
import Gimli.Spec.Frame
import Gimli.Tables.EhPe
/-!
# C05 — CIE/FDE decoding and address lookup agree with the section contents

Property theorems only (helper lemmas: `Gimli/Lemmas/CfiEntry.lean`). Every theorem is about the
Model functions of `Gimli/Model/CfiEntry.lean`, which the correspondence check ties to
`src/read/cfi.rs` and `src/constants.rs` (`lean/Gimli/Drv/C05.lean` ↔ `harness/src/prop/c05.rs`).

Quantifiers: every encoding byte, every base-address set, every byte string / section / table
(`Bytes = List UInt8`, any length), every address, both byte orders, both overflow modes where
stated.
-/
namespace Gimli.Props.C05
open Gimli Gimli.CfiEntry Gimli.Spec.Frame

/-! ## (1) the pointer-encoding accept/reject table -/

/-- **All 256 encoding bytes.** The accept/reject table regenerated from the Rust source of
`DwEhPe::is_valid_encoding` (`Gimli/Tables/EhPe.lean`, rewritten by every `./check` run) equals the
Model's `isValidEncoding` row by row, and both equal the LSB definition `validEncoding`:
`DW_EH_PE_omit`, or a defined value format (low nibble) with a defined application (bits 4–6),
with or without the indirect bit. -/
theorem ehpe_valid_table :
    ∀ b : Fin 256, Tables.EhPe.validTable[b.val]? = some (isValidEncoding b.val) ∧
      (isValidEncoding b.val = true ↔ validEncoding b.val) := by
  decide +kernel

/-- the masks and arm lists the table was evaluated from are the LSB ones (format = low nibble,
application = bits 4–6, indirect = bit 7, omit = 0xff), and the Model's accessors
`format`/`application`/`is_indirect`/`is_absent` are those bit fields -/
theorem ehpe_fields :
    Tables.EhPe.formatMask = 0x0f ∧ Tables.EhPe.applicationMask = 0x70 ∧ Tables.EhPe.omitByte = 0xff ∧
    Tables.EhPe.indirectBit = 0x80 ∧
    ∀ b : Fin 256, peFormat b.val = b.val &&& 0x0f ∧ peApplication b.val = b.val &&& 0x70 ∧
      (peIndirect b.val = true ↔ b.val &&& 0x80 ≠ 0) ∧ (peAbsent b.val = true ↔ b.val = 0xff) := by
  decide +kernel

/-! ## (2) encoded pointers -/

/-- **What a pointer field means, for every valid encoding.** For every valid encoding byte other
than `omit` and the (unsupported) `aligned` application, every base set, offset, address size 1..8,
byte order and input: if the base its application needs is absent the result is the
corresponding `…BaseIsUndefined` / `FuncRelativePointerInBadContext` error — before a single
byte is read —, otherwise it is `base + operand` modulo the address size, flagged indirect iff
bit 7 is set, where the operand is what `parse_encoded_value` decodes in the format of the low
nibble; for `pcrel` the base is the section address plus the offset *of the field itself*. -/
theorem encoded_pointer_decode (m : Mode) (e : Endian) (enc : Nat) (p : PeParams) (r : Rd)
    (hv : isValidEncoding enc = true) (ho : enc ≠ 0xff) (hal : peApplication enc ≠ 0x50)
    (h1 : 1 ≤ p.asz) (h8 : p.asz ≤ 8) :
    parseEncodedPointer m e enc p r =
      (match neededBase enc p r.off with
      | none => .err (missingBaseErr enc)
      | some b => (parseEncodedValue e enc p.asz r >>= fun xr =>
          pure (Ptr.new enc ((b + xr.1) % 2 ^ 64 % 2 ^ (8 * p.asz)), xr.2))) :=
  pep_semantics m e enc p r hv ho hal h1 h8

/-- error iff the needed base is absent, whatever the input -/
theorem encoded_pointer_missing_base (m : Mode) (e : Endian) (enc : Nat) (p : PeParams) (r : Rd)
    (hv : isValidEncoding enc = true) (ho : enc ≠ 0xff) (hal : peApplication enc ≠ 0x50)
    (h1 : 1 ≤ p.asz) (h8 : p.asz ≤ 8) (hb : neededBase enc p r.off = none) :
    parseEncodedPointer m e enc p r = .err (missingBaseErr enc) :=
  pep_missing_base m e enc p r hv ho hal h1 h8 hb

/-- **Encode then decode is the identity** for every valid format × application × indirect
combination — all nine value formats, `sleb128` included (through C09's `signed_roundtrip`) — and
every base set. The operand `x` is any 64-bit pattern that fits the format (`encodeOperand`: the
signed formats hold the two's-complement reading of the pattern); the decoded pointer is
`base + x` modulo the address size and exactly the operand's bytes are consumed. -/
theorem encoded_pointer_roundtrip (m : Mode) (e : Endian) (enc : Nat) (p : PeParams)
    (off x b : Nat) (bytes rest : Bytes)
    (hv : isValidEncoding enc = true) (ho : enc ≠ 0xff) (hal : peApplication enc ≠ 0x50)
    (h1 : 1 ≤ p.asz) (h8 : p.asz ≤ 8)
    (hb : neededBase enc p off = some b)
    (hx : encodeOperand e enc p.asz x = some bytes) :
    parseEncodedPointer m e enc p ⟨off, bytes ++ rest⟩ =
      .ok (Ptr.new enc ((b + x) % 2 ^ 64 % 2 ^ (8 * p.asz)), ⟨off + bytes.length, rest⟩) :=
  pep_roundtrip m e enc p off x b bytes rest hv ho hal h1 h8 hb hx

/-- every target address below `2^(8·asz)` has an operand reaching it from any base -/
theorem encoded_pointer_operand_exists (asz b t : Nat) (h8 : asz ≤ 8) (ht : t < 2 ^ (8 * asz)) :
    (b + operandFor asz b t) % 2 ^ 64 % 2 ^ (8 * asz) = t ∧ operandFor asz b t < 2 ^ (8 * asz) :=
  operandFor_spec asz b t h8 ht

/-! ## (3) the `.eh_frame_hdr` binary search -/

/-- **Binary search is correct, for every table size and content.** Let the parsed header `h`
have a table of `n = fde_count ≥ 1` rows in a fixed-size encoding (`size` = 2, 4 or 8 bytes per
field — the only ones `lookup` supports), all `n` rows present in the section
(`n · 2·size ≤` bytes after the header), every initial-location field decoding to a direct
pointer `key i`, and the rows sorted by it. Then `lookup a` returns exactly the FDE-address field
(`rowVal`) of some row `idx` such that `key idx` is the greatest initial location `≤ a` — or of the
first row when every initial location is above `a`. -/
theorem hdr_search_correct (m : Mode) (e : Endian) (h : Hdr) (bases : Bases) (a size : Nat)
    (key : Nat → Nat)
    (henc : tableEntrySize h.tableEnc = some size)
    (hn : 1 ≤ h.fdeCount)
    (htbl : h.fdeCount * (size * 2) ≤ h.table.bs.length) (hbig : h.table.bs.length < 2 ^ 64)
    (hkey : ∀ i, i < h.fdeCount →
      rowKey m e h.tableEnc (h.params bases) h.table.off h.table.bs size i = .ok (.direct (key i)))
    (hsorted : ∀ i j, i ≤ j → j < h.fdeCount → key i ≤ key j) :
    ∃ idx, idx < h.fdeCount ∧
      lookup m e h bases a = rowVal m e h.tableEnc (h.params bases) h.table.off h.table.bs size idx ∧
      ((key idx ≤ a ∧ ∀ j, j < h.fdeCount → key j ≤ a → key j ≤ key idx) ∨
       (idx = 0 ∧ ∀ j, j < h.fdeCount → a < key j)) :=
  lookup_correct m e h bases a size key henc hn htbl hbig hkey hsorted

/-- **… and terminates within ⌈log₂ n⌉ rounds, on any bytes whatsoever.** The `while len > 1` loop
run with fuel `k` on `len ≤ 2^k` rows never runs out of fuel and never panics (errors of a
truncated or undecodable table are returned): each round replaces `len` by `len/2` or
`len − len/2`. (`SizeOk`: the address size is 1..8, or overflow checks are off — `ones_sized`
overflows otherwise, see `wrappingAddSized`.) -/
theorem hdr_search_terminates (m : Mode) (e : Endian) (enc : Nat) (p : PeParams) (rowSize a : Nat)
    (hs : SizeOk m p.asz) (k len : Nat) (r : Rd) (hk : len ≤ 2 ^ k) :
    (lookupLoop m e enc p rowSize a k len r).Normal :=
  lookupLoop_normal m e enc p rowSize a hs k len r hk

/-- `EhHdrTable::lookup` itself (fuel 64, `fde_count` is a `u64`) always returns a pointer or an
error -/
theorem hdr_lookup_total (m : Mode) (e : Endian) (h : Hdr) (bases : Bases) (a : Nat)
    (hs : SizeOk m h.asz) (hc : h.fdeCount < 2 ^ 64) : (lookup m e h bases a).Normal :=
  lookup_normal m e h bases a hs hc

/-- **`.eh_frame_hdr` round trip.** `encodeHdr` (Spec/Frame.lean: version 1, the three encoding
bytes, `eh_frame_ptr`, `fde_count`, the rows) parses to exactly the header it encodes: the
`eh_frame_ptr` pointer (any valid encoding, base present), the count, the table encoding and the
table bytes at their offset — for every operand format, sleb128 included. -/
theorem hdr_roundtrip (m : Mode) (e : Endian) (bases : Bases) (asz : Nat) (h : AHdr)
    (hw : h.WF e bases asz) :
    parseHdr m e bases asz (encodeHdr e asz h) = .ok (h.expect e bases asz) :=
  parseHdr_encoded m e bases asz h hw

/-- **Binary search over an encoded table.** For an abstract header with a non-empty table in a
fixed-size direct encoding (2/4/8-byte entries, every application with its base present) whose
rows are sorted by the *decoded* initial location (`hdrKey`: base + operand modulo the address
size, pc-relative rows each from their own offset): the header parses, and `lookup a` returns the
decoded FDE address (`hdrVal`) of the row with the greatest initial location `≤ a`, or of the
first row when all are above `a`. -/
theorem hdr_search_on_encoded (m : Mode) (e : Endian) (bases : Bases) (asz : Nat) (h : AHdr) (a size : Nat)
    (hw : h.WF e bases asz) (hs : tableEntrySize h.tblEnc = some size) (hdirect : peIndirect h.tblEnc = false)
    (hne : 1 ≤ h.rows.length) (hbig : (h.tableBytes e asz).length < 2 ^ 64)
    (hok : ∀ i r, h.rows[i]? = some r → h.RowOk e bases asz (h.tableOff e asz) size i r)
    (hsorted : ∀ i j, i ≤ j → j < h.rows.length →
      hdrKey bases asz h (h.tableOff e asz) size i ≤ hdrKey bases asz h (h.tableOff e asz) size j) :
    parseHdr m e bases asz (encodeHdr e asz h) = .ok (h.expect e bases asz) ∧
    ∃ idx, idx < h.rows.length ∧
      lookup m e (h.expect e bases asz) bases a = .ok (.direct (hdrVal bases asz h (h.tableOff e asz) size idx)) ∧
      ((hdrKey bases asz h (h.tableOff e asz) size idx ≤ a ∧
          ∀ j, j < h.rows.length → hdrKey bases asz h (h.tableOff e asz) size j ≤ a →
            hdrKey bases asz h (h.tableOff e asz) size j ≤ hdrKey bases asz h (h.tableOff e asz) size idx) ∨
       (idx = 0 ∧ ∀ j, j < h.rows.length → a < hdrKey bases asz h (h.tableOff e asz) size j)) :=
  hdr_encoded_lookup m e bases asz h a size hw hs hdirect hne hbig hok hsorted

/-! ## (4) linear search -/

/-- `fde_for_address` is a scan of what the entries iterator yields: CIEs are skipped, each FDE
is parsed against the CIE its pointer designates and tested with `contains`; the first error
(of the iterator or of an FDE) and the first hit end the scan. For every section, any bytes. -/
theorem linear_lookup_is_scan (c : Cfg) (bases : Bases) (sec : Bytes) (a : Nat) :
    fdeForAddress c bases sec a =
      scan c bases sec a (entriesOf c bases sec).1 (entriesOf c bases sec).2 :=
  fdeForAddressLoop_eq_scan c bases sec a (sec.length + 1) ⟨0, sec⟩

/-- **Linear lookup succeeds iff some FDE covers the address, returning the first such.**
If iterating the section ends normally, every FDE it yields parses (`parseAll = ok fs`, `fs` in
section order) and no FDE runs into the top of its address space (`NoWrap`), then
`fde_for_address a` is the first FDE of `fs` with `initial ≤ a < initial + len`, and
`NoUnwindInfoForAddress` when there is none. -/
theorem linear_lookup_first (c : Cfg) (bases : Bases) (sec : Bytes) (a : Nat) (fs : List Fde)
    (hend : (entriesOf c bases sec).2 = .ok ())
    (hparse : parseAll c bases sec (entriesOf c bases sec).1 = .ok fs)
    (hwrap : ∀ f, f ∈ fs → NoWrap f) :
    fdeForAddress c bases sec a =
      match fs.find? (fun f => decide (covers f.initial f.range a)) with
      | some f => .ok f
      | none => .err .rNoUnwindInfoForAddress := by
  rw [linear_lookup_is_scan, hend]
  exact scan_eq_find c bases sec a _ fs hparse hwrap

/-- the two directions spelled out -/
theorem linear_lookup_iff (c : Cfg) (bases : Bases) (sec : Bytes) (a : Nat) (fs : List Fde)
    (hend : (entriesOf c bases sec).2 = .ok ())
    (hparse : parseAll c bases sec (entriesOf c bases sec).1 = .ok fs)
    (hwrap : ∀ f, f ∈ fs → NoWrap f) :
    ((∃ f, fdeForAddress c bases sec a = .ok f) ↔ ∃ f, f ∈ fs ∧ covers f.initial f.range a) ∧
    (fdeForAddress c bases sec a = .err .rNoUnwindInfoForAddress ↔
      ∀ f, f ∈ fs → ¬ covers f.initial f.range a) := by
  rw [linear_lookup_first c bases sec a fs hend hparse hwrap]
  cases hf : fs.find? (fun f => decide (covers f.initial f.range a)) with
  | some f =>
    have hmem := List.mem_of_find?_eq_some hf
    have hcov := List.find?_some hf
    simp only [decide_eq_true_eq] at hcov
    constructor
    · exact ⟨fun _ => ⟨f, hmem, hcov⟩, fun _ => ⟨f, rfl⟩⟩
    · constructor
      · intro h; simp at h
      · intro h; exact absurd hcov (h f hmem)
  | none =>
    rw [List.find?_eq_none] at hf
    constructor
    · constructor
      · rintro ⟨f, h⟩; simp at h
      · rintro ⟨f, hm, hc⟩; have := hf f hm; simp [hc] at this
    · constructor
      · intro _ f hm; have := hf f hm; simpa using this
      · intro _; rfl

/-! ## (5) entries round trip -/

/-- **Iterating an encoded section yields its entries, with their encoded fields.**
`encodeFrameSection` (Spec/Frame.lean) lays out abstract CIEs — versions 1/3/4, 32/64-bit lengths,
empty augmentation or `z` followed by any sequence of `L`, `P`, `R`, `S` with their arguments
(any valid pointer encodings, the personality pointer with any base set), address/segment size
bytes in `.debug_frame` version 4, trailing augmentation padding, any instruction bytes — and
FDEs (CIE pointer relative in `.eh_frame`, absolute in `.debug_frame`; address fields in the CIE's
`R` encoding or as plain addresses; augmentation data with the LSDA pointer in the `L` encoding),
zero length fields of either format between the entries (`.debug_frame` only, where the reader
skips them), optionally followed by a zero length field of either format (the `.eh_frame`
terminator). For every such list that satisfies the layout side conditions `EntriesWF` the
iterator yields exactly `expectEntries`: each CIE with all its fields (every data alignment
factor in `i64`, every pointer format incl. sleb128), each FDE with its offset, length, format and
the CIE offset its pointer designates — and then ends with `Ok(None)`. -/
theorem entries_roundtrip (c : Cfg) (bases : Bases) (es : List AEntry) (term : Option Format)
    (hwf : EntriesWF c bases 0 es) :
    entriesOf c bases (encodeFrameSection c.eh c.e es term) = (expectEntries c bases 0 es, .ok ()) := by
  unfold entriesOf encodeFrameSection
  apply entries_encoded c bases term es 0 _ _ hwf
  have := encodeEntries_length c es 0
  simp only [List.length_append]
  omega

/-- **Each FDE is bound to the CIE its pointer designates, and parses to its encoded fields.**
In a well-formed encoded section, an FDE laid out at `off` that names the CIE entry `ci` of the
section (at its layout offset `totalSize es1`) parses — through `cie_from_offset` at the offset the
pointer resolves to — to `fd.expect`: that very CIE record, the initial location and range decoded
in the CIE's `R` encoding against the given bases (pc-relative to the field's own offset), the
LSDA pointer (function-relative to the initial location), and the instruction bytes. -/
theorem fde_bound_roundtrip (c : Cfg) (bases : Bases) (es1 es2 : List AEntry) (ci : ACie)
    (term : Option Format)
    (fd : AFde) (off : Nat)
    (hwf : EntriesWF c bases 0 (es1 ++ .cie ci :: es2))
    (hfd : fd.WF c bases (ci.expect c bases (totalSize c.eh c.e es1)) off) :
    parseRest c bases (encodeFrameSection c.eh c.e (es1 ++ .cie ci :: es2) term)
        (fd.expectPartial c (ci.expect c bases (totalSize c.eh c.e es1)) off) =
      .ok (fd.expect c bases (ci.expect c bases (totalSize c.eh c.e es1)) off) :=
  parseRest_encoded c bases _ _ fd off (cieFromOffset_section c bases es1 es2 ci term hwf) hfd

/-! ## (6) the three lookup paths agree -/

/-- **Lookup through the `.eh_frame_hdr` table = exhaustive scan.** If the table indexes the
section's FDEs (`Indexes`: rows sorted, complete, pointing at the FDEs `fs`, whose ranges are
non-empty, non-wrapping and pairwise disjoint), `table.fde_for_address a` (binary search,
`pointer_to_offset`, `fde_from_offset`, `contains` re-check) returns the FDE of `fs` covering `a`,
and `NoUnwindInfoForAddress` when none does. -/
theorem hdr_lookup_iff_scan (c : Cfg) (bases : Bases) (h : Hdr) (frame : Bytes) (fs : List Fde)
    (size : Nat) (key : Nat → Nat) (g : Nat → Fde) (a : Nat)
    (hi : Indexes c bases h frame fs size key g) :
    hdrFdeForAddress c bases h frame a =
      match fs.find? (fun f => decide (covers f.initial f.range a)) with
      | some f => .ok f
      | none => .err .rNoUnwindInfoForAddress :=
  hdrFdeForAddress_eq_find c bases h frame fs size key g a hi

/-- **The three paths agree.** For a section that iterates and parses to the FDE list `fs`
(no wrap) and a table indexing it: linear search and table search return the same result for
every address — the first (= only) FDE of `fs` covering it, else `NoUnwindInfoForAddress` —, and
both `unwind_info_for_address` entry points are that lookup followed by the row search of the
unwind machine (`rowFor`: any function, C06 models it) in the FDE found. -/
theorem three_paths_agree {Row : Type} (rowFor : Fde → Nat → Out Row)
    (c : Cfg) (bases : Bases) (h : Hdr) (frame : Bytes) (fs : List Fde)
    (size : Nat) (key : Nat → Nat) (g : Nat → Fde) (a : Nat)
    (hend : (entriesOf c bases frame).2 = .ok ())
    (hparse : parseAll c bases frame (entriesOf c bases frame).1 = .ok fs)
    (hwrap : ∀ f, f ∈ fs → NoWrap f)
    (hi : Indexes c bases h frame fs size key g) :
    hdrFdeForAddress c bases h frame a = fdeForAddress c bases frame a ∧
    unwindInfoForAddress rowFor c bases frame a = (fdeForAddress c bases frame a >>= fun f => rowFor f a) ∧
    hdrUnwindInfoForAddress rowFor c bases h frame a = unwindInfoForAddress rowFor c bases frame a := by
  have h1 : hdrFdeForAddress c bases h frame a = fdeForAddress c bases frame a := by
    rw [hdr_lookup_iff_scan c bases h frame fs size key g a hi,
      linear_lookup_first c bases frame a fs hend hparse hwrap]
  refine ⟨h1, rfl, ?_⟩
  unfold hdrUnwindInfoForAddress unwindInfoForAddress
  rw [h1]

/-! ## (7) totality of pointer decoding -/

/-- `parse_encoded_pointer` returns a pointer or an error — never panics (in particular the two
`unreachable!()` arms are unreachable) and terminates — for every encoding byte, base set, offset
and input -/
theorem encoded_pointer_total (m : Mode) (e : Endian) (enc : Nat) (p : PeParams) (r : Rd)
    (hs : SizeOk m p.asz) : (parseEncodedPointer m e enc p r).Normal :=
  pep_normal m e enc p r hs

/-- **Iteration always ends.** `section.entries(bases)` over any bytes yields finitely many items
(at most `length/4`: each consumed at least 4 bytes) and then `Ok(None)` or one error — it never
panics and never loops, including the `.debug_frame` zero-length skipping. (`SizeOk`: the
caller's address size is 1..8 or overflow checks are off; sizes read from version-4 CIEs are
always 1, 2, 4 or 8.) -/
theorem entries_total (c : Cfg) (bases : Bases) (sec : Bytes) (hs : SizeOk c.m c.asz) :
    (entriesOf c bases sec).2.Normal :=
  entries_normal c bases hs _ _ (by simp)

/-- each yielded item consumed at least the 4 bytes of its length field -/
theorem entries_progress (c : Cfg) (bases : Bases) (hs : SizeOk c.m c.asz) (r : Rd) (en : Entry) (r' : Rd)
    (h : next c bases (r.bs.length + 1) r = .ok (some en, r')) : r'.bs.length + 4 ≤ r.bs.length :=
  (next_normal c bases hs (r.bs.length + 1) r (by omega)).2 en r' h

/-- fully parsing any FDE the iterator yields (CIE lookup at the designated offset, addresses,
augmentation data) returns an FDE or an error -/
theorem fde_parse_total (c : Cfg) (bases : Bases) (sec : Bytes) (p : PartialFde)
    (hs : SizeOk c.m c.asz) : (parseRest c bases sec p).Normal :=
  parseRest_normal c bases sec p hs

/-- `fde_for_address` (linear) returns an FDE or an error for every section and address -/
theorem linear_lookup_total (c : Cfg) (bases : Bases) (sec : Bytes) (a : Nat) (hs : SizeOk c.m c.asz) :
    (fdeForAddress c bases sec a).Normal :=
  fdeForAddress_normal c bases sec a hs

/-- `EhFrameHdr::parse` returns a header or an error on any bytes -/
theorem hdr_parse_total (m : Mode) (e : Endian) (bases : Bases) (asz : Nat) (sec : Bytes)
    (hs : SizeOk m asz) : (parseHdr m e bases asz sec).Normal :=
  parseHdr_normal m e bases asz sec hs

/-- `EhHdrTable::fde_for_address` returns an FDE or an error for every header, section, address -/
theorem hdr_fde_for_address_total (c : Cfg) (bases : Bases) (h : Hdr) (frame : Bytes) (a : Nat)
    (hs : SizeOk c.m c.asz) (hh : SizeOk c.m h.asz) (hc : h.fdeCount < 2 ^ 64) :
    (hdrFdeForAddress c bases h frame a).Normal :=
  hdrFdeForAddress_normal c bases h frame a hs hh hc

/-! ## the recorded finding C05-1, pinned -/

/-- witness CIE/FDE: 8-byte addresses, FDE `[0xffff_ffff_ffff_fff0, 2^64)` -/
def topCie : Cie :=
  { offset := 0, length := 12, format := .dwarf32, version := 1, aug := none, asz := 8,
    caf := 1, daf := -8, rar := 16, instr := ⟨16, []⟩ }
def topFde : Fde :=
  { offset := 16, length := 20, format := .dwarf32, cie := topCie,
    initial := 0xffff_ffff_ffff_fff0, range := 0x10, lsda := none, instr := ⟨40, []⟩ }

/-- **Counter-example to the unrestricted lookup clause (known finding C05-1).** An FDE whose range
ends exactly at the top of its address space is excluded by `NoWrap` in `linear_lookup_first`
for a reason: `contains` (and with it all three lookup paths) answers *false* for an address the
FDE covers, because `end_address()` wraps to 0. -/
theorem top_of_address_space_not_covered :
    covers topFde.initial topFde.range 0xffff_ffff_ffff_fff8 ∧
    topFde.contains .debug 0xffff_ffff_ffff_fff8 = .ok false ∧
    topFde.contains .release 0xffff_ffff_ffff_fff8 = .ok false ∧ ¬ NoWrap topFde := by
  refine ⟨by decide +kernel, by decide +kernel, by decide +kernel, ?_⟩
  unfold NoWrap; decide +kernel

/-! ## non-vacuity: the hypotheses above are met by concrete non-trivial inputs -/

/-- a small `.eh_frame_hdr`: version 1, `eh_frame_ptr` udata4, count udata4 = 3, table udata4 -/
def exHdr : Bytes := [1, 0x03, 0x03, 0x03, 0x00, 0x10, 0, 0, 3, 0, 0, 0,
  0x10, 0, 0, 0, 0x20, 0x10, 0, 0,
  0x20, 0, 0, 0, 0x40, 0x10, 0, 0,
  0x30, 0, 0, 0, 0x60, 0x10, 0, 0]

example : ∃ h, parseHdr .debug .little {} 8 exHdr = .ok h ∧ h.fdeCount = 3 ∧
    tableEntrySize h.tableEnc = some 4 ∧ h.fdeCount * (4 * 2) ≤ h.table.bs.length ∧
    rowKey .debug .little h.tableEnc (h.params {}) h.table.off h.table.bs 4 0 = .ok (.direct 0x10) ∧
    rowKey .debug .little h.tableEnc (h.params {}) h.table.off h.table.bs 4 1 = .ok (.direct 0x20) ∧
    rowKey .debug .little h.tableEnc (h.params {}) h.table.off h.table.bs 4 2 = .ok (.direct 0x30) ∧
    lookup .debug .little h {} 0x2f = .ok (.direct 0x1040) ∧
    lookup .debug .little h {} 0x30 = .ok (.direct 0x1060) ∧
    lookup .debug .little h {} 0x05 = .ok (.direct 0x1020) := by
  refine ⟨_, rfl, ?_⟩
  decide +kernel

/-- a one-CIE one-FDE `.debug_frame` (4-byte addresses): iteration, full FDE parse and lookup -/
def exSec : Bytes := [12, 0, 0, 0, 0xff, 0xff, 0xff, 0xff, 1, 0, 1, 0x7c, 16, 0, 0, 0,
  12, 0, 0, 0, 0, 0, 0, 0, 0x00, 0x10, 0, 0, 0x20, 0, 0, 0]
def exCfg : Cfg := { eh := false, e := .little, asz := 4, m := .debug }

example : (entriesOf exCfg {} exSec).2 = .ok () ∧ (entriesOf exCfg {} exSec).1.length = 2 ∧
    (parseAll exCfg {} exSec (entriesOf exCfg {} exSec).1).map
      (fun fs => fs.map (fun f => (f.initial, f.range, f.cie.offset, f.cie.daf, f.cie.asz))) =
        .ok [(0x1000, 0x20, 0, -4, 4)] ∧
    (fdeForAddress exCfg {} exSec 0x101f).map (·.offset) = .ok 16 ∧
    (fdeForAddress exCfg {} exSec 0x1020).map (·.offset) = .err .rNoUnwindInfoForAddress := by
  decide +kernel

example : isValidEncoding 0x9b = true ∧ neededBase 0x9b ⟨{ sect := some 0x4000 }, none, 8⟩ 0x10 = some 0x4010 ∧
    encodeOperand .little 0x9b 8 (sext 4 0xffff_fff0) = some [0xf0, 0xff, 0xff, 0xff] ∧
    parseEncodedPointer .debug .little 0x9b ⟨{ sect := some 0x4000 }, none, 8⟩ ⟨0x10, [0xf0, 0xff, 0xff, 0xff, 7]⟩ =
      .ok (.indirect 0x4000, ⟨0x14, [7]⟩) := by
  decide +kernel

/-- an abstract `.eh_frame`: CIE `zPLR` (personality pcrel|sdata4, LSDA funcrel|udata2 indirect,
FDE addresses pcrel|sdata4) and one FDE of it; `EntriesWF` holds and the iterator returns both -/
def exCie : ACie :=
  { format := .dwarf32, version := 1,
    args := [.pers 0x1b 0x100, .lsda 0xc2, .fdeEnc 0x1b], augPad := [0xaa],
    asz := 8, caf := 1, daf := -8, rar := 16, instr := [0x0c, 0x07, 0x08, 0] }
def exCfgEh : Cfg := { eh := true, e := .little, asz := 8, m := .debug }
def exBases : Bases := { ehFrame := { sect := some 0x2000, text := some 0x1000 } }
def exFde : AFde :=
  { format := .dwarf32, initOp := sext 4 0xffff_f000, range := 0x40, lsdaOp := 0x12, augPad := [], instr := [0, 0] }



def exSecEh : Bytes := encodeFrameSection true .little [.cie exCie, .fde (exCie.expect exCfgEh exBases 0) exFde] (some .dwarf32)

example : exSecEh.length = 55 ∧ (entriesOf exCfgEh exBases exSecEh).1.length = 2 ∧
    (entriesOf exCfgEh exBases exSecEh).2 = .ok () ∧
    (parseAll exCfgEh exBases exSecEh (entriesOf exCfgEh exBases exSecEh).1).map
      (fun fs => fs.map (fun f => (f.offset, f.cie.offset, f.initial, f.range))) = .ok [(30, 0, 0x1026, 0x40)] ∧
    (parseAll exCfgEh exBases exSecEh (entriesOf exCfgEh exBases exSecEh).1).map
      (fun fs => fs.map (fun f => (f.lsda.map (·.pointer),
        f.cie.aug.map (fun a => a.personality.map (fun p => p.2.pointer))))) = .ok [(some 0x1038, some (some 0x2113))] := by
  decide +kernel

/-- the side conditions of `entries_roundtrip` / `fde_bound_roundtrip` hold for it -/
example : EntriesWF exCfgEh exBases 0 [.cie exCie, .fde (exCie.expect exCfgEh exBases 0) exFde] := by
  refine ⟨⟨by decide, by decide, by decide, by decide, by decide, by decide, ?_, by decide +kernel, by decide +kernel⟩,
    (by show idSize exCfgEh.eh exCie.format + (ACie.fields exCfgEh.eh exCfgEh.e exCie).length < 0xffff_fff0; decide +kernel),
    ⟨(by show idSize exCfgEh.eh exFde.format + (AFde.fields exCfgEh.e (ACie.expect exCfgEh exBases exCie 0) exFde).length < 0xffff_fff0; decide +kernel), by decide +kernel, by decide +kernel, by decide, ?_, ?_, by decide +kernel⟩, trivial⟩
  · intro arg h
    simp only [exCie, List.mem_cons, List.not_mem_nil, or_false] at h
    rcases h with h | h | h <;> subst h <;> unfold ArgWF <;> decide +kernel
  · show PtrOk _ _ _ _ _ ∧ _
    unfold PtrOk
    decide +kernel
  · show PtrOk _ _ _ _ _
    unfold PtrOk
    decide +kernel

/-! ### a table indexing a section (non-vacuity of `Indexes`) -/

def ixCie : ACie :=
  { format := .dwarf32, version := 1, args := [], augPad := [], asz := 8, caf := 1, daf := -8, rar := 16,
    instr := [0, 0, 0] }
def ixCfg : Cfg := { eh := true, e := .little, asz := 8, m := .debug }
def ixF0 : AFde := { format := .dwarf32, initOp := 0x1000, range := 0x20, lsdaOp := 0, augPad := [], instr := [0] }
def ixF1 : AFde := { format := .dwarf32, initOp := 0x1040, range := 0x10, lsdaOp := 0, augPad := [], instr := [] }
def ixC : Cie := ixCie.expect ixCfg {} 0
def ixSec : Bytes := encodeFrameSection true .little [.cie ixCie, .fde ixC ixF1, .fde ixC ixF0] (some .dwarf32)

/-- eh_frame at 0x2000; table rows sorted by initial location: (0x1000 -> FDE at 40), (0x1040 -> FDE at 16) -/
def ixHdrBytes : Bytes := [1, 0x03, 0x03, 0x03, 0x00, 0x20, 0, 0, 2, 0, 0, 0,
  0x00, 0x10, 0, 0, 0x28, 0x20, 0, 0,
  0x40, 0x10, 0, 0, 0x10, 0x20, 0, 0]
def ixHdr : Hdr := match parseHdr .debug .little {} 8 ixHdrBytes with
  | .ok h => h
  | _ => ⟨0, .direct 0, 0, 0, ⟨0, []⟩⟩
def ixKey (i : Nat) : Nat := if i = 0 then 0x1000 else 0x1040
def ixG (i : Nat) : Fde := match fdeFromOffset ixCfg {} ixSec (if i = 0 then 40 else 16) with
  | .ok f => f
  | _ => default
def ixFs : List Fde := match parseAll ixCfg {} ixSec (entriesOf ixCfg {} ixSec).1 with
  | .ok fs => fs
  | _ => []

theorem ixFacts : (ixG 0).initial = 0x1000 ∧ (ixG 0).range = 0x20 ∧ (ixG 1).initial = 0x1040 ∧ (ixG 1).range = 0x10 ∧
    ixHdr.fdeCount = 2 := by decide +kernel

/-- the hypotheses of `hdr_lookup_iff_scan` / `three_paths_agree` are satisfiable: a CIE, two FDEs (out of
address order in the section) and a sorted two-row table pointing at them -/
theorem ixIndexes : Indexes ixCfg {} ixHdr ixSec ixFs 4 ixKey ixG where
  henc := by decide +kernel
  hn := by decide +kernel
  htbl := by decide +kernel
  hbig := by decide +kernel
  hkey := by
    intro i hi
    have h2 : ixHdr.fdeCount = 2 := ixFacts.2.2.2.2
    rw [h2] at hi
    have : i = 0 ∨ i = 1 := by omega
    rcases this with h | h <;> subst h <;> decide +kernel
  hsorted := by
    intro i j hij hj
    have h2 : ixHdr.fdeCount = 2 := ixFacts.2.2.2.2
    rw [h2] at hj
    unfold ixKey
    split <;> split <;> omega
  hrow := by
    intro i hi
    have h2 : ixHdr.fdeCount = 2 := ixFacts.2.2.2.2
    rw [h2] at hi
    have : i = 0 ∨ i = 1 := by omega
    rcases this with h | h <;> subst h
    · exact ⟨0x2028, 0x2000, by decide +kernel, by decide +kernel, by decide, by decide +kernel, by decide +kernel,
        by unfold NoWrap; decide +kernel, by decide +kernel⟩
    · exact ⟨0x2010, 0x2000, by decide +kernel, by decide +kernel, by decide, by decide +kernel, by decide +kernel,
        by unfold NoWrap; decide +kernel, by decide +kernel⟩
  hall := by decide +kernel
  hmem := by
    intro i hi
    have h2 : ixHdr.fdeCount = 2 := ixFacts.2.2.2.2
    rw [h2] at hi
    have : i = 0 ∨ i = 1 := by omega
    rcases this with h | h <;> subst h <;> decide +kernel
  hdisj := by
    intro i j x hi hj hci hcj
    have h2 : ixHdr.fdeCount = 2 := ixFacts.2.2.2.2
    rw [h2] at hi hj
    obtain ⟨a0, a1, b0, b1, _⟩ := ixFacts
    have hi' : i = 0 ∨ i = 1 := by omega
    have hj' : j = 0 ∨ j = 1 := by omega
    unfold covers at hci hcj
    rcases hi' with h | h <;> rcases hj' with h' | h' <;> subst h <;> subst h'
    · rfl
    · rw [a0, a1] at hci; rw [b0, b1] at hcj; omega
    · rw [b0, b1] at hci; rw [a0, a1] at hcj; omega
    · rfl

example : (entriesOf ixCfg {} ixSec).2 = .ok () ∧
    parseAll ixCfg {} ixSec (entriesOf ixCfg {} ixSec).1 = .ok ixFs ∧ ∀ f, f ∈ ixFs → NoWrap f := by
  refine ⟨by decide +kernel, by decide +kernel, ?_⟩
  have h : ixFs = [ixG 1, ixG 0] := by decide +kernel
  intro f hf
  rw [h] at hf
  simp only [List.mem_cons, List.not_mem_nil, or_false] at hf
  rcases hf with h | h <;> subst h <;> (unfold NoWrap; decide +kernel)

/-! ### the hypotheses of `hdr_roundtrip` / `hdr_search_on_encoded` are satisfiable -/

/-- the abstract form of `exHdr` -/
def exAHdr : AHdr :=
  { ptrEnc := 0x03, cntEnc := 0x03, tblEnc := 0x03, ptrOp := 0x1000,
    rows := [(0x10, 0x1020), (0x20, 0x1040), (0x30, 0x1060)] }

example : encodeHdr .little 8 exAHdr = exHdr := by decide +kernel

example : exAHdr.WF .little {} 8 := by
  refine ⟨by decide, by decide +kernel, by decide +kernel, ?_, by decide +kernel⟩
  unfold PtrOk; decide +kernel

example : tableEntrySize exAHdr.tblEnc = some 4 ∧ peIndirect exAHdr.tblEnc = false ∧
    ∀ i r, exAHdr.rows[i]? = some r → exAHdr.RowOk .little {} 8 (exAHdr.tableOff .little 8) 4 i r := by
  refine ⟨by decide, by decide, ?_⟩
  intro i r hi
  have hlt : i < 3 := by
    rcases Nat.lt_or_ge i 3 with h | h
    · exact h
    · have : exAHdr.rows[i]? = none := List.getElem?_eq_none (by simpa [exAHdr] using h)
      rw [this] at hi; simp at hi
  have : i = 0 ∨ i = 1 ∨ i = 2 := by omega
  rcases this with h | h | h <;> subst h <;>
    (simp only [exAHdr, List.getElem?_cons_zero, List.getElem?_cons_succ, Option.some.injEq] at hi; subst hi;
     unfold AHdr.RowOk PtrOk; decide +kernel)

/-! ### `.debug_frame` with zero length fields, a two-byte data alignment factor and sleb128 pointers -/

/-- a `.debug_frame`: CIE (64-bit length, version 4, address size 4, data alignment factor −1000 in two SLEB128
bytes, `zR` with pc-relative sleb128 FDE addresses), a 32-bit and a 64-bit zero length field, an FDE, a zero
length field at the end -/
def dfCie : ACie :=
  { format := .dwarf64, version := 4, args := [.fdeEnc 0x19], augPad := [],
    asz := 4, caf := 4, daf := -1000, rar := 300, instr := [0, 0] }
def dfCfg : Cfg := { eh := false, e := .big, asz := 8, m := .debug }
def dfBases : Bases := { ehFrame := { sect := some 0x8000 } }
def dfFde : AFde :=
  { format := .dwarf32, initOp := Leb.ofI64 (-0x7000), range := 0x123, lsdaOp := 0, augPad := [0xbb], instr := [0] }
def dfEntries : List AEntry := [.cie dfCie, .zero .dwarf32, .zero .dwarf64, .fde (dfCie.expect dfCfg dfBases 0) dfFde]
def dfSec : Bytes := encodeFrameSection false .big dfEntries (some .dwarf32)

example : dfSec.length = 71 ∧ (entriesOf dfCfg dfBases dfSec).2 = .ok () ∧
    (entriesOf dfCfg dfBases dfSec).1.length = 2 ∧
    (parseAll dfCfg dfBases dfSec (entriesOf dfCfg dfBases dfSec).1).map
      (fun fs => fs.map (fun f => (f.offset, f.cie.offset, f.cie.daf, f.initial, f.range))) =
        .ok [(51, 0, -1000, 0x103b, 0x123)] := by
  decide +kernel

/-- the side conditions of `entries_roundtrip` hold for it (zero length fields between entries, sleb128 operands,
two-byte data alignment factor) -/
example : EntriesWF dfCfg dfBases 0 dfEntries := by
  refine ⟨⟨by decide, by decide, by decide, by decide, by decide +kernel, by decide, ?_, by decide +kernel, by decide +kernel⟩,
    (by show idSize dfCfg.eh dfCie.format + (ACie.fields dfCfg.eh dfCfg.e dfCie).length < 2 ^ 64; decide +kernel),
    rfl, rfl,
    ⟨(by show idSize dfCfg.eh dfFde.format + (AFde.fields dfCfg.e (ACie.expect dfCfg dfBases dfCie 0) dfFde).length < 0xffff_fff0; decide +kernel),
     by decide +kernel, by decide +kernel, by decide, ?_, ?_, by decide +kernel⟩, trivial⟩
  · intro arg h
    simp only [dfCie, List.mem_cons, List.not_mem_nil, or_false] at h
    subst h; unfold ArgWF; decide +kernel
  · show PtrOk _ _ _ _ _ ∧ _
    unfold PtrOk
    decide +kernel
  · trivial

example : isValidEncoding 0x19 = true ∧ encodeOperand .little 0x19 8 (Leb.ofI64 (-0x7000)) = some [0x80, 0xa0, 0x7e] ∧
    parseEncodedPointer .debug .little 0x19 ⟨{ sect := some 0x8000 }, none, 8⟩ ⟨0x3b, [0x80, 0xa0, 0x7e, 9]⟩ =
      .ok (.direct 0x103b, ⟨0x3e, [9]⟩) := by
  decide +kernel

end Gimli.Props.C05
