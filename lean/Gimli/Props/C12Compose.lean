import Gimli.Props.C12Expr
import Gimli.Props.C12Cfi
import Gimli.Props.C12Lists
/-!
# C12 — composition: the expression component inside the CFI and list components

C12Cfi (`Props/C12Cfi.lean`) and C12Lists (`Props/C12Lists.lean`) treat the conversion of
expressions as a parameter. Here the parameter is instantiated with the Model of
`write::Expression::from` (`Model/ConvOp.lean`) followed by the expression writer (`Model/WOp.lean`).

## CFI

`cfi.rs` converts the expression of `DW_CFA_def_cfa_expression` / `DW_CFA_expression` /
`DW_CFA_val_expression` with `Expression::from(x, encoding, None, convert_address,
&NoConvertDebugInfoRef)` and writes it with no unit offsets and no fix-ups: `cfiEnv`, `cfiConvertExpr`.

* `compose_cfi_refs_rejected`: every operation that refers to a DIE or to `.debug_addr` makes the
  conversion fail — a CFI expression never silently loses a reference;
* `compose_cfi_op_same`: every other operation that converts (not a branch, not `entry_value`)
  is written as an operation the reader decodes to **literally the same operation**;
* `compose_cfi_rows` / `compose_cfi_expr_decodes`: a converted expression decodes (C07) without
  error into as many operations as the input, position by position the conversion of the input's.

**Byte identity.** C12Cfi's `ExprIdentity` ("the converter returns the bytes it was given") is
*false* of the real converter (`compose_identity_fails`: `DW_OP_const1u 5` becomes `DW_OP_lit5`).
convert∘write is the identity on exactly the expressions that are already in the writer's
encoding, `Canonical` (a decidable check: run it); everything else is re-encoded with the same
meaning: a constant in a longer form than `lit`/`constu` ULEB128, a register or base register 0..31
in the `regx`/`bregx` form, `pick 0/1`, `deref_size` of the address size, `call2`,
`GNU_push_tls_address`, a `DW_OP_GNU_*` opcode in DWARF 5 (or the standard one before), WASM kind 3,
and any non-minimal LEB128 operand.
The hypothesis cannot simply be replaced by "same decoded operations" **without changing C12Cfi's
proofs**: C06's unwind rules (`Spec.Unwind`, `rulesAt`) carry an expression as its *bytes*, and the
conclusion `rulesAt rowsOut pc = rulesAt rowsIn pc` is equality of those rules — re-encoded
expressions give rules that are equal only up to the meaning of their expressions, a relation C06's
Spec does not have. What *is* true without any hypothesis on the converter is restated here:
`compose_convert_write_rows` — C12Cfi's convert→write→decode→unwind theorem for **any** expression
converter (in particular the real one), for every table whose expression operands are canonical
for it; no global identity assumption.

## Lists

C12Lists is already parametric in the re-encoding (`gdata`); `compose_lists_data` instantiates it:
with the real converter the location description of every converted entry is the re-encoded
expression, and that decodes to the conversion of the input's operations (`convert_expr_decode`).
-/
set_option linter.unusedSimpArgs false
namespace Gimli.Props.C12
open Gimli Gimli.ConvOp
open Gimli.Op (Encoding)

/-! ## the CFI instance -/

/-- `Expression::from(x, encoding, None, convert_address, &NoConvertDebugInfoRef)` -/
def cfiEnv (ca : Nat → Option WOp.Addr) : ConvOp.Env where
  unitRef _ := .error .invalidUnitRef
  infoRef _ := .error .invalidDebugInfoRef
  convAddr := ca
  addrIndex := none

/-- expression bytes ↦ the bytes the converted expression is written as in a CFI instruction
(`expression.write(w, None, encoding, None)`), or the error -/
def cfiConvertExpr (ca : Nat → Option WOp.Addr) (e : Endian) (enc : Encoding) (bs : Bytes) :
    ConvFrame.CRes Bytes :=
  match ConvOp.convert (cfiEnv ca) e enc bs with
  | .error (.read x) => .fail (.read x)
  | .error .invalidAddress => .fail .invalidAddress
  | .error c => .fail (.other c.name)
  | .ok ws =>
    match WOp.exprWrite e enc none false 0 ws with
    | .ok (out, _) => .ok out
    | .err x => .fail (.write x)
    | .panic w => .panic w
    | .diverge => .diverge

/-- the executable `convert_address`: `|a| Some(Address::Constant(a))` -/
def idAddr : Nat → Option WOp.Addr := fun a => some (.constant a)

/-- an operation that refers to a DIE or to `.debug_addr` -/
def hasRef : Op.Operation → Bool
  | .deref bt _ _ => bt != 0
  | .registerOffset _ _ bt => bt != 0
  | .typedLiteral _ _ => true
  | .convert bt => bt != 0
  | .reinterpret bt => bt != 0
  | .call _ => true
  | .variableValue _ => true
  | .implicitPointer _ _ => true
  | .parameterRef _ => true
  | .addressIndex _ => true
  | .constantIndex _ => true
  | _ => false

/-- **references in a CFI expression are errors**, never dropped or rewritten -/
theorem compose_cfi_refs_rejected (ca : Nat → Option WOp.Addr) (enc : Encoding) (offsets : List Nat) (endOff : Nat)
    (sub : Bytes → CR (List WOp.Operation)) (r : Op.Operation) (hr : hasRef r = true) :
    ∃ c, convertOp (cfiEnv ca) enc offsets endOff sub r = .error c := by
  cases r <;> simp only [hasRef] at hr <;> try (cases hr)
  case call d => cases d <;> exact ⟨_, rfl⟩
  case deref bt s sp =>
    have hbt : bt ≠ 0 := by simpa using hr
    exact ⟨.invalidUnitRef, by simp [convertOp, cfiEnv, hbt, bind, Except.bind]⟩
  case registerOffset rg o bt =>
    have hbt : bt ≠ 0 := by simpa using hr
    exact ⟨.invalidUnitRef, by simp [convertOp, cfiEnv, hbt, bind, Except.bind]⟩
  case convert bt =>
    have hbt : bt ≠ 0 := by simpa using hr
    exact ⟨.invalidUnitRef, by simp [convertOp, cfiEnv, hbt, bind, Except.bind]⟩
  case reinterpret bt =>
    have hbt : bt ≠ 0 := by simpa using hr
    exact ⟨.invalidUnitRef, by simp [convertOp, cfiEnv, hbt, bind, Except.bind]⟩
  all_goals exact ⟨_, rfl⟩

/-- **every other operation is written as literally the same operation**: in a CFI expression, with
the executable `convert_address`, a decoded operation (not a branch, not `entry_value`) that converts
is written as bytes the reader decodes to that very operation. (Branches and `entry_value`:
`convert_branch_target`, and this theorem applied to the body.) -/
theorem compose_cfi_op_same (enc : Encoding) (offsets : List Nat) (endOff : Nat)
    (sub : Bytes → CR (List WOp.Operation)) (r : Op.Operation) (w : WOp.Operation)
    (hnb : isBranch r = false) (hne : ∀ x, r ≠ .entryValue x) (hr : RWf enc r)
    (h : convertOp (cfiEnv idAddr) enc offsets endOff sub r = .ok w) (disp : Int) (body : Bytes) (refv : Nat) :
    WOp.image enc (fun _ => none) disp body refv w = some r := by
  have hE : EnvSpec (cfiEnv idAddr) (fun _ => none) id id id := by
    refine ⟨?_, ?_, ?_⟩
    · intro o id' h'; cases h'
    · intro a x h'
      simp only [cfiEnv, idAddr, Option.some.injEq] at h'
      rw [← h']; rfl
    · intro f i v h'; cases h'
  have := convert_op_image (cfiEnv idAddr) enc (fun _ => none) id id id hE offsets endOff sub r w hnb h disp body refv
  rw [this]
  congr 1
  cases r <;> simp only [mapOp, mapBase, id] <;> try rfl
  case deref bt s sp =>
    by_cases hbt : bt = 0
    · simp [hbt]
    · simp [convertOp, cfiEnv, hbt, bind, Except.bind] at h
  case registerOffset rg o bt =>
    by_cases hbt : bt = 0
    · simp [hbt]
    · simp [convertOp, cfiEnv, hbt, bind, Except.bind] at h
  case convert bt =>
    by_cases hbt : bt = 0
    · simp [hbt]
    · simp [convertOp, cfiEnv, hbt, bind, Except.bind] at h
  case reinterpret bt =>
    by_cases hbt : bt = 0
    · simp [hbt]
    · simp [convertOp, cfiEnv, hbt, bind, Except.bind] at h
  case call d => cases d <;> simp [convertOp, cfiEnv, bind, Except.bind] at h
  case variableValue o => simp [convertOp, cfiEnv, bind, Except.bind] at h
  case implicitPointer v bo => simp [convertOp, cfiEnv, bind, Except.bind] at h
  case entryValue x => exact absurd rfl (hne x)
  case addressIndex i => simp [convertOp, cfiEnv] at h
  case constantIndex i => simp [convertOp, cfiEnv] at h
  case piece bits bo =>
    cases bo with
    | none =>
      simp only [RWf] at hr
      simp only [mapOp]
      congr 1
      omega
    | some o => rfl

/-- **a converted CFI expression decodes to the converted operations**: if `cfiConvertExpr`
succeeds with `out`, the input decoded (C07) without error into `ins`; the writer operations are
position by position the conversion of `ins`; and `out` decodes without error into exactly their
images — as many operations as the input has, boundaries at the writer's offsets. -/
theorem compose_cfi_expr_decodes (ca : Nat → Option WOp.Addr) (hca : ∀ a v, ca a = some (.constant v) → v < 2 ^ 64)
    (e : Endian) (enc : Encoding) (bs out : Bytes) (h : cfiConvertExpr ca e enc bs = .ok out)
    (hlen : out.length < 2 ^ 64) :
    ∃ ins ws offsOut,
      Op.iterAll e enc bs.length (bs.length + 1) bs = (ins, none) ∧
      AllPairs (fun p w => convertOp (cfiEnv ca) enc (inputOffsets ins bs.length) p.2
        (subAt (cfiEnv ca) e enc maxEntryValueDepth) p.1 = .ok w) ins ws ∧
      WOp.exprOffsets enc none ws 0 = .ok offsOut ∧
      Op.iterAll e enc out.length ws.length out =
        (WOp.expectedDecode e enc none false offsOut 0 0 ws, none) := by
  unfold cfiConvertExpr at h
  cases hc : ConvOp.convert (cfiEnv ca) e enc bs with
  | error c =>
    rw [hc] at h
    cases c <;> simp at h
    all_goals (rename_i x; cases x <;> simp at h)
  | ok ws =>
    rw [hc] at h
    simp only at h
    cases hw : WOp.exprWrite e enc none false 0 ws with
    | ok p =>
      obtain ⟨o, fx⟩ := p
      rw [hw] at h
      simp only [ConvFrame.CRes.ok.injEq] at h
      subst h
      have henv : EnvRanges (cfiEnv ca) := ⟨fun a v h => hca a v h, fun f i v h => by cases h⟩
      -- `convert_expr_decode` is stated for `some offs`; with no unit offsets the same proof applies
      have hwf := converted_in_range (cfiEnv ca) henv e enc bs ws hc
      unfold ConvOp.convert at hc
      rw [convertNested_unfold] at hc
      cases hI : Op.iterAll e enc bs.length (bs.length + 1) bs with
      | mk ins er =>
        rw [hI] at hc
        cases er with
        | some x => simp at hc
        | none =>
          simp only at hc
          have hf := convertList_allPairs (cfiEnv ca) enc _ _ ins ws hc
          simp only [WOp.exprWrite, WOp.bind_eq_ok] at hw
          obtain ⟨offsOut, ho, hw⟩ := hw
          have hd := WOp.iterAll_emit e enc none false offsOut (fun f hf' => by cases hf')
            ws 0 o fx o.length ws.length hw hwf (Nat.le_refl _) hlen (Nat.le_refl _)
          simp only [Nat.sub_self] at hd
          exact ⟨ins, ws, offsOut, rfl, hf, ho, hd⟩
    | err x => rw [hw] at h; simp at h
    | panic w => rw [hw] at h; simp at h
    | diverge => rw [hw] at h; simp at h

/-! ## byte identity -/

/-- an expression the CFI conversion writes back byte for byte -/
def Canonical (ca : Nat → Option WOp.Addr) (e : Endian) (enc : Encoding) (bs : Bytes) : Prop :=
  cfiConvertExpr ca e enc bs = .ok bs

/-- the frame-table conversion environment with the real expression converter -/
def cfiFrameEnv (caf : Nat) (daf : Int) (ca : Nat → Option WOp.Addr) (e : Endian) (enc : Encoding) : ConvFrame.Env :=
  { caf := caf, daf := daf, convertExpr := cfiConvertExpr ca e enc }

/-- **`ExprIdentity` is false of the real converter**: `DW_OP_const1u 5` is written as `DW_OP_lit5` -/
theorem compose_identity_fails (caf : Nat) (daf : Int) :
    ¬ ConvFrame.ExprIdentity (cfiFrameEnv caf daf idAddr .little ⟨8, .dwarf32, 4⟩) := by
  intro h
  have := h [0x08, 0x05] [0x35] (by rfl)
  cases this

/-- the expression operand of an instruction -/
def instrExpr : Cfi.Instr → Option Bytes
  | .defCfaExpression ex => some ex
  | .expression _ ex => some ex
  | .valExpression _ ex => some ex
  | _ => none

/-- every expression operand of the instruction is written back byte for byte by `env` -/
def CanonInstr (env : ConvFrame.Env) (i : Cfi.Instr) : Prop :=
  ∀ ex, instrExpr i = some ex → env.convertExpr ex = .ok ex

/-- `env` restricted to the expressions it writes back unchanged (anything else is refused) -/
def guardEnv (env : ConvFrame.Env) : ConvFrame.Env :=
  { env with convertExpr := fun ex =>
      match env.convertExpr ex with
      | .ok ex' => if ex' = ex then .ok ex' else .fail (.other "re-encoded")
      | r => r }

theorem guardEnv_identity (env : ConvFrame.Env) : ConvFrame.ExprIdentity (guardEnv env) := by
  intro ex ex' h
  simp only [guardEnv] at h
  split at h
  · split at h
    · rename_i heq
      simp only [ConvFrame.CRes.ok.injEq] at h
      rw [← h]; exact heq
    · cases h
  · rename_i r hr
    cases hx : env.convertExpr ex with
    | ok a => exact absurd hx (hr a)
    | fail c => rw [hx] at h; cases h
    | panic w => rw [hx] at h; cases h
    | diverge => rw [hx] at h; cases h

theorem convertInstr_guard (env : ConvFrame.Env) (off : Nat) (i : Cfi.Instr) (hc : CanonInstr env i) :
    ConvFrame.convertInstr (guardEnv env) off i = ConvFrame.convertInstr env off i := by
  cases i <;> try rfl
  all_goals
    rename_i ex
    have := hc ex rfl
    simp [ConvFrame.convertInstr, guardEnv, this]

theorem convertProg_guard (env : ConvFrame.Env) :
    ∀ (is : List Cfi.Instr) (off : Nat), (∀ i ∈ is, CanonInstr env i) →
      ConvFrame.convertProg (guardEnv env) off is = ConvFrame.convertProg env off is
  | [], off, _ => rfl
  | i :: is, off, h => by
    simp only [ConvFrame.convertProg, convertInstr_guard env off i (h i (by simp))]
    congr
    funext p
    obtain ⟨w, off'⟩ := p
    simp only [convertProg_guard env is off' (fun j hj => h j (by simp [hj]))]

open Gimli.Cfi Gimli.WCfi Gimli.ConvCfi Gimli.ConvFrame Gimli.Unwind Gimli.Spec.Unwind Gimli.Spec.WCfi in
/-- **`compose_cfi_rows`: C12Cfi's `convert_rows` without the identity assumption.** For *any*
expression converter (in particular the real one, `cfiFrameEnv`): if every expression operand of
the CIE and FDE programs is written back byte for byte (`CanonInstr`), the converted table assigns
to every address of the FDE's range the same rules as the input table. -/
theorem compose_cfi_rows (env : ConvFrame.Env) (p : Params)
    (hc : p.codeAlign = env.caf) (hd : p.dataAlign = env.daf)
    (ci fi : List Instr) (hcc : ∀ i ∈ ci, CanonInstr env i) (hcf : ∀ i ∈ fi, CanonInstr env i)
    (hlc : ∀ i ∈ ci, exprLen i < 2 ^ 64) (hlf : ∀ i ∈ fi, exprLen i < 2 ^ 64)
    (cw fw : List (Nat × WInstr)) (lastc lastf : Nat)
    (hcie : convertProg env 0 ci = .ok (cw, lastc)) (hfde : convertProg env 0 fi = .ok (fw, lastf))
    (initial len : Nat) (rowsIn : List TableRow)
    (hin : table p none none ci none fi none initial len = (rowsIn, .ok ())) :
    ∃ rowsOut, wTable p (cw.map (·.2)) fw initial len = (rowsOut, .ok ()) ∧
      ∀ pc, pc < fdeEnd p initial len → rulesAt rowsOut pc = rulesAt rowsIn pc := by
  rw [← convertProg_guard env ci 0 hcc] at hcie
  rw [← convertProg_guard env fi 0 hcf] at hfde
  exact convert_rows (guardEnv env) (guardEnv_identity env) p hc hd ci fi hlc hlf cw fw lastc lastf hcie hfde
    initial len rowsIn hin

open Gimli.Cfi Gimli.WCfi Gimli.ConvCfi Gimli.ConvFrame Gimli.Unwind Gimli.Spec.Unwind Gimli.Spec.WCfi in
/-- **`compose_convert_write_rows`: C12Cfi's convert → write → decode → unwind theorem for the real
expression converter** (any converter): no global `ExprIdentity`; instead every expression operand
that occurs in the table is canonical for the converter. Then C06's decoder reads the written CIE
and FDE instruction streams to the end and C06's call-frame semantics of the decoded output assigns
to every address of the FDE's range the same rules as the input table. -/
theorem compose_convert_write_rows (env : ConvFrame.Env) (p : Params)
    (hc : p.codeAlign = env.caf) (hd : p.dataAlign = env.daf)
    (ci fi : List Instr) (hcc : ∀ i ∈ ci, CanonInstr env i) (hcf : ∀ i ∈ fi, CanonInstr env i)
    (hlc : ∀ i ∈ ci, exprLen i < 2 ^ 64) (hlf : ∀ i ∈ fi, exprLen i < 2 ^ 64)
    (cw fw : List (Nat × WInstr)) (lastc lastf : Nat)
    (hcie : convertProg env 0 ci = .ok (cw, lastc)) (hfde : convertProg env 0 fi = .ok (fw, lastf))
    (initial len : Nat) (rowsIn : List TableRow)
    (hin : table p none none ci none fi none initial len = (rowsIn, .ok ()))
    (cc fc : DecodeCfg) (hcv : Instr.negateRaState ∈ ci → cc.vendor = .aarch64)
    (hfv : Instr.negateRaState ∈ fi → fc.vendor = .aarch64)
    (cb fb : Bytes) (n1 n2 ciePos fdePos : Nat)
    (hwc : instrsWrite p.dataAlign (cw.map (·.2)) = .ok cb)
    (hwf : fdeInstrsWrite fc.endian p.codeAlign p.dataAlign 0 fw = .ok fb) :
    (decodeAll cc ciePos (cb ++ List.replicate n1 0)).2 = .ok () ∧
    (decodeAll fc fdePos (fb ++ List.replicate n2 0)).2 = .ok () ∧
    ∃ rowsOut,
      table p none none (decodeAll cc ciePos (cb ++ List.replicate n1 0)).1 none
        (decodeAll fc fdePos (fb ++ List.replicate n2 0)).1 none initial len = (rowsOut, .ok ()) ∧
      ∀ pc, pc < fdeEnd p initial len → rulesAt rowsOut pc = rulesAt rowsIn pc := by
  rw [← convertProg_guard env ci 0 hcc] at hcie
  rw [← convertProg_guard env fi 0 hcf] at hfde
  exact convert_write_rows (guardEnv env) (guardEnv_identity env) p hc hd ci fi hlc hlf cw fw lastc lastf
    hcie hfde initial len rowsIn hin cc fc hcv hfv cb fb n1 n2 ciePos fdePos hwc hwf

/-! ## the list instance -/

/-- the expression conversion of C12Lists instantiated with `Expression::from` + the expression
writer: the converted expression is handed to C16's list writer as the bytes it is written as -/
def listsConvertExpr (env : ConvOp.Env) (e : Endian) (enc : Encoding) (offs : Nat → Option Nat) (d : Bytes) :
    ConvLists.CR WLists.WExpr :=
  match ConvOp.convert env e enc d with
  | .error c => .error (.expr c.name)
  | .ok ws =>
    match WOp.exprWrite e enc (some offs) true 0 ws with
    | .ok (out, _) => .ok [.raw out]
    | _ => .error (.expr "write")

/-- **`compose_lists_data`: what C12Lists calls "the re-encoded form" of a location description.**
With the real converter, `gdata` of an expression that converts and writes is the written
expression `out`, and `out` decodes (C07) without error into exactly the images of the converted
operations, which are position by position the conversion of the input's operations
(`convert_expr_decode`): same operations, references mapped, branches to the same operation. So
C12Lists' `convert_list_meaning` / `convert_write_read` read: same ranges, each with a location
description that means the same. -/
theorem compose_lists_data (env : ConvOp.Env) (henv : EnvRanges env) (e : Endian) (enc : Encoding)
    (offs : Nat → Option Nat) (hoffs : ∀ en o, offs en = some o → o < 2 ^ 64)
    (c : Lists.Cfg) (eo : WLists.EOff) (uoff : Nat) (d : Bytes) (ws : List WOp.Operation) (out : Bytes)
    (fx : List WOp.Fixup) (hconv : ConvOp.convert env e enc d = .ok ws)
    (hw : WOp.exprWrite e enc (some offs) true 0 ws = .ok (out, fx)) (hlen : out.length < 2 ^ 64) :
    ConvLists.gdata .loc (listsConvertExpr env e enc offs) (WLists.dataBytes .loc c eo uoff) d = out ∧
    ∃ ins offsOut,
      Op.iterAll e enc d.length (d.length + 1) d = (ins, none) ∧
      AllPairs (fun p w => convertOp env enc (inputOffsets ins d.length) p.2
        (subAt env e enc maxEntryValueDepth) p.1 = .ok w) ins ws ∧
      WOp.exprOffsets enc (some offs) ws 0 = .ok offsOut ∧
      Op.iterAll e enc out.length ws.length out =
        (WOp.expectedDecode e enc (some offs) true offsOut 0 0 ws, none) := by
  refine ⟨?_, convert_expr_decode env henv e enc d ws hconv offs true 0 out fx hw hoffs hlen ws.length (Nat.le_refl _)⟩
  simp [ConvLists.gdata, ConvLists.convData, listsConvertExpr, hconv, hw, WLists.dataBytes, WLists.exprBytes,
    WLists.writeOps, WLists.writeOp]

/-! ## non-vacuity -/

-- canonical: `lit5`, `fbreg 16`, `breg7 -8; deref`; not canonical: `const1u 5`, `constu` with a padded
-- ULEB128, `deref_size 8` on an 8-byte target, `regx 3`
example : Canonical idAddr .little ⟨8, .dwarf32, 4⟩ [0x35] := by rfl
example : Canonical idAddr .little ⟨8, .dwarf32, 4⟩ [0x91, 0x10] := by rfl
example : Canonical idAddr .little ⟨8, .dwarf32, 4⟩ [0x77, 0x78, 0x06] := by rfl
example : cfiConvertExpr idAddr .little ⟨8, .dwarf32, 4⟩ [0x08, 0x05] = .ok [0x35] := by rfl
example : cfiConvertExpr idAddr .little ⟨8, .dwarf32, 4⟩ [0x10, 0xa0, 0x00] = .ok [0x10, 0x20] := by rfl
example : cfiConvertExpr idAddr .little ⟨8, .dwarf32, 4⟩ [0x94, 0x08] = .ok [0x06] := by rfl
example : cfiConvertExpr idAddr .little ⟨8, .dwarf32, 4⟩ [0x90, 0x03] = .ok [0x53] := by rfl
-- a reference in a CFI expression is an error
example : cfiConvertExpr idAddr .little ⟨8, .dwarf32, 4⟩ [0xf7, 0x0e] = .fail (.other "InvalidUnitRef") := by rfl
example : CanonInstr (cfiFrameEnv 1 (-8) idAddr .little ⟨8, .dwarf32, 4⟩) (.defCfaExpression [0x77, 0x78, 0x06]) := by
  intro ex h; cases h; rfl

end Gimli.Props.C12
