import Gimli.Lemmas.WOp
/-!
# C15 — Written expressions decode to the same operations, branches and references

Property theorems only (helper lemmas: `Gimli/Lemmas/WOp*.lean`). They are about the writer Model
`Gimli/Model/WOp.lean` (`opSize`, `opWrite`, `exprSize`, `exprWrite`, the length-prefix writers),
the reader Model of C07 (`Gimli.Op.parse`) and C07's `Gimli.Eval.computePc`; the correspondence run
(`harness/src/prop/c15.rs` against `lean/Gimli/Drv/C15.lean`) ties the writer Model to
`src/write/op.rs` byte for byte.

Quantifiers: every operation / every list of operations (any length, any nesting of
`entry_value`), every encoding (address size, format, version — also ones DWARF does not have),
both byte orders, every offsets function (`none` = no offset yet), every output position.
-/
namespace Gimli.Props.C15
open Gimli Gimli.WOp
open Gimli.Op (Encoding)

/-! ## the predicted size is the emitted length -/

/-- **`Operation::size` = bytes emitted by `Operation::write`**, for every operation variant,
encoding, byte order, offsets function, `refs`, offsets vector and position: whenever the write
succeeds, the size computation succeeds as well and predicts exactly the emitted length.
(The choice between `lit`/`constu`, `reg`/`regx`, `breg`/`bregx`, `dup`/`over`/`pick`, the
DWARF 2 reference size of `implicit_pointer`, and a nested `entry_value` with its ULEB128 length are
all covered: the two `match`es of `op.rs` agree arm by arm.) -/
theorem op_size_eq_emit (e : Endian) (enc : Encoding) (uo : UnitOffs) (hasRefs : Bool)
    (op : Operation) (offsets : List Nat) (pos : Nat) (bs : Bytes) (fx : List Fixup)
    (h : opWrite e enc uo hasRefs offsets pos op = .ok (bs, fx)) :
    opSize enc uo op = .ok bs.length :=
  opWrite_length e enc uo hasRefs op offsets pos bs fx h

/-- the same for the loop over the operations of an expression, with any offsets vector -/
theorem ops_size_eq_emit (e : Endian) (enc : Encoding) (uo : UnitOffs) (hasRefs : Bool)
    (ops : List Operation) (offsets : List Nat) (pos : Nat) (bs : Bytes) (fx : List Fixup)
    (h : exprWriteOps e enc uo hasRefs offsets pos ops = .ok (bs, fx)) :
    exprSize enc uo ops = .ok bs.length :=
  exprWriteOps_length e enc uo hasRefs ops offsets pos bs fx h

/-- **`Expression::size` = bytes emitted by `Expression::write`.** -/
theorem expr_size_eq_emit (e : Endian) (enc : Encoding) (uo : UnitOffs) (hasRefs : Bool)
    (ops : List Operation) (pos : Nat) (bs : Bytes) (fx : List Fixup)
    (h : exprWrite e enc uo hasRefs pos ops = .ok (bs, fx)) :
    exprSize enc uo ops = .ok bs.length := by
  simp only [exprWrite, bind_eq_ok] at h
  obtain ⟨offs, _, hw⟩ := h
  exact exprWriteOps_length e enc uo hasRefs ops offs pos bs fx hw

/-! ## non-vacuity -/

example : exprWrite .little ⟨8, .dwarf32, 4⟩ (some fun _ => some 12) true 0
    [.unsignedConstant 31, .unsignedConstant 32, .constantType 0 [0xff], .skip 0, .pick 1,
     .entryValue [.register 32, .branch 0]] =
    .ok ([0x4f, 0x10, 0x20, 0xf4, 0x0c, 0x01, 0xff, 0x2f, 0xf6, 0xff, 0x14, 0xf3, 0x05, 0x90, 0x20, 0x28, 0xfb, 0xff], []) := by
  decide

end Gimli.Props.C15
