import Gimli.Lemmas.WOpExpr
import Gimli.Lemmas.WOpEval
import Gimli.Lemmas.WOpRunF
/-!
# C15 — Written expressions decode to the same operations, branches and references

Property theorems only (helper lemmas: `Gimli/Lemmas/WOp{,Decode,Expr}.lean`). They are about the
writer Model `Gimli/Model/WOp.lean` (`opSize`, `opWrite`, `exprSize`, `exprOffsets`, `exprWrite`,
the length-prefix writers, `applyFixups`), the reader Model of C07 (`Gimli.Op.parse`,
`Gimli.Op.iterAll` = `OperationIter`) and C07's evaluator (`Gimli.Eval.computePc`,
`Gimli.Eval.evaluateOneOperation`, `Gimli.Eval.run`) and, for `eval_same`, the as-built evaluator of
`Gimli/Spec/BuiltEval.lean`.  The correspondence run (`harness/src/prop/c15.rs` against
`lean/Gimli/Drv/C15.lean`) ties the writer Model to `src/write/op.rs` byte for byte; C07's run ties
the reader Model to `src/read/op.rs`.

Quantifiers: every operation / every list of operations (any length, any nesting of
`entry_value`), every encoding (address size, format, version — also ones DWARF does not have),
both byte orders, every offsets function (`none` = no offset yet), every output position, every
`refs` flag. Hypotheses are the Rust operand types (`OpWf`: `u64`, `i64`, `Register(u16)`, `u8`,
`u32`), "entry offsets and the emitted length fit `u64`", and nothing else. (A `piece` of 2^61 bytes
or more — whose size in bits the reader cannot represent — is a write error since the `fix:` for
finding C15-1: `piece_too_large_rejected`.)
-/
namespace Gimli.Props.C15
open Gimli Gimli.WOp
open Gimli.Op (Encoding)
open Gimli.Eval (Config Mach)

/-! ## 1. the predicted size is the emitted length -/

/-- **`Operation::size` = bytes emitted by `Operation::write`**, for every operation variant,
encoding, byte order, offsets function, `refs`, offsets vector and position: whenever the write
succeeds, the size computation succeeds as well and predicts exactly the emitted length.
(The choice between `lit`/`constu`, `reg`/`regx`, `breg`/`bregx`, `dup`/`over`/`pick`, the
DWARF 2 reference size of `implicit_pointer`, and a nested `entry_value` with its ULEB128 length are
all covered: the two `match`es of `op.rs` agree arm by arm.) -/
theorem op_size_eq_emit (e : Endian) (enc : Encoding) (uo : UnitOffs) (hasRefs : Bool)
    (op : Operation) (offsets : List Nat) (pos : Nat) (bs : Bytes) (fx : List Fixup)
    (h : opWrite e enc uo hasRefs offsets pos op = .ok (bs, fx)) :
    opSize enc uo op = .ok bs.length :=
  opWrite_length e enc uo hasRefs op offsets pos bs fx h

/-- the same for the loop over the operations of an expression, with any offsets vector -/
theorem ops_size_eq_emit (e : Endian) (enc : Encoding) (uo : UnitOffs) (hasRefs : Bool)
    (ops : List Operation) (offsets : List Nat) (pos : Nat) (bs : Bytes) (fx : List Fixup)
    (h : exprWriteOps e enc uo hasRefs offsets pos ops = .ok (bs, fx)) :
    exprSize enc uo ops = .ok bs.length :=
  exprWriteOps_length e enc uo hasRefs ops offsets pos bs fx h

/-- **`Expression::size` = bytes emitted by `Expression::write`.** -/
theorem expr_size_eq_emit (e : Endian) (enc : Encoding) (uo : UnitOffs) (hasRefs : Bool)
    (ops : List Operation) (pos : Nat) (bs : Bytes) (fx : List Fixup)
    (h : exprWrite e enc uo hasRefs pos ops = .ok (bs, fx)) :
    exprSize enc uo ops = .ok bs.length :=
  expr_size_eq_emit' e enc uo hasRefs ops pos bs fx h

/-- **The offsets vector is exact** (so the two `debug_assert_eq!(w.len(), offset)` of
`Expression::write` can never fire): split the expression anywhere; the operations before the split
emitted `b1`, and entry `|pre|` of the offsets vector is exactly where they ended. With `suf = []`
this is "the last entry is the end of the expression". -/
theorem expr_offsets_consistent (e : Endian) (enc : Encoding) (uo : UnitOffs) (hasRefs : Bool)
    (pre suf : List Operation) (pos : Nat) (bs : Bytes) (fx : List Fixup) (offs : List Nat)
    (ho : exprOffsets enc uo (pre ++ suf) pos = .ok offs)
    (hw : exprWriteOps e enc uo hasRefs offs pos (pre ++ suf) = .ok (bs, fx)) :
    ∃ b1 f1 b2 f2, exprWriteOps e enc uo hasRefs offs pos pre = .ok (b1, f1) ∧
      exprWriteOps e enc uo hasRefs offs (pos + b1.length) suf = .ok (b2, f2) ∧
      bs = b1 ++ b2 ∧ fx = f1 ++ f2 ∧ offs[pre.length]? = some (pos + b1.length) :=
  exprWrite_at_offsets e enc uo hasRefs pre suf pos bs fx offs ho hw

/-- **Length prefix of `DW_FORM_exprloc` / `DW_FORM_block`** (`AttributeValue::Exprloc`): the
ULEB128 written from `size()` decodes to exactly the number of expression bytes that follow. -/
theorem exprloc_prefix_eq_emit (e : Endian) (enc : Encoding) (uo : UnitOffs) (pos : Nat)
    (ops : List Operation) (bs : Bytes) (fx : List Fixup)
    (h : writeExprloc e enc uo pos ops = .ok (bs, fx)) (hL : bs.length < 2 ^ 64) :
    ∃ body, exprWrite e enc uo true (pos + (Leb.encodeU body.length).length) ops = .ok (body, fx) ∧
      bs = Leb.encodeU body.length ++ body ∧
      ∀ rest, Leb.unsigned (bs ++ rest) = .ok (body.length, body ++ rest) :=
  writeExprloc_prefix e enc uo pos ops bs fx h hL

/-- **Length prefix in location lists** (`loc.rs` `write_expression`): `u16` up to DWARF 4 (an
expression of 65536 bytes or more is `ValueTooLarge`, not truncated), ULEB128 in DWARF 5. -/
theorem loc_prefix_eq_emit (e : Endian) (enc : Encoding) (uo : UnitOffs) (pos : Nat)
    (ops : List Operation) (bs : Bytes) (fx : List Fixup)
    (h : writeLocExpr e enc uo pos ops = .ok (bs, fx)) (hL : bs.length < 2 ^ 64) :
    ∃ pre body, exprWrite e enc uo true (pos + pre.length) ops = .ok (body, fx) ∧ bs = pre ++ body ∧
      ∀ rest,
        (if enc.version ≤ 4 then Op.rdU e 2 (bs ++ rest) else Leb.unsigned (bs ++ rest)) =
          .ok (body.length, body ++ rest) :=
  writeLocExpr_prefix e enc uo pos ops bs fx h hL

/-- **Length prefix of the CFI expression instructions.** -/
theorem cfi_prefix_eq_emit (e : Endian) (enc : Encoding) (pos : Nat)
    (ops : List Operation) (bs : Bytes) (fx : List Fixup)
    (h : writeCfiExpr e enc pos ops = .ok (bs, fx)) (hL : bs.length < 2 ^ 64) :
    ∃ body, exprWrite e enc none false (pos + (Leb.encodeU body.length).length) ops = .ok (body, fx) ∧
      bs = Leb.encodeU body.length ++ body ∧
      ∀ rest, Leb.unsigned (bs ++ rest) = .ok (body.length, body ++ rest) :=
  writeCfiExpr_prefix e enc pos ops bs fx h hL

/-! ## 2. decoding the emitted bytes gives the operation as built -/

/-- **One operation.** Whatever follows (`rest`), the C07 reader Model applied to the emitted bytes
returns the reader-side image of the operation (`opImage`: `lit`/`constu` → `UnsignedConstant`,
`reg`/`regx` → `Register`, `breg`/`bregx` → `RegisterOffset`, `dup`/`over`/`pick` → `Pick`,
`DW_OP_*` and `DW_OP_GNU_*` forms alike, typed operations with the *unit offset of the intended
entry*, branches with the displacement `offsets[target] - (pos + 3)`, `entry_value` with the bytes
its sub-expression emitted, section references with the still-zero field) and consumes exactly the
emitted bytes. -/
theorem op_decode_emit (e : Endian) (enc : Encoding) (uo : UnitOffs) (hasRefs : Bool)
    (op : Operation) (offsets : List Nat) (pos : Nat) (bs : Bytes) (fx : List Fixup) (rest : Bytes)
    (hoffs : ∀ offs, uo = some offs → ∀ en o, offs en = some o → o < 2 ^ 64)
    (hlen : bs.length < 2 ^ 64)
    (hw : opWrite e enc uo hasRefs offsets pos op = .ok (bs, fx)) (hwf : OpWf op) :
    ∃ img, opImage e enc uo hasRefs offsets pos op = some img ∧
      Op.parse e enc (bs ++ rest) = .ok (img, rest) :=
  opWrite_decode e enc uo hasRefs op offsets pos bs fx rest hoffs hlen hw hwf

/-- **A piece whose size in bits does not fit `u64` is refused** (`ValueTooLarge`, nothing is
written) instead of being emitted as bytecode the reader rejects with `InvalidPiece` — the `fix:`
for finding C15-1. Together with `op_decode_emit` (which no longer needs a bound on pieces): every
`op_piece` either decodes to the piece as built or is a write error. -/
theorem piece_too_large_rejected (e : Endian) (enc : Encoding) (uo : UnitOffs) (hasRefs : Bool)
    (offsets : List Nat) (pos n : Nat) (hn : 2 ^ 61 ≤ n) :
    opWrite e enc uo hasRefs offsets pos (.piece n) = .err .wValueTooLarge := by
  have hq : ((2:Nat) ^ 64 - 1) / 8 = 2 ^ 61 - 1 := by decide
  simp only [opWrite, hq]
  rw [if_pos (by omega)]

/-- and every smaller piece is written (3 to 10 bytes) -/
theorem piece_written (e : Endian) (enc : Encoding) (uo : UnitOffs) (hasRefs : Bool)
    (offsets : List Nat) (pos n : Nat) (hn : n < 2 ^ 61) :
    opWrite e enc uo hasRefs offsets pos (.piece n) = .ok (0x93 :: Leb.encodeU n, []) := by
  have hq : ((2:Nat) ^ 64 - 1) / 8 = 2 ^ 61 - 1 := by decide
  simp only [opWrite, hq]
  rw [if_neg (by omega)]

/-- **A whole expression.** `OperationIter` (`Op.iterAll`) over the bytes `Expression::write`
emitted yields, in order, exactly the images of the operations as built — as many as were built, no
error, nothing left over — and the i-th one ends at the writer's predicted offset of operation
i+1 (so decoded operation boundaries = entries of the offsets vector). Sub-expressions of
`entry_value` are covered by applying the theorem to the body (it holds at every position). -/
theorem expr_decode_emit (e : Endian) (enc : Encoding) (uo : UnitOffs) (hasRefs : Bool)
    (ops : List Operation) (pos : Nat) (bs : Bytes) (fx : List Fixup) (fuel : Nat)
    (hoffs : ∀ f, uo = some f → ∀ en o, f en = some o → o < 2 ^ 64)
    (hlen : bs.length < 2 ^ 64) (hfuel : ops.length ≤ fuel)
    (hw : exprWrite e enc uo hasRefs pos ops = .ok (bs, fx)) (hwf : ∀ op ∈ ops, OpWf op) :
    ∃ offs, exprOffsets enc uo ops pos = .ok offs ∧
      Op.iterAll e enc bs.length fuel bs = (expectedDecode e enc uo hasRefs offs pos 0 ops, none) := by
  simp only [exprWrite, bind_eq_ok] at hw
  obtain ⟨offs, ho, hw⟩ := hw
  refine ⟨offs, ho, ?_⟩
  have := iterAll_emit e enc uo hasRefs offs hoffs ops pos bs fx bs.length fuel hw hwf (Nat.le_refl _) hlen hfuel
  simpa using this

/-! ## 3. branches -/

/-- **Every `skip`/`bra` lands on the intended operation.** Let an expression `pre ++ op :: suf`
with `op` a branch to operation index `t` be written successfully. Then `t` is within `[0, len]`;
at the offset where `pre` ends the reader decodes the branch with some displacement `d`; and the
evaluator's `compute_pc`, applied to the reader position after the branch, the whole bytecode and
`d`, yields exactly the bytes that operation `t` and its successors emitted (`btail`; empty when
`t = len`: a branch to the end) — forward or backward alike. -/
theorem branch_lands (e : Endian) (enc : Encoding) (uo : UnitOffs) (hasRefs : Bool)
    (pre suf : List Operation) (op : Operation) (t : Nat) (hb : isBranchTo op t)
    (pos : Nat) (bs : Bytes) (fx : List Fixup) (hL : bs.length < 2 ^ 64)
    (hw : exprWrite e enc uo hasRefs pos (pre ++ op :: suf) = .ok (bs, fx)) :
    t ≤ (pre ++ op :: suf).length ∧
    ∃ (offs : List Nat) (b1 : Bytes) (f1 : List Fixup) (d : Int) (after : Bytes) (bt : Bytes)
      (ft : List Fixup) (btail : Bytes) (ftail : List Fixup),
      exprOffsets enc uo (pre ++ op :: suf) pos = .ok offs ∧
      exprWriteOps e enc uo hasRefs offs pos pre = .ok (b1, f1) ∧
      Op.parse e enc (bs.drop b1.length) = .ok (branchImage op d, after) ∧
      exprWriteOps e enc uo hasRefs offs pos ((pre ++ op :: suf).take t) = .ok (bt, ft) ∧
      exprWriteOps e enc uo hasRefs offs (pos + bt.length) ((pre ++ op :: suf).drop t) = .ok (btail, ftail) ∧
      bs = bt ++ btail ∧
      Eval.computePc after bs d = .ok btail :=
  branch_lands_aux e enc uo hasRefs pre suf op t hb pos bs fx hL hw

/-- **… else the write fails with `ValueTooLarge`**: a displacement outside `i16` is never
truncated. (`tt` is the offsets-vector entry of the target, `pos` where the branch starts.) -/
theorem branch_too_far_rejected (e : Endian) (enc : Encoding) (uo : UnitOffs) (hasRefs : Bool)
    (op : Operation) (t : Nat) (hb : isBranchTo op t) (offs : List Nat) (pos tt : Nat)
    (hg : offs[t]? = some tt)
    (hfar : (tt : Int) - ((pos : Int) + 3) < -(2:Int)^15 ∨ (2:Int)^15 ≤ (tt : Int) - ((pos : Int) + 3)) :
    opWrite e enc uo hasRefs offs pos op = .err .wValueTooLarge :=
  branch_too_far e enc uo hasRefs op t hb offs pos tt hg hfar

/-- and the displacement that *is* written always fits -/
theorem branch_displacement_fits (e : Endian) (enc : Encoding) (uo : UnitOffs) (hasRefs : Bool)
    (op : Operation) (t : Nat) (hb : isBranchTo op t) (offs : List Nat) (pos : Nat)
    (bs : Bytes) (fx : List Fixup) (rest : Bytes)
    (hw : opWrite e enc uo hasRefs offs pos op = .ok (bs, fx)) :
    ∃ tt, offs[t]? = some tt ∧ bs.length = 3 ∧
      Op.parse e enc (bs ++ rest) = .ok (branchImage op ((tt : Int) - ((pos : Int) + 3)), rest) ∧
      -(2 : Int) ^ 15 ≤ (tt : Int) - ((pos : Int) + 3) ∧ (tt : Int) - ((pos : Int) + 3) < 2 ^ 15 :=
  opWrite_branch e enc uo hasRefs op t hb offs pos bs fx rest hw

/-! ## 4. references to entries without a known offset -/

/-- **A reference to an entry whose offset is not known is an error, never a wrong offset**
(typed operations, `call4`, `GNU_parameter_ref`): `UnsupportedExpressionForwardReference` … -/
theorem forward_ref_rejected (e : Endian) (enc : Encoding) (hasRefs : Bool)
    (op : Operation) (en : Nat) (hd : directRef op = some en)
    (offs : Nat → Option Nat) (hn : offs en = none) (offsets : List Nat) (pos : Nat) :
    opWrite e enc (some offs) hasRefs offsets pos op = .err .wUnsupportedExpressionForwardReference :=
  directRef_unknown e enc hasRefs op en hd offs hn offsets pos

/-- … and without unit offsets at all (CFI) `UnsupportedCfiExpressionReference`. -/
theorem cfi_ref_rejected (e : Endian) (enc : Encoding) (hasRefs : Bool)
    (op : Operation) (en : Nat) (hd : directRef op = some en) (offsets : List Nat) (pos : Nat) :
    opWrite e enc none hasRefs offsets pos op = .err .wUnsupportedCfiExpressionReference :=
  directRef_cfi e enc hasRefs op en hd offsets pos

/-- At any nesting depth: an expression that was written had an offset for every unit entry it
refers to (and by `op_decode_emit` the offset written is that entry's). -/
theorem written_refs_known (e : Endian) (enc : Encoding) (hasRefs : Bool) (offs : Nat → Option Nat)
    (ops : List Operation) (pos : Nat) (bs : Bytes) (fx : List Fixup)
    (hw : exprWrite e enc (some offs) hasRefs pos ops = .ok (bs, fx)) :
    refsKnownAll offs ops = true := by
  simp only [exprWrite, bind_eq_ok] at hw
  obtain ⟨o, _, hw⟩ := hw
  exact exprWriteOps_refsKnown e enc hasRefs offs ops o pos bs fx hw

/-- **Section references (`call_ref`, `GNU_variable_value`, `implicit_pointer`) resolve to the
intended entry.** Such an operation records exactly one fix-up, located at its reference field and
naming the intended `(unit, entry)`; if that entry has no `.debug_info` offset the fix-up pass fails
with `InvalidReference` (never a wrong offset); otherwise, after `write_debug_info_fixups` has
patched the field, the reader decodes the operation with that entry's offset `o` as its reference
(`image … o op`), consuming exactly the emitted bytes. -/
theorem section_ref_resolves (e : Endian) (enc : Encoding) (uo : UnitOffs) (hasRefs : Bool)
    (op : Operation) (r : DRef) (size : Nat) (hs : sectionRef enc op = some (r, size))
    (offsets : List Nat) (pos : Nat) (bs : Bytes) (fx : List Fixup) (rest : Bytes)
    (hw : opWrite e enc uo hasRefs offsets pos op = .ok (bs, fx)) (hwf : OpWf op)
    (info : Nat → Nat → Option Nat) :
    ∃ u en, r = .entry u en ∧ fx = [⟨pos + 1, size, u, en⟩] ∧
      (info u en = none → applyFixups e info pos bs fx = .err .wInvalidReference) ∧
      ∀ o, info u en = some o → o < 2 ^ 64 → ∀ bs', applyFixups e info pos bs fx = .ok bs' →
        Op.parse e enc (bs' ++ rest) = .ok ((image enc (fun _ => none) 0 [] o op).getD .nop, rest) :=
  sectionRef_fixed e enc uo hasRefs op r size hs offsets pos bs fx rest hw hwf info

/-! ## 5. evaluation -/

/-- **One evaluation step on the emitted bytes = executing the operation as built.** Let
`pre ++ op :: suf` be written successfully to `bs`, and let the evaluator (C07's Model, any
configuration with the same byte order and encoding) stand at the start of `op` in `bs`. Then

* `evaluate_one_operation` = `execute` of the reader-side image of `op` as built, with the reader
  moved past exactly the bytes `op` emitted — whichever shorter encoding the writer chose;
* and if that step returns, the bytecode is unchanged and the reader stands again at the start of
  an operation as built, or at the end: the next one, or — for a taken `skip`/`bra` — operation `t`.

This is the step lemma behind `eval_same` below. -/
theorem eval_step_same (e : Endian) (enc : Encoding) (uo : UnitOffs) (hasRefs : Bool)
    (c : Config) (hce : c.endian = e) (hcenc : c.encoding = enc)
    (pre suf : List Operation) (op : Operation) (pos : Nat) (bs : Bytes) (fx : List Fixup)
    (hoffs : ∀ f, uo = some f → ∀ en o, f en = some o → o < 2 ^ 64)
    (hL : bs.length < 2 ^ 64) (hwf : OpWf op)
    (hw : exprWrite e enc uo hasRefs pos (pre ++ op :: suf) = .ok (bs, fx)) :
    ∃ (offs : List Nat) (b1 : Bytes) (f1 : List Fixup) (bo : Bytes) (fo : List Fixup) (img : Op.Operation),
      exprOffsets enc uo (pre ++ op :: suf) pos = .ok offs ∧
      exprWriteOps e enc uo hasRefs offs pos pre = .ok (b1, f1) ∧
      opWrite e enc uo hasRefs offs (pos + b1.length) op = .ok (bo, fo) ∧
      opImage e enc uo hasRefs offs (pos + b1.length) op = some img ∧
      ∀ m : Mach, m.bytecode = bs → m.pc = bs.drop b1.length →
        Eval.evaluateOneOperation c m = Eval.execute c img { m with pc := bs.drop (b1.length + bo.length) } ∧
        ∀ r m', Eval.evaluateOneOperation c m = .ok (r, m') →
          m'.bytecode = bs ∧
          ∃ j bj fj, j ≤ (pre ++ op :: suf).length ∧
            exprWriteOps e enc uo hasRefs offs pos ((pre ++ op :: suf).take j) = .ok (bj, fj) ∧
            m'.pc = bs.drop bj.length :=
  eval_step_aux e enc uo hasRefs c hce hcenc pre suf op pos bs fx hoffs hL hwf hw

/-- **Evaluating the emitted bytes gives the same result as evaluating the operations as built**
(`eval_same`). The *as-built evaluator* (`Spec/BuiltEval.lean`) is the evaluator's control loop
with the byte decoder replaced by a look-up in the listing of the expression as built
(`expectedDecode`: start offset ↦ reader-side image of the built operation, end offset; branch
images carry the distance to the *intended* operation): inside the written expression it never
looks at the emitted bytes, so the writer's choice of encodings cannot influence it.

For every successfully written expression, every evaluator state that is about to start on it
(any configuration with the writer's byte order and encoding: storage capacities, arithmetic mode,
iteration limit, object address, initial value), every fuel and every script of answers to the
evaluator's requests (`resume_with_*`, including `at_location` answers that make it run other
bytecode and return), the whole run of C07's evaluator on the emitted bytes — every request with
its operands, in order, and the final pieces / value / error — is identical to the run of the
as-built evaluator. -/
theorem eval_same (e : Endian) (enc : Encoding) (uo : UnitOffs) (hasRefs : Bool)
    (ops : List Operation) (pos : Nat) (bs : Bytes) (fx : List Fixup)
    (hoffs : ∀ f, uo = some f → ∀ en o, f en = some o → o < 2 ^ 64)
    (hL : bs.length < 2 ^ 64) (hwf : ∀ op ∈ ops, OpWf op)
    (hw : exprWrite e enc uo hasRefs pos ops = .ok (bs, fx))
    (s : Eval.Eval) (hce : s.cfg.endian = e) (hcenc : s.cfg.encoding = enc)
    (hpc : s.m.pc = bs) (hes : s.m.exprStack = [])
    (fuel : Nat) (toks : List Eval.Tok) :
    ∃ offs, exprOffsets enc uo ops pos = .ok offs ∧
      Eval.run fuel toks s =
        BuiltEval.runD (BuiltEval.builtDec bs (expectedDecode e enc uo hasRefs offs pos 0 ops)) fuel toks s := by
  simp only [exprWrite, bind_eq_ok] at hw
  obtain ⟨offs, ho, hw⟩ := hw
  refine ⟨offs, ho, ?_⟩
  have hW : Written e enc uo hasRefs ops pos bs fx offs := ⟨ho, hw, hwf, hoffs, hL⟩
  have hg : Good e enc uo hasRefs ops pos bs offs s := by
    refine ⟨hce, hcenc, ?_, ?_⟩
    · intro _
      show AtOp e enc uo hasRefs ops pos bs offs s.m.pc
      rw [hpc]; exact atOp_start
    · rw [hes]; intro f hf; cases hf
  rw [← runD_parse]
  exact (run_agree hW fuel toks s hg).symm

/-- every operation other than `skip`/`bra` leaves the evaluator's reader position, bytecode and
expression stack untouched (used above; stated for C07's `execute` over all reader operations) -/
theorem execute_keeps_pc (c : Config) (op : Op.Operation) (m : Mach)
    (hs : ∀ t, op ≠ .skip t) (hb : ∀ t, op ≠ .bra t) (r : Eval.OpResult) (m' : Mach)
    (h : Eval.execute c op m = .ok (r, m')) :
    m'.pc = m.pc ∧ m'.bytecode = m.bytecode ∧ m'.exprStack = m.exprStack :=
  (execute_keeps c op m hs hb).out r m' h

/-! ## non-vacuity -/

example : exprWrite .little ⟨8, .dwarf32, 4⟩ (some fun _ => some 12) true 0
    [.unsignedConstant 31, .unsignedConstant 32, .constantType 0 [0xff], .skip 0, .pick 1,
     .entryValue [.register 32, .branch 0]] =
    .ok ([0x4f, 0x10, 0x20, 0xf4, 0x0c, 0x01, 0xff, 0x2f, 0xf6, 0xff, 0x14, 0xf3, 0x05, 0x90, 0x20, 0x28, 0xfb, 0xff], []) := by
  decide

example : OpWf (.registerOffset 65535 (-9223372036854775808)) ∧ OpWf (.piece 18446744073709551615) ∧
    OpWf (.simple 0x22) ∧ ¬ OpWf (.simple 0x03) := by decide

-- the piece boundary: 2^61 - 1 bytes are written, 2^61 bytes are refused
example : opWrite .little ⟨8, .dwarf32, 4⟩ none false [] 0 (.piece 2305843009213693951) =
    .ok ([0x93, 0xff, 0xff, 0xff, 0xff, 0xff, 0xff, 0xff, 0xff, 0x1f], []) := by decide
example : opWrite .little ⟨8, .dwarf32, 4⟩ none false [] 0 (.piece 2305843009213693952) =
    .err .wValueTooLarge := by decide

example : isBranchTo (.branch 7) 7 ∧ directRef (.derefType false 4 3) = some 3 ∧
    sectionRef ⟨4, .dwarf64, 2⟩ (.implicitPointer (.entry 1 0) (-1)) = some (.entry 1 0, 4) := by
  exact ⟨Or.inr rfl, rfl, rfl⟩

-- the listing of `lit3; skip → operation 0`: at offset 1 the as-built decoder finds the branch as built
example : BuiltEval.listingLookup
    (expectedDecode .little ⟨8, .dwarf32, 4⟩ none false [0, 1, 4] 0 0 [.unsignedConstant 3, .skip 0]) 0 1 =
    some (.skip (-4), 4) := by decide

-- a backward branch over 32765 bytes fits (-32768), over 32766 bytes does not
example : opWrite .little ⟨8, .dwarf32, 5⟩ none false [0, 32765, 32768] 32765 (.skip 0) =
    .ok ([0x2f, 0x00, 0x80], []) := by decide
example : opWrite .little ⟨8, .dwarf32, 5⟩ none false [0, 32766, 32769] 32766 (.skip 0) =
    .err .wValueTooLarge := by decide

end Gimli.Props.C15
