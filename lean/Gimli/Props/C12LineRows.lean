import Gimli.Lemmas.ConvLineSim
/-!
# C12, line-program component — the rows theorem

`line_rows_preserved`: reading (C04's reader Model) the program that the conversion Model
(`Model/ConvLineRows.lean`) makes the writer Model (C13) emit returns exactly the source's rows.
Built on the simulation lemmas of `Lemmas/ConvLineSim.lean` (`execute_shift`: the reader's step and
the converter's step are the same step up to the `set_address` offset; `execute_frozen`: inside a
tombstone neither moves the address; `readRowLoop_sim`: one `read_row` against the reader's next
reported row, skipped rows included; `convLoop_sim`: the whole loop with the writer and the reader
of its output) and on C13's `generate_row_correct`, `set_address_correct`,
`end_sequence_correct`. The other theorems of the component are in `Props/C12Line.lean`.
-/
namespace Gimli.Props.C12
open Gimli Gimli.Line Gimli.WLine Gimli.ConvLineRows Gimli.Props.C13


/-- **Rows are preserved.** For every source header the reader accepts (`Params.Valid`, C04's
`header_valid`) without VLIW (`maximum_operations_per_instruction = 1`), every string section
content, both build modes, and every instruction list that is `Tame` from the initial registers —
the reader runs it without an error and the line numbers of the rows it reports stay below 2^63
(finding C13-3) — : **if the conversion succeeds** (`ConvertLineProgram::new` and the whole
`convert` loop: it may fail with `InvalidFileIndex`, `InvalidDirectoryIndex`, `InvalidLineBase`,
`UnsupportedLineInstruction`, `MissingLineEndSequence`, …), then the program it builds keeps the
source header's parameters, is not left inside a sequence, and **reading its instructions (C04's
reader, from the initial registers, under the header the writer emits) returns exactly the rows
that `LineRows::next_row` reports for the source (`vis`: C04's `run` on the decoded instructions),
in order**: the same address, op_index, line, column, is_stmt, basic_block, prologue_end,
epilogue_begin, isa and discriminator, the file register mapped through the index mapping `files`
(`line_files_preserved` says what the mapped entry is), and each `end_sequence` row at the same
address; and the written program has no skipped row of its own. Whatever opcodes the source used —
special opcodes, `const_add_pc`, `fixed_advance_pc`, `advance_pc`, `DW_LNE_define_file`, unknown
opcodes, several sequences — and **whatever `DW_LNE_set_address` values**: at the start or in the
middle of a sequence, several in a row, directly before the end, accepted, lower than the current
address or a tombstone value (−1/−2 of the address size). Rows the reader skips (C04's `skipRow`:
inside a tombstone, except the end of a sequence that has already reported rows) are not brought
back, rows it reports are not lost, a sequence whose tail is tombstoned is ended where the reader
ends it, a wholly tombstoned sequence leaves nothing. All the conditions the writer needs (aligned
offsets, monotone operation pointer, addresses inside the address size, operation advances that
fit, `set_address` not below the previous row) are *derived* here from the reader's behaviour and
the conversion's success; none is assumed. This lifts `line_addresses_preserved` (addresses only,
abstract instructions) to all registers and the real instruction set.

Not covered by this theorem: VLIW programs (`line_rows_preserved_partial` and the differential
oracle of `c12-line`; findings C12-L4, C12-L5, C13-4 live there). -/
theorem line_rows_preserved (m : Mode) (en : Endian) (format : Format) (strs : Strs) (hd : Header)
    (tabs : Tabs) (is : List Instr) (st : CSt)
    (hvalid : hd.p.Valid) (hmax : hd.p.maxOps = 1) (htame : Tame hd.p (Row.new hd.p) false is)
    (hconv : convertProgram m strs hd tabs is none = .ok st) :
    st.prog.enc = encOf hd.p ∧ st.prog.inSequence = false ∧
    ∀ bout : Bool,
      (traceInstrs (readerParams en format hd.p.addrSize (encOf hd.p))
          (Row.new (readerParams en format hd.p.addrSize (encOf hd.p))) bout
          (st.prog.instrs.map (WInstr.toInstr hd.p.version))).map obsOut =
        (vis hd.p (Row.new hd.p) false is).map
          (obsIn (fun i => fileRaw hd.p.version (st.files.getD i 0))) := by
  unfold convertProgram at hconv
  cases h0 : convNew m strs hd tabs with
  | err e => rw [h0] at hconv; simp at hconv
  | panic w => rw [h0] at hconv; simp at hconv
  | ok st0 =>
    rw [h0] at hconv
    simp only [CRes.bind_ok] at hconv
    cases h1 : convLoop m strs hd.p (is.length + 1) st0 is with
    | err e => rw [h1] at hconv; simp at hconv
    | panic w => rw [h1] at hconv; simp at hconv
    | ok stf =>
      rw [h1] at hconv
      simp only [CRes.bind_ok] at hconv
      by_cases hin : stf.prog.inSequence = true
      · rw [if_pos hin] at hconv; cases hconv
      · rw [if_neg hin] at hconv
        simp only [CRes.pure_eq, CRes.ok.injEq] at hconv
        subst hconv
        obtain ⟨hlb, q1, q2, q3, q4, q5, q6, q7, q8⟩ := convNew_spec m strs hd tabs st0 h0
        obtain ⟨v2, v5, hasz, hmin1, _, hmax1, _, hlb1, _, _, hlr2, _⟩ := hvalid
        have henc : EncOk st0.prog.enc := by
          rw [q5]; exact ⟨hlb1, by show hd.p.lineBase ≤ 0; omega, by show 0 < hd.p.lineBase + ((hd.p.lineRange : Nat) : Int); omega, hlr2, hmin1, hmax1⟩
        have hrel : RowRel hd.p st0 (Row.new hd.p) := by
          refine ⟨by rw [q6]; rfl, ?_, by rw [q6]; rfl, by simp [Row.new]⟩
          rw [q6, q7]; simp [shift, Row.new]
        obtain ⟨new, more, g1, g2, g3, g4⟩ := convLoop_sim m en format hd.p.addrSize strs hd.p hmax hasz
          (is.length + 1) is st0 stf (Row.new hd.p) 0
          (Row.new (readerParams en format hd.p.addrSize st0.prog.enc)) (by omega) h1
          (by rw [q5]; exact ⟨rfl, rfl, rfl, rfl⟩) henc (by rw [q5]; exact v5) (Or.inr hrel)
          (by rw [reset_new, q8]; exact htame)
          (by
            refine ⟨by rw [q2, q5]; exact (rowOf_initial en format hd.p.addrSize (encOf hd.p) v5).symm,
              by rw [q2]; rfl, by rw [q2]; rfl, by rw [q3]; rfl, ?_, ?_, ?_, by simp [Row.new, q7],
              fun _ => ⟨rfl, by rw [q2]; rfl⟩⟩
            · rw [q2]; show (1 : Nat) < 2 ^ 63; decide
            · rw [q2]; show 0 % _ = 0; exact Nat.zero_mod _
            · rw [q2]; show 0 + 0 ≤ _; exact Nat.zero_le _)
        refine ⟨by rw [g3, q5], by simpa using hin, fun bout => ?_⟩
        have := g4 bout
        rw [reset_new, q5, q8] at this
        rw [g1, q1, List.nil_append]
        exact this

/-! ## non-vacuity -/

instance decTame (h : Params) : (R : Row) → (b : Bool) → (is : List Instr) → Decidable (Tame h R b is)
  | _, _, [] => isTrue trivial
  | R, b, ins :: is => by
    rw [Tame]
    cases hx : execute h R ins with
    | mk R' x =>
      cases x with
      | err e => exact isFalse (fun hf => hf)
      | noEmit => exact decTame h R' b is
      | emit =>
        have d1 := decTame h (reset h R') b is
        have d2 := decTame h (reset h R') (!R'.endSequence) is
        exact inferInstanceAs (Decidable (if skipRow R' b then Tame h (reset h R') b is
          else R'.line < 2 ^ 63 ∧ Tame h (reset h R') (!R'.endSequence) is))

/-- version 4, min_inst_len 2, no VLIW, two files -/
def lineHdRows : Header :=
  { p := { linePar4 with minInstLen := 2, maxOps := 1 }, unitLength := 0, headerLength := 0,
    dirFormat := [], dirs := [.string [0x69]], fileFormat := [],
    files := [lineFe [0x61] 1 7, lineFe [0x62] 0 0], program := [],
    compDir := some [0x2f], compFile := some (lineFe [0x6d] 0 0) }

/-- two sequences, special opcodes, `const_add_pc`, `fixed_advance_pc`, a `set_address` in the
middle of a sequence, a `DW_LNE_define_file`, an unknown extended opcode -/
def lineProgRows : List Instr :=
  [.setAddress 0x1000, .copy, .special 0x4b, .advancePc 3, .setFile 2, .fixedAddPc 4, .copy, .constAddPc,
   .setAddress 0x2000, .setDiscriminator 5, .special 20, .advancePc 4, .endSequence,
   .defineFile (lineFe [0x63] 1 0), .unknownExtended 0x80 [1], .setAddress 0x800, .setFile 3, .advanceLine 9,
   .copy, .endSequence]

example : lineHdRows.p.Valid ∧ lineHdRows.p.maxOps = 1 := by decide
example : Tame lineHdRows.p (Row.new lineHdRows.p) false lineProgRows := by decide
example : lineMap (convertProgram .debug lineNoStrs lineHdRows lineNoTabs lineProgRows none) =
    some [0, 0, 1, 2] := by decide

/-- tombstones: a refused (lower) `set_address` in the middle of a sequence and the rows after it,
an accepted one after it, a tail tombstoned by −1 before the end of a sequence that has reported
rows (its end row is still reported, at the frozen address), a wholly tombstoned sequence (−2:
nothing reported), then an ordinary sequence at a lower address -/
def lineProgTomb : List Instr :=
  [.setAddress 0x1000, .copy, .advancePc 2, .setAddress 0x10, .special 0x4b, .copy,
   .setAddress 0x2000, .special 20, .advancePc 1, .setAddress (2 ^ 64 - 1), .advancePc 3, .copy, .endSequence,
   .setAddress (2 ^ 64 - 2), .copy, .advancePc 1, .copy, .endSequence,
   .setAddress 0x800, .setFile 2, .copy, .advancePc 5, .endSequence]

/-- (address, line, end_sequence) of the reported rows; the number of skipped ones -/
def lineVisSummary (h : Params) (is : List Instr) : List (Nat × Nat × Bool) × Nat :=
  ((vis h (Row.new h) false is).filterMap (fun e => match e with
      | .row r => some (r.address, r.line, r.endSequence)
      | _ => none),
   ((traceInstrs h (Row.new h) false is).filter (fun e => !e.visible)).length)

example : Tame lineHdRows.p (Row.new lineHdRows.p) false lineProgTomb := by decide
example : lineVisSummary lineHdRows.p lineProgTomb =
    ([(0x1000, 1, false), (0x2000, 4, false), (0x2002, 4, true), (0x800, 1, false), (0x80a, 1, true)], 6) := by
  decide
example : lineInstrs (convertProgram .debug lineNoStrs lineHdRows lineNoTabs lineProgTomb none) =
    some [.setAddress (some 0x1000), .copy, .setAddress (some 0x2000), .special 21, .advancePc 1, .endSequence,
          .setAddress (some 0x800), .setFile 1, .copy, .advancePc 5, .endSequence] := by decide

end Gimli.Props.C12
