import Gimli.Lemmas.Unwind
import Gimli.Lemmas.Cfi
import Gimli.Lemmas.CfiDecode
/-!
# C06 — Unwind table rows equal DWARF call-frame semantics

Property theorems only (helper lemmas live in `Gimli/Lemmas/{Rules,Unwind,Cfi}.lean`).

* **Model** (`Gimli/Model/{Cfi,Unwind}.lean`, tied to `src/read/cfi.rs` + `src/read/util.rs` by the
  correspondence run): `CallFrameInstruction::parse`, `UnwindTable::{new,next_row,evaluate}`,
  `UnwindContext::{initialize,reset,save_initial_rules,get_initial_rule,push_row,pop_row}`,
  `RegisterRuleMap::{get,set,clear,eq}` over `ArrayVec` with capacities `R` rows / `N` rules.
* **Spec** (`Gimli/Spec/Unwind.lean`): DWARF §6.4 with register columns as a function
  `Reg → Option Rule`, an unbounded implicit stack and "initial rules = the columns after the CIE".

Quantifiers: **every** instruction (all 23 `CallFrameInstruction` variants — no reduced alphabet),
every instruction list in the CIE and in the FDE, every operand value, every alignment factor,
every capacity pair (including unbounded), every initial address / length; address sizes 1..8;
row capacity at least 1 (a zero-capacity stack panics in `UnwindContext::new_in`, API misuse).
`tailOf bad` is how instruction *decoding* ended after the listed instructions: `none` = the
stream ended cleanly, `some e` = the next instruction is undecodable with error `e`.

**Reused contexts.** `Unwind.unwind` starts from `UnwindContext::new_in()`.  That the same rows and
outcome are produced on a context used before for anything else (rows, initial rule, flag and
stale storage left by successful or failed evaluations) is C20's
`Gimli.Props.C20.unwind_reused_eq_fresh` / `unwind_history_reused_eq_fresh`
(`lean/Gimli/Props/C20.lean`), proved for exactly this Model (`initializeCtx` begins with `reset`);
so every theorem below holds for reused contexts too.  The correspondence run checks the same on
the implementation: every case is evaluated on a fresh context and again on a context dirtied by
one or two programs from a pool (direct-oracle class `reused-context-differs`).
-/
namespace Gimli.Props.C06
open Gimli Gimli.Cfi Gimli.Unwind Gimli.Spec.Unwind

/-! ## 1. the unwind machine refines the call-frame semantics -/

/-- **Main theorem.** For every CIE program, FDE program, alignment factors, address size 1..8 and
capacities `(R ≥ 1, N)`: the rows returned by `UnwindTable::next_row` are, one by one, the rows of
the DWARF semantics — same start, same end, same CFA rule, same `args_size`, and register rules
equal **extensionally** (`∀ r, Rules.get row.rules r = specRow.rules.regs r`, with no duplicate
entries in the vector) — and the run ends the same way: both complete, or both stop with the same
error after the same rows.  The Spec side is `Spec.table`, i.e. the pure semantics `Spec.step`
plus the two capacity checks of `Spec.stepB` that are *defined on the Spec state* (theorems
`stackFull_iff`, `tooManyRules_iff`, `invalid_iff` below say exactly when each error arises).
In particular the Model never returns a row that differs from the semantics. -/
theorem unwind_refines (g : Cfg) (hsz : 1 ≤ g.addressSize ∧ g.addressSize ≤ 8) (hR : g.R.fits 1)
    (cie fde : List Instr) (cieBad fdeBad : Option Err) (initial len : Nat) :
    RowsRel (unwind g cie (tailOf cieBad) fde (tailOf fdeBad) initial len).1
        (table g.params g.R g.N cie cieBad fde fdeBad initial len).1 ∧
    FinalRel (unwind g cie (tailOf cieBad) fde (tailOf fdeBad) initial len).2
        (table g.params g.R g.N cie cieBad fde fdeBad initial len).2 :=
  unwind_refines_main g hsz hR cie fde cieBad fdeBad initial len

/-- **The same, end to end on instruction bytes** (the function the correspondence run executes):
whatever bytes the CIE and the FDE carry, decoding ends cleanly or with an error (never a panic,
never out of fuel), and the rows returned for the decoded streams are the rows of the semantics
of exactly those instructions, the decode error surfacing where the Spec's malformed-stream
marker puts it. -/
theorem unwind_bytes_refines (g : Cfg) (hsz : 1 ≤ g.addressSize ∧ g.addressSize ≤ 8) (hR : g.R.fits 1)
    (cieCfg fdeCfg : DecodeCfg) (hc : cieCfg.params.addressSize = g.addressSize)
    (hf : fdeCfg.params.addressSize = g.addressSize) (ciePos fdePos : Nat) (cieBytes fdeBytes : Bytes)
    (initial len : Nat) :
    ∃ cieBad fdeBad,
      (decodeAll cieCfg ciePos cieBytes).2 = tailOf cieBad ∧
      (decodeAll fdeCfg fdePos fdeBytes).2 = tailOf fdeBad ∧
      RowsRel (unwindBytes g cieCfg fdeCfg ciePos fdePos cieBytes fdeBytes initial len).1
        (table g.params g.R g.N (decodeAll cieCfg ciePos cieBytes).1 cieBad
          (decodeAll fdeCfg fdePos fdeBytes).1 fdeBad initial len).1 ∧
      FinalRel (unwindBytes g cieCfg fdeCfg ciePos fdePos cieBytes fdeBytes initial len).2
        (table g.params g.R g.N (decodeAll cieCfg ciePos cieBytes).1 cieBad
          (decodeAll fdeCfg fdePos fdeBytes).1 fdeBad initial len).2 := by
  have tail_cases : ∀ (t : Out Unit), t.Normal → ∃ bad, t = tailOf bad := by
    intro t ht
    cases t with
    | ok u => exact ⟨none, rfl⟩
    | err e => exact ⟨some e, rfl⟩
    | panic w => simp [Out.Normal] at ht
    | diverge => simp [Out.Normal] at ht
  obtain ⟨cieBad, h1⟩ := tail_cases _ (decodeAll_normal cieCfg ciePos cieBytes (hc ▸ hsz))
  obtain ⟨fdeBad, h2⟩ := tail_cases _ (decodeAll_normal fdeCfg fdePos fdeBytes (hf ▸ hsz))
  refine ⟨cieBad, fdeBad, h1, h2, ?_⟩
  unfold unwindBytes
  simp only [h1, h2]
  exact unwind_refines_main g hsz hR _ _ cieBad fdeBad initial len

/-- what `RowsRel` means for one row (unfolding of the definitions used in `unwind_refines`) -/
theorem rowsRel_cons_iff (m : Row) (ms : List Row) (t : TableRow) (ts : List TableRow) :
    RowsRel (m :: ms) (t :: ts) ↔
      (m.startAddress = t.start ∧ m.endAddress = t.end_ ∧ m.cfa = t.rules.cfa ∧
        m.savedArgsSize = t.rules.argsSize ∧ (∀ r, Rules.get m.rules r = t.rules.regs r) ∧
        Rules.NodupKeys m.rules) ∧ RowsRel ms ts := by
  constructor
  · intro h
    cases h with
    | cons hr hrest => exact ⟨⟨hr.start, hr.end_, hr.rel.cfa, hr.rel.args, hr.rel.regs, hr.rel.nodup⟩, hrest⟩
  · rintro ⟨⟨h1, h2, h3, h4, h5, h6⟩, hrest⟩
    exact .cons ⟨h1, h2, ⟨h3, h4, h5, h6⟩⟩ hrest

/-- row lists of different lengths are never related: the Model returns exactly as many rows as
the semantics defines -/
theorem rowsRel_length {ms : List Row} {ts : List TableRow} (h : RowsRel ms ts) : ms.length = ts.length := by
  induction h with
  | nil => rfl
  | cons _ _ ih => simp [ih]

/-- **`StackFull` exactly when the Spec run would exceed `R` rows**: the instrumented step fails with
`StackFull` iff the instruction is valid and the state it leads to needs more rows than the
storage has — counting the current row, the remembered ones and the one extra row held when the
CIE leaves two or more initial rules (`Spec.rowsNeeded`). -/
theorem stackFull_iff (p : Params) (R N : Cap) (s : State) (i : Instr) :
    stepB p R N s i = .error .rStackFull ↔
      ∃ s' row, step p s i = .ok (s', row) ∧ exceeds R (rowsNeeded s') = true := by
  unfold stepB
  cases hs : step p s i with
  | error e =>
    have := step_error_invalid hs
    simp only [IsInvalid] at this
    constructor
    · intro h; cases h; simp at this
    · rintro ⟨s', row, h, _⟩; cases h
  | ok q =>
    obtain ⟨s1, r1⟩ := q
    simp only
    by_cases hx : exceeds R (rowsNeeded s1) = true
    · simp only [hx, if_true, true_iff]
      exact ⟨s1, r1, rfl, hx⟩
    · simp only [hx, Bool.false_eq_true, if_false]
      constructor
      · intro h; split at h <;> cases h
      · rintro ⟨s', row, h, hx'⟩; cases h; exact absurd hx' hx

/-- **`TooManyRegisterRules` exactly when a row would hold more than `N` explicit rules** (and the
row stack is not the problem). -/
theorem tooManyRules_iff (p : Params) (R N : Cap) (s : State) (i : Instr) :
    stepB p R N s i = .error .rTooManyRegisterRules ↔
      ∃ s' row, step p s i = .ok (s', row) ∧ exceeds R (rowsNeeded s') = false ∧
        exceeds N (ruleCount s'.cur.regs) = true := by
  unfold stepB
  cases hs : step p s i with
  | error e =>
    have := step_error_invalid hs
    simp only [IsInvalid] at this
    constructor
    · intro h; cases h; simp at this
    · rintro ⟨s', row, h, _⟩; cases h
  | ok q =>
    obtain ⟨s1, r1⟩ := q
    simp only
    by_cases hx : exceeds R (rowsNeeded s1) = true
    · simp only [hx, if_true]
      constructor
      · intro h; cases h
      · rintro ⟨s', row, h, hx', _⟩; cases h; rw [hx] at hx'; cases hx'
    · have hx0 : exceeds R (rowsNeeded s1) = false := by simpa using hx
      simp only [hx0, Bool.false_eq_true, if_false]
      by_cases hn : exceeds N (ruleCount s1.cur.regs) = true
      · simp only [hn, if_true, true_iff]
        exact ⟨s1, r1, rfl, hx0, hn⟩
      · simp only [hn, Bool.false_eq_true, if_false]
        constructor
        · intro h; cases h
        · rintro ⟨s', row, h, _, hn'⟩; cases h; exact absurd hn' hn

/-- **`CfiInstructionInInvalidContext` / `PopWithEmptyStack` / `AddressOverflow` /
`InvalidCfiSetLoc` exactly where the semantics says the instruction is invalid**: the capacity
instrumentation neither adds nor hides a validity error, and the pure semantics raises no other
error. -/
theorem invalid_iff (p : Params) (R N : Cap) (s : State) (i : Instr) (e : Err) (he : IsInvalid e) :
    stepB p R N s i = .error e ↔ step p s i = .error e := by
  unfold stepB
  cases hs : step p s i with
  | error e' => simp
  | ok q =>
    obtain ⟨s1, r1⟩ := q
    simp only
    constructor
    · intro h
      exfalso
      unfold IsInvalid at he
      split at h
      · cases h; simp at he
      · split at h
        · cases h; simp at he
        · cases h
    · intro h; cases h

/-- the pure semantics only ever raises the four validity errors -/
theorem spec_errors (p : Params) (s : State) (i : Instr) (e : Err) (h : step p s i = .error e) :
    IsInvalid e :=
  step_error_invalid h

/-- **The only errors of an unwind**: if the Model's run ends with an error, that error is one of
the four validity errors of the semantics, one of the two storage-limit errors, or the decode
error that ends the CIE's / the FDE's instruction stream — nothing else, and in each case the
Spec run ends with the same error (`unwind_refines`). -/
theorem unwind_errors (g : Cfg) (hsz : 1 ≤ g.addressSize ∧ g.addressSize ≤ 8) (hR : g.R.fits 1)
    (cie fde : List Instr) (cieBad fdeBad : Option Err) (initial len : Nat) (e : Err)
    (h : (unwind g cie (tailOf cieBad) fde (tailOf fdeBad) initial len).2 = .err e) :
    IsInvalid e ∨ e = .rStackFull ∨ e = .rTooManyRegisterRules ∨ cieBad = some e ∨ fdeBad = some e := by
  have hfin := (unwind_refines_main g hsz hR cie fde cieBad fdeBad initial len).2
  rw [h] at hfin
  cases ht : (table g.params g.R g.N cie cieBad fde fdeBad initial len).2 with
  | ok u => rw [ht] at hfin; simp [FinalRel] at hfin
  | error e' =>
    rw [ht] at hfin
    simp only [FinalRel] at hfin
    subst hfin
    rcases table_error_kinds _ _ _ _ _ _ _ _ _ _ ht with (h1 | h1 | h1) | h1 | h1
    · exact Or.inl h1
    · exact Or.inr (Or.inl h1)
    · exact Or.inr (Or.inr (Or.inl h1))
    · exact Or.inr (Or.inr (Or.inr (Or.inl h1)))
    · exact Or.inr (Or.inr (Or.inr (Or.inr h1)))

/-- **More storage never changes a table that fits**: if the unwind completes with capacities
`(R, N)`, it also completes with any capacities at least as large (in particular with the growable
`Vec` storage, `none`), and both row lists represent the same rows of the semantics. -/
theorem storage_monotone (g : Cfg) (R' N' : Cap) (hsz : 1 ≤ g.addressSize ∧ g.addressSize ≤ 8)
    (hR1 : g.R.fits 1) (hR : CapLe g.R R') (hN : CapLe g.N N')
    (cie fde : List Instr) (cieBad fdeBad : Option Err) (initial len : Nat)
    (hok : (unwind g cie (tailOf cieBad) fde (tailOf fdeBad) initial len).2 = .ok ()) :
    (unwind { g with R := R', N := N' } cie (tailOf cieBad) fde (tailOf fdeBad) initial len).2 = .ok () ∧
    ∃ rows : List TableRow,
      RowsRel (unwind g cie (tailOf cieBad) fde (tailOf fdeBad) initial len).1 rows ∧
      RowsRel (unwind { g with R := R', N := N' } cie (tailOf cieBad) fde (tailOf fdeBad) initial len).1 rows :=
  storage_monotone_main g R' N' hsz hR1 hR hN cie fde cieBad fdeBad initial len hok

example : CapLe (some 4) (some 8) := CapLe.some (by decide)
example : CapLe (some 192) none := CapLe.none _

/-! ### the Spec means what the standard says (sanity of the reference semantics) -/

/-- `DW_CFA_remember_state` followed by `DW_CFA_restore_state` is the identity -/
theorem spec_remember_restore (p : Params) (s : State) :
    ∃ s1, step p s .rememberState = .ok (s1, none) ∧ step p s1 .restoreState = .ok (s, none) :=
  remember_restore p s

/-- `DW_CFA_restore r` in an FDE puts column `r` back to what the CIE's initial instructions
left there and touches nothing else -/
theorem spec_restore_is_initial (p : Params) (s : State) (im : RegMap) (r : Reg) (h : s.init = some im) :
    ∃ s1, step p s (.restore r) = .ok (s1, none) ∧ s1.cur.regs r = im r ∧
      (∀ x, x ≠ r → s1.cur.regs x = s.cur.regs x) ∧ s1.cur.cfa = s.cur.cfa :=
  restore_is_initial p s im r h

/-! ## 2. the `initial_rule` optimisation -/

/-- **The 0/1-rule shortcut and the saved `stack[0]` row agree with "the map after the CIE
program".** Whatever register rules the current row holds when `save_initial_rules` runs — none
(`initial_rule = Some(None)`), exactly one (`Some(Some(rule))`), or more (a copy of the row is
inserted at `stack[0]`) — `get_initial_rule(r)` afterwards answers `Some(row.register(r))` for
every register `r`.  (That the answer stays the same during the FDE program — `pop_row` never
pops the saved row, no instruction writes it — is part of `unwind_refines`: `DW_CFA_restore` in
the Model always installs the Spec's fixed initial rule.) -/
theorem initial_rule_opt_sound (R : Cap) (c c' : Ctx) (top : Row) (rest : List Row)
    (hst : c.stack = top :: rest) (h : saveInitialRules R c = .ok c') (r : Reg) :
    c'.getInitialRule r = .ok (some (Rules.get top.rules r)) :=
  saveInitialRules_getInitialRule hst h r

/-- `save_initial_rules` fails only with `StackFull`, and only in the many-rules case when the
row stack is already full -/
theorem save_initial_rules_error (R : Cap) (c : Ctx) (top : Row) (rest : List Row)
    (hst : c.stack = top :: rest) (e : Err) (h : saveInitialRules R c = .err e) :
    e = .rStackFull ∧ 2 ≤ top.rules.length ∧ R.hasRoom c.stack.length = false := by
  unfold saveInitialRules at h
  rw [hst] at h
  simp only at h
  match hrules : top.rules with
  | [] => rw [hrules] at h; cases h
  | [rule] => rw [hrules] at h; cases h
  | r1 :: r2 :: rs =>
    rw [hrules] at h
    simp only at h
    split at h
    · cases h
    · rename_i hroom
      cases h
      refine ⟨rfl, by simp, ?_⟩
      rw [hst]; simpa using hroom

/-! ## 3. rows are contiguous, non-decreasing and end at the FDE's end address -/

/-- **Contiguity.** The returned rows tile the address space from the FDE's initial address:
the first row starts at `initial`, every next row starts where the previous one ended, and every
row that has a successor satisfies `start ≤ end` (`Tiles`); so starts are non-decreasing.
If the table completes, there is a last row and it ends at the FDE's end address
`(initial + len) mod 2^(8·address_size)`.  If it stops with an error, every row returned before
satisfies `start ≤ end`. -/
theorem rows_contiguous (g : Cfg) (hsz : 1 ≤ g.addressSize ∧ g.addressSize ≤ 8) (hR : g.R.fits 1)
    (cie fde : List Instr) (cieBad fdeBad : Option Err) (initial len : Nat) :
    Tiles initial (rowSpans (unwind g cie (tailOf cieBad) fde (tailOf fdeBad) initial len).1) ∧
    ((unwind g cie (tailOf cieBad) fde (tailOf fdeBad) initial len).2 = .ok () →
      ∃ last, (unwind g cie (tailOf cieBad) fde (tailOf fdeBad) initial len).1.getLast? = some last ∧
        last.endAddress = fdeEnd g.params initial len) ∧
    (∀ e, (unwind g cie (tailOf cieBad) fde (tailOf fdeBad) initial len).2 = .err e →
      ∀ r ∈ (unwind g cie (tailOf cieBad) fde (tailOf fdeBad) initial len).1, r.startAddress ≤ r.endAddress) :=
  rows_contiguous_main g hsz hR cie fde cieBad fdeBad initial len

/-- `Tiles` spelled out for two consecutive rows -/
theorem tiles_cons_cons (a s e s' e' : Nat) (rest : List (Nat × Nat)) :
    Tiles a ((s, e) :: (s', e') :: rest) ↔ s = a ∧ s ≤ e ∧ Tiles e ((s', e') :: rest) := Iff.rfl

/-! ## 4. the register rule map -/

/-- **Deleting via `swap_remove` preserves the extensional map**: after `clear(r)` register `r`
has no rule, every other register has the rule it had, and no register has two entries. -/
theorem swap_remove_ext (m : Rules) (hn : Rules.NodupKeys m) (r : Reg) :
    (∀ x, Rules.get (Rules.clear m r) x = if x = r then none else Rules.get m x) ∧
    Rules.NodupKeys (Rules.clear m r) :=
  ⟨fun x => Rules.clear_get hn r x, Rules.clear_nodup hn r⟩

/-- `set` updates the extensional map at `r` only, keeps entries unique, and grows the vector by
one exactly when `r` had no entry; it fails only with `TooManyRegisterRules`, and only when `r`
has no entry and the vector is full -/
theorem set_ext (N : Cap) (m : Rules) (r : Reg) (v : Rule) :
    (∃ m', Rules.set N m r v = .ok m' ∧
      (∀ x, Rules.get m' x = if x = r then some v else Rules.get m x) ∧
      (Rules.NodupKeys m → Rules.NodupKeys m') ∧
      m'.length = (if Rules.get m r = none then m.length + 1 else m.length)) ∨
    (Rules.set N m r v = .err .rTooManyRegisterRules ∧ Rules.get m r = none ∧ N.hasRoom m.length = false) := by
  rcases Rules.set_eq_err (N := N) (m := m) (r := r) (v := v) with ⟨m', hm'⟩ | h
  · obtain ⟨h1, h2, h3, _⟩ := Rules.set_ok hm'
    exact Or.inl ⟨m', hm', h1, h2, h3⟩
  · exact Or.inr h

/-- `impl PartialEq for RegisterRuleMap` is extensional equality -/
theorem rule_map_eq_ext (a b : Rules) (ha : Rules.NodupKeys a) (hb : Rules.NodupKeys b) :
    Rules.eq a b = true ↔ ∀ r, Rules.get a r = Rules.get b r :=
  Rules.eq_iff_ext ha hb

/-! ## 5. totality -/

/-- **The unwind never panics and never diverges**: for address sizes 1..8 and a row capacity of
at least 1 the outcome is `ok` or a `gimli::Error`, and at most one row per instruction plus the
final row is returned. -/
theorem unwind_total (g : Cfg) (hsz : 1 ≤ g.addressSize ∧ g.addressSize ≤ 8) (hR : g.R.fits 1)
    (cie fde : List Instr) (cieBad fdeBad : Option Err) (initial len : Nat) :
    (unwind g cie (tailOf cieBad) fde (tailOf fdeBad) initial len).2.Normal := by
  have h := (unwind_refines_main g hsz hR cie fde cieBad fdeBad initial len).2
  generalize (unwind g cie (tailOf cieBad) fde (tailOf fdeBad) initial len).2 = m at h
  generalize (table g.params g.R g.N cie cieBad fde fdeBad initial len).2 = s at h
  cases m <;> cases s <;> simp_all [FinalRel, Out.Normal]

/-- **Decoding one instruction is total** and consumes at least the opcode byte -/
theorem decode_total (c : DecodeCfg) (pos : Nat) (bs : Bytes)
    (hsz : 1 ≤ c.params.addressSize ∧ c.params.addressSize ≤ 8) :
    (parse c pos bs).Normal ∧ ∀ i rest, parse c pos bs = .ok (i, rest) → rest.length < bs.length :=
  ⟨parse_normal c pos bs hsz, fun _ _ h => parse_lt h⟩

/-- **The instruction iterator terminates**: driven to its end it yields at most one instruction
per byte and stops with `Ok(None)` or an error (the fuel of `decodeAll` always suffices) -/
theorem decode_all_total (c : DecodeCfg) (base : Nat) (bs : Bytes)
    (hsz : 1 ≤ c.params.addressSize ∧ c.params.addressSize ≤ 8) :
    (decodeAll c base bs).2.Normal ∧ (decodeAll c base bs).1.length ≤ bs.length :=
  ⟨decodeAll_normal c base bs hsz, decodeFuel_length c base bs.length bs.length bs⟩

/-! ## 6. instruction decoding against the encoding tables of the standard -/

/-- **Every standard encoding is decoded to the instruction it denotes**, with exact consumption —
for EVERY opcode: if `bs`, at section offset `pos`, encodes `i` according to the opcode/operand
tables of DWARF §6.4.2/§7.24 and, for `DW_CFA_set_loc` under an FDE pointer encoding, the LSB
pointer-encoding rules in C05's Spec (`Spec.Cfi.Encodes`: the three primary opcodes, every
extended opcode with unsigned / signed LEB128, fixed-size, block, register and address operands —
any LEB128 padding up to 10 bytes —, `set_loc` as a plain address or as base + operand in any
defined `DW_EH_PE` format/application, `GNU_args_size`, and `AARCH64_negate_ra_state` for an
AArch64 consumer), then `CallFrameInstruction::parse` on `bs` followed by anything returns `i`
and leaves exactly what followed.  Every configuration `c` (byte order, address size, vendor,
bases, pointer encoding, arithmetic mode). -/
theorem decode_complete (c : DecodeCfg) (pos : Nat) (i : Instr) (bs : Bytes)
    (h : Spec.Cfi.Encodes c pos i bs) (rest : Bytes) :
    parse c pos (bs ++ rest) = .ok (i, rest) :=
  Spec.Cfi.parse_encodes h rest

/-- **Whatever `parse` accepts is an encoding from the tables**, for every opcode and every
configuration: if `CallFrameInstruction::parse` returns `(i, rest)`, then the consumed prefix is an
encoding of `i` — opcode, operand kinds, LEB128 well-formedness and range, register numbers
≤ 0xffff, block lengths, address size ∈ {1,2,4,8} for a plain `set_loc`; for an encoded `set_loc`
a defined, non-`omit`, non-`aligned`, non-`indirect` encoding whose base is available, and the
address is base + operand modulo the address size; AArch64 vendor for `negate_ra_state`.
Together with `decode_complete`: `parse` accepts exactly the encodings of the tables and decodes
each to the instruction it denotes.  (Hypothesis: when a pointer encoding is in force the address
size is 1..8 — outside that range `u64::ones_sized` overflows its `u8` arithmetic, see
`Cfi.onesSized`.) -/
theorem decode_sound (c : DecodeCfg) (pos : Nat) (bs : Bytes) (i : Instr) (rest : Bytes)
    (hsz : c.addressEncoding ≠ none → 1 ≤ c.params.addressSize ∧ c.params.addressSize ≤ 8)
    (h : parse c pos bs = .ok (i, rest)) :
    ∃ pre, bs = pre ++ rest ∧ Spec.Cfi.Encodes c pos i pre :=
  Spec.Cfi.parse_sound hsz h

/-- **The `set_loc` operand is decoded by C05's `parse_encoded_pointer`**: the pointer decoding
inside the Model of `CallFrameInstruction::parse` equals C05's Model `CfiEntry.parseEncodedPointer`
(run at the operand's section offset with the iterator's parameters: the `.eh_frame` bases, the
CIE's address size, no function base) followed by `Pointer::direct` — for every encoding byte,
address size and mode, including the overflowing ones.  So C05's theorems about
`parse_encoded_pointer` (`encoded_pointer_decode`, `encoded_pointer_total`, the round trips) are
theorems about `set_loc`. -/
theorem set_loc_pointer_is_c05 (m : Mode) (e : Endian) (enc : Nat) (c : DecodeCfg) (pos : Nat) (bs : Bytes) :
    parseEncodedPointerDirect m e enc c.params pos bs =
      (CfiEntry.parseEncodedPointer m e enc (Spec.Cfi.peParams c) ⟨pos, bs⟩ >>= fun x =>
        x.1.toDirect >>= fun a => pure (a, x.2.bs)) :=
  Spec.Cfi.parseEncodedPointerDirect_eq m e enc c pos bs

/-- the operand relation of the encoding table contains everything C05's Spec encoder
`Frame.encodeOperand` emits, in all nine value formats (and additionally padded LEB128 operands) -/
theorem set_loc_operand_covers_c05_encoder (e : Endian) (enc asz x : Nat) (bytes : Bytes)
    (h : Spec.Frame.encodeOperand e enc asz x = some bytes) : Spec.Cfi.Operand e asz enc x bytes :=
  Spec.Cfi.operand_of_encodeOperand h

/-- the hypotheses are satisfiable: `DW_CFA_def_cfa r7, 8`, a signed operand, a padded
`DW_CFA_offset_extended`, and a pc-relative `set_loc` (`DW_EH_PE_pcrel | sdata4`, section at
0x1000, instruction at offset 0x20: operand −4 at 0x1021 gives 0x101d) -/
example (c : DecodeCfg) : Spec.Cfi.Encodes c 0 (.defCfa 7 8) [0x0c, 0x07, 0x08] :=
  .defCfa 7 8 [0x07] [0x08] (by unfold Spec.Cfi.RegEnc Spec.Cfi.ULeb; decide) (by unfold Spec.Cfi.ULeb; decide)
example (c : DecodeCfg) : Spec.Cfi.Encodes c 0 (.defCfaOffsetSf (-2)) [0x13, 0x7e] :=
  .defCfaOffsetSf (-2) [0x7e] (by unfold Spec.Cfi.SLeb; decide)
example (c : DecodeCfg) : Spec.Cfi.Encodes c 0 (.offset 300 2) [0x05, 0xac, 0x02, 0x82, 0x00] :=
  .offsetExtended 300 2 [0xac, 0x02] [0x82, 0x00] (by unfold Spec.Cfi.RegEnc Spec.Cfi.ULeb; decide)
    (by unfold Spec.Cfi.ULeb; decide)
example : parse { params := { addressSize := 8, sectionBase := some 0x1000 }, addressEncoding := some 0x1b } 0x20
    [0x01, 0xfc, 0xff, 0xff, 0xff, 0x41] = .ok (.setLoc 0x101d, [0x41]) := by decide

/-! ## non-vacuity: the hypotheses hold for gimli's default configuration, and every outcome
class is reachable -/

/-- gimli's default storage on a 64-bit target -/
def defaultCfg : Cfg := { codeAlign := 1, dataAlign := -8, addressSize := 8, R := some 4, N := some 192 }

example : 1 ≤ defaultCfg.addressSize ∧ defaultCfg.addressSize ≤ 8 := by decide
example : defaultCfg.R.fits 1 := by simp [defaultCfg, Cap.fits]
example : Cap.fits (none : Cap) 1 := trivial
example : Rules.NodupKeys [(1, .undefined), (2, .sameValue)] := by simp [Rules.NodupKeys, Rules.keys]

/-- a table that completes: two rows, contiguous, ending at the FDE's end address -/
example :
    (unwind defaultCfg [.defCfa 7 8, .offset 16 1] (tailOf none) [.advanceLoc 4, .defCfaOffset 16] (tailOf none)
      0x1000 0x20) =
    ([{ startAddress := 0x1000, endAddress := 0x1004, cfa := .registerAndOffset 7 8, rules := [(16, .offset (-8))] },
      { startAddress := 0x1004, endAddress := 0x1020, cfa := .registerAndOffset 7 16, rules := [(16, .offset (-8))] }],
     .ok ()) := by decide

/-- `StackFull`: one row of storage, `DW_CFA_remember_state` -/
example : (unwind { defaultCfg with R := some 1 } [] (tailOf none) [.rememberState] (tailOf none) 0 8).2 =
    .err .rStackFull := by decide

/-- `StackFull` from the initial-rule row: two initial rules need a second row -/
example : (unwind { defaultCfg with R := some 1 } [.undefined 1, .undefined 2] (tailOf none) [] (tailOf none) 0 8).2 =
    .err .rStackFull := by decide

/-- … while a single initial rule is kept outside the row stack -/
example : (unwind { defaultCfg with R := some 1 } [.undefined 1] (tailOf none) [.sameValue 1, .restore 1] (tailOf none) 0 8) =
    ([{ startAddress := 0, endAddress := 8, rules := [(1, .undefined)] }], .ok ()) := by decide

/-- `TooManyRegisterRules`: one rule of storage, two registers -/
example : (unwind { defaultCfg with N := some 1 } [] (tailOf none) [.undefined 1, .undefined 2] (tailOf none) 0 8).2 =
    .err .rTooManyRegisterRules := by decide

example : (unwind defaultCfg [] (tailOf none) [.restoreState] (tailOf none) 0 8).2 = .err .rPopWithEmptyStack := by decide
example : (unwind defaultCfg [.restore 1] (tailOf none) [] (tailOf none) 0 8).2 = .err .rCfiInstructionInInvalidContext := by
  decide
example : (unwind { defaultCfg with addressSize := 4 } [] (tailOf none) [.advanceLoc 1] (tailOf none) 0xffffffff 1).2 =
    .err .rAddressOverflow := by decide
example : (unwind defaultCfg [] (tailOf none) [.setLoc 5] (tailOf none) 6 1).2 = .err .rInvalidCfiSetLoc := by decide

end Gimli.Props.C06
