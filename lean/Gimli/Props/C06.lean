import Gimli.Model.Unwind
/-!
# C06 — Unwind table rows equal DWARF call-frame semantics (work in progress)
-/
namespace Gimli.Props.C06
open Gimli Gimli.Cfi Gimli.Unwind

/-- placeholder while the real theorems land -/
theorem get_nil (r : Reg) : Rules.get [] r = none := rfl

end Gimli.Props.C06
