import Gimli.Lemmas.Leb
import Gimli.Lemmas.Ints
import Gimli.Lemmas.Macros
/-!
# C01 — untrusted input never panics, aborts, overflows the stack or hangs

`Out.Normal r` means `r` is `ok _` or `err _`: not `panic` (overflow-checked arithmetic, index
out of range, unwrap) and not `diverge` (fuel exhausted = non-termination).
One `*_total` theorem per modelled entry point, for every input.
-/
namespace Gimli.Props.C01
open Gimli Gimli.Leb Gimli.Ints

theorem unsignedLoop_total (bs : Bytes) : ∀ r s, (unsignedLoop bs r s).Normal := by
  induction bs with
  | nil => intro r s; simp [unsignedLoop, Out.Normal]
  | cons b tl ih =>
    intro r s
    rw [unsignedLoop]
    split
    · simp [Out.Normal]
    · simp only; split
      · simp [Out.Normal]
      · exact ih _ _

/-- `leb128::read::unsigned` returns a value or an error on every byte string -/
theorem uleb_total (bs : Bytes) : (Leb.unsigned bs).Normal := by
  cases bs with
  | nil => simp [Leb.unsigned, Out.Normal]
  | cons b tl =>
    rw [Leb.unsigned]; split
    · simp [Out.Normal]
    · exact unsignedLoop_total _ _ _

theorem signedLoop_total (bs : Bytes) : ∀ r s, (signedLoop bs r s).Normal := by
  induction bs with
  | nil => intro r s; simp [signedLoop, Out.Normal]
  | cons b tl ih =>
    intro r s
    rw [signedLoop]
    split
    · simp [Out.Normal]
    · simp only; split
      · simp [Out.Normal]
      · exact ih _ _

/-- `leb128::read::signed` -/
theorem sleb_total (bs : Bytes) : (Leb.signed bs).Normal := by
  unfold Leb.signed
  have := signedLoop_total bs 0 0
  cases h : signedLoop bs 0 0 with
  | ok p => obtain ⟨a, b, c, d⟩ := p; simp [Out.Normal]
  | err e => simp [Out.Normal]
  | panic w => rw [h] at this; simp [Out.Normal] at this
  | diverge => rw [h] at this; simp [Out.Normal] at this

/-- `leb128::read::u16` -/
theorem u16leb_total (bs : Bytes) : (Leb.u16 bs).Normal := by
  unfold Leb.u16
  repeat' split
  all_goals simp [Out.Normal]

/-- `leb128::read::skip` consumes at most the input and terminates -/
theorem skipleb_total (bs : Bytes) : (Leb.skip bs).Normal := by
  induction bs with
  | nil => simp [Leb.skip, Out.Normal]
  | cons b tl ih => rw [Leb.skip]; split <;> simp_all [Out.Normal]

/-- fixed-width reads -/
theorem fixed_total (e : Endian) (n : Nat) (bs : Bytes) : (readFixed e n bs).Normal := by
  rw [readFixed_eq]; split <;> simp [Out.Normal]

/-- `read_address`, for *any* size argument (invalid sizes are an error, not a panic) -/
theorem address_total (e : Endian) (size : Nat) (bs : Bytes) : (readAddress e size bs).Normal := by
  unfold readAddress; split
  · exact fixed_total _ _ _
  · simp [Out.Normal]

theorem initial_length_total (e : Endian) (ob : Nat) (bs : Bytes) : (readInitialLength e ob bs).Normal := by
  rw [readInitialLength_cases]
  simp only
  repeat' split
  all_goals simp [Out.Normal]


/-! ## `.debug_macinfo` / `.debug_macro`: `MacroIter` -/

/-- a single `MacroIter::next` call returns a value or an error on every input, in both section
kinds, formats and byte orders -/
theorem macro_next_total (e : Endian) (f : Format) (isMacro : Bool) (bs : Bytes) :
    (Macros.next e f isMacro bs).1.Normal :=
  Macros.next_normal e f isMacro bs

/-- **step bound, errors ignored**: a caller that keeps calling `next()` whatever it returns sees
`Ok(None)` after at most `len + 1` calls (every call that is not `Ok(None)` consumes at least the
type byte, including the calls that fail) -/
theorem macro_iter_bounded (e : Endian) (f : Format) (isMacro : Bool) (bs : Bytes) :
    ∃ k, (Macros.iter e f isMacro).callsUntilDone (bs.length + 1) bs = some k ∧ k ≤ bs.length + 1 :=
  Iter.bounded_of_measure (Macros.iter e f isMacro) List.length
    (fun s h => Macros.next_decreases e f isMacro s h) (bs.length + 1) bs (Nat.lt_succ_self _)

example : (Macros.iter .little .dwarf32 false).callsUntilDone 3 [1, 0x80] = some 2 := by decide

end Gimli.Props.C01
