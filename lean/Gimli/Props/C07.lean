import Gimli.Model.Eval
namespace Gimli.Props.C07
open Gimli

theorem stub : Value.maskBitSize 255 = 8 := by decide

end Gimli.Props.C07
