import Gimli.Lemmas.Value
import Gimli.Lemmas.OpTotal
import Gimli.Lemmas.OpSuffix
import Gimli.Lemmas.Capacity
import Gimli.Lemmas.SimRun
import Gimli.Lemmas.IterWrap
import Gimli.Lemmas.RunLimit
import Gimli.Lemmas.StackInv
/-!
# C07 — Expression decoding and evaluation equal the DWARF stack machine

Property theorems only (helper lemmas: `Gimli/Lemmas/{Value,OpDecode,OpTotal,Eval,Capacity}.lean`).
Every theorem is about the Model functions of `Gimli/Model/{Value,Op,Eval}.lean` — the functions the
driver (`Gimli/Drv/C07.lean`) executes in the correspondence run against `src/read/{value,op,util}.rs`.
The Spec side is `Gimli/Spec/{Expr,OpTable}.lean`.

Quantifiers: every byte string, every encoding (address size / format / version / byte order),
every value and mask of the stated shape, every fuel, every evaluator state, every script of
resume answers.
-/
namespace Gimli.Props.C07
open Gimli Gimli.Op Gimli.Eval Gimli.Value Gimli.Spec.Expr
open Gimli.Sim (RunRel FinRel TokOk absScript absPiece)

/-! ## (1) value arithmetic -/

/-- **`value_refines`.** For every address size `a ∈ {1,2,4,8}` (mask `2^(8a)-1`), **every** binary
`Value` operation — `add sub mul div rem and or xor shl shr shra eq ge gt le lt ne` — and all
integer operands (generic or typed, stored patterns arbitrary: generic operands may carry garbage
above the address size): the Model result, read *modulo `2^(8a)`* for generic values and *exactly*
for typed ones (`absV`), is the Spec result on the abstracted operands — including the error cases
(`DivisionByZero` before `TypeMismatch`, `InvalidShiftExpression` for a negative or float count,
`UnsupportedTypeOperation` for `shr` of a signed / `shra` of an unsigned type, …), which are equal
as `Out` values. `WF y`: the stored pattern fits its Rust type.
The shifts are covered at full strength since the `fix:` for finding C07-1 (`shift_length` masks
a generic count to the address size); before it they needed the hypothesis that a generic count
is stored masked. -/
theorem value_refines (a : Nat) (ha : AddrSize a) (op : BinOp) (x y : Value) (ix : IsInt x) (hy : WF y) :
    (binaryOf op x y (maskOf a)).map (absV a) = binary a op (absV a x) (absV a y) :=
  binary_refines a ha op x y ix hy

/-- regression for finding C07-1, the former counter-example on a 4-byte target:
`1 << Generic(2^32 + 2)` — the count is `2` modulo the address size; the Spec result is `4` and
so is the Model (= repaired `value.rs`) result (it was `0`). -/
theorem shift_count_masked_regression :
    (Value.shl ⟨.generic, 1⟩ ⟨.generic, 2 ^ 32 + 2⟩ (maskOf 4)).map (absV 4) = .ok ⟨.generic, 4⟩ ∧
      binary 4 .shl (absV 4 ⟨.generic, 1⟩) (absV 4 ⟨.generic, 2 ^ 32 + 2⟩) = .ok ⟨.generic, 4⟩ := by
  constructor <;> decide

/-- **Unary operations** `abs`, `neg`, `not`: same refinement, same error cases
(`neg` of an unsigned type is `UnsupportedTypeOperation`). -/
theorem value_refines_unary (a : Nat) (ha : AddrSize a) (op : UnOp) (x : Value) (ix : IsInt x) (hx : WF x) :
    (unaryOf op x (maskOf a)).map (absV a) = unary a op (absV a x) :=
  unary_refines a ha op x ix hx

/-- **`DW_OP_convert`** between integer types: the Model result denotes the Spec value wrapped
into the target type (generic source read modulo the address size, signed sources sign extended). -/
theorem value_refines_convert (a : Nat) (ha : AddrSize a) (v : Value) (hv : VOk v) (t : ValueType)
    (ht : t.kind ≠ .float) :
    ∃ r, v.convert t (maskOf a) = .ok r ∧ absV a r = convertInt a (absV a v) t ∧ VOk r :=
  Sim.convert_refines a ha v hv t ht

/-- **`DW_OP_reinterpret`** between integer types: `TypeMismatch` exactly when the sizes differ
(the generic type has the address size), otherwise the same bits read in the target type. -/
theorem value_refines_reinterpret (a : Nat) (ha : AddrSize a) (v : Value) (hv : VOk v) (t : ValueType)
    (ht : t.kind ≠ .float) :
    Sim.Sim (fun r sr => sr = absV a r ∧ VOk r) (v.reinterpret t (maskOf a)) (reinterpretInt a (absV a v) t) :=
  Sim.reinterpret_refines a ha v hv t ht

/-- `sign_extend(value, mask)` is the two's complement reading of the low `8a` bits
(the xor / subtract trick of `value.rs`, proved without `bv_decide`). -/
theorem sign_extend_spec (a : Nat) (ha : AddrSize a) (x : Nat) :
    signExtend x (maskOf a) = smod (8 * a) (x : Int) := by
  rw [signExtend_mask a ha, sval_eq_smod]

/-! ## (2) decoding -/

/-- **`decode_matches_table`.** For every byte string, byte order and encoding,
`Operation::parse` is the table-driven Spec decode: opcode ↦ operand kinds (`OpTable.signature`, the
256-row table), operands laid out per kind (`readOperands`: sizes from the encoding, v2
`DW_OP_implicit_pointer` address sized, `DW_OP_piece` in bits or `InvalidPiece`), then the operation
the opcode denotes (`meaning`). Same value, same bytes consumed, same error. -/
theorem decode_matches_table (e : Endian) (enc : Encoding) (bs : Bytes) :
    Op.parse e enc bs = Spec.OpTable.decode e enc bs :=
  parse_eq_decode e enc bs

/-- the operand signature of an opcode is what the table says, e.g. the rows the unit tests of
`op.rs` never reach together -/
example : Spec.OpTable.signature 0xa4 = some [.uleb, .block1] ∧ Spec.OpTable.signature 0x92 = some [.reg, .sleb] ∧
    Spec.OpTable.signature 0xf1 = none := by decide

/-- **(7) `decode_total`.** Decoding any byte string returns a value or a gimli error: never a
panic, never fuel exhaustion. -/
theorem decode_total (e : Endian) (enc : Encoding) (bs : Bytes) : (Op.parse e enc bs).Normal :=
  parse_normal e enc bs

/-- **`OperationIter`**: every operation it yields consumes at least one byte (so it ends), and
after an error it is empty: the next call is `Ok(None)`. -/
theorem operation_iter_ends (e : Endian) (enc : Encoding) (input : Bytes) :
    (∀ op, (iterNext e enc input).1 = .ok (some op) → (iterNext e enc input).2.length < input.length) ∧
    (∀ x, (iterNext e enc input).1 = .err x →
      (iterNext e enc (iterNext e enc input).2).1 = .ok none) :=
  ⟨fun op h => iterNext_progress e enc input op h, fun x h => (iterNext_after_error e enc input x h).2⟩

/-! ## (3) branches -/

/-- **`branch_in_bounds`.** `compute_pc` with a 16-bit target: the new pc is `bytecode[t..]` for the
mathematical target `t = (offset of the following operation) + target` when `0 ≤ t ≤ len`, and
`BadBranchTarget` otherwise (the wrapping `usize` addition can not smuggle a negative target in).
`hpc`/`hlen`: the pc is inside the expression, which is shorter than `2^63` bytes. -/
theorem branch_in_bounds (pc bc : Bytes) (target : Int) (ht : -2 ^ 15 ≤ target ∧ target < 2 ^ 15)
    (hlen : bc.length < 2 ^ 63) (hpc : pc.length ≤ bc.length) :
    computePc pc bc target =
      (let t : Int := ((bc.length - pc.length : Nat) : Int) + target
       if 0 ≤ t ∧ t ≤ bc.length then .ok (bc.drop t.toNat) else .err .rBadBranchTarget) :=
  computePc_spec pc bc target ht hlen hpc

/-- in particular whatever `compute_pc` returns is a suffix of the bytecode at an offset in `[0, len]` -/
theorem branch_target_suffix (pc bc pc' : Bytes) (target : Int) (h : computePc pc bc target = .ok pc') :
    ∃ k, k ≤ bc.length ∧ pc' = bc.drop k := by
  unfold computePc at h
  simp only [] at h
  split at h
  · cases h
  · next hle => cases h; exact ⟨_, Nat.le_of_not_gt hle, rfl⟩

/-! ## (4) iteration limit -/

/-- **`iter_limit`** (bound). With `max_iterations = m` (any `u32`: `m < 2^32`), from any state
whose counter is within the limit, any call that returns (`Complete` or a `Requires*`) leaves the
counter within the limit, never decreases it, and has decoded at most two operations per
iteration (one `evaluate_one_operation` per iteration plus at most one extra decode after a
location-completing operation). The counter is part of the state, so the bound is on the total
over `evaluate()` and every later `resume_with_*`. (Since the `fix:` for finding C07-2 the limit
`u32::MAX` is covered too: the comparison comes before a saturating increment.) -/
theorem iter_limit (m : Nat) (hm : m < 2 ^ 32) (fuel : Nat) (s : Eval) (r : Request) (s' : Eval)
    (hmax : s.cfg.maxIterations = some m) (hit : s.iteration ≤ m)
    (h : evaluateInternal fuel s = .ok (r, s')) :
    s'.cfg = s.cfg ∧ s.iteration ≤ s'.iteration ∧ s'.iteration ≤ m ∧
      s'.decodes - s.decodes ≤ 2 * (s'.iteration - s.iteration) := by
  obtain ⟨h1, h2, h3, h4⟩ := evalInternal_bound m hm fuel s r s' hmax hit h
  exact ⟨h1, h2, h3, by omega⟩

/-- **`iter_limit`** (no looping). With the limit set, `m + 2` iterations of fuel counted from the
current counter always suffice: the call returns a result or an error (`TooManyIterations` when
the program needs more), never runs on and never panics. -/
theorem iter_limit_terminates (m : Nat) (hm : m < 2 ^ 32) (fuel : Nat) (s : Eval)
    (hmax : s.cfg.maxIterations = some m) (hit : s.iteration ≤ m) (hf : m + 2 ≤ fuel + s.iteration) :
    (evaluateInternal fuel s).Normal :=
  evalInternal_terminates m hm fuel s hmax hit hf

/-- **`iter_limit`** over any sequence of resume answers. A whole run — `evaluate()`, then one
`resume_with_*` per request, answers from an arbitrary script `toks` — of an evaluator with
`max_iterations = m`, given `m + 2` fuel per call: never runs out of fuel (it ends with a result,
`TooManyIterations` or another error, or at the end of the script), and the state it ends in has
executed at most `m` operations in total (`iteration ≤ m`) and decoded at most two per iteration. -/
theorem iter_limit_run (m : Nat) (hm : m < 2 ^ 32) (fuel : Nat) (hf : m + 2 ≤ fuel) (toks : List Tok) (s : Eval)
    (hmax : s.cfg.maxIterations = some m) (hit : s.iteration ≤ m) :
    (run fuel toks s).2.1 ≠ .diverged ∧
      ∀ e, (run fuel toks s).2.2 = some e →
        e.iteration ≤ m ∧ e.decodes - s.decodes ≤ 2 * (e.iteration - s.iteration) := by
  obtain ⟨h1, h2⟩ := run_limit m hm fuel hf toks s hmax hit
  refine ⟨h1, fun e he => ?_⟩
  obtain ⟨h3, h4⟩ := h2 e he
  exact ⟨h3, by omega⟩

/-- regression for finding C07-2: with `max_iterations = u32::MAX` the endless loop
`DW_OP_skip -3` is stopped by `TooManyIterations` after exactly `u32::MAX` operations, in either
build mode (the unchecked `+= 1` used to overflow: panic / wrap-around and no error ever). -/
theorem iter_limit_u32_max_regression (mode : Mode) (dec : Nat) :
    evaluateInternal ((2 ^ 32 - 1) + 1) (loopState mode (some (2 ^ 32 - 1)) 0 dec) = .err .rTooManyIterations :=
  selfLoop_u32_max_limit mode (2 ^ 32 - 1) 0 dec (by omega)

/-- … and without a limit the counter saturates instead of overflowing: however long the loop
runs, the evaluator does not panic (only the Model's fuel runs out). -/
theorem iter_counter_saturates (mode : Mode) (fuel it dec : Nat) :
    evaluateInternal fuel (loopState mode none it dec) = .diverge :=
  selfLoop_no_limit_never_panics mode fuel it dec

/-- a looping program: the limit error, not a hang (`DW_OP_skip -3` forever, limit 5) -/
example :
    (Eval.new .little ⟨4, .dwarf32, 4⟩ {} .debug [0x2f, 0xfd, 0xff] none none (some 5)).bind
      (fun s => (evaluate 7 s).1.map (·.1)) = .err .rTooManyIterations := by decide

/-! ## (6) storage capacity -/

/-- **`stack_capacity`** (local). `push` on a fixed-capacity stack is `StackFull` exactly when the
stack already holds `n` values; otherwise it pushes. -/
theorem stack_full_iff (c : Config) (v : Value) (m : Mach) :
    push c v m = .err .rStackFull ↔ ∃ n, c.caps.stack = some n ∧ n ≤ m.stack.length :=
  push_full_iff c v m

/-- **`stack_capacity`** (global). Running with fixed capacities (value stack, expression stack,
result pieces) gives exactly what the heap-backed evaluator gives on the same state — same request,
same machine, same counters — or `StackFull`; capacities change nothing else. -/
theorem stack_capacity (fuel : Nat) (s : Eval) :
    (evaluateInternal fuel s).map heapRes = .err .rStackFull ∨
      (evaluateInternal fuel s).map heapRes = (evaluateInternal fuel (heapState s)).map heapRes :=
  evaluateInternal_cap fuel s

/-- **`stack_capacity`** (invariant). The value stack of a fixed-capacity evaluator never holds more
than `n` values: every state `evaluate` / `resume_with_*` return satisfies the bound if the state
they start from does (a fresh evaluator has an empty stack). Together with `stack_full_iff`:
`StackFull` is returned exactly at the pushes that would take the stack beyond `n`. -/
theorem stack_within_capacity (fuel : Nat) (s : Eval) (r : Request) (s' : Eval) (h0 : StackOk s.cfg s.m) :
    (evaluateInternal fuel s = .ok (r, s') → StackOk s'.cfg s'.m) ∧
    (∀ a, resume fuel a s = .ok (r, s') → StackOk s'.cfg s'.m) :=
  ⟨fun h => (evaluateInternal_stackOk fuel s r s' h0 h).2, fun a h => (resume_stackOk fuel a s r s' h0 h).2⟩

/-- four pushes into `[Value; 3]` -/
example :
    (Eval.new .little ⟨4, .dwarf32, 4⟩ { stack := some 3 } .debug [0x30, 0x31, 0x32, 0x33] none none none).bind
      (fun s => (evaluate 9 s).1.map (·.1)) = .err .rStackFull := by decide

/-! ## (5) whole evaluations -/

/-- **`eval_refines`** (partial — see below). Take any expression `code` (shorter than `2^63`
bytes), byte order, encoding with address size `a ∈ {1,2,4,8}`, optional initial value and object
address, any script `toks` of resume answers (`TokOk`: integer values that fit their type, any
called expressions shorter than `2^63` bytes) and any fuel. Run the Model evaluator from `Evaluation::new` (heap storage, no
iteration limit) through `evaluate()` and one `resume_with_*` per request, and run the Spec
machine (`Spec/Machine.lean`: mathematical integers, generic values modulo `2^(8a)`, pc as an
offset, return stack, `OpTable` decode) on the same script. Then (`RunRel`), unless the Spec run
reaches a point it leaves unspecified:

* both produce **the same requests in the same order** — register, memory (address, size, address
  space, base type), frame base, CFA, TLS, base type, address index (with the relocate flag),
  entry value, parameter reference, called DIE: exactly what the operation names — and continue
  identically from each answer;
* both **end the same way** (`FinRel`): the same named error (`DivisionByZero`, `BadBranchTarget`,
  `NotEnoughStackItems`, `InvalidPiece`, `InvalidExpressionTerminator`, type errors, …), or
  completion with the same pieces (sizes, bit offsets, locations; values and addresses inside them
  equal *modulo the address size* for generic values and exactly for typed ones) and the same
  value result; or both ran out of the same fuel / script.

Typed values are inside: `DW_OP_const_type`, `DW_OP_convert`, `DW_OP_reinterpret`,
`DW_OP_regval_type`, `DW_OP_deref_type` with integer base types and typed integer answers.

PARTIAL: only floating point values are excluded (float answers, float base types: there the Spec
says `unspecified` and the theorem claims nothing); every operation on integers, including the
shifts, is covered. Fixed-capacity storage and the iteration limit are related to this run by
`stack_capacity` and `iter_limit`. The full statement drops "unless unspecified" and the
storage / limit restrictions. -/
theorem eval_refines_partial (a : Nat) (ha : AddrSize a) (e : Endian) (enc : Encoding)
    (henc : enc.addressSize = a) (mode : Mode) (code : Bytes) (hlen : code.length < 2 ^ 63)
    (init obj : Option Nat) (hinit : ∀ v, init = some v → v < 2 ^ 64) (hobj : ∀ v, obj = some v → v < 2 ^ 64)
    (fuel : Nat) (toks : List Eval.Tok) (htoks : ∀ t ∈ toks, TokOk t)
    (s : Eval)
    (hnew : Eval.new e enc {} mode code init obj none = .ok s) :
    RunRel a (Eval.run fuel toks s)
      (Spec.Machine.runAll ⟨e, enc, obj⟩ fuel (absScript a toks) code init) :=
  Sim.run_refines a ha e enc henc mode code hlen init obj hinit hobj fuel toks htoks s hnew

/-- the Spec machine is not vacuous: a program with a loop (`lit5; L: lit1 minus dup bra L`), a
register request (`breg0 2`), arithmetic and a `stack_value` location is inside the fragment and
evaluates to the value 9 after one request -/
example :
    Spec.Machine.runAll ⟨.little, ⟨4, .dwarf32, 4⟩, none⟩ 40 [fun _ => .register ⟨.generic, 7⟩]
      [0x35, 0x31, 0x1c, 0x12, 0x28, 0xfa, 0xff, 0x70, 0x02, 0x22, 0x9f] none
      = ([.requiresRegister 0 0, .complete], .done [⟨none, none, .value ⟨.generic, 9⟩⟩] none) := by decide

/-- the former witness of finding C07-1 (`lit1; const4u 0xfffffffd; not; shl`, 4-byte addresses) is
inside the fragment now and evaluates to 4 -/
example :
    Spec.Machine.runAll ⟨.little, ⟨4, .dwarf32, 4⟩, none⟩ 10 [] [0x31, 0x0c, 0xfd, 0xff, 0xff, 0xff, 0x20, 0x24] none
      = ([.complete], .done [⟨none, none, .address 4⟩] (some ⟨.generic, 4⟩)) := by decide

/-- one step of the simulation, for reference: every operation of the fragment, on related
machines, has related effects (`Sim.exec_sim`), e.g. a taken branch lands on the same offset -/
example (a : Nat) (c : Config) (sc : Spec.Machine.SCfg) (hc : Sim.CfgRel a c sc) (op : Operation)
    (hop : OpOk op) (m : Mach) (st : Spec.Machine.SState) (h : Sim.R a m st) :
    Sim.Sim (Sim.EffRel a) (Eval.execute c op m) (Spec.Machine.exec sc op st) :=
  Sim.exec_sim a c sc hc op hop m st h

end Gimli.Props.C07
