import Gimli.Lemmas.Value
import Gimli.Lemmas.OpTotal
import Gimli.Lemmas.Capacity
import Gimli.Lemmas.SimRun
import Gimli.Lemmas.IterWrap
import Gimli.Lemmas.RunLimit
/-!
# C07 — Expression decoding and evaluation equal the DWARF stack machine

Property theorems only (helper lemmas: `Gimli/Lemmas/{Value,OpDecode,OpTotal,Eval,Capacity}.lean`).
Every theorem is about the Model functions of `Gimli/Model/{Value,Op,Eval}.lean` — the functions the
driver (`Gimli/Drv/C07.lean`) executes in the correspondence run against `src/read/{value,op,util}.rs`.
The Spec side is `Gimli/Spec/{Expr,OpTable}.lean`.

Quantifiers: every byte string, every encoding (address size / format / version / byte order),
every value and mask of the stated shape, every fuel, every evaluator state, every script of
resume answers.
-/
namespace Gimli.Props.C07
open Gimli Gimli.Op Gimli.Eval Gimli.Value Gimli.Spec.Expr
open Gimli.Sim (RunRel FinRel TokOk absScript absPiece)

/-! ## (1) value arithmetic -/

/-- **`value_refines`.** For every address size `a ∈ {1,2,4,8}` (mask `2^(8a)-1`), every binary
`Value` operation other than the shifts and all integer operands (generic or typed, stored patterns
arbitrary — generic operands may carry garbage above the address size): the Model result, read
*modulo `2^(8a)`* for generic values and *exactly* for typed ones (`absV`), is the Spec result on the
abstracted operands — including the error cases (`DivisionByZero` before `TypeMismatch`,
`TypeMismatch`, …), which are equal as `Out` values. `WF y`: the stored pattern fits its Rust type. -/
theorem value_refines (a : Nat) (ha : AddrSize a) (op : BinOp) (hop : ¬ IsShift op) (x y : Value)
    (ix : IsInt x) (hy : WF y) :
    (binaryOf op x y (maskOf a)).map (absV a) = binary a op (absV a x) (absV a y) :=
  binary_refines a ha op x y ix hy (fun h => absurd h hop)

/-- **Shifts** (`shl`, `shr`, `shra`): the same statement under the additional hypothesis that a
*generic* shift count is stored without bits above the address size (`CountMasked`).
PARTIAL: without that hypothesis the statement is false — `Value::shift_length` does not mask a
generic count (finding C07-1, `shift_count_unmasked_counterexample` below). The full statement is
`value_refines` with `hop` dropped. -/
theorem value_refines_shift_partial (a : Nat) (ha : AddrSize a) (op : BinOp) (x y : Value)
    (ix : IsInt x) (hy : WF y) (hc : CountMasked a y) :
    (binaryOf op x y (maskOf a)).map (absV a) = binary a op (absV a x) (absV a y) :=
  binary_refines a ha op x y ix hy (fun _ => hc)

/-- the witness of finding C07-1 on a 4-byte target: `1 << Generic(2^32 + 2)`; the count is `2`
modulo the address size, the Spec result is `4`, the Model (= `value.rs`) result is `0`. -/
theorem shift_count_unmasked_counterexample :
    (Value.shl ⟨.generic, 1⟩ ⟨.generic, 2 ^ 32 + 2⟩ (maskOf 4)).map (absV 4) = .ok ⟨.generic, 0⟩ ∧
      binary 4 .shl (absV 4 ⟨.generic, 1⟩) (absV 4 ⟨.generic, 2 ^ 32 + 2⟩) = .ok ⟨.generic, 4⟩ := by
  constructor <;> decide

/-- **Unary operations** `abs`, `neg`, `not`: same refinement, same error cases
(`neg` of an unsigned type is `UnsupportedTypeOperation`). -/
theorem value_refines_unary (a : Nat) (ha : AddrSize a) (op : UnOp) (x : Value) (ix : IsInt x) (hx : WF x) :
    (unaryOf op x (maskOf a)).map (absV a) = unary a op (absV a x) :=
  unary_refines a ha op x ix hx

/-- **`DW_OP_convert`** between integer types: the Model result denotes the Spec value wrapped
into the target type (generic source read modulo the address size, signed sources sign extended). -/
theorem value_refines_convert (a : Nat) (ha : AddrSize a) (v : Value) (hv : VOk v) (t : ValueType)
    (ht : t.kind ≠ .float) :
    ∃ r, v.convert t (maskOf a) = .ok r ∧ absV a r = convertInt a (absV a v) t ∧ VOk r :=
  Sim.convert_refines a ha v hv t ht

/-- **`DW_OP_reinterpret`** between integer types: `TypeMismatch` exactly when the sizes differ
(the generic type has the address size), otherwise the same bits read in the target type. -/
theorem value_refines_reinterpret (a : Nat) (ha : AddrSize a) (v : Value) (hv : VOk v) (t : ValueType)
    (ht : t.kind ≠ .float) :
    Sim.Sim (fun r sr => sr = absV a r ∧ VOk r) (v.reinterpret t (maskOf a)) (reinterpretInt a (absV a v) t) :=
  Sim.reinterpret_refines a ha v hv t ht

/-- `sign_extend(value, mask)` is the two's complement reading of the low `8a` bits
(the xor / subtract trick of `value.rs`, proved without `bv_decide`). -/
theorem sign_extend_spec (a : Nat) (ha : AddrSize a) (x : Nat) :
    signExtend x (maskOf a) = smod (8 * a) (x : Int) := by
  rw [signExtend_mask a ha, sval_eq_smod]

/-! ## (2) decoding -/

/-- **`decode_matches_table`.** For every byte string, byte order and encoding,
`Operation::parse` is the table-driven Spec decode: opcode ↦ operand kinds (`OpTable.signature`, the
256-row table), operands laid out per kind (`readOperands`: sizes from the encoding, v2
`DW_OP_implicit_pointer` address sized, `DW_OP_piece` in bits or `InvalidPiece`), then the operation
the opcode denotes (`meaning`). Same value, same bytes consumed, same error. -/
theorem decode_matches_table (e : Endian) (enc : Encoding) (bs : Bytes) :
    Op.parse e enc bs = Spec.OpTable.decode e enc bs :=
  parse_eq_decode e enc bs

/-- the operand signature of an opcode is what the table says, e.g. the rows the unit tests of
`op.rs` never reach together -/
example : Spec.OpTable.signature 0xa4 = some [.uleb, .block1] ∧ Spec.OpTable.signature 0x92 = some [.reg, .sleb] ∧
    Spec.OpTable.signature 0xf1 = none := by decide

/-- **(7) `decode_total`.** Decoding any byte string returns a value or a gimli error: never a
panic, never fuel exhaustion. -/
theorem decode_total (e : Endian) (enc : Encoding) (bs : Bytes) : (Op.parse e enc bs).Normal :=
  parse_normal e enc bs

/-! ## (3) branches -/

/-- **`branch_in_bounds`.** `compute_pc` with a 16-bit target: the new pc is `bytecode[t..]` for the
mathematical target `t = (offset of the following operation) + target` when `0 ≤ t ≤ len`, and
`BadBranchTarget` otherwise (the wrapping `usize` addition can not smuggle a negative target in).
`hpc`/`hlen`: the pc is inside the expression, which is shorter than `2^63` bytes. -/
theorem branch_in_bounds (pc bc : Bytes) (target : Int) (ht : -2 ^ 15 ≤ target ∧ target < 2 ^ 15)
    (hlen : bc.length < 2 ^ 63) (hpc : pc.length ≤ bc.length) :
    computePc pc bc target =
      (let t : Int := ((bc.length - pc.length : Nat) : Int) + target
       if 0 ≤ t ∧ t ≤ bc.length then .ok (bc.drop t.toNat) else .err .rBadBranchTarget) :=
  computePc_spec pc bc target ht hlen hpc

/-- in particular whatever `compute_pc` returns is a suffix of the bytecode at an offset in `[0, len]` -/
theorem branch_target_suffix (pc bc pc' : Bytes) (target : Int) (h : computePc pc bc target = .ok pc') :
    ∃ k, k ≤ bc.length ∧ pc' = bc.drop k := by
  unfold computePc at h
  simp only [] at h
  split at h
  · cases h
  · next hle => cases h; exact ⟨_, Nat.le_of_not_gt hle, rfl⟩

/-! ## (4) iteration limit -/

/-- **`iter_limit`** (bound). With `max_iterations = m` (`m + 1 < 2^32`, see
`iter_limit_u32_max_partial`), from any state whose counter is within the limit, any call that
returns (`Complete` or a `Requires*`) leaves the counter within the limit, never decreases it, and
has decoded at most two operations per iteration (one `evaluate_one_operation` per iteration plus
at most one extra decode after a location-completing operation). The counter is part of the state,
so the bound is on the total over `evaluate()` and every later `resume_with_*`. -/
theorem iter_limit (m : Nat) (hm : m + 1 < 2 ^ 32) (fuel : Nat) (s : Eval) (r : Request) (s' : Eval)
    (hmax : s.cfg.maxIterations = some m) (hit : s.iteration ≤ m)
    (h : evaluateInternal fuel s = .ok (r, s')) :
    s'.cfg = s.cfg ∧ s.iteration ≤ s'.iteration ∧ s'.iteration ≤ m ∧
      s'.decodes - s.decodes ≤ 2 * (s'.iteration - s.iteration) := by
  obtain ⟨h1, h2, h3, h4⟩ := evalInternal_bound m hm fuel s r s' hmax hit h
  exact ⟨h1, h2, h3, by omega⟩

/-- **`iter_limit`** (no looping). With the limit set, `m + 2` iterations of fuel counted from the
current counter always suffice: the call returns a result or an error (`TooManyIterations` when
the program needs more), never runs on and never panics. -/
theorem iter_limit_terminates (m : Nat) (hm : m + 1 < 2 ^ 32) (fuel : Nat) (s : Eval)
    (hmax : s.cfg.maxIterations = some m) (hit : s.iteration ≤ m) (hf : m + 2 ≤ fuel + s.iteration) :
    (evaluateInternal fuel s).Normal :=
  evalInternal_terminates m hm fuel s hmax hit hf

/-- **`iter_limit`** over any sequence of resume answers. A whole run — `evaluate()`, then one
`resume_with_*` per request, answers from an arbitrary script `toks` — of an evaluator with
`max_iterations = m`, given `m + 2` fuel per call: never runs out of fuel (it ends with a result,
`TooManyIterations` or another error, or at the end of the script), and the state it ends in has
executed at most `m` operations in total (`iteration ≤ m`) and decoded at most two per iteration. -/
theorem iter_limit_run (m : Nat) (hm : m + 1 < 2 ^ 32) (fuel : Nat) (hf : m + 2 ≤ fuel) (toks : List Tok) (s : Eval)
    (hmax : s.cfg.maxIterations = some m) (hit : s.iteration ≤ m) :
    (run fuel toks s).2.1 ≠ .diverged ∧
      ∀ e, (run fuel toks s).2.2 = some e →
        e.iteration ≤ m ∧ e.decodes - s.decodes ≤ 2 * (e.iteration - s.iteration) := by
  obtain ⟨h1, h2⟩ := run_limit m hm fuel hf toks s hmax hit
  refine ⟨h1, fun e he => ?_⟩
  obtain ⟨h3, h4⟩ := h2 e he
  exact ⟨h3, by omega⟩

/-- **`iter_limit` is false for `max_iterations = u32::MAX`** (finding C07-2; the reason for the
hypothesis `m + 1 < 2^32` above). On the endless loop `DW_OP_skip -3` with that limit, in a build
without overflow checks the evaluator never reports the limit, whatever the fuel: the `u32` counter
wraps from `u32::MAX` to 0. -/
theorem iter_limit_u32_max_counterexample (fuel it dec : Nat) (hit : it < 2 ^ 32) :
    evaluateInternal fuel (loopState .release it dec) = .diverge :=
  selfLoop_release_never_stops fuel it dec hit

/-- … and in a build with overflow checks the increment panics after `u32::MAX` iterations
(observed on the real crate at `src/read/op.rs:2024`). -/
theorem iter_limit_u32_max_panics (dec : Nat) :
    evaluateInternal ((2 ^ 32 - 1) + 1) (loopState .debug 0 dec) = .panic "attempt to add with overflow" :=
  selfLoop_debug_panics (2 ^ 32 - 1) 0 dec (by omega)

/-- a looping program: the limit error, not a hang (`DW_OP_skip -3` forever, limit 5) -/
example :
    (Eval.new .little ⟨4, .dwarf32, 4⟩ {} .debug [0x2f, 0xfd, 0xff] none none (some 5)).bind
      (fun s => (evaluate 7 s).1.map (·.1)) = .err .rTooManyIterations := by decide

/-! ## (6) storage capacity -/

/-- **`stack_capacity`** (local). `push` on a fixed-capacity stack is `StackFull` exactly when the
stack already holds `n` values; otherwise it pushes. -/
theorem stack_full_iff (c : Config) (v : Value) (m : Mach) :
    push c v m = .err .rStackFull ↔ ∃ n, c.caps.stack = some n ∧ n ≤ m.stack.length :=
  push_full_iff c v m

/-- **`stack_capacity`** (global). Running with fixed capacities (value stack, expression stack,
result pieces) gives exactly what the heap-backed evaluator gives on the same state — same request,
same machine, same counters — or `StackFull`; capacities change nothing else. -/
theorem stack_capacity (fuel : Nat) (s : Eval) :
    (evaluateInternal fuel s).map heapRes = .err .rStackFull ∨
      (evaluateInternal fuel s).map heapRes = (evaluateInternal fuel (heapState s)).map heapRes :=
  evaluateInternal_cap fuel s

/-- four pushes into `[Value; 3]` -/
example :
    (Eval.new .little ⟨4, .dwarf32, 4⟩ { stack := some 3 } .debug [0x30, 0x31, 0x32, 0x33] none none none).bind
      (fun s => (evaluate 9 s).1.map (·.1)) = .err .rStackFull := by decide

/-! ## (5) whole evaluations -/

/-- **`eval_refines`** (partial — see below). Take any expression `code` (shorter than `2^63`
bytes), byte order, encoding with address size `a ∈ {1,2,4,8}`, optional initial value and object
address, any script `toks` of resume answers (`TokOk`: integer values that fit their type, any
called expressions shorter than `2^63` bytes) and any fuel (`hfuel`: the `u32` iteration counter
cannot wrap within the run). Run the Model evaluator from `Evaluation::new` (heap storage, no
iteration limit) through `evaluate()` and one `resume_with_*` per request, and run the Spec
machine (`Spec/Machine.lean`: mathematical integers, generic values modulo `2^(8a)`, pc as an
offset, return stack, `OpTable` decode) on the same script. Then (`RunRel`), unless the Spec run
reaches a point it leaves unspecified:

* both produce **the same requests in the same order** — register, memory (address, size, address
  space, base type), frame base, CFA, TLS, base type, address index (with the relocate flag),
  entry value, parameter reference, called DIE: exactly what the operation names — and continue
  identically from each answer;
* both **end the same way** (`FinRel`): the same named error (`DivisionByZero`, `BadBranchTarget`,
  `NotEnoughStackItems`, `InvalidPiece`, `InvalidExpressionTerminator`, type errors, …), or
  completion with the same pieces (sizes, bit offsets, locations; values and addresses inside them
  equal *modulo the address size* for generic values and exactly for typed ones) and the same
  value result; or both ran out of the same fuel / script.

Typed values are inside: `DW_OP_const_type`, `DW_OP_convert`, `DW_OP_reinterpret`,
`DW_OP_regval_type`, `DW_OP_deref_type` with integer base types and typed integer answers.

PARTIAL. Not covered (the Spec says `unspecified`, the theorem then claims nothing): the shifts
`DW_OP_shl/shr/shra` (finding C07-1: the Model, like `value.rs`, uses an unmasked generic count)
and floating point values (float answers, float base types). Fixed-capacity storage and the
iteration limit are related to this run by `stack_capacity` and `iter_limit`.
The full statement drops "unless unspecified" and the storage / limit restrictions. -/
theorem eval_refines_partial (a : Nat) (ha : AddrSize a) (e : Endian) (enc : Encoding)
    (henc : enc.addressSize = a) (mode : Mode) (code : Bytes) (hlen : code.length < 2 ^ 63)
    (init obj : Option Nat) (hinit : ∀ v, init = some v → v < 2 ^ 64) (hobj : ∀ v, obj = some v → v < 2 ^ 64)
    (fuel : Nat) (toks : List Eval.Tok) (htoks : ∀ t ∈ toks, TokOk t)
    (hfuel : (toks.length + 1) * fuel < 2 ^ 32) (s : Eval)
    (hnew : Eval.new e enc {} mode code init obj none = .ok s) :
    RunRel a (Eval.run fuel toks s)
      (Spec.Machine.runAll ⟨e, enc, obj⟩ fuel (absScript a toks) code init) :=
  Sim.run_refines a ha e enc henc mode code hlen init obj hinit hobj fuel toks htoks hfuel s hnew

/-- the Spec machine is not vacuous: a program with a loop (`lit5; L: lit1 minus dup bra L`), a
register request (`breg0 2`), arithmetic and a `stack_value` location is inside the fragment and
evaluates to the value 9 after one request -/
example :
    Spec.Machine.runAll ⟨.little, ⟨4, .dwarf32, 4⟩, none⟩ 40 [fun _ => .register ⟨.generic, 7⟩]
      [0x35, 0x31, 0x1c, 0x12, 0x28, 0xfa, 0xff, 0x70, 0x02, 0x22, 0x9f] none
      = ([.requiresRegister 0 0, .complete], .done [⟨none, none, .value ⟨.generic, 9⟩⟩] none) := by decide

/-- one step of the simulation, for reference: every operation of the fragment, on related
machines, has related effects (`Sim.exec_sim`), e.g. a taken branch lands on the same offset -/
example (a : Nat) (c : Config) (sc : Spec.Machine.SCfg) (hc : Sim.CfgRel a c sc) (op : Operation)
    (hop : OpOk op) (m : Mach) (st : Spec.Machine.SState) (h : Sim.R a m st) :
    Sim.Sim (Sim.EffRel a) (Eval.execute c op m) (Spec.Machine.exec sc op st) :=
  Sim.exec_sim a c sc hc op hop m st h

end Gimli.Props.C07
