import Gimli.Model.Attr
/-! # C03 — placeholder while the correspondence is brought up (replaced below) -/
namespace Gimli.Props.C03
open Gimli Gimli.Attr

theorem size_implicit_const (enc : Encoding) : getAttributeSize .implicitConst enc = some 0 := rfl

end Gimli.Props.C03
