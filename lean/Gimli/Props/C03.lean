import Gimli.Lemmas.Attr
import Gimli.Lemmas.AttrNormal
import Gimli.Lemmas.AttrRoundtrip
import Gimli.Lemmas.AttrConverse
import Gimli.Lemmas.AttrIndirect
/-!
# C03 — Every attribute form decodes to its DWARF value; skipping equals reading

Property theorems only (helper lemmas: `Gimli/Lemmas/Attr*.lean`). Every theorem is about the
Model functions of `Gimli/Model/Attr.lean` — `parseAttribute` (`parse_attribute`),
`readAttributes` (`EntriesRaw::read_attributes`), `skipAttributes` (`skip_attributes`),
`getAttributeSize` (`get_attribute_size`), `normalise` (`Attribute::value`) — which the
correspondence run ties to `src/read/unit.rs` / `src/read/abbrev.rs` on every check.

Quantifiers: every encoding (either byte order, any address size, both formats, any version),
every attribute name, every form (the 47 known ones and every unknown code), every list of
attribute specifications, every byte string.
-/
namespace Gimli.Props.C03
open Gimli Gimli.Attr Gimli.Ints Gimli.Spec.Attr

/-! ## (1) the advertised fixed size of a form equals what reading consumes -/

/-- **`fixed_size_exact`.** Whenever `get_attribute_size(form, encoding)` advertises `n` bytes,
every successful read of an attribute of that form consumes exactly the first `n` bytes of the
input — for every form, encoding, attribute name and input. (Finite case analysis over the
forms; `DW_FORM_addr`, `DW_FORM_ref_addr` and the offset-sized forms depend on the encoding.) -/
theorem fixed_size_exact (enc : Encoding) (spec : Spec) (bs : Bytes) (v : Value) (rest : Bytes)
    (n : Nat) (hsz : getAttributeSize spec.form enc = some n)
    (h : parseAttribute enc spec bs = .ok (v, rest)) :
    n ≤ bs.length ∧ rest = bs.drop n := by
  have hni : spec.form ≠ .indirect := by
    intro hi; rw [hi, getAttributeSize_indirect] at hsz; simp at hsz
  unfold parseAttribute at h
  rw [parseLoop_succ_direct _ _ _ _ _ hni] at h
  exact parseDirect_fixed hsz h

/-! ## (2) skipping consumes exactly the bytes that reading consumes -/

/-- **`skip_eq_read` (main theorem).** For every list of attribute specifications, every encoding
and every input: if reading all the attributes succeeds and leaves `rest`, then
`skip_attributes` succeeds and leaves the same `rest`. (Induction over the specification list,
generalised over the pending `skip_bytes`, see `skipLoop_of_readAttributes`; covers fixed sizes
that are accumulated across several attributes, blocks, strings, LEB128 numbers and nested
`DW_FORM_indirect`.) -/
theorem skip_eq_read (enc : Encoding) (specs : List Spec) (bs : Bytes) (vs : List Value)
    (rest : Bytes) (h : readAttributes enc specs bs = .ok (vs, rest)) :
    skipAttributes enc specs bs = .ok rest :=
  skipLoop_of_readAttributes enc specs 0 bs vs rest (Nat.zero_le _) (by simpa using h)

/-- the same from any intermediate state of the skipper: `pending` bytes still to be skipped
stand for the input `pending` bytes further on -/
theorem skip_eq_read_pending (enc : Encoding) (specs : List Spec) (pending : Nat) (bs : Bytes)
    (vs : List Value) (rest : Bytes) (hp : pending ≤ bs.length)
    (h : readAttributes enc specs (bs.drop pending) = .ok (vs, rest)) :
    skipLoop enc specs pending bs = .ok rest :=
  skipLoop_of_readAttributes enc specs pending bs vs rest hp h

/-- corollary: when both succeed they agree on the position -/
theorem skip_read_same_position (enc : Encoding) (specs : List Spec) (bs : Bytes) (vs : List Value)
    (r₁ r₂ : Bytes) (hr : readAttributes enc specs bs = .ok (vs, r₁))
    (hs : skipAttributes enc specs bs = .ok r₂) : r₁ = r₂ := by
  rw [skip_eq_read enc specs bs vs r₁ hr] at hs
  simpa using hs

/-- **`skip_err_of_read_err`: the converse direction as far as it is true.** If reading all the
attributes fails with an error that is not *read-only* (`ReadOnlyErr`: over-long or overflowing
LEB128, `DW_FORM_indirect → DW_FORM_implicit_const`, an address size outside 1/2/4/8 — things
the skipper never looks at), then `skip_attributes` fails with the same error. -/
theorem skip_err_of_read_err (enc : Encoding) (specs : List Spec) (bs : Bytes) (x : Err)
    (h : readAttributes enc specs bs = .err x) (hx : ¬ ReadOnlyErr x) :
    skipAttributes enc specs bs = .err x :=
  skipLoop_err_of_readAttributes_err enc specs 0 bs x (Nat.zero_le _) (by simpa using h) hx

/-- in particular **skipping never succeeds where reading runs out of input**: the bytes a
successful skip passes over are all there -/
theorem skip_eof_of_read_eof (enc : Encoding) (specs : List Spec) (bs : Bytes)
    (h : readAttributes enc specs bs = .err .rUnexpectedEof) :
    skipAttributes enc specs bs = .err .rUnexpectedEof :=
  skip_err_of_read_err enc specs bs _ h (by simp [ReadOnlyErr])

/-- **`skip_ok_read_cases`: the exact converse.** When `skip_attributes` succeeds with rest `r`,
reading either succeeds with the same `r`, or fails with one of the read-only errors — nothing
else is possible. (The two witnesses below show that the second case does occur.) -/
theorem skip_ok_read_cases (enc : Encoding) (specs : List Spec) (bs r : Bytes)
    (h : skipAttributes enc specs bs = .ok r) :
    (∃ vs, readAttributes enc specs bs = .ok (vs, r)) ∨
      (∃ x, readAttributes enc specs bs = .err x ∧ ReadOnlyErr x) := by
  have hn := readAttributes_normal enc specs bs
  cases hr : readAttributes enc specs bs with
  | ok p =>
    obtain ⟨vs, r'⟩ := p
    have := skip_eq_read enc specs bs vs r' hr
    rw [h] at this
    simp only [Out.ok.injEq] at this
    exact Or.inl ⟨vs, by rw [this]⟩
  | err x =>
    refine Or.inr ⟨x, rfl, ?_⟩
    refine Classical.byContradiction fun hx => ?_
    rw [skip_err_of_read_err enc specs bs x hr hx] at h
    simp at h
  | panic w => rw [hr] at hn; simp [Out.Normal] at hn
  | diverge => rw [hr] at hn; simp [Out.Normal] at hn

/-- **The known asymmetry of the converse** (still present at HEAD): `DW_FORM_indirect` resolving
to `DW_FORM_implicit_const` is rejected by reading (`InvalidImplicitConst`: the abbreviation
carries no constant for an indirect form) but accepted — as zero bytes — by skipping. The input
is malformed DWARF (outside the property's quantifier); recorded, not a finding. -/
theorem indirect_implicit_const_asymmetry :
    let enc : Encoding := { endian := .little, addressSize := 8, format := .dwarf32, version := 5 }
    let spec : Spec := { name := 0x03, form := .indirect }
    readAttributes enc [spec] [0x21, 0xaa] = .err .rInvalidImplicitConst ∧
      skipAttributes enc [spec] [0x21, 0xaa] = .ok [0xaa] := by
  decide

/-- second asymmetry: the LEB128 forms are skipped with `skip_leb128`, which does not look at
the value, so an over-long number is rejected by reading and passed over by skipping -/
theorem overlong_leb_asymmetry :
    let enc : Encoding := { endian := .little, addressSize := 8, format := .dwarf32, version := 5 }
    let spec : Spec := { name := 0x0b, form := .udata }
    let bs : Bytes := [0x80, 0x80, 0x80, 0x80, 0x80, 0x80, 0x80, 0x80, 0x80, 0x80, 0x00, 0xaa]
    readAttributes enc [spec] bs = .err .rBadUnsignedLeb128 ∧ skipAttributes enc [spec] bs = .ok [0xaa] := by
  decide

/-! ## (3) every form decodes to the value DWARF assigns to it -/

/-- **`form_value_roundtrip`.** For every form with a value of its own (all but
`DW_FORM_indirect`, see `indirect_roundtrip`): if `bytes` is the DWARF encoding of a value with
payload `p` in form `spec.form` under `enc` (`Spec.Attr.encodeForm`: any address size 1/2/4/8,
both formats, both byte orders, any version incl. the address-sized `DW_FORM_ref_addr` of
version 2, the three-byte `strx3/addrx3`, signed and unsigned LEB128, blocks and strings of any
length, implicit constants), then decoding `bytes` followed by anything yields exactly that
payload, in the value class DWARF assigns to the form (`rawKind`, incl. the legacy `data4/data8`
section-offset classes), and leaves exactly what followed — i.e. reading advances by the
encoded size. -/
theorem form_value_roundtrip (enc : Encoding) (spec : Spec) (p : Payload) (bytes rest : Bytes)
    (henc : encodeForm enc spec.form p = some bytes)
    (himp : spec.form = .implicitConst → p = .int spec.implicitConst) :
    parseAttribute enc spec (bytes ++ rest) = .ok (⟨rawKind enc spec.name spec.form, p⟩, rest) := by
  have hni : spec.form ≠ .indirect := by
    intro hi; rw [hi] at henc; simp [encodeForm] at henc
  unfold parseAttribute
  rw [parseLoop_succ_direct _ _ _ _ _ hni]
  exact parseDirect_roundtrip enc spec spec.form p bytes rest henc (fun h => ⟨h, himp h⟩)

/-- **`read_attributes_roundtrip`**: the list version — the attribute values of an entry,
encoded one after the other, read back as exactly those values in order, and the reader stops
exactly behind them. (This is the hypothesis under which C02 reads a forest: `ForestOK`.) -/
theorem read_attributes_roundtrip (enc : Encoding) : ∀ (sps : List (Spec × Payload)) (bytes rest : Bytes),
    encodeAttrs enc sps = some bytes →
    (∀ sp ∈ sps, sp.1.form = .implicitConst → sp.2 = .int sp.1.implicitConst) →
    readAttributes enc (sps.map (·.1)) (bytes ++ rest) =
      .ok (sps.map (fun sp => ⟨rawKind enc sp.1.name sp.1.form, sp.2⟩), rest) := by
  intro sps
  induction sps with
  | nil =>
    intro bytes rest h _
    simp only [encodeAttrs, Option.some.injEq] at h
    subst h; rfl
  | cons sp sps ih =>
    intro bytes rest h himp
    obtain ⟨s, p⟩ := sp
    simp only [encodeAttrs] at h
    cases h1 : encodeForm enc s.form p with
    | none => rw [h1] at h; simp at h
    | some b =>
      cases h2 : encodeAttrs enc sps with
      | none => rw [h1, h2] at h; simp at h
      | some bs =>
        rw [h1, h2] at h
        simp only [Option.some.injEq] at h
        subst h
        simp only [List.map_cons, readAttributes, List.append_assoc]
        rw [form_value_roundtrip enc s p b (bs ++ rest) h1 (himp (s, p) (by simp))]
        simp only [Out.bind_ok]
        rw [ih bs rest h2 (fun x hx => himp x (by simp [hx]))]
        rfl

/-- **`indirect_roundtrip`.** `DW_FORM_indirect`, nested to any depth: the attribute is written
as `k` times the code of `DW_FORM_indirect` (k ≥ 0), the ULEB128 code of the real form, and that
form's encoding. Decoding yields the real form's value and class and consumes exactly those
bytes — for every known real form except `DW_FORM_implicit_const`, which is not valid behind
`DW_FORM_indirect` (the abbreviation holds no constant for it, see
`indirect_implicit_const_asymmetry`). -/
theorem indirect_roundtrip (enc : Encoding) (spec : Spec) (hsp : spec.form = .indirect)
    (k : Nat) (form : Form) (p : Payload) (bytes rest : Bytes)
    (henc : encodeForm enc form p = some bytes) (hic : form ≠ .implicitConst) :
    parseAttribute enc spec (indirectPrefix k form ++ bytes ++ rest) =
      .ok (⟨rawKind enc spec.name form, p⟩, rest) := by
  have hni : form ≠ .indirect := by intro hi; rw [hi] at henc; simp [encodeForm] at henc
  have hk : form.Known := by
    cases form <;> first | trivial | (simp [encodeForm] at henc)
  have hl := indirectPrefix_length k form
  unfold parseAttribute
  rw [hsp, List.append_assoc]
  obtain ⟨m, hm⟩ : ∃ m, (indirectPrefix k form ++ (bytes ++ rest)).length + 1 = k + 2 + m :=
    ⟨(indirectPrefix k form ++ (bytes ++ rest)).length + 1 - (k + 2), by
      simp only [List.length_append] at hl ⊢; omega⟩
  rw [hm, parseLoop_indirect_chain enc spec form hk hni k m (bytes ++ rest)]
  exact parseDirect_roundtrip enc spec form p bytes rest henc (fun h => absurd h hic)

/-- and the encoded size is what the size table advertises, whenever it advertises one -/
theorem encoded_size_eq_advertised (enc : Encoding) (spec : Spec) (p : Payload) (bytes : Bytes) (n : Nat)
    (henc : encodeForm enc spec.form p = some bytes)
    (himp : spec.form = .implicitConst → p = .int spec.implicitConst)
    (hsz : getAttributeSize spec.form enc = some n) : bytes.length = n := by
  have h := form_value_roundtrip enc spec p bytes [] henc himp
  obtain ⟨h1, h2⟩ := fixed_size_exact enc spec _ _ _ n hsz h
  simp only [List.append_nil] at h1 h2
  have : (bytes.drop n).length = 0 := by rw [← h2]; rfl
  simp only [List.length_drop] at this
  omega

set_option linter.unusedSimpArgs false in
/-- **`legacy_offset_rule`.** `DW_FORM_data4` / `DW_FORM_data8`, exactly: the value is the
4 (8) bytes read in the unit's byte order, exactly 4 (8) bytes are consumed, and the class is
`SecOffset` precisely when the width is the offset size of the format and the attribute name is
one of the DWARF 2/3 section-offset attributes (`DW_AT_data_member_location` only in versions
2 and 3) — the name never changes the number or the size. -/
theorem legacy_offset_rule (enc : Encoding) (spec : Spec) (bs : Bytes)
    (hf : spec.form = .data4 ∨ spec.form = .data8) :
    parseAttribute enc spec bs =
      let n := if spec.form = .data4 then 4 else 8
      if bs.length < n then .err .rUnexpectedEof
      else .ok (⟨rawKind enc spec.name spec.form, .num (fromBytes enc.endian (bs.take n))⟩, bs.drop n) := by
  have h8 : ∀ b : Bytes, fromBytes enc.endian (List.take 8 b) < 2 ^ 64 := by
    intro b
    have := fromBytes_lt enc.endian (List.take 8 b)
    have hl : (List.take 8 b).length ≤ 8 := by simp [List.length_take]; omega
    have : 256 ^ (List.take 8 b).length ≤ 256 ^ 8 := Nat.pow_le_pow_right (by decide) hl
    have e : (256 : Nat) ^ 8 = 2 ^ 64 := by decide
    omega
  unfold parseAttribute
  rcases hf with hf | hf
  · rw [parseLoop_succ_direct _ _ _ _ _ (by rw [hf]; decide), hf]
    simp only [parseDirect, rawKind, readWord, readFixed_eq, if_true]
    by_cases hl : bs.length < 4
    · have : ¬ 4 ≤ bs.length := by omega
      split <;> simp [numV, hl, this]
    · have : 4 ≤ bs.length := by omega
      split <;> simp [numV, hl, this]
  · rw [parseLoop_succ_direct _ _ _ _ _ (by rw [hf]; decide), hf]
    simp only [parseDirect, rawKind, readWord, readFixed_eq, reduceCtorEq, if_false]
    by_cases hl : bs.length < 8
    · have : ¬ 8 ≤ bs.length := by omega
      split <;> simp [numV, hl, this]
    · have : 8 ≤ bs.length := by omega
      split <;> simp [numV, hl, this, offsetFromU64, h8]

/-! ## (4) name-based normalisation never changes the payload -/

/-- **`normalise_payload`.** For every attribute name and every raw value, `Attribute::value()`
denotes the same number (`numeric`), views the same bytes, and carries the same flag as
`raw_value()`: normalisation only re-labels the class (e.g. `Data1 → Encoding`,
`SecOffset → DebugLineRef`, `Block → Exprloc`, non-negative `Sdata → Udata`). -/
theorem normalise_payload (name : Nat) (v : Value) :
    (normalise name v).payload.numeric = v.payload.numeric ∧
      (normalise name v).payload.bytes? = v.payload.bytes? ∧
      (normalise name v).payload.flag? = v.payload.flag? :=
  findSome_same (rules name) v

/-- attribute names without a conversion rule are returned unchanged -/
theorem normalise_no_rule (name : Nat) (v : Value) (h : rules name = []) : normalise name v = v := by
  simp [normalise, h]

/-! ## (5) totality -/

/-- `parse_attribute` returns a value or an error for every input: no panic, and the
`DW_FORM_indirect` loop terminates (the supplied fuel, input length + 1, is never exhausted) -/
theorem parse_total (enc : Encoding) (spec : Spec) (bs : Bytes) : (parseAttribute enc spec bs).Normal :=
  parseAttribute_normal enc spec bs

/-- `EntriesRaw::read_attributes`, every specification list -/
theorem read_total (enc : Encoding) (specs : List Spec) (bs : Bytes) : (readAttributes enc specs bs).Normal :=
  readAttributes_normal enc specs bs

/-- `skip_attributes`, every specification list (from any pending skip count) -/
theorem skip_total (enc : Encoding) (specs : List Spec) (bs : Bytes) : (skipAttributes enc specs bs).Normal :=
  skipLoop_normal enc specs 0 bs

/-! ## non-vacuity: the hypotheses are met by concrete non-trivial inputs -/

private def encLE : Encoding := { endian := .little, addressSize := 8, format := .dwarf32, version := 4 }
private def encBE2 : Encoding := { endian := .big, addressSize := 4, format := .dwarf64, version := 2 }

-- a specification list that makes the accumulator cross fixed / variable / indirect boundaries
example : readAttributes encLE
    [⟨0x03, .data2, 0⟩, ⟨0x11, .addr, 0⟩, ⟨0x02, .block1, 0⟩, ⟨0x3e, .indirect, 0⟩, ⟨0x49, .ref4, 0⟩]
    [0x34, 0x12, 1, 2, 3, 4, 5, 6, 7, 8, 0x02, 0xaa, 0xbb, 0x0b, 0x07, 0x10, 0, 0, 0, 0xcc]
    = .ok ([⟨.data2, .num 0x1234⟩, ⟨.addr, .num 0x0807060504030201⟩, ⟨.block, .bytes [0xaa, 0xbb]⟩,
            ⟨.data1, .num 7⟩, ⟨.unitRef, .num 0x10⟩], [0xcc]) := by decide
example : getAttributeSize .refAddr encBE2 = some 4 ∧ getAttributeSize .secOffset encBE2 = some 8 := by decide
example : encodeForm encBE2 .strx3 (.num 0x010203) = some [1, 2, 3] := by decide
example : encodeForm encLE .string (.bytes [0x66, 0x6f, 0x6f]) = some [0x66, 0x6f, 0x6f, 0] := by decide
example : normalise 0x3e ⟨.data1, .num 7⟩ = ⟨.encoding, .num 7⟩ := by decide
example : normalise 0x02 ⟨.block, .bytes [0x91, 0x7c]⟩ = ⟨.exprloc, .bytes [0x91, 0x7c]⟩ := by decide

end Gimli.Props.C03
