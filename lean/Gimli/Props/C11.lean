import Gimli.Lemmas.WUnit
/-!
# C11 — Written units read back as the same forest with every reference intact

Property theorems only (helper lemmas: `Gimli/Lemmas/WUnit.lean`).  Every theorem is about the
Model definitions of `Gimli/Model/WUnit.lean` — the functions the driver executes for the `wunit`
op and which the correspondence run compares byte for byte with `gimli::write`
(`.debug_info`, `.debug_abbrev`, `.debug_str`, `.debug_line_str`).

Quantifiers: every entry tree (any shape, depth and size), every attribute list, every value of
every `write::AttributeValue` variant, every DWARF version / format / address size / byte order,
every section position.  The only structural hypothesis is the one the API guarantees: the
entries of a unit have distinct ids (`t.ids.Nodup`).

What is proved here is the size/offset core of the property: the writer's size model agrees with
what it emits, hence the offsets it hands out in pass 1 are the positions of the entries in pass 2,
hence the values patched into references are the positions of the intended entries.  That the
*reader* then reports the same forest is established by the direct oracle of the differential run
(read back with `gimli::read`), not by a theorem (DESIGN.md §7 C11: partial).
-/
namespace Gimli.Props.C11
open Gimli Gimli.Ints Gimli.WUnit

/-! ## (1) the three parallel switches agree -/

/-- **Predicted size = emitted length, for every value kind × version × format × address size.**
`AttributeValue::size` evaluated during pass 1 (with the offsets `a` known at that moment) equals
the number of bytes `AttributeValue::write` appends during pass 2 (with the final offsets
`cx.offs`), whenever both succeed and pass 2 knows at least what pass 1 knew (`a.Ext cx.offs`). -/
theorem attr_size_eq_emit (cx : Ctx) (a : Offs) (pos : Nat) (v : AttrVal) (sz : Nat) (em : Emit)
    (hext : a.Ext cx.offs) (hs : attrSize cx.enc a v = .ok sz) (he : attrEmit cx pos v = .ok em) :
    em.bytes.length = sz :=
  attr_size_eq_emit' cx a pos v sz em hext hs he

/-- the same with one set of offsets (the form used for a single attribute in isolation) -/
theorem attr_size_eq_emit_same (cx : Ctx) (pos : Nat) (v : AttrVal) (sz : Nat) (em : Emit)
    (hs : attrSize cx.enc cx.offs v = .ok sz) (he : attrEmit cx pos v = .ok em) :
    em.bytes.length = sz :=
  attr_size_eq_emit' cx cx.offs pos v sz em (Offs.Ext.refl _) hs he

/-- `uleb128_size` / `sleb128_size` are the lengths of the LEB128 encodings, for every value -/
theorem leb_size_eq_emit (u : Nat) (s : Int) :
    (Leb.encodeU u).length = Leb.sizeU u ∧ (Leb.encodeS s).length = Leb.sizeS s :=
  ⟨encodeU_length u, encodeS_length s⟩

/-! ## (1b) the emitted bytes are what the form's reader decodes -/

/-- **The bytes written for a value are the encoding the reader of its form decodes** — for every
`AttributeValue` kind whose bytes are final when pass 2 emits them (everything except the two
reference kinds `UnitRef` / `DebugInfoRef`, whose placeholders are patched later and are covered by
`unit_refs_resolve` / `fixups_resolve`), in every version, format, address size and byte order:
reading `em.bytes ++ rest` with the primitive readers `read::parse_attribute` uses for the form
`AttributeValue::form` chose (`Spec/WUnit.lean` `readFormFull`, built from the readers of C09:
`Leb.unsigned`, `Leb.signed`, `readFixed`, `readAddress`; `DW_FORM_implicit_const` takes its value
from the abbreviation) gives back exactly the intended value (`decodedFull`: numbers, signed
numbers, block / string / expression bytes, flags, table and section offsets) and leaves exactly
`rest`.  So `form`, `size` and `write` agree not only on the length but on the meaning. -/
theorem attr_bytes_decode (cx : Ctx) (pos : Nat) (v : AttrVal) (em : Emit) (fv : FormVal)
    (rest : Bytes) (h : attrEmit cx pos v = .ok em) (hr : v.InRangeFull cx) (hd : decodedFull cx v = some fv)
    (hso : ∀ o ∈ cx.strOffsets, o < 2 ^ 64) (hlo : ∀ o ∈ cx.lineStrOffsets, o < 2 ^ 64)
    (hlp : ∀ o, cx.lineProgram = some o → o < 2 ^ 64) :
    readFormFull cx.endian cx.enc (attrForm cx.enc v).1 (attrForm cx.enc v).2 (em.bytes ++ rest) =
      .ok (fv, rest) :=
  attr_bytes_decode_full cx pos v em fv rest h hr hd hso hlo hlp

/-- what `decodedFull` leaves out is exactly the reference kinds (and the kinds that can only
fail to be written) -/
theorem decoded_covers (cx : Ctx) (v : AttrVal) (em : Emit) (pos : Nat) (h : attrEmit cx pos v = .ok em) :
    (∃ fv, decodedFull cx v = some fv) ∨ (∃ id, v = .unitRef id) ∨ (∃ u id, v = .debugInfoRef u id) := by
  cases v <;> simp only [attrEmit] at h
  case unitRef id => exact Or.inr (Or.inl ⟨id, rfl⟩)
  case debugInfoRef u id => exact Or.inr (Or.inr ⟨u, id, rfl⟩)
  case addressSym | debugInfoRefSym => simp at h
  case exprloc items =>
    left
    obtain ⟨size, _, h⟩ := bind_ok_inv h
    obtain ⟨⟨body, fx⟩, hb, _⟩ := bind_ok_inv h
    obtain ⟨fx0, hb0⟩ := exprItemsEmit_bytes_pos cx items _ 0 body fx hb
    exact ⟨.bytes body, by simp [decodedFull, exprBytes, hb0]⟩
  case lineProgramRef =>
    left
    cases hl : cx.lineProgram with
    | none => simp [hl] at h
    | some off => exact ⟨.num off, by simp [decodedFull, decoded, hl]⟩
  case stringRef idx =>
    left
    obtain ⟨off, ho, _⟩ := bind_ok_inv h
    unfold tableOffset at ho
    cases hg : cx.strOffsets[idx]? with
    | none => simp [hg] at ho
    | some o => exact ⟨.num o, by simp [decodedFull, decoded, hg]⟩
  case lineStringRef idx =>
    left
    obtain ⟨off, ho, _⟩ := bind_ok_inv h
    unfold tableOffset at ho
    cases hg : cx.lineStrOffsets[idx]? with
    | none => simp [hg] at ho
    | some o => exact ⟨.num o, by simp [decodedFull, decoded, hg]⟩
  all_goals (left; exact ⟨_, rfl⟩)

/-! ## (2) pass 1 offsets are pass 2 positions -/

/-- **Main theorem.** Lay a tree out with `calculate_offsets` starting at section offset `start`
(empty offset table, empty abbreviation table), then write it with
`DebuggingInformationEntry::write` using the tables pass 1 produced.  If both succeed then

* the bytes written are exactly as many as pass 1 predicted (`start + length = final offset`);
* every entry of the tree is written exactly once, in pre-order (`starts` lists the ids);
* **the position at which each entry starts is the offset pass 1 assigned to it** — the
  `debug_assert_eq!(offsets.debug_info_offset(self.id), Some(w.offset()))` at the head of
  `DebuggingInformationEntry::write` holds for every tree.

Consequently a `UnitRef`, a `DW_AT_sibling`, a `DW_OP_call4`/`DW_OP_convert` operand or a
`DebugInfoFixup` computed from `offsets` designates the byte at which the intended entry begins. -/
theorem offsets_exact (cx : Ctx) (t : Tree) (start unitOff n : Nat) (p1 : P1) (em : Emit)
    (hnd : t.ids.Nodup)
    (hc : calcTree cx.enc
      { offset := start, offs := { unit := unitOff, n := n, map := fun _ => none },
        abbrevs := [], codes := fun _ => none } t = .ok p1)
    (hoffs : cx.offs = p1.offs) (hcodes : cx.codes = p1.codes)
    (he : emitTree cx start t = .ok em) :
    start + em.bytes.length = p1.offset ∧ em.starts.map (·.1) = t.ids ∧
      ∀ id pos, (id, pos) ∈ em.starts → p1.offs.map id = some pos := by
  have hx : p1.ExtCx cx := by
    refine ⟨hoffs ▸ Offs.Ext.refl _, ?_⟩
    intro j c hj; rw [hcodes]; exact hj
  obtain ⟨h1, h2, h3⟩ := emitTree_exact cx t _ p1 em hc he hnd (fun _ _ => ⟨rfl, rfl⟩) hx
  refine ⟨h1, h3, ?_⟩
  intro id pos hmem
  have := h2 (id, pos) hmem
  rw [hoffs] at this
  exact this

/-- the same from any intermediate state of pass 1 (this is the induction that `offsets_exact`
instantiates): `st` is the state before the subtree, none of whose ids has been laid out yet, and
pass 2 reads tables that extend the state after the subtree -/
theorem offsets_exact_from (cx : Ctx) (t : Tree) (st st' : P1) (em : Emit)
    (hc : calcTree cx.enc st t = .ok st') (he : emitTree cx st.offset t = .ok em)
    (hnd : t.ids.Nodup) (hfresh : Fresh t.ids st) (hx : st'.ExtCx cx) :
    st.offset + em.bytes.length = st'.offset ∧ (∀ p ∈ em.starts, cx.offs.map p.1 = some p.2) ∧
      em.starts.map (·.1) = t.ids :=
  emitTree_exact cx t st st' em hc he hnd hfresh hx

/-- pass 1 never moves an offset or a code it has assigned: the tables after a subtree agree with
the tables before it on every id outside the subtree -/
theorem pass1_monotone (c : Enc) (t : Tree) (st st' : P1) (h : calcTree c st t = .ok st') :
    st'.offs.unit = st.offs.unit ∧ st'.offs.n = st.offs.n ∧
      ∀ j, j ∉ t.ids → st'.offs.map j = st.offs.map j ∧ st'.codes j = st.codes j :=
  calcTree_frame c t st st' h

/-- **Total unit length = emitted length.** In a successful `Unit::write` the value stored in the
unit's initial-length field (`body`) is exactly the number of bytes the unit occupies after that
field, patching the references changes no length, and the bytes of earlier units stay as they
were. -/
theorem unit_length_exact (e : Endian) (so lso : List Nat) (s s' : Sec) (u : UnitIn) (o : Offs)
    (h : writeUnit e so lso s u = .ok (s', o)) :
    ∃ body lenField, writeInitialLength e u.enc.format body = .ok lenField ∧
      lenField.length = initLenSize u.enc.format ∧
      s'.info.length = s.info.length + lenField.length + body ∧
      (∀ i, i < s.info.length → s'.info[i]? = s.info[i]?) := by
  obtain ⟨hdr, p1, em, lf, _, _, _, h4, h5, _, _, _⟩ := writeUnit_inv e so lso s s' u o h
  obtain ⟨hl, _⟩ := patchUnitRefs_ok _ _ _ _ _ _ h5
  have hlf := writeInitialLength_length _ _ _ _ h4
  refine ⟨hdr.length + em.bytes.length, lf, h4, hlf, ?_, ?_⟩
  · simp only [hl, List.length_append]; omega
  · exact writeUnit_frame e so lso s s' u o h

/-! ## (2b) hence every reference designates the intended entry -/

/-- **Every `UnitRef` placeholder ends up holding the unit offset of the entry it names.**
After a successful `Unit::write`: for every reference `(pos, id)` that pass 2 recorded, the entry
`id` was written by pass 2 at some section position `target`, pass 1 had assigned exactly `target`
to it, and the `word` bytes at `pos` in `.debug_info` are the encoding of `target - unit offset`
— the value a reader adds to the unit's offset to find the entry.  Bytes of earlier units are not
touched. (`unit_refs_survive` carries this to the end of `Dwarf::write`.) -/
theorem unit_refs_resolve (e : Endian) (so lso : List Nat) (s s' : Sec) (u : UnitIn) (o : Offs)
    (hnd : (unitRoot u).ids.Nodup) (h : writeUnit e so lso s u = .ok (s', o)) :
    ∃ (hdr : Bytes) (p1 : P1) (em : Emit),
      calcTree u.enc (p1Init (s.info.length + initLenSize u.enc.format + hdr.length) s.info.length u.nEntries)
        (unitRoot u) = .ok p1 ∧
      emitTree (unitCtx e so lso u p1) (s.info.length + initLenSize u.enc.format + hdr.length) (unitRoot u) = .ok em ∧
      o = p1.offs ∧
      ∀ r ∈ em.urefs, ∃ target, (r.2, target) ∈ em.starts ∧ p1.offs.map r.2 = some target ∧
        ∀ i, i < u.enc.word → s'.info[r.1 + i]? = (toBytes e u.enc.word (target - s.info.length))[i]? := by
  obtain ⟨hdr, p1, em, lf, _, h2, h3, h4, h5, _, _, ho⟩ := writeUnit_inv e so lso s s' u o h
  have hl := writeInitialLength_length _ _ _ _ h4
  have hpre : (s.info ++ lf ++ hdr).length = s.info.length + initLenSize u.enc.format + hdr.length := by
    simp [hl]; omega
  refine ⟨hdr, p1, em, h2, h3, ho, ?_⟩
  rw [← hpre] at h2 h3
  exact (unit_refs_resolve' (unitCtx e so lso u p1) (unitRoot u) s.info.length u.nEntries p1 em
    (s.info ++ lf ++ hdr) s'.info hnd h2 rfl rfl h3 h5).1

/-- **…and they still do when `Dwarf::write` returns.** Write unit `u` on top of the sections `s0`,
then any further units, then patch all queued cross-unit fix-ups: in the final `.debug_info`
every `UnitRef` placeholder of `u` holds the unit offset of the entry it names — no fix-up
placeholder overlaps a unit-ref placeholder, fix-ups of other units lie inside those units, and
later units only append. (`hp0` holds for the empty sections and is preserved by every unit
write: `fixups_stay_placed`.) -/
theorem unit_refs_survive (e : Endian) (so lso : List Nat) (s0 s1 s2 : Sec) (u : UnitIn) (o : Offs)
    (post : List UnitIn) (offs2 allOffs : List Offs) (info : Bytes)
    (hnd : (unitRoot u).ids.Nodup)
    (hp0 : Placed 0 s0.info.length (holesI s0.ifix))
    (h1 : writeUnit e so lso s0 u = .ok (s1, o))
    (h2 : writeUnits e so lso s1 post = .ok (s2, offs2))
    (h3 : applyFixups e allOffs s2.info s2.ifix = .ok info) :
    ∃ (hdr : Bytes) (p1 : P1) (em : Emit),
      calcTree u.enc (p1Init (s0.info.length + initLenSize u.enc.format + hdr.length) s0.info.length u.nEntries)
        (unitRoot u) = .ok p1 ∧
      emitTree (unitCtx e so lso u p1) (s0.info.length + initLenSize u.enc.format + hdr.length) (unitRoot u) = .ok em ∧
      o = p1.offs ∧
      ∀ r ∈ em.urefs, ∃ target, (r.2, target) ∈ em.starts ∧ p1.offs.map r.2 = some target ∧
        ∀ i, i < u.enc.word → info[r.1 + i]? = (toBytes e u.enc.word (target - s0.info.length))[i]? :=
  unit_refs_final e so lso s0 s1 s2 u o post offs2 allOffs info hnd hp0 h1 h2 h3

/-- the invariant `unit_refs_survive` and `fixups_resolve` rest on: the queued fix-up
placeholders are in increasing order, pairwise disjoint and inside `.debug_info` — initially
(no fix-ups) and after every unit write -/
theorem fixups_stay_placed (e : Endian) (so lso : List Nat) (s s' : Sec) (u : UnitIn) (o : Offs)
    (h : writeUnit e so lso s u = .ok (s', o)) (hp : Placed 0 s.info.length (holesI s.ifix)) :
    Placed 0 s'.info.length (holesI s'.ifix) :=
  (writeUnit_ifix_placed e so lso s s' u o h hp).1

/-- **Every cross-unit fix-up ends up holding the section offset of the entry it names.**
After a successful `Dwarf::write`: `offs[k]` being the final `UnitOffsets` of unit `k` (the very
table `offsets_exact` is about), every `DebugInfoFixup` `f` queued by any unit — from a
`DebugInfoRef` attribute or a `DW_OP_call_ref` inside an expression — names a unit that exists and
an entry that has an offset `off` there, and the `f.size` bytes at `f.pos` of the final
`.debug_info` are the encoding of `off`.  (Fix-up placeholders never overlap, so none of these
values is overwritten by another one.) -/
theorem fixups_resolve (e : Endian) (strs lstrs : StrTab) (units : List UnitIn)
    (info abbr str lstr : Bytes) (h : writeDwarf e strs lstrs units = .ok (info, abbr, str, lstr)) :
    ∃ s offs, writeUnits e (strOffsets strs) (strOffsets lstrs) {} units = .ok (s, offs) ∧
      info.length = s.info.length ∧ abbr = s.abbr ∧
      ∀ f ∈ s.ifix, ∃ o off, offs[f.unit]? = some o ∧ o.debugInfoOffset f.id = .ok (some off) ∧
        ∀ i, i < f.size → info[f.pos + i]? = (toBytes e f.size off)[i]? := by
  unfold writeDwarf at h
  obtain ⟨⟨s, offs⟩, h1, h⟩ := bind_ok_inv h
  obtain ⟨info', h2, h⟩ := bind_ok_inv h
  simp only [Out.pure_eq, Out.ok.injEq, Prod.mk.injEq] at h
  obtain ⟨hi, ha, _, _⟩ := h
  subst hi ha
  have hp := writeUnits_ifix_placed e _ _ units {} s offs h1 (by simp [holesI, Placed])
  obtain ⟨q1, _, q3⟩ := applyFixups_placed e offs s.ifix s.info info' 0 s.info.length h2 hp
  exact ⟨s, offs, h1, q3, rfl, q1⟩

/-- **A sibling pointer points behind the subtree.** The `DW_AT_sibling` value an entry with
children is given is the unit offset of the first byte after everything the entry and its
subtree emitted — where the next sibling (or the parent's null terminator) starts. -/
theorem sibling_exact (cx : Ctx) (pos id tag : Nat) (attrs : List (Nat × AttrVal)) (t : Tree)
    (rest : Forest) (em : Emit) (h : emitTree cx pos (.node id tag true attrs (.cons t rest)) = .ok em) :
    ∃ code tail, em.bytes = Leb.encodeU code ++
      toBytes cx.endian cx.enc.word (pos + em.bytes.length - cx.offs.unit) ++ tail :=
  sibling_value cx pos id tag attrs t rest em h

/-! ## (3) de-duplicating tables -/

/-- **Abbreviation codes start at 1, are dense, and equal abbreviations share one code.**
`AbbreviationTable::add` returns a code between 1 and the table size, the table holds exactly
this abbreviation under that code, the table grows by at most one entry and only at its end (so
codes handed out earlier keep their meaning), stays duplicate-free, and adding an abbreviation
that is already there under code `k + 1` returns `k + 1` and changes nothing. -/
theorem dedup_tables (tab : List Abbrev) (a : Abbrev) (hnd : tab.Nodup) :
    1 ≤ (abbrevAdd tab a).1 ∧ (abbrevAdd tab a).1 ≤ (abbrevAdd tab a).2.length ∧
    (abbrevAdd tab a).2[(abbrevAdd tab a).1 - 1]? = some a ∧
    ((abbrevAdd tab a).2 = tab ∨ (a ∉ tab ∧ (abbrevAdd tab a).2 = tab ++ [a])) ∧
    (abbrevAdd tab a).2.Nodup ∧
    (∀ k, tab[k]? = some a → abbrevAdd tab a = (k + 1, tab)) := by
  obtain ⟨h1, h2, h3, h4⟩ := abbrevAdd_spec tab a
  exact ⟨h1, h2, h3, h4, abbrevAdd_nodup tab a hnd, fun k hk => abbrevAdd_existing tab a k hnd hk⟩

/-- the first abbreviation of a unit gets code 1 -/
theorem first_code_is_one (a : Abbrev) : abbrevAdd [] a = (1, [a]) := rfl

/-- `AbbreviationTable::write` numbers the declarations 1, 2, 3, … in table order, so the
declaration written under code `k` is `tab[k-1]` — the one `add` associated with `k` -/
theorem abbrev_table_numbering (k : Nat) (a : Abbrev) (rest : List Abbrev) :
    abbrevsWriteFrom k (a :: rest) =
      Leb.encodeU (k + 1) ++ abbrevWrite a ++ abbrevsWriteFrom (k + 1) rest := rfl

/-- **Every entry's code designates the entry's own abbreviation** in the table that is finally
written, for every tree: after pass 1 (started with an empty table) each entry `id` has a code
`≥ 1` and the table holds under that code the abbreviation built from that entry's tag,
children flag, sibling flag and attribute forms; and two entries have the same code exactly when
their abbreviations are equal. -/
theorem entry_codes_designate_own_abbrev (c : Enc) (t : Tree) (st0 p1 : P1)
    (hempty : st0.abbrevs = []) (hnd : t.ids.Nodup) (hc : calcTree c st0 t = .ok p1) :
    p1.abbrevs.Nodup ∧
    (∀ p ∈ t.abbrevs c, ∃ code, p1.codes p.1 = some code ∧ 1 ≤ code ∧
      p1.abbrevs[code - 1]? = some p.2) ∧
    (∀ p ∈ t.abbrevs c, ∀ q ∈ t.abbrevs c, ∀ cp cq, p1.codes p.1 = some cp → p1.codes q.1 = some cq →
      (cp = cq ↔ p.2 = q.2)) := by
  obtain ⟨h1, _, h3⟩ := calcTree_codes c t st0 p1 hc hnd (by rw [hempty]; exact List.nodup_nil)
  refine ⟨h1, h3, ?_⟩
  intro p hp q hq cp cq hcp hcq
  obtain ⟨c1, a1, a2, a3⟩ := h3 p hp
  obtain ⟨c2, b1, b2, b3⟩ := h3 q hq
  rw [hcp] at a1; rw [hcq] at b1
  cases a1; cases b1
  constructor
  · intro heq
    subst heq
    rw [a3] at b3
    exact Option.some.inj b3
  · intro heq
    have := nodup_getElem?_inj p1.abbrevs (cp - 1) (cq - 1) p.2 h1 a3 (heq ▸ b3)
    omega

/-- **Equal strings share one offset, and the offset resolves.** `StringTable::add` returns an id
under which the table holds exactly this string; the table grows only at its end and stays
duplicate-free; a string already present under id `k` gets id `k` again; and the offset recorded
for an id is the position in the written `.debug_str` at which that string, followed by its NUL
terminator, stands. -/
theorem string_table_dedup (tab : StrTab) (s : Bytes) (hnd : tab.Nodup) :
    (strAdd tab s).2[(strAdd tab s).1]? = some s ∧
    ((strAdd tab s).2 = tab ∨ (s ∉ tab ∧ (strAdd tab s).2 = tab ++ [s])) ∧
    (strAdd tab s).2.Nodup ∧
    (∀ k, tab[k]? = some s → strAdd tab s = (k, tab)) := by
  obtain ⟨h1, h2⟩ := strAdd_spec tab s
  exact ⟨h1, h2, strAdd_nodup tab s hnd, fun k hk => strAdd_existing tab s k hnd hk⟩

theorem string_offset_resolves (tab : StrTab) (idx : Nat) (s : Bytes) (h : tab[idx]? = some s) :
    ∃ off, (strOffsets tab)[idx]? = some off ∧
      (strWrite tab).drop off = s ++ 0 :: strWrite (tab.drop (idx + 1)) := by
  obtain ⟨h1, h2⟩ := str_offset_resolves tab 0 idx s h
  exact ⟨_, h1, by simpa using h2⟩

/-! ## (4) base types first -/

/-- **`reorder_base_types` preserves the forest up to the documented reordering of the root's
children.** The root keeps its id, tag, sibling flag and attributes; its children are the same
subtrees (a permutation — nothing lost, nothing duplicated, subtrees untouched); all base-type
children come first; and the relative order among the base types and among the others is kept. -/
theorem base_types_first (id tag : Nat) (sib : Bool) (attrs : List (Nat × AttrVal)) (ch : Forest) :
    ∃ ch', reorderBaseTypes (.node id tag sib attrs ch) = .node id tag sib attrs ch' ∧
      ch'.toList.Perm ch.toList ∧
      ch'.toList = ch.toList.filter isBase ++ ch.toList.filter (fun t => !isBase t) ∧
      ch'.toList.filter isBase = ch.toList.filter isBase ∧
      ch'.toList.filter (fun t => !isBase t) = ch.toList.filter (fun t => !isBase t) := by
  refine ⟨_, reorder_children id tag sib attrs ch, ?_, ?_, ?_, ?_⟩
  · rw [toList_ofList]; exact List.filter_append_perm isBase ch.toList
  · rw [toList_ofList]
  · rw [toList_ofList]; exact filter_partition_left isBase ch.toList
  · rw [toList_ofList]; exact filter_partition_right isBase ch.toList

/-! ## (5) what cannot be encoded is an error, never bytes -/

/-- `write_udata(v, size)` accepts `v` -/
def fitsIn (v size : Nat) : Prop := size = 8 ∨ ((size = 1 ∨ size = 2 ∨ size = 4) ∧ v < 2 ^ (8 * size))

instance (v size : Nat) : Decidable (fitsIn v size) := by unfold fitsIn; infer_instance

theorem writeUdata_ok_fits (e : Endian) (v size : Nat) (bs : Bytes) (h : writeUdata e v size = .ok bs) :
    fitsIn v size := by
  unfold writeUdata at h
  split at h
  · rename_i hs
    split at h
    · simp at h
    · rename_i hfit
      right
      refine ⟨hs, ?_⟩
      have : v % 2 ^ (8 * size) = v := by simpa using hfit
      rw [← this]; exact Nat.mod_lt _ (Nat.pow_pos (by decide))
  · split at h
    · rename_i h8; exact Or.inl h8
    · simp at h

/-- the requests `AttributeValue::write` can encode under `cx` -/
def Encodable (cx : Ctx) : AttrVal → Prop
  | .address v => fitsIn v cx.enc.addrSize
  | .addressSym => False
  | .debugInfoRefSym => False
  | .unitRef _ => fitsIn 0 cx.enc.word
  | .debugInfoRef _ _ => fitsIn 0 (if cx.enc.version = 2 then cx.enc.addrSize else cx.enc.word)
  | .debugInfoRefSup off | .locationListRef off | .debugMacinfoRef off | .debugMacroRef off
  | .rangeListRef off | .debugStrRefSup off => fitsIn off cx.enc.word
  | .lineProgramRef => ∃ off, cx.lineProgram = some off ∧ fitsIn off cx.enc.word
  | .stringRef idx => ∃ off, cx.strOffsets[idx]? = some off ∧ fitsIn off cx.enc.word
  | .lineStringRef idx => ∃ off, cx.lineStrOffsets[idx]? = some off ∧ fitsIn off cx.enc.word
  | .string bs => bs.contains 0 = false
  | _ => True

theorem udata_emit_fits (e : Endian) (v size : Nat) (em : Emit)
    (h : (do let b ← writeUdata e v size; pure (Emit.ofBytes b) : Out Emit) = .ok em) : fitsIn v size := by
  obtain ⟨b, hb, _⟩ := bind_ok_inv h
  exact writeUdata_ok_fits _ _ _ _ hb

/-- **A value too large for its form, an address that needs relocation, a symbolic reference, a
line-program reference without a line program, an address size `write_udata` cannot write, a
string value containing a NUL byte: each is an error, never bytes.**  Stated as its contrapositive: if `AttributeValue::write` produced
bytes, the value was encodable. -/
theorem unencodable_value_is_error (cx : Ctx) (pos : Nat) (v : AttrVal) (em : Emit)
    (h : attrEmit cx pos v = .ok em) : Encodable cx v := by
  cases v <;> simp only [attrEmit] at h <;> simp only [Encodable]
  case address x => exact udata_emit_fits _ _ _ _ h
  case addressSym => simp at h
  case debugInfoRefSym => simp at h
  case unitRef id =>
    obtain ⟨b, hb, _⟩ := bind_ok_inv h
    exact writeUdata_ok_fits _ _ _ _ hb
  case debugInfoRef unit id =>
    obtain ⟨b, hb, _⟩ := bind_ok_inv h
    exact writeUdata_ok_fits _ _ _ _ hb
  case debugInfoRefSup off | locationListRef off | debugMacinfoRef off | debugMacroRef off
      | rangeListRef off | debugStrRefSup off => exact udata_emit_fits _ _ _ _ h
  case lineProgramRef =>
    cases hl : cx.lineProgram with
    | none => simp [hl] at h
    | some off => simp only [hl] at h; exact ⟨off, rfl, udata_emit_fits _ _ _ _ h⟩
  case stringRef idx =>
    obtain ⟨off, ho, h⟩ := bind_ok_inv h
    refine ⟨off, ?_, udata_emit_fits _ _ _ _ h⟩
    unfold tableOffset at ho
    cases hg : cx.strOffsets[idx]? with
    | none => simp [hg] at ho
    | some o => simp only [hg, Out.ok.injEq] at ho; rw [ho]
  case lineStringRef idx =>
    obtain ⟨off, ho, h⟩ := bind_ok_inv h
    refine ⟨off, ?_, udata_emit_fits _ _ _ _ h⟩
    unfold tableOffset at ho
    cases hg : cx.lineStrOffsets[idx]? with
    | none => simp [hg] at ho
    | some o => simp only [hg, Out.ok.injEq] at ho; rw [ho]
  case string bs => exact (string_emit_inv bs em h).1

/-- **An unencodable value anywhere in the tree makes the whole write fail**: if pass 2 produced
bytes for a tree then every attribute value of every entry of it is encodable. -/
theorem unencodable_is_error (cx : Ctx) (t : Tree) (pos : Nat) (em : Emit)
    (h : emitTree cx pos t = .ok em) : ∀ v ∈ t.attrVals, Encodable cx v := by
  intro v hv
  obtain ⟨pos', em', h'⟩ := emitTree_ok_each cx t pos em h v hv
  exact unencodable_value_is_error cx pos' v em' h'

/-- **A NUL byte inside an `AttributeValue::String` → `InvalidAttributeValue`**, at any position,
under any encoding, before a byte of the value is written (repair of finding C11-2: the value
used to be emitted verbatim and read back as a shorter string followed by garbage). -/
theorem nul_in_string_is_error (cx : Ctx) (pos : Nat) (bs : Bytes) (h : (0 : UInt8) ∈ bs) :
    attrEmit cx pos (.string bs) = .err .wInvalidAttributeValue := by
  simp [attrEmit, h]

/-- … and therefore a tree that carries such a string anywhere is never written. -/
theorem nul_in_string_anywhere_is_error (cx : Ctx) (t : Tree) (pos : Nat) (em : Emit) (bs : Bytes)
    (hmem : AttrVal.string bs ∈ t.attrVals) (h0 : (0 : UInt8) ∈ bs) : emitTree cx pos t ≠ .ok em := by
  intro h
  have := unencodable_is_error cx t pos em h _ hmem
  simp only [Encodable] at this
  have h1 : bs.contains 0 = true := by simpa using h0
  rw [h1] at this; cases this

/-- **An address size other than 1, 2, 4 or 8 → `UnsupportedWordSize`**, whatever the unit
contains and whatever its version, before anything is written to any section (repair of finding
C11-1: such a unit used to be written whenever no attribute needed the address size, and its
header cannot be read). -/
theorem bad_address_size_is_error (e : Endian) (so lso : List Nat) (s : Sec) (u : UnitIn)
    (ha : ¬ (u.enc.addrSize = 1 ∨ u.enc.addrSize = 2 ∨ u.enc.addrSize = 4 ∨ u.enc.addrSize = 8)) :
    writeUnit e so lso s u = .err .wUnsupportedWordSize := by
  unfold writeUnit
  simp [ha]

/-- contrapositive: every unit that is written has a readable address size and version -/
theorem written_unit_is_readable (e : Endian) (so lso : List Nat) (s s' : Sec) (u : UnitIn) (o : Offs)
    (h : writeUnit e so lso s u = .ok (s', o)) :
    (u.enc.addrSize = 1 ∨ u.enc.addrSize = 2 ∨ u.enc.addrSize = 4 ∨ u.enc.addrSize = 8) ∧
      2 ≤ u.enc.version ∧ u.enc.version ≤ 5 := by
  refine ⟨?_, ?_⟩
  · apply Classical.byContradiction
    intro ha
    rw [bad_address_size_is_error e so lso s u ha] at h; cases h
  · obtain ⟨hdr, _, _, _, hh, _⟩ := writeUnit_inv e so lso s s' u o h
    unfold unitHeader at hh
    split at hh
    · omega
    · split at hh
      · omega
      · cases hh

/-- **Unsupported version → `UnsupportedVersion`**, whatever the unit contains (the address size
is checked first, so it must be one `Unit::write` accepts). -/
theorem unsupported_version_is_error (e : Endian) (so lso : List Nat) (s : Sec) (u : UnitIn)
    (ha : u.enc.addrSize = 1 ∨ u.enc.addrSize = 2 ∨ u.enc.addrSize = 4 ∨ u.enc.addrSize = 8)
    (hv : u.enc.version < 2 ∨ 5 < u.enc.version) :
    writeUnit e so lso s u = .err .wUnsupportedVersion := by
  have hh : unitHeader e u.enc s.abbr.length = .err .wUnsupportedVersion := by
    unfold unitHeader
    have h1 : ¬ (2 ≤ u.enc.version ∧ u.enc.version ≤ 4) := by omega
    have h2 : ¬ u.enc.version = 5 := by omega
    simp [h1, h2]
  unfold writeUnit
  simp [hh, ha]

/-- **A reference to an entry that was never laid out is an error** (`InvalidReference`, or the
documented slice panic for an id beyond `entries.len()`), never a patched placeholder: if the
`unit_refs` loop succeeds, every reference resolved to an assigned offset that fits the word
size and lies inside the section; lengths are unchanged. -/
theorem unresolved_unit_ref_is_error (e : Endian) (word : Nat) (o : Offs) (refs : List (Nat × Nat))
    (info info' : Bytes) (h : patchUnitRefs e word o info refs = .ok info') :
    info'.length = info.length ∧
      ∀ r ∈ refs, ∃ u b, o.unitOffset r.2 = .ok (some u) ∧ writeUdata e u word = .ok b ∧
        r.1 + word ≤ info.length :=
  patchUnitRefs_ok e word o refs info info' h

/-- the same for the cross-unit fix-ups of `UnitTable::write_debug_info_fixups` -/
theorem unresolved_fixup_is_error (e : Endian) (units : List Offs) (fx : List IFix)
    (info info' : Bytes) (h : applyFixups e units info fx = .ok info') :
    info'.length = info.length ∧
      ∀ f ∈ fx, ∃ o off b, units[f.unit]? = some o ∧ o.debugInfoOffset f.id = .ok (some off) ∧
        writeUdata e off f.size = .ok b ∧ f.pos + f.size ≤ info.length :=
  applyFixups_ok e units fx info info' h

/-- a unit too long for a 32-bit initial length is an error (`InitialLengthOverflow` for the
reserved values, `ValueTooLarge` above), never a truncated length -/
theorem length_overflow_is_error (e : Endian) (len : Nat) (bs : Bytes)
    (h : writeInitialLength e .dwarf32 len = .ok bs) : len < 0xffff_fff0 := by
  simp only [writeInitialLength] at h
  split at h
  · simp at h
  · rename_i hr
    have := writeUdata_ok_fits _ _ _ _ h
    unfold fitsIn at this
    omega

/-! ## non-vacuity: the hypotheses are met by concrete, non-trivial inputs -/

/-- a pass-2 context with empty tables -/
def exCtxW : Ctx :=
  { endian := .little, enc := { version := 4, format := .dwarf32, addrSize := 8 },
    offs := { unit := 0, n := 1, map := fun _ => none }, codes := fun _ => none, lineProgram := none,
    strOffsets := [], lineStrOffsets := [] }


/-- root with a forward `UnitRef` to its second child, a base type that is moved first -/
def exTree : Tree :=
  .node 0 0x11 false [(0x49, .unitRef 2), (0x03, .string [0x61])]
    (.cons (.node 1 0x2e true [(0x49, .unitRef 2)] (.cons (.node 3 0x34 false [(0x02, .udata 300)] .nil) .nil))
      (.cons (.node 2 0x24 false [(0x3e, .constClass 5)] .nil) .nil))

def exEnc : Enc := { version := 4, format := .dwarf32, addrSize := 8 }

example : exTree.ids.Nodup := by decide
example : (reorderBaseTypes exTree).ids = [0, 2, 1, 3] := by decide

/-- the whole pipeline succeeds on it (so the hypotheses of `offsets_exact` — both passes `ok` —
are satisfiable); evaluated by the kernel -/
example : (writeDwarf .little [] [] [{ enc := exEnc, nEntries := 4, root := exTree, lineProgram := none }]).isOk = true := by
  decide +kernel

example : fitsIn 0x1234 2 ∧ ¬ fitsIn 0x12345 2 ∧ ¬ fitsIn 0 3 := by decide
example : (AttrVal.data2 0x1234).InRange ∧ (AttrVal.string [0x61, 0x62]).InRange ∧
    ¬ (AttrVal.string [0x61, 0]).InRange := by decide
example : Placed 0 0 (holesI ([] : List IFix)) := Nat.le_refl 0
example : decodedFull exCtxW (.sdata (-5)) = some (.int (-5)) ∧ (AttrVal.sdata (-5)).InRangeFull exCtxW := by
  refine ⟨rfl, trivial, by decide⟩
example : abbrevAdd [⟨1, true, []⟩] ⟨1, true, []⟩ = (1, [⟨1, true, []⟩]) := by decide
example : strAdd [[1], [2]] [2] = (1, [[1], [2]]) ∧ strOffsets [[1], [2, 3], []] = [0, 2, 5] := by decide

end Gimli.Props.C11
