import Gimli.Lemmas.Index
import Gimli.Lemmas.Aranges
import Gimli.Lemmas.Package
import Gimli.Lemmas.Names
import Gimli.Lemmas.NamesEntries
import Gimli.Lemmas.Pub
import Gimli.Lemmas.C17Attr
import Gimli.Model.Loader
/-!
# C17 — Accelerated lookups and section plumbing agree with exhaustive scans

Property theorems only; helper lemmas are in `Gimli/Lemmas/{Index,Aranges,…}.lean`. Every theorem
is about the Model functions of `Gimli/Model/{Index,Aranges,Pub,Names}.lean` which the driver
executes and which the correspondence run ties to `src/read/{index,aranges,lookup,names}.rs`.

Quantifiers: every table size `2^k`, every list of signatures / tuples / names of any length,
both byte orders, both DWARF formats, every address size.
-/
namespace Gimli.Props.C17
open Gimli Gimli.Ints Gimli.Index Gimli.Spec.Index

/-! ## the package hash index (`.debug_cu_index` / `.debug_tu_index`) -/

/-- **The number-theoretic core**: with an odd stride the probe sequence of a `2^k`-slot table
visits every slot exactly once in its first `2^k` steps (injective, hence onto). -/
theorem odd_stride_visits_every_slot (k id : Nat) :
    (∀ i j, i < 2 ^ k → j < 2 ^ k → probe k id i = probe k id j → i = j) ∧
    (∀ p, p < 2 ^ k → ∃ i, i < 2 ^ k ∧ probe k id i = p) :=
  ⟨fun i j hi hj h => probe_inj k (id % 2 ^ k) (stride k id) i j (stride_odd k id) hi hj h,
   fun p hp => probe_surj' k id p hp⟩

/-- **`find` agrees with the exhaustive scan (main theorem).**  Take any list `kvs` of
`(signature, row)` pairs with non-zero, pairwise distinct signatures that fits a table of `2^k`
slots (`kvs.length ≤ 2^k`: every load factor, *including the completely full table*).  Then
1. inserting them with the standard's double hashing (`Spec.Index.build`) succeeds — this is
   where "an odd stride visits every slot" is needed — and
2. for every parsed index `ix` whose `hash_ids`/`hash_rows` arrays hold the resulting slot
   table (either byte order) and EVERY `id` — including 0, the unused-slot marker, which is never
   present (`fix: UnitIndex::find reported the ID 0 as present`) —: `UnitIndex::find` returns
   exactly what a linear scan of `kvs` returns; `some row` iff `(id, row)` is listed, `none` iff
   `id` is absent. -/
theorem index_find_iff_present (k : Nat) (kvs : List (Nat × Nat))
    (hnz : ∀ kv, kv ∈ kvs → kv.1 ≠ 0)
    (hdist : kvs.Pairwise (fun a b => a.1 ≠ b.1))
    (hroom : kvs.length ≤ 2 ^ k) :
    ∃ t, build k kvs = some t ∧
      ∀ (e : Endian) (ix : UnitIndex), Encodes e k t ix → ∀ id,
        find e ix id = scan kvs id ∧
        (∀ row, find e ix id = some row ↔ (id, row) ∈ kvs) ∧
        (find e ix id = none ↔ ∀ row, (id, row) ∉ kvs) := by
  have hused : used (emptyTable k) = 0 := by
    unfold emptyTable
    generalize 2 ^ k = n
    induction n with
    | zero => rfl
    | succ n ih => simp [List.replicate_succ, used, ih]
  have hempty : ∀ p, slot (emptyTable k) p = (0, 0) := fun p => slot_replicate _ p
  obtain ⟨t, ht⟩ := buildFrom_succeeds k kvs (emptyTable k) (by simp [emptyTable]) (by omega)
  refine ⟨t, ht, ?_⟩
  obtain ⟨hinv, hc⟩ := buildFrom_spec k kvs (emptyTable k) t (inv_empty k) hdist
    (by intro kv hkv p _; simp only [slotId, hempty]; exact fun h => hnz kv hkv h.symm) ht
  intro e ix henc id
  have hiff : ∀ row, find e ix id = some row ↔ (id, row) ∈ kvs := by
    intro row
    by_cases hid : id = 0
    · -- the key 0 is never stored and never found
      subst hid
      rw [find_zero]
      constructor
      · intro h; simp at h
      · intro hm; exact absurd rfl (hnz (0, row) hm)
    rw [find_eq_lookup e k t ix henc id hid, lookup_iff k t hinv id hid row, hc id row hid]
    constructor
    · rintro (⟨p, _, hp⟩ | hm)
      · rw [hempty] at hp
        exact absurd (congrArg Prod.fst hp).symm hid
      · exact hm
    · exact fun hm => Or.inr hm
  refine ⟨?_, hiff, ?_⟩
  · apply Option.ext
    intro row
    rw [hiff row, scan_iff kvs hdist id row]
  · rw [Option.eq_none_iff_forall_ne_some]
    constructor
    · intro h row hm; exact h row ((hiff row).mpr hm)
    · intro h row hf; exact h row ((hiff row).mp hf)

/-- **The same, stated on the bytes of a `.debug_cu_index` / `.debug_tu_index` section.**  If the
section is a 16-byte header followed by the signatures and then the row numbers of the slot table
built from `kvs` (signatures `< 2^64`, rows `< 2^32`), and `UnitIndex::parse` accepts it with
`slot_count = 2^k`, then `find` on the parsed index is the linear scan of `kvs`, for every `id`
(0 included). -/
theorem index_find_on_bytes (k : Nat) (kvs : List (Nat × Nat))
    (hnz : ∀ kv, kv ∈ kvs → kv.1 ≠ 0 ∧ kv.1 < 2 ^ 64 ∧ kv.2 < 2 ^ 32)
    (hdist : kvs.Pairwise (fun a b => a.1 ≠ b.1)) (hroom : kvs.length ≤ 2 ^ k) :
    ∃ t, build k kvs = some t ∧
      ∀ (e : Endian) (hdr tail input : Bytes) (ix : UnitIndex), hdr.length = 16 →
        input = hdr ++ encIds e t ++ encRows e t ++ tail → Index.parse e input = .ok ix →
        ix.slotCount = 2 ^ k → ∀ id, find e ix id = scan kvs id := by
  obtain ⟨t, ht, hfind⟩ := index_find_iff_present k kvs (fun kv h => (hnz kv h).1) hdist hroom
  refine ⟨t, ht, ?_⟩
  intro e hdr tail input ix hhdr hin hp hslots id
  obtain ⟨hlen, hsl⟩ := buildFrom_slots k kvs (emptyTable k) t (by simp [emptyTable]) ht
  have hb : ∀ kv, kv ∈ t → kv.1 < 2 ^ 64 ∧ kv.2 < 2 ^ 32 := by
    intro kv hkv
    obtain ⟨q, hq, hkq⟩ := List.getElem_of_mem hkv
    have hs : slot t q = kv := by rw [slot_eq_getElem t q hq, hkq]
    rcases hsl q with h0 | hm
    · rw [hs, emptyTable, slot_replicate] at h0; rw [h0]; decide
    · rw [hs] at hm; exact (hnz kv hm).2
  exact (hfind e ix (encodes_of_parse e input ix hp k t hlen hslots hb hdr tail hhdr hin) id).1

/-- **The key 0 is never found** — on any index whatsoever (any bytes, any slot count): 0 marks an
unused slot and cannot be a present key.  (Regression of the repaired finding C17-1: before
`fix: UnitIndex::find reported the ID 0 as present`, `find(0)` returned `Some(0)`, the row field
of the first unused slot on its probe sequence, and `DwarfPackage::find_cu(DwoId(0))` failed
with `InvalidIndexRow(0)` instead of returning `None`.) -/
theorem find_zero_id_absent (e : Endian) (ix : UnitIndex) :
    find e ix 0 = none ∧ (findN e ix 0).2 = 0 := by
  simp [find, findN]

/-- the former witness of C17-1 (a one-slot table whose only slot is unused), now as a
regression: `find(0)` is `None` -/
theorem find_zero_id_witness :
    ∃ ix, Index.parse .little
        [2, 0, 0, 0, 0, 0, 0, 0, 0, 0, 0, 0, 1, 0, 0, 0, 0, 0, 0, 0, 0, 0, 0, 0, 0, 0, 0, 0] = .ok ix ∧
      ix.slotCount = 1 ∧ find .little ix 0 = none := by
  refine ⟨_, rfl, rfl, by decide⟩

/-- **`find` terminates within `slot_count` probes for ANY index** — whatever the bytes of the
hash arrays are (full tables without an empty slot, tables not built by insertion, zero slots,
slot counts that are not powers of two).  `findN` is `find` together with the number of slots it
read; the correspondence run compares that number with the reads the real `find` performs. -/
theorem find_terminates (e : Endian) (ix : UnitIndex) (id : Nat) :
    (findN e ix id).2 ≤ ix.slotCount ∧ find e ix id = (findN e ix id).1 := by
  refine ⟨?_, rfl⟩
  unfold findN
  split
  · simp
  · exact findLoop_probes_le _ _ _ _ _ _ _

/-- a slot count accepted by `UnitIndex::parse` is 0 or a power of two above the unit count
(so the table always has an unused slot and the mask arithmetic of `find` is a reduction
mod `2^k`) -/
theorem parse_slot_count (e : Endian) (input : Bytes) (ix : UnitIndex)
    (h : Index.parse e input = .ok ix) :
    ix.slotCount = 0 ∨ ((∃ k, ix.slotCount = 2 ^ k) ∧ ix.unitCount < ix.slotCount) :=
  parse_ok_slotCount e input ix h

/-- **Layout of an accepted index**: a 16-byte header, `slot_count` 8-byte signatures,
`slot_count` 4-byte row numbers, `section_count ≤ 8` column kinds, then the two row-major
`unit_count × section_count` matrices — these are the arrays `find` and `sections` index into. -/
theorem index_parse_layout (e : Endian) (input : Bytes) (ix : UnitIndex) (hne : input ≠ [])
    (h : Index.parse e input = .ok ix) :
    ∃ hdr kindsB trailing,
      input = hdr ++ ix.hashIds ++ ix.hashRows ++ kindsB ++ ix.offsets ++ ix.sizes ++ trailing ∧
      hdr.length = 16 ∧ ix.hashIds.length = ix.slotCount * 8 ∧ ix.hashRows.length = ix.slotCount * 4 ∧
      kindsB.length = 4 * ix.sectionCount ∧ ix.sections.length = ix.sectionCount ∧
      ix.sectionCount ≤ 8 ∧ (ix.version = 2 ∨ ix.version = 5) ∧
      ix.offsets.length = ix.unitCount * ix.sectionCount * 4 ∧
      ix.sizes.length = ix.unitCount * ix.sectionCount * 4 :=
  parse_layout e input ix hne h

/-- **`sections(row)` = row `row-1` of the two matrices, column by column.**  If the
`offsets` and `sizes` arrays of the index are the row-major encodings of two
`unit_count × section_count` matrices of `u32`s, then for every valid `row` the iterator yields
exactly `(kind[c], offsets[row-1][c], sizes[row-1][c])` for `c = 0 … section_count-1`. -/
theorem sections_row_col (e : Endian) (ix : UnitIndex) (offs szs : List (List Nat)) (row : Nat)
    (hk : ix.sections.length = ix.sectionCount)
    (hro : offs.length = ix.unitCount) (hrs : szs.length = ix.unitCount)
    (hco : ∀ r, r ∈ offs → r.length = ix.sectionCount ∧ ∀ v, v ∈ r → v < 2 ^ 32)
    (hcs : ∀ r, r ∈ szs → r.length = ix.sectionCount ∧ ∀ v, v ∈ r → v < 2 ^ 32)
    (hoff : ix.offsets = encMatrix e offs) (hsz : ix.sizes = encMatrix e szs)
    (h1 : 1 ≤ row) (h2 : row ≤ ix.unitCount) :
    Index.sections e ix row =
      .ok (ix.sections.zip ((offs.getD (row - 1) []).zip (szs.getD (row - 1) []))) :=
  sections_matrix e ix offs szs row hk hro hrs hco hcs hoff hsz h1 h2

/-- rows outside `1 ..= unit_count` are rejected -/
theorem sections_bad_row (e : Endian) (ix : UnitIndex) (row : Nat)
    (h : row = 0 ∨ ix.unitCount < row) : Index.sections e ix row = .err .rInvalidIndexRow := by
  unfold Index.sections
  rw [if_pos h]

/-! ## `.debug_aranges` -/

open Gimli.Aranges in
/-- **Padding rule.** For every format and every address size (any positive one, in particular
1, 2, 4, 8): `0 ≤ pad < tuple` and `(header + pad) mod tuple = 0`, where `tuple = 2·address_size`
and `header` is the header size of the format (12 / 24 bytes). -/
theorem aranges_padding (f : Format) (addressSize : Nat) (h : 0 < addressSize) :
    padding f addressSize < 2 * addressSize ∧
      (headerLength f + padding f addressSize) % (2 * addressSize) = 0 := by
  unfold padding
  rw [Nat.mul_comm addressSize 2]
  exact paddingFor_spec (headerLength f) (2 * addressSize) (by omega)

open Gimli.Aranges in
/-- … and that is the padding `ArangeHeader::parse` skips: an accepted set is
`header ++ padding ++ entries`, followed by the next sets; its length field covers exactly that. -/
theorem aranges_header_layout (e : Endian) (input : Bytes) (h : Header) (rest : Bytes)
    (hp : parseHeader e input = .ok (h, rest)) :
    ∃ hdr pad, input = hdr ++ pad ++ h.entries ++ rest ∧
      hdr.length = headerLength h.format ∧ pad.length = padding h.format h.addressSize ∧
      (h.addressSize = 1 ∨ h.addressSize = 2 ∨ h.addressSize = 4 ∨ h.addressSize = 8) ∧
      h.length + initialLengthSize h.format = (hdr ++ pad ++ h.entries).length :=
  parseHeader_layout e input h rest hp

open Gimli.Aranges in
/-- **The entry iterator returns exactly the tuples present.**  For every list of tuples `ts`
(values fitting the address size; any number of null tuples and tombstones anywhere), followed by
less than a tuple of junk, draining `ArangeEntryIter` yields the linear scan `scanTuples`: one
item per tuple that is neither null nor a tombstone (`begin ≥ 2^(8·size) − 2`), in order, with
`end = begin + length`, or `AddressOverflow` where that sum does not fit the address size. -/
theorem aranges_entries_exact (e : Endian) (addressSize : Nat)
    (has : addressSize = 1 ∨ addressSize = 2 ∨ addressSize = 4 ∨ addressSize = 8)
    (ts : List (Nat × Nat)) (tail : Bytes) (htail : tail.length < 2 * addressSize)
    (hb : ∀ t, t ∈ ts → t.1 < 2 ^ (8 * addressSize) ∧ t.2 < 2 ^ (8 * addressSize))
    (fuel : Nat) (hf : ts.length < fuel) :
    entries e addressSize fuel (encTuples e addressSize ts ++ tail) = scanTuples addressSize ts :=
  entries_tuples e addressSize has tail htail fuel ts
    (fun t ht => by rw [pow256]; exact hb t ht) hf

/-! ## `.debug_names` -/

open Gimli.Names in
/-- **Layout arithmetic of `NameIndex::new`**: after the header come, in this order, the CU list,
the local TU list, the foreign TU list (8 bytes per signature whatever the format), the bucket
array, the hash array (present only when `bucket_count ≠ 0`), the string-offset array, the
entry-offset array, the abbreviation table (`abbrev_table_size` bytes) and the entry pool. -/
theorem names_layout (h : Header) (ix : Names.Index) (hn : Names.Index.new h = .ok ix) :
    ∃ abbrevTable,
      h.content = ix.cuList ++ ix.localTuList ++ ix.foreignTuList ++ ix.bucketData ++
        ix.hashTableData ++ ix.nameTableData ++ ix.entryOffsetData ++ abbrevTable ++ ix.entryPool ∧
      ix.cuList.length = h.cuCount * h.format.wordSize ∧
      ix.localTuList.length = h.localTuCount * h.format.wordSize ∧
      ix.foreignTuList.length = h.foreignTuCount * 8 ∧
      ix.bucketData.length = h.bucketCount * 4 ∧
      ix.hashTableData.length = (if h.bucketCount = 0 then 0 else h.nameCount * 4) ∧
      ix.nameTableData.length = h.nameCount * h.format.wordSize ∧
      ix.entryOffsetData.length = h.nameCount * h.format.wordSize ∧
      abbrevTable.length = h.abbrevTableSize ∧
      parseAbbrevs (abbrevTable.length + 1) abbrevTable = .ok ix.abbrevs ∧
      ix.format = h.format ∧ ix.bucketCount = h.bucketCount ∧ ix.nameCount = h.nameCount ∧
      ix.cuCount = h.cuCount ∧ ix.localTuCount = h.localTuCount ∧ ix.foreignTuCount = h.foreignTuCount :=
  new_layout h ix hn

open Gimli.Names in
/-- **The bucket iterator returns exactly the names in the bucket, and stops by the modulo
rule.**  For every well-formed hash table — `groups[b]` = the hashes (all `≡ b mod
bucket_count`) of the names of bucket `b` in name-table order, the hash array their
concatenation, the bucket array the 1-based index of each non-empty group's first name and 0 for
an empty group (`EncodesTable`) — and every bucket `b`: `find_by_bucket(b)` is `None` iff no
name of the whole table hashes into `b`, and otherwise, drained, yields exactly the pairs
`(index, hash)` an exhaustive scan of the whole hash array finds with `hash % bucket_count = b`,
in order. -/
theorem bucket_iter_exact (e : Endian) (bc : Nat) (groups : List (List Nat)) (ix : Names.Index)
    (hwf : WellFormed bc groups) (henc : EncodesTable e groups ix) (b : Nat) (hb : b < bc) :
    ix.bucket e b =
      .ok (if scanBucket bc b groups.flatten = [] then none
           else some ((scanBucket bc b groups.flatten).map .item)) :=
  bucket_scan e bc groups ix hwf henc b hb

open Gimli.Names in
/-- **`find_by_hash` returns exactly the names with that hash**: for every well-formed hash
table with at least one bucket and every 32-bit hash value (present or absent, colliding with
other names of its bucket or not), draining the hash iterator yields the indexes an exhaustive
scan of the whole hash array finds with that hash, in order. -/
theorem hash_iter_exact (e : Endian) (bc : Nat) (groups : List (List Nat)) (ix : Names.Index)
    (hwf : WellFormed bc groups) (henc : EncodesTable e groups ix) (hbc : 0 < bc) (hash : Nat) :
    ix.findByHash e hash = .ok ((scanHash hash groups.flatten).map .item) :=
  findByHash_scan e bc groups ix hwf henc hbc hash

open Gimli.Names in
/-- **The name abbreviation table parses back to the abbreviations it encodes** (ULEB code, ULEB
tag, `(name, form)` pairs ended by `0 0`; non-zero codes/tags/names/forms that fit their 64/16-bit
readers), whether or not the table carries the terminating 0 — this is the table
`NameEntry::parse` resolves entry codes against. -/
theorem name_abbrevs_exact (abbrevs : List Abbrev) (h : ∀ a, a ∈ abbrevs → a.Ok)
    (tail : Bytes) (htail : tail = [] ∨ ∃ junk, tail = 0 :: junk) (fuel : Nat)
    (hf : abbrevs.length < fuel) :
    parseAbbrevs fuel (encAbbrevs abbrevs ++ tail) = .ok abbrevs :=
  parseAbbrevs_enc abbrevs h tail htail fuel hf

open Gimli.Names in
/-- **`name_entries(i)` returns exactly the entries of name `i`.**  If slot `i` of the
entry-offset array points at a series of entries in the pool — each entry the ULEB abbreviation
code of an abbreviation that `NameAbbreviations::get` resolves to itself, followed by one value
per attribute specification in a form of the supported set (flag, flag_present, data1/2/4/8,
udata, ref1/2/4/8, ref_udata) that fits the form — terminated by a 0 code, then draining the
entry iterator yields the exhaustive scan of the series: every entry, in order, at its pool
offset, with the abbreviation's tag and the attribute list `(name, form, value)`. -/
theorem name_entries_exact (e : Endian) (ix : Names.Index) (offsets : List Nat) (i : Nat)
    (hi : i < offsets.length)
    (hoff : ix.entryOffsetData = offsets.flatMap fun v => toBytes e ix.format.wordSize v)
    (hb : ∀ v, v ∈ offsets → v < 2 ^ (8 * ix.format.wordSize))
    (pre post : Bytes) (es : List AbsEntry) (hes : ∀ en, en ∈ es → en.Ok ix.abbrevs)
    (hpool : ix.entryPool = pre ++ (encSeries e es ++ 0 :: post)) (hoi : offsets[i] = pre.length) :
    ix.nameEntries e i = .ok (scanSeries e pre.length es) :=
  nameEntries_series e ix offsets i hi hoff (fun v hv => by rw [pow256]; exact hb v hv)
    pre post es hes hpool hoi

open Gimli.Names in
/-- **Compile-unit and type-unit references resolve through the right list**: index `i` of the
CU list is `cus[i]`; a type-unit index below `local_type_unit_count` is the local TU offset
`ltus[i]`, an index `local_type_unit_count + j` is the foreign signature `ftus[j]` (8 bytes
whatever the format). -/
theorem name_units_exact (e : Endian) (ix : Names.Index) (cus ltus ftus : List Nat)
    (hcu : ix.cuList = cus.flatMap fun v => toBytes e ix.format.wordSize v)
    (hltu : ix.localTuList = ltus.flatMap fun v => toBytes e ix.format.wordSize v)
    (hftu : ix.foreignTuList = ftus.flatMap fun v => toBytes e 8 v)
    (hlc : ix.localTuCount = ltus.length)
    (hbc : ∀ v, v ∈ cus → v < 2 ^ (8 * ix.format.wordSize))
    (hbl : ∀ v, v ∈ ltus → v < 2 ^ (8 * ix.format.wordSize))
    (hbf : ∀ v, v ∈ ftus → v < 2 ^ 64) :
    (∀ i (hi : i < cus.length), ix.compileUnit e i = .ok cus[i]) ∧
    (∀ i (hi : i < ltus.length), ix.typeUnit e i = .ok (.local_ ltus[i])) ∧
    (∀ j (hj : j < ftus.length), ix.typeUnit e (ltus.length + j) = .ok (.foreign ftus[j])) :=
  units_exact e ix cus ltus ftus hcu hltu hftu hlc (fun v hv => by rw [pow256]; exact hbc v hv)
    (fun v hv => by rw [pow256]; exact hbl v hv) (fun v hv => by rw [pow256]; exact hbf v hv)

open Gimli.Names in
/-- **Parent chains**: `name_entry(offset)` for the pool offset a `DW_IDX_parent` attribute carries
parses back exactly the entry encoded there. -/
theorem name_parent_entry_exact (e : Endian) (ix : Names.Index) (pre post : Bytes) (en : AbsEntry)
    (h : en.Ok ix.abbrevs) (hpool : ix.entryPool = pre ++ (encEntry e en ++ post)) :
    ix.nameEntry e pre.length = .ok (entryOf pre.length en) :=
  nameEntry_at e ix pre post en h hpool

open Gimli.Names in
/-- **The five attribute accessors** read the first attribute with their `DW_IDX` name and accept
exactly the value class that name has: `die_offset`/`parent` an offset (`parent` also
`flag_present` = "parent not indexed"), `type_hash`/`compile_unit`/`type_unit` an unsigned value
(an index `< 2^32` that is then resolved through the unit lists); no such attribute gives `None`. -/
theorem name_accessors_exact (e : Endian) (ix : Names.Index) (en : Names.Entry) :
    (firstAttr en 3 = none → en.dieOffset = .ok none) ∧
    (∀ f v, firstAttr en 3 = some ⟨3, f, .offset v⟩ → en.dieOffset = .ok (some v)) ∧
    (firstAttr en 4 = none → en.parent = .ok none) ∧
    (∀ f v, firstAttr en 4 = some ⟨4, f, .offset v⟩ → en.parent = .ok (some (some v))) ∧
    (∀ f, firstAttr en 4 = some ⟨4, f, .flag true⟩ → en.parent = .ok (some none)) ∧
    (∀ f v, firstAttr en 5 = some ⟨5, f, .unsigned v⟩ → en.typeHash = .ok (some v)) ∧
    (firstAttr en 1 = none → en.compileUnit e ix = .ok none) ∧
    (∀ f v, firstAttr en 1 = some ⟨1, f, .unsigned v⟩ → v < 2 ^ 32 →
      en.compileUnit e ix = (ix.compileUnit e v).map some) ∧
    (firstAttr en 2 = none → en.typeUnit e ix = .ok none) ∧
    (∀ f v, firstAttr en 2 = some ⟨2, f, .unsigned v⟩ → v < 2 ^ 32 →
      en.typeUnit e ix = (ix.typeUnit e v).map some) :=
  accessors_exact e ix en

/-! ## `.debug_pubnames` / `.debug_pubtypes` -/

open Gimli.Pub in
/-- **The public-name tables return exactly the entries present.**  For every list of
well-formed sets (either format per set; non-zero DIE offsets; NUL-free names; any number of
entries, including none), draining `LookupEntryIter` over their encoding (header, entries,
zero-offset terminator, set after set) yields the exhaustive scan: every entry of every set, in
order, each with the unit offset of its own set. -/
theorem pub_entries_exact (e : Endian) (sets : List PubSet) (hv : AllValid e sets) (fuel : Nat)
    (hf : totalEntries sets < fuel) :
    items e fuel (start (encSets e sets)) = scanSets e sets :=
  items_sets e sets hv fuel hf

/-! ## package units, indexed tables -/

/-- **A unit fetched from a package equals the unit in its standalone object.**  Let the index
row of a unit list each section kind at most once, and let every kind either have no column (the
standalone object has no such section) or a column `(kind, offset, size)` that points at the
standalone section's bytes inside the package section (`pkg kind = pre ++ standalone kind ++
post`, `offset = |pre|`, `size = |standalone kind|`).  Then the ten `dwp_range` calls of
`DwarfPackage::sections` succeed and return exactly the standalone sections. -/
theorem dwp_slice (pkg : SecKind → Bytes) (cols : List (SecKind × Nat × Nat))
    (standalone : SecKind → Bytes) (huniq : (cols.map (·.1)).Nodup)
    (h : ∀ k, k ∈ sliceOrder → Contributes pkg cols standalone k) :
    packageSlices pkg cols sliceOrder = .ok (sliceOrder.map fun k => (k, standalone k)) :=
  packageSlices_standalone pkg cols standalone huniq sliceOrder h

/-- **`find_cu` / `find_tu` end to end: a unit fetched from a package equals the unit in its
standalone object, and an id that is not in the package gives `None`.**  The package index holds
the hash table built by insertion from `kvs` (any load factor, colliding signatures) and the
matrices `offs` / `szs`; the column kinds are distinct.  Then for every id: if the exhaustive
scan of `kvs` does not list it, `find_cu` returns `None`; if it lists it at a valid row whose
matrix entries point at the unit's standalone sections inside the package sections, `find_cu`
returns exactly those standalone sections (and empty ones for the kinds without a column). -/
theorem dwp_find_cu_exact (k : Nat) (kvs : List (Nat × Nat))
    (hnz : ∀ kv, kv ∈ kvs → kv.1 ≠ 0) (hdist : kvs.Pairwise (fun a b => a.1 ≠ b.1))
    (hroom : kvs.length ≤ 2 ^ k) :
    ∃ t, build k kvs = some t ∧
      ∀ (e : Endian) (ix : UnitIndex), Encodes e k t ix →
        ∀ (offs szs : List (List Nat)),
          ix.sections.length = ix.sectionCount → ix.sections.Nodup →
          offs.length = ix.unitCount → szs.length = ix.unitCount →
          (∀ r, r ∈ offs → r.length = ix.sectionCount ∧ ∀ v, v ∈ r → v < 2 ^ 32) →
          (∀ r, r ∈ szs → r.length = ix.sectionCount ∧ ∀ v, v ∈ r → v < 2 ^ 32) →
          ix.offsets = encMatrix e offs → ix.sizes = encMatrix e szs →
          ∀ (pkg standalone : SecKind → Bytes) (id : Nat),
            (scan kvs id = none → findUnit e ix pkg id = .ok none) ∧
            (∀ row, scan kvs id = some row → 1 ≤ row → row ≤ ix.unitCount →
              (∀ kd, kd ∈ sliceOrder → Contributes pkg
                (ix.sections.zip ((offs.getD (row - 1) []).zip (szs.getD (row - 1) []))) standalone kd) →
              findUnit e ix pkg id = .ok (some (row, sliceOrder.map fun kd => (kd, standalone kd)))) := by
  obtain ⟨t, ht, hfind⟩ := index_find_iff_present k kvs hnz hdist hroom
  refine ⟨t, ht, ?_⟩
  intro e ix henc offs szs hk hnodup hro hrs hco hcs hoff hsz pkg standalone id
  exact findUnit_exact e kvs ix (fun id => (hfind e ix henc id).1) offs szs hk hnodup hro hrs hco hcs
    hoff hsz pkg standalone id

/-- `sliceOrder` covers every section kind an index can name -/
theorem dwp_slice_all_kinds (k : SecKind) : k ∈ sliceOrder := by cases k <;> decide

open Gimli.Indexed in
/-- **Indexed string offsets return exactly the table entry**: for a table of offsets `vals`
located at `base` in `.debug_str_offsets` (anything before and after), `get_str_offset(base, i)`
is `vals[i]`, for either format and byte order. -/
theorem indexed_string_exact (e : Endian) (f : Format) (pre post : Bytes) (vals : List Nat) (i : Nat)
    (hi : i < vals.length) (hb : ∀ v, v ∈ vals → v < 2 ^ (8 * f.wordSize))
    (hsz : i * f.wordSize < 2 ^ 64) :
    getStrOffset e f (pre ++ vals.flatMap (fun v => toBytes e f.wordSize v) ++ post) pre.length i =
      .ok vals[i] :=
  getStrOffset_table e f pre post vals i hi (fun v hv => by rw [pow256]; exact hb v hv) hsz

open Gimli.Indexed in
/-- **Indexed addresses return exactly the table entry**, for every address size 1/2/4/8. -/
theorem indexed_address_exact (e : Endian) (sz : Nat) (hs : sz = 1 ∨ sz = 2 ∨ sz = 4 ∨ sz = 8)
    (pre post : Bytes) (vals : List Nat) (i : Nat)
    (hi : i < vals.length) (hb : ∀ v, v ∈ vals → v < 2 ^ (8 * sz)) (hsz : i * sz < 2 ^ 64) :
    getAddress e sz (pre ++ vals.flatMap (fun v => toBytes e sz v) ++ post) pre.length i =
      .ok vals[i] :=
  getAddress_table e sz hs pre post vals i hi (fun v hv => by rw [pow256]; exact hb v hv) hsz

open Gimli.Indexed in
/-- **String form resolution.** `attr_string` of a `DW_FORM_strx` index `i` is the string whose
`.debug_str` offset is entry `i` of the unit's `.debug_str_offsets` table (the table found at the
unit's `str_offsets_base`); `strp`, `line_strp` and `strp_sup` read `.debug_str`,
`.debug_line_str` and the supplementary file's `.debug_str` respectively (an error when there is
no supplementary file). -/
theorem attr_string_exact (c : Ctx) (spre s spost : Bytes) (hs : ∀ b, b ∈ s → b ≠ 0) :
    (∀ (pre post : Bytes) (vals : List Nat) (i : Nat),
      c.debugStrOffsets = pre ++ vals.flatMap (fun v => toBytes c.endian c.format.wordSize v) ++ post →
      c.strOffsetsBase = pre.length → ∀ (hi : i < vals.length),
      (∀ v, v ∈ vals → v < 2 ^ (8 * c.format.wordSize)) → i * c.format.wordSize < 2 ^ 64 →
      c.debugStr = spre ++ (s ++ 0 :: spost) → vals[i] = spre.length →
      attrString c (.debugStrOffsetsIndex i) = .ok s) ∧
    (c.debugStr = spre ++ (s ++ 0 :: spost) → attrString c (.debugStrRef spre.length) = .ok s) ∧
    (c.debugLineStr = spre ++ (s ++ 0 :: spost) → attrString c (.debugLineStrRef spre.length) = .ok s) ∧
    (c.supDebugStr = some (spre ++ (s ++ 0 :: spost)) → attrString c (.debugStrRefSup spre.length) = .ok s) ∧
    (c.supDebugStr = none → attrString c (.debugStrRefSup spre.length) = .err .rExpectedStringAttributeValue) := by
  refine ⟨?_, attrString_strp c spre s spost hs⟩
  intro pre post vals i hso hbase hi hb hsz hstr hoff
  exact attrString_strx c pre post vals i spre s spost hso hbase hi
    (fun v hv => by rw [pow256]; exact hb v hv) hsz hstr hoff hs

open Gimli.Indexed in
/-- **Address form resolution.** `attr_address` of a `DW_FORM_addrx` index `i` is entry `i` of the
unit's table in `.debug_addr` (at `addr_base`), of `DW_FORM_addr` the value itself, of any other
form `None`. -/
theorem attr_address_exact (c : Ctx)
    (hs : c.addressSize = 1 ∨ c.addressSize = 2 ∨ c.addressSize = 4 ∨ c.addressSize = 8)
    (pre post : Bytes) (vals : List Nat) (i : Nat)
    (had : c.debugAddr = pre ++ vals.flatMap (fun v => toBytes c.endian c.addressSize v) ++ post)
    (hbase : c.addrBase = pre.length) (hi : i < vals.length)
    (hb : ∀ v, v ∈ vals → v < 2 ^ (8 * c.addressSize)) (hsz : i * c.addressSize < 2 ^ 64) (a : Nat) :
    attrAddress c (.debugAddrIndex i) = .ok (some vals[i]) ∧ attrAddress c (.addr a) = .ok (some a) ∧
      attrAddress c .other = .ok none :=
  attrAddress_addrx c hs pre post vals i had hbase hi (fun v hv => by rw [pow256]; exact hb v hv) hsz a

/-! ## loader wiring -/

open Gimli.Loader in
/-- **Each section type loaded through the section loader receives that section's data and no
other** (finite tables mirroring `DwarfSections::load`, `Dwarf::from_sections`,
`DwarfPackageSections::load`, `Section::id`, `SectionId::name`; decided by evaluation).
1. every field of `DwarfSections` is loaded with the `SectionId` whose ELF name is the field's
   name, and no id is requested twice;
2. every slot of `Dwarf` (including both halves of `locations` and `ranges`) ends up holding what
   the loader returned for the slot type's own id, for every loader;
3. `Dwarf::lookup_offset_id` reports a marker under its own id exactly for the sections it
   consults, and under no other id;
4. the same for the 13 fields of `DwarfPackageSections` (`cu_index` ↦ `.debug_cu_index`, …). -/
theorem loader_wiring :
    (∀ p, p ∈ dwarfSectionsFields → p.2.name = "." ++ p.1) ∧
    (dwarfSectionsFields.map (·.2)).Nodup ∧
    (∀ (α : Type) (loader : SectionId → α),
      dwarfLoad loader = dwarfSlots.map fun (slot, id, _) => (slot, some (loader id))) ∧
    (∀ p, p ∈ dwarfSlots → p.2.1.name = "." ++ p.2.2) ∧
    (∀ m, lookupMarker m = if m ∈ lookupOrder.map (·.2) then some m else none) ∧
    (∀ p, p ∈ packageFields → p.2.name = "." ++ p.1 ∨ p.2.name = ".debug_" ++ p.1) ∧
    (packageFields.map (·.2)).Nodup := by
  refine ⟨by decide, by decide, fun _ _ => rfl, by decide, ?_, by decide, by decide⟩
  intro m; cases m <;> decide

/-! ## non-vacuity -/

example : build 2 [(5, 1), (9, 2), (13, 3), (0x100000001, 4)] =
    some [(0x100000001, 4), (5, 1), (9, 2), (13, 3)] := by decide
example : Aranges.padding .dwarf32 8 = 4 ∧ Aranges.padding .dwarf64 8 = 8 ∧
    Aranges.padding .dwarf32 4 = 4 ∧ Aranges.padding .dwarf64 2 = 0 := by decide
example : Aranges.scanTuples 4 [(0x1000, 0x10), (0, 0), (0xffffffff, 5), (0xfffffff0, 0x20), (7, 1)] =
    [.item ⟨0x1000, 0x1010, 0x10⟩, .error .rAddressOverflow, .item ⟨7, 8, 1⟩] := by decide

example : Index.dwpRange [1, 2, 3, 4, 5] 1 3 = .ok [2, 3, 4] := by decide
example : Indexed.getStrOffset .little .dwarf32 [9, 9, 1, 0, 0, 0, 2, 0, 0, 0] 2 1 = .ok 2 := by decide

example : Names.WellFormed 2 [[4, 6, 4], [7]] :=
  ⟨rfl, by
    intro j hj h hh
    match j, hj, hh with
    | 0, _, hh => simp at hh; rcases hh with rfl | rfl | rfl <;> decide
    | 1, _, hh => simp at hh; subst hh; decide
    | j + 2, hj, _ => simp at hj; omega, by decide⟩
example : Names.scanBucket 2 0 [4, 6, 4, 7] = [(0, 4), (1, 6), (2, 4)] ∧
    Names.scanHash 4 [4, 6, 4, 7] = [0, 2] ∧ Names.bucketArray [[4, 6, 4], [7]] 0 = [1, 4] := by decide

example : Pub.AllValid .little [⟨.dwarf32, 0x10, 0x99, [(0x20, [97, 98]), (0x30, [])]⟩, ⟨.dwarf64, 1, 2, []⟩] := by
  intro s hs
  simp only [List.mem_cons, List.not_mem_nil, or_false] at hs
  rcases hs with rfl | rfl
  · exact ⟨by decide, by decide, by decide, by decide⟩
  · exact ⟨by decide, by decide, by decide, by decide⟩

end Gimli.Props.C17
