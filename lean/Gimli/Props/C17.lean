import Gimli.Lemmas.Index
import Gimli.Model.Aranges
/-!
# C17 — Accelerated lookups and section plumbing agree with exhaustive scans
-/
namespace Gimli.Props.C17
open Gimli Gimli.Ints Gimli.Index Gimli.Spec.Index

theorem find_terminates (e : Endian) (ix : UnitIndex) (id : Nat) :
    (findN e ix id).2 ≤ ix.slotCount := by
  unfold findN
  split
  · simp
  · exact findLoop_probes_le _ _ _ _ _ _ _

end Gimli.Props.C17
