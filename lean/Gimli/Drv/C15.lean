import Gimli.Drv.Util
import Gimli.Model.WOpLayout
/-! Line-protocol operations for C15 (expression writer). The Rust side answering the same lines
from the real crate is `harness/src/prop/c15.rs`.

`c15-<ctx> <le|be> <address size> <32|64> <version> <pre>/<post>/<entries> <ops>`

* ctx: `attr` | `loc` | `cfa-<df|eh>` | `cfe-<df|eh>` | `cfv-<df|eh>`
* pre/post: `-` or the name length of the auxiliary unit's child; entries: comma separated
  `<b|v|d|R|B><name length>` (`-` for none)
* ops: `;` separated builder calls (`-` for none), operands separated by `:`; unit entries are
  indices into `entries`; section references are `m<i>` (main unit), `p`, `n` (auxiliary units),
  `s<k>` (symbol); `entry_value:<k>` takes the following `k` operations as its body; branch targets
  are operation indices of the enclosing (sub)expression.

Reply: `ok <length prefix> <bytes> <decoded operations>` | `err W.<Error>`. -/
namespace Gimli.Drv.C15
open Gimli Gimli.Drv Gimli.WOp Gimli.WOp.Layout

def parseKind : Char → Option Kind
  | 'b' => some .base | 'v' => some .var | 'd' => some .deleted
  | 'R' => some .refVar | 'B' => some .refBase
  | _ => none

def parseEntry (s : String) : Option EntrySpec :=
  match s.toList with
  | c :: rest => do
    let k ← parseKind c
    let n ← (String.ofList rest).toNat?
    if n < 4 ∨ (k.isRef ∧ n < 4 + markerLen) then none else pure { kind := k, nameLen := n }
  | [] => none

def parseAux (s : String) : Option (Option Nat) :=
  if s == "-" then some none else do
    let n ← s.toNat?
    if n < 4 then none else pure (some n)

def parseUnits (s : String) : Option UnitSpec :=
  match s.splitOn "/" with
  | [pre, post, ents] => do
    let pre ← parseAux pre
    let post ← parseAux post
    let entries ← if ents == "-" then some [] else (ents.splitOn ",").mapM parseEntry
    if (entries.filter (·.kind.isRef)).length ≠ 1 ∨ entries.length > 64 then none
    else pure { pre, post, entries }
  | _ => none

def parseCtx (s : String) : Option Ctx :=
  match s with
  | "attr" => some .attr
  | "loc" => some .loc
  | "cfa:df" | "cfe:df" | "cfv:df" => some (.cfi false)
  | "cfa:eh" | "cfe:eh" | "cfv:eh" => some (.cfi true)
  | _ => none

structure PCtx where
  u : UnitSpec

def parseERef (c : PCtx) (s : String) : Option Nat := do
  let i ← s.toNat?
  if i < c.u.entries.length then pure i else none

def parseDRef (c : PCtx) (s : String) : Option DRef :=
  match s.toList with
  | ['p'] => if c.u.pre.isSome then some (.entry 0 0) else none
  | ['n'] => if c.u.post.isSome then some (.entry 2 0) else none
  | 'm' :: rest => (parseERef c (String.ofList rest)).map (fun i => .entry 1 i)
  | 's' :: rest => (String.ofList rest).toNat?.map .symbol
  | _ => none

def u64? (s : String) : Option Nat := do let v ← s.toNat?; if v < 2 ^ 64 then pure v else none
def u32? (s : String) : Option Nat := do let v ← s.toNat?; if v < 2 ^ 32 then pure v else none
def u16? (s : String) : Option Nat := do let v ← s.toNat?; if v < 2 ^ 16 then pure v else none
def u8? (s : String) : Option Nat := do let v ← s.toNat?; if v < 2 ^ 8 then pure v else none
def i64? (s : String) : Option Int := do
  let v ← parseInt? s; if -(2 : Int) ^ 63 ≤ v ∧ v < 2 ^ 63 then pure v else none

mutual
/-- `n` operations from the token stream -/
partial def parseN (c : PCtx) : Nat → List String → Option (List Operation × List String)
  | 0, toks => some ([], toks)
  | n + 1, toks => do
    let (op, toks) ← parseOp c toks
    let (rest, toks) ← parseN c n toks
    pure (op :: rest, toks)

partial def parseOp (c : PCtx) : List String → Option (Operation × List String)
  | [] => none
  | tok :: toks =>
    match tok.splitOn ":" with
    | ["entry_value", k] => do
      let k ← k.toNat?
      let (body, toks) ← parseN c k toks
      if !wellFormed body then none else pure (.entryValue body, toks)
    | ["raw", h] => do pure (.raw (← parseHex h), toks)
    | ["op", b] => do pure (.simple (← u8? b), toks)
    | ["addr", v] => do pure (.address (.constant (← u64? v)), toks)
    | ["addrsym", s, a] => do pure (.address (.symbol (← s.toNat?) (← i64? a)), toks)
    | ["constu", v] => do pure (.unsignedConstant (← u64? v), toks)
    | ["consts", v] => do pure (.signedConstant (← i64? v), toks)
    | ["const_type", b, h] => do pure (.constantType (← parseERef c b) (← parseHex h), toks)
    | ["fbreg", o] => do pure (.frameOffset (← i64? o), toks)
    | ["breg", r, o] => do pure (.registerOffset (← u16? r) (← i64? o), toks)
    | ["regval_type", r, b] => do pure (.registerType (← u16? r) (← parseERef c b), toks)
    | ["pick", i] => do pure (.pick (← u8? i), toks)
    | ["deref"] => some (.deref false, toks)
    | ["xderef"] => some (.deref true, toks)
    | ["deref_size", n] => do pure (.derefSize false (← u8? n), toks)
    | ["xderef_size", n] => do pure (.derefSize true (← u8? n), toks)
    | ["deref_type", n, b] => do pure (.derefType false (← u8? n) (← parseERef c b), toks)
    | ["xderef_type", n, b] => do pure (.derefType true (← u8? n) (← parseERef c b), toks)
    | ["plus_uconst", v] => do pure (.plusConstant (← u64? v), toks)
    | ["skip", t] => do pure (.skip (← t.toNat?), toks)
    | ["bra", t] => do pure (.branch (← t.toNat?), toks)
    | ["call", b] => do pure (.call (← parseERef c b), toks)
    | ["call_ref", r] => do pure (.callRef (← parseDRef c r), toks)
    | ["variable_value", r] => do pure (.variableValue (← parseDRef c r), toks)
    | ["convert", b] => if b == "-" then some (.convert none, toks) else do pure (.convert (some (← parseERef c b)), toks)
    | ["reinterpret", b] => if b == "-" then some (.reinterpret none, toks) else do pure (.reinterpret (some (← parseERef c b)), toks)
    | ["reg", r] => do pure (.register (← u16? r), toks)
    | ["implicit_value", h] => do pure (.implicitValue (← parseHex h), toks)
    | ["implicit_pointer", r, o] => do pure (.implicitPointer (← parseDRef c r) (← i64? o), toks)
    | ["piece", n] => do pure (.piece (← u64? n), toks)
    | ["bit_piece", s, o] => do pure (.bitPiece (← u64? s) (← u64? o), toks)
    | ["parameter_ref", b] => do pure (.parameterRef (← parseERef c b), toks)
    | ["wasm_local", i] => do pure (.wasmLocal (← u32? i), toks)
    | ["wasm_global", i] => do pure (.wasmGlobal (← u32? i), toks)
    | ["wasm_stack", i] => do pure (.wasmStack (← u32? i), toks)
    | _ => none

/-- what the builders can construct without tripping their own assertions: branch targets within
`[0, len]` and not the branch itself; raw bytecode only as a whole (sub)expression -/
partial def wellFormed (ops : List Operation) : Bool :=
  let n := ops.length
  (List.range n).zip ops |>.all fun (i, op) =>
    match op with
    | .skip t | .branch t => t ≤ n && t ≠ i
    | .raw _ => n == 1
    | _ => true
end

partial def parseAll (c : PCtx) (toks : List String) : Option (List Operation) :=
  match toks with
  | [] => some []
  | _ => do
    let (op, toks) ← parseOp c toks
    let rest ← parseAll c toks
    pure (op :: rest)

def renderDecoded (e : Endian) (enc : Op.Encoding) (bs : Bytes) : String :=
  let (ops, er) := Op.iterAll e enc bs.length (bs.length + 1) bs
  let toks := ops.map (fun p => p.1.render) ++ (match er with | some x => ["!" ++ x.name] | none => [])
  if toks.isEmpty then "-" else ";".intercalate toks

def handle (op : String) (args : List String) : Option String :=
  match args with
  | [e, asz, fmt, ver, units, ops] => do
    -- the op token is `c15-<ctx>` with the `:` of the context written as `-`
    if !op.startsWith "c15-" then none else
    let ctx ← parseCtx (((op.drop 4).toString.splitOn "-").intersperse ":" |> String.join)
    let ctx ← some ctx
    let e ← endian? e
    let asz ← asz.toNat?
    let fmt ← format? fmt
    let ver ← ver.toNat?
    let u ← parseUnits units
    let toks := if ops == "-" then [] else ops.splitOn ";"
    let ops ← parseAll { u } toks
    if !wellFormed ops then none else
    let enc : Op.Encoding := { addressSize := asz, format := fmt, version := ver }
    if asz ≥ 256 ∨ ver ≥ 65536 then none else
    -- the units themselves only exist for DWARF 2..5
    let isCfi := match ctx with | .cfi _ => true | _ => false
    if !isCfi && (ver < 2 || ver > 5) then none else
    pure ((emit e enc u ctx ops).render (fun (size, bs) =>
      toString size ++ " " ++ toHex bs ++ " " ++ renderDecoded e enc bs))
  | _ => none

end Gimli.Drv.C15
