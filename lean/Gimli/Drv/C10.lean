import Gimli.Drv.Util
import Gimli.Model.Reader
import Gimli.Model.Utf8
/-! Line-protocol operations for C10 (readers are zero-copy views; all kinds agree).
See `harness/src/prop/c10.rs` for the Rust side answering the same lines from the real readers.

`rd-hist <mode> <le|be> <section hex> <op> <op> …` — a history of reader operations.
Reply: `ok <trace of the shared-buffer reader>` followed by ` ~slice <trace>`,
` ~rslice <trace>`, ` ~rshared <trace>` for the kinds (EndianSlice, RelocateReader over either
with the identity relocation) whose trace differs from it.
`rd-parse …` — whole-section parses repeated under every reader kind; implementation-side oracle only. -/
namespace Gimli.Drv.C10
open Gimli Gimli.Drv Gimli.Rd

def fmt? : String → Option Format
  | "32" => some .dwarf32
  | "64" => some .dwarf64
  | _ => none

def parseOp (tok : String) : Option Op :=
  match tok.splitOn ":" with
  | [name, i] => do
    let i ← i.toNat?
    match name with
    | "u8" => some (.fixed i 1) | "u16" => some (.fixed i 2) | "u32" => some (.fixed i 4)
    | "u64" => some (.fixed i 8) | "u128" => some (.fixed i 16)
    | "f32" => some (.fixed i 4) | "f64" => some (.fixed i 8)
    | "i8" => some (.signed i 1) | "i16" => some (.signed i 2) | "i32" => some (.signed i 4)
    | "i64" => some (.signed i 8)
    | "empty" => some (.empty i) | "clone" => some (.clone i) | "drop" => some (.drop i)
    | "offid" => some (.offId i) | "len" => some (.len i) | "toslice" => some (.toSlice i)
    | "tostr" => some (.toStr i) | "tolossy" => some (.toLossy i) | "nts" => some (.nts i)
    | "uleb" => some (.uleb i) | "sleb" => some (.sleb i) | "uleb32" => some (.uleb32 i)
    | "uleb16" => some (.uleb16 i) | "skipleb" => some (.skipLeb i)
    | "initlen" => some (.initLen i) | "addrsize" => some (.addrSize i)
    | _ => none
  | [name, i, a] => do
    let i ← i.toNat?
    let a ← a.toNat?
    match name with
    | "uint" => some (.uint i a) | "slice" => some (.slice i a) | "skip" => some (.skip i a)
    | "split" => some (.split i a) | "trunc" => some (.trunc i a)
    | "find" => some (.find i (UInt8.ofNat a)) | "offfrom" => some (.offFrom i a)
    | "lookup" => some (.lookup i a) | "addr" => some (.addr i a)
    | "sizedoff" => some (.sizedOff i a)
    | "word" => (fmt? (toString a)).map (.word i)
    | "off" => (fmt? (toString a)).map (.offset i)
    | _ => none
  | _ => none

def renderView (v : Option View) : String :=
  match v with
  | none => "~"
  | some v => toString v.off ++ "+" ++ toString v.len

def renderVal : Val → String
  | .unit => "-"
  | .nat n => toString n
  | .int z => toString z
  | .bytes b => "x" ++ toHex b
  | .cow true b => "b" ++ toHex b
  | .cow false b => "o" ++ toHex b
  | .opt none => "none"
  | .opt (some n) => "some" ++ toString n
  | .lenFmt n f => toString n ++ "/" ++ Format.str f
  | .addr (.inSec n) => "id" ++ toString n
  | .rdr => "r"
  | .bad => "bad"

def renderObs (o : Obs) : String :=
  (match o.res with
   | .ok v => renderVal v
   | .err e => "E:" ++ e.name
   | .panic _ => "P"
   | .diverge => "D") ++ "@" ++ renderView o.tgt ++
  (match o.new with
   | none => ""
   | some v => ">" ++ renderView (some v))

def renderTrace (t : List Obs) : String := " ".intercalate (t.map renderObs)

def traceOf {σ : Type} (I : Impl σ) (s : σ) (m : Mode) (e : Endian) (ops : List Op) : String :=
  renderTrace (trace I s m e Utf8.valid Utf8.lossy ops)

def handle (op : String) (args : List String) : Option String :=
  match op, args with
  | "rd-hist", m :: e :: h :: ops => do
    let m ← mode? m; let e ← endian? e; let sec ← parseHex h
    let ops ← ops.mapM parseOp
    let c := Cur.ofSec sec
    let shared := traceOf sharedImpl c m e ops
    let slice := traceOf sliceImpl c m e ops
    let rslice := traceOf (relocImpl sliceImpl Rel.id) (RCur.new c) m e ops
    let rshared := traceOf (relocImpl sharedImpl Rel.id) (RCur.new c) m e ops
    let extra (name t : String) : String := if t == shared then "" else " ~" ++ name ++ " " ++ t
    pure ("ok " ++ shared ++ extra "slice" slice ++ extra "rslice" rslice ++ extra "rshared" rshared)
  | "rd-parse", _ => some "normal"
  | "rd-utf8", [h] => do
    let bs ← parseHex h
    pure ("ok " ++ (if Utf8.valid bs then "valid" else "invalid") ++ " " ++ toHex (Utf8.lossy bs))
  | _, _ => none

end Gimli.Drv.C10
