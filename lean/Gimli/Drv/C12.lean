import Gimli.Drv.Util
/-!
C12 requests (`c12-dwarf`, `c12-frame`): the implementation side converts, writes, re-reads and
compares semantic dumps. The Model's reply is `ok *` — it matches any `ok …` outcome ("converted"
with an equal dump, or "failed:<error>"): the claim of `Props/C12.lean` is "error or meaning
preserved", not which of the two.
-/
namespace Gimli.Drv.C12

def handle (op : String) (_args : List String) : Option String :=
  if op == "c12-dwarf" || op == "c12-frame" then some "ok *" else none

end Gimli.Drv.C12
