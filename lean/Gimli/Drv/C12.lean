import Gimli.Drv.Util
import Gimli.Model.ConvCfi
import Gimli.Model.ConvLine
import Gimli.Model.ConvOp
import Gimli.Model.ConvUnit
/-!
C12 requests.

* `c12-dwarf`, `c12-frame`: the implementation side converts, writes, re-reads and compares
  semantic dumps. The Model's reply is `ok *` — it matches any `ok …` outcome ("converted" with an
  equal dump, or "failed:<error>"): the claim of `Props/C12.lean` is "error or meaning preserved",
  not which of the two.
* `c12-lineaddr <ins,…>`: ties `Model/ConvLine.lean` to the code. The instruction list
  (`s<addr>` set_address, `a<d>` advance, `r` row, `e` end_sequence) is assembled into a line
  program; the reply is the row addresses gimli reads from it and the row addresses it reads from
  the converted and re-written program — or `failed` when the conversion ends inside a sequence
  (`MissingLineEndSequence`).
* `c12-cfiarith <caf> <daf> <delta> <f>`: ties `Model/ConvCfi.lean` to the code: a CIE with the
  given alignment factors and an FDE `advance_loc4 delta; offset_extended_sf r3, f` is converted,
  written and re-read.
-/
namespace Gimli.Drv.C12
open Gimli Gimli.ConvLine Gimli.ConvCfi

def ins? (s : String) : Option Ins :=
  if s == "r" then some .row
  else if s == "e" then some .endSeq
  else match s.toList with
    | 's' :: rest => (String.ofList rest).toNat?.map .setAddress
    | 'a' :: rest => (String.ofList rest).toNat?.map .advance
    | _ => none

def rowsStr (rs : Rows) : String :=
  if rs.isEmpty then "-" else ",".intercalate (rs.map fun (a, e) => toString a ++ (if e then "e" else ""))

/-- rows handed to the writer after the last `end_sequence`: `read_sequence` then fails with
`MissingLineEndSequence` at the end of the program -/
def evOpen : Bool → List Ev → Bool
  | o, [] => o
  | _, .row _ :: es => evOpen true es
  | _, .endSeq _ :: es => evOpen false es
  | o, .setAddress _ :: es => evOpen o es

def tombT : Nat := 2 ^ 64 - 2

def lineAddr (args : String) : Option String := do
  let is ← (args.splitOn ",").mapM ins?
  let evs := convert tombT 0 0 false none false is
  let inp := rowsStr (readRows tombT 0 false false is)
  if evOpen false evs then some s!"ok in={inp} failed"
  else some s!"ok in={inp} out={rowsStr (readRows tombT 0 false false (emit 0 evs))}"

def errName : Err → String
  | .wValueTooLarge => "ValueTooLarge"
  | .wInvalidFrameCodeOffset => "InvalidFrameCodeOffset"
  | .wInvalidFrameDataOffset => "InvalidFrameDataOffset"
  | e => e.name

def cfiArith (caf : Nat) (daf : Int) (delta : Nat) (f : Int) : String :=
  let conv : Out (Nat × Int) := do
    let _ ← narrowU8 caf
    let _ ← narrowI8 daf
    let off' ← advance caf 0 delta
    let off ← dataOffset daf f
    pure (off', off)
  match conv with
  | .ok (off', off) =>
    let wr : Out (Nat × Int) := do
      let d ← if off' = 0 then pure 0 else factoredCodeDelta 0 off' caf
      let f' ← factoredDataOffset off daf
      pure (d, f')
    (match wr with
     | .ok (d, f') => s!"ok d={d} f={f'}"
     | .err e => s!"ok write:{errName e}"
     | _ => "panic")
  | .err e => s!"ok conv:{errName e}"
  | _ => "panic"

/-! ## `c12-expr`: `Expression::from` (`Model/ConvOp.lean`) followed by the expression writer
(`Model/WOp.lean`), in the unit the harness builds (see `harness/src/prop/c12/expr.rs`) -/

/-- one DIE of the harness unit: kind (`b` early target, `x` the carrier, `l` late target), input
unit offset, output unit offset observed for an empty expression -/
structure ExEntry where
  kind : Char
  inOff : Nat
  outOff : Nat

def parseExMap (s : String) : Option (List ExEntry) :=
  (s.splitOn ",").mapM fun t =>
    match t.toList with
    | k :: rest =>
      match (String.ofList rest).splitOn ":" with
      | [i, o] => do
        if k ≠ 'b' ∧ k ≠ 'x' ∧ k ≠ 'l' then none
        pure { kind := k, inOff := ← i.toNat?, outOff := ← o.toNat? }
      | _ => none
    | [] => none

/-- input unit offset of an entry given the length of the expression: the late DIE follows the
carrier, whose size grows by the ULEB128 length prefix and the expression -/
def ExEntry.inAt (d : ExEntry) (len : Nat) : Nat :=
  if d.kind == 'l' then d.inOff - 1 + (Leb.sizeU len + len) else d.inOff

def exIndex (m : List ExEntry) (len : Nat) (o : Nat) : Option Nat := m.findIdx? (fun d => d.inAt len == o)

def exEnv (e : Endian) (asz : Nat) (m : List ExEntry) (len : Nat) (tab : Bytes) : ConvOp.Env where
  unitRef o := match exIndex m len o with | some i => .ok i | none => .error .invalidUnitRef
  infoRef o := match exIndex m len o with | some i => .ok (.entry 0 i) | none => .error .invalidDebugInfoRef
  convAddr a := if a = 0xdead then none else some (.constant a)
  addrIndex := some fun i =>
    if i * asz ≥ 2 ^ 64 then .error (.read .rUnsupportedOffset)
    else match Ints.readAddress e asz (tab.drop (i * asz)) with
      | .ok (v, _) => .ok v
      | .err x => .error (.read x)
      | _ => .error (.read .other)

def exprConv (e : Endian) (enc : Op.Encoding) (bs : Bytes) (m : List ExEntry) (tab : Bytes) : String :=
  match ConvOp.convert (exEnv e enc.addressSize m bs.length tab) e enc bs with
  | .error (.read x) => s!"ok failed:R.{x.name}"
  | .error c => s!"ok failed:{c.name}"
  | .ok ws =>
    -- `calculate_offsets`: the late DIE has no offset yet
    let offsSize : Nat → Option Nat := fun i =>
      match m[i]? with
      | some d => if d.kind == 'l' then none else some d.outOff
      | none => none
    let out : Out Bytes := do
      let size ← WOp.exprSize enc (some offsSize) ws
      let offs : Nat → Option Nat := fun i =>
        match m[i]? with
        | some d => if d.kind == 'l' then some (d.outOff - 1 + (Leb.sizeU size + size)) else some d.outOff
        | none => none
      let (bytes, fx) ← WOp.exprWrite e enc (some offs) true 0 ws
      WOp.applyFixups e (fun _ i => offs i) 0 bytes fx
    match out with
    | .ok b => s!"ok {toHex b}"
    | .err x => s!"ok failed:{x.name}"
    | .panic w => s!"panic {w}"
    | .diverge => "diverge"

/-- `c12-vtexpr`: the expression is a `DW_AT_vtable_elem_location` (`ConvUnit.vtableRaw`: exactly one
`DW_OP_constu` is copied verbatim, anything else is converted like every other expression) -/
def vtExprConv (e : Endian) (enc : Op.Encoding) (bs : Bytes) (m : List ExEntry) (tab : Bytes) : String :=
  if ConvUnit.vtableRaw bs then s!"ok {toHex bs}" else exprConv e enc bs m tab

def handle (op : String) (args : List String) : Option String :=
  if op == "c12-dwarf" || op == "c12-frame" || op == "c12-lineenc" then some "ok *"
  else match op, args with
    | "c12-lineaddr", [is] => lineAddr is
    | "c12-cfiarith", [caf, daf, delta, f] => do
        some (cfiArith (← caf.toNat?) (← daf.toInt?) (← delta.toNat?) (← f.toInt?))
    | "c12-expr", [e, asz, fmt, ver, x, map, addr] => do
        let e ← endian? e
        let asz ← asz.toNat?
        if asz ≠ 4 ∧ asz ≠ 8 then none
        let ver ← ver.toNat?
        if ver < 2 ∨ ver > 5 then none
        some (exprConv e { addressSize := asz, format := ← format? fmt, version := ver } (← parseHex x)
          (← parseExMap map) (← parseHex addr))
    | "c12-vtexpr", [e, asz, fmt, ver, x, map, addr] => do
        let e ← endian? e
        let asz ← asz.toNat?
        if asz ≠ 4 ∧ asz ≠ 8 then none
        let ver ← ver.toNat?
        if ver < 2 ∨ ver > 5 then none
        some (vtExprConv e { addressSize := asz, format := ← format? fmt, version := ver } (← parseHex x)
          (← parseExMap map) (← parseHex addr))
    | _, _ => none

end Gimli.Drv.C12
