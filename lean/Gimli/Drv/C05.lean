import Gimli.Drv.Util
import Gimli.Model.CfiEntry
/-! Line-protocol operations for C05 (CIE/FDE decoding and address lookup). The Rust side
answering the same lines from the real crate is `harness/src/prop/c05.rs`. -/
namespace Gimli.Drv.C05
open Gimli Gimli.Drv Gimli.CfiEntry

def optNat? (s : String) : Option (Option Nat) :=
  if s == "-" then some none else s.toNat?.map some

/-- `s,t,d` -/
def secBases? (s : String) : Option SecBases :=
  match s.splitOn "," with
  | [a, b, c] => do
    let a ← optNat? a; let b ← optNat? b; let c ← optNat? c
    pure { sect := a, text := b, data := c }
  | _ => none

/-- `s,t,d;s,t,d` : eh_frame_hdr bases ; eh_frame bases -/
def bases? (s : String) : Option Bases :=
  match s.splitOn ";" with
  | [h, f] => do
    let h ← secBases? h; let f ← secBases? f
    pure { ehFrameHdr := h, ehFrame := f }
  | _ => none

def kind? : String → Option Bool
  | "eh" => some true
  | "df" => some false
  | _ => none

def ptrS : Ptr → String
  | .direct v => "D" ++ toString v
  | .indirect v => "I" ++ toString v

def optS {α} (f : α → String) : Option α → String
  | none => "-"
  | some a => f a

def augS : Option Aug → String
  | none => "-"
  | some a => "A:" ++ optS toString a.lsda ++ ":" ++
      optS (fun (p : Nat × Ptr) => toString p.1 ++ "=" ++ ptrS p.2) a.personality ++ ":" ++
      optS toString a.fdeEnc ++ ":" ++ (if a.signal then "1" else "0")

def cieS (c : Cie) : String :=
  ",".intercalate ["C", toString c.offset, toString c.length, Format.str c.format, toString c.version,
    toString c.asz, toString c.caf, toString c.daf, toString c.rar, augS c.aug,
    toString c.instr.off, toString c.instr.bs.length]

def partialS (p : PartialFde) : String :=
  ",".intercalate ["F", toString p.offset, toString p.length, Format.str p.format, toString p.cieOffset]

/-- errors become text, panics and divergence stay outcomes of the whole request -/
def capture {α} (x : Out α) (f : α → String) : Out String :=
  match x with
  | .ok a => .ok (f a)
  | .err e => .ok ("!" ++ e.name)
  | .panic w => .panic w
  | .diverge => .diverge

def fdeS (m : Mode) (f : Fde) : Out String := do
  let e ← capture (f.endAddress m) toString
  let head := ",".intercalate ["F", toString f.offset, toString f.length, Format.str f.format,
    toString f.cie.offset]
  pure (",".intercalate [head, toString f.initial, toString f.range, e, optS ptrS f.lsda,
    toString f.instr.off, toString f.instr.bs.length] ++ "|" ++ cieS f.cie)

def fdeShort (f : Fde) : String :=
  "F@" ++ toString f.offset ++ ":" ++ toString f.initial ++ ":" ++ toString f.range

def entryS (c : Cfg) (bases : Bases) (sec : Bytes) : Entry → Out String
  | .cie ci => .ok (cieS ci)
  | .fde p =>
    match parseRest c bases sec p with
    | .ok f => fdeS c.m f
    | .err e => .ok (partialS p ++ ",!" ++ e.name)
    | .panic w => .panic w
    | .diverge => .diverge

def entriesS (c : Cfg) (bases : Bases) (sec : Bytes) : Out String := do
  let (l, fin) := entriesOf c bases sec
  let items ← l.mapM (entryS c bases sec)
  let f ← capture fin (fun _ => ".")
  pure (";".intercalate (items ++ [f]))

/-- the unwind machine restricted to programs made of `DW_CFA_nop` only (everything else is C06's):
one row `[initial, end)`; `none` = not a nop-only program -/
def nopRow (m : Mode) (f : Fde) (a : Nat) : Out String :=
  if f.cie.instr.bs.all (· == 0) ∧ f.instr.bs.all (· == 0) then do
    let e ← f.endAddress m
    if f.initial ≤ a ∧ a < e then pure ("R:" ++ toString f.initial ++ ":" ++ toString e)
    else .err .rNoUnwindInfoForAddress
  else pure "?"

def lookupS (c : Cfg) (bases : Bases) (sec : Bytes) (hdr : Option Bytes) (a : Nat) : Out String := do
  let lin ← capture (fdeForAddress c bases sec a) fdeShort
  let uia ← capture (unwindInfoForAddress (nopRow c.m) c bases sec a) id
  let (h, hu) ← match hdr with
    | none => pure ("x", "x")
    | some hb =>
      match parseHdr c.m c.e bases c.asz hb with
      | .ok h =>
        if h.hasTable then do
          let a1 ← capture (hdrFdeForAddress c bases h sec a) fdeShort
          let a2 ← capture (hdrUnwindInfoForAddress (nopRow c.m) c bases h sec a) id
          pure (a1, a2)
        else pure ("notable", "notable")
      | .err e => pure ("!" ++ e.name, "!" ++ e.name)
      | .panic w => .panic w
      | .diverge => .diverge
  pure ("lin=" ++ lin ++ " uia=" ++ uia ++ " hdr=" ++ h ++ " huia=" ++ hu)

def rowS (r : Ptr × Ptr) : String := ptrS r.1 ++ ">" ++ ptrS r.2

def hdrS (m : Mode) (e : Endian) (bases : Bases) (asz : Nat) (hb : Bytes) (a : Nat) : Out String := do
  let h ← parseHdr m e bases asz hb
  let head := "ptr=" ++ ptrS h.ehFramePtr ++ " n=" ++ toString h.fdeCount ++
    " toff=" ++ toString h.table.off
  if h.hasTable then do
    let (rows, fin) := hdrRows m e h bases 9 (min h.fdeCount 8) h.table
    let fin ← capture fin (fun _ => ".")
    let lk := lookup m e h bases a
    let lks ← capture lk ptrS
    let off ← capture (lk >>= pointerToOffset h) toString
    pure (head ++ " rows=" ++ ",".intercalate (rows.map rowS ++ [fin]) ++ " lookup=" ++ lks ++ " off=" ++ off)
  else pure (head ++ " notable")

def handle (op : String) (args : List String) : Option String :=
  match op, args with
  | "ehpe-valid", [b] => do
      let b ← b.toNat?
      pure ("ok " ++ (if isValidEncoding b then "1" else "0") ++ " " ++ toString (peFormat b) ++ " " ++
        toString (peApplication b) ++ " " ++ (if peIndirect b then "1" else "0") ++ " " ++
        (if peAbsent b then "1" else "0"))
  -- `ehpe-ptr <mode> <via> <le|be> <enc> <asz> <s,t,d> <func|-> <off> <hex>`: `via` only tells the Rust
  -- side through which public API the private `parse_encoded_pointer` is reached
  | "ehpe-ptr", [m, _via, e, enc, asz, sb, fb, off, h] => do
      let m ← mode? m; let e ← endian? e; let enc ← enc.toNat?; let asz ← asz.toNat?
      let sb ← secBases? sb; let fb ← optNat? fb; let off ← off.toNat?; let bs ← parseHex h
      pure ((parseEncodedPointer m e enc { bases := sb, funcBase := fb, asz } ⟨off, bs⟩).render
        (fun (p, _) => ptrS p))
  -- `cfi-entries <mode> <eh|df> <le|be> <asz> <bases> <expected reply for the oracle|-> <sec>`
  | "cfi-entries", [m, k, e, asz, b, _exp, h] => do
      let m ← mode? m; let k ← kind? k; let e ← endian? e; let asz ← asz.toNat?; let b ← bases? b
      let sec ← parseHex h
      pure ((entriesS { eh := k, e, asz, m } b sec).render id)
  -- `cfi-lookup <mode> <eh|df> <le|be> <asz> <bases> <addr> <abstract fdes for the oracle|-> <sec> <hdr|x>`
  | "cfi-lookup", [m, k, e, asz, b, a, _fdes, h, hh] => do
      let m ← mode? m; let k ← kind? k; let e ← endian? e; let asz ← asz.toNat?; let b ← bases? b
      let a ← a.toNat?; let sec ← parseHex h
      let hdr ← if hh == "x" then some none else (parseHex hh).map some
      pure ((lookupS { eh := k, e, asz, m } b sec hdr a).render id)
  -- `hdr-parse <mode> <le|be> <asz> <bases> <addr> <rows for the oracle|-> <hdr>`
  | "hdr-parse", [m, e, asz, b, a, _rows, hh] => do
      let m ← mode? m; let e ← endian? e; let asz ← asz.toNat?; let b ← bases? b; let a ← a.toNat?
      let hb ← parseHex hh
      pure ((hdrS m e b asz hb a).render id)
  | _, _ => none

end Gimli.Drv.C05
