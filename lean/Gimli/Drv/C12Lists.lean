import Gimli.Drv.Util
import Gimli.Drv.C08
import Gimli.Drv.C16
import Gimli.Model.ConvLists
/-! Line-protocol operations for the range / location list component of C12 (read-to-write
conversion). The Rust side (`harness/src/prop/c12lists.rs`) builds a minimal unit around the list
(`DW_AT_low_pc`, `DW_AT_addr_base`, one child DIE with `DW_AT_ranges` / `DW_AT_location`), runs
`write::Dwarf::from` + `write`, and reports the written list sections.

`c12-rnglist <mode> <endian>,<addr size>,<format>,<version> <lowpc|-> <reject|-> <addr_base> <.debug_addr hex> <offset> <list section hex>`
`c12-loclist …` (same arguments)

* `<reject>`: `convert_address` is the identity (`Some(Address::Constant(a))`) except that it
  returns `None` for this one address
* the list section is `.debug_ranges` / `.debug_loc` for versions ≤ 4, `.debug_rnglists` /
  `.debug_loclists` for version 5; `<offset>` is the value of the DIE's attribute
* location expressions: only operand-less, encoding-stable opcodes are compared
  (`stableExpr`); a list containing any other expression byte is answered `ok skipped-expression`
  on both sides (expression conversion is C12's expression component)
* reply: `ok failed:convert:<ConvertError>` | `ok failed:write:<Error>` |
  `ok <legacy section hex> <v5 section hex>` (the list sections of the converted, written unit)
-/
namespace Gimli.Drv.C12Lists
open Gimli Gimli.Drv Gimli.Lists Gimli.WLists Gimli.ConvLists

/-- expression bytes whose conversion and re-encoding is the identity: `DW_OP_lit0..31`,
`DW_OP_reg0..31`, `DW_OP_dup`, `DW_OP_plus`, `DW_OP_nop`, `DW_OP_call_frame_cfa`, `DW_OP_stack_value` -/
def stableByte (b : UInt8) : Bool :=
  (0x30 ≤ b.toNat && b.toNat ≤ 0x6f) || b.toNat == 0x12 || b.toNat == 0x22 || b.toNat == 0x96 ||
    b.toNat == 0x9c || b.toNat == 0x9f

def stableExpr (d : Bytes) : Bool := d.all stableByte

def entryData : Entry → Bytes
  | .pair _ _ d => d
  | .startxEndx _ _ d => d
  | .startxLength _ _ d => d
  | .offsetPair _ _ d => d
  | .defaultLocation d => d
  | .startEnd _ _ d => d
  | .startLength _ _ d => d
  | _ => []

/-- the expression conversion of the driver: a stable expression becomes the operations that are
written as the same bytes -/
def ceStable (d : Bytes) : CR WExpr :=
  if d.isEmpty then .ok [] else .ok [.raw d]

def run (k : Kind) (m : Mode) (c : Cfg) (low : Option Nat) (reject : Option Nat) (ab : Nat)
    (addr : Bytes) (offset : Nat) (sec : Bytes) : String :=
  let legacy := c.version ≤ 4
  let secs : Sections := match k with
    | .rng => ⟨addr, if legacy then sec else [], if legacy then [] else sec, [], []⟩
    | .loc => ⟨addr, [], [], if legacy then sec else [], if legacy then [] else sec⟩
  let u : UnitCtx := { cfg := c, dwo := false, lowPc := low.getD 0, addrBase := ab,
                       rnglistsBase := 0, loclistsBase := 0 }
  let ca : Nat → Option Addr := fun a => if some a = reject then none else some (.const a)
  -- expressions outside the stable set: not compared
  let unstable : Bool :=
    match k with
    | .rng => false
    | .loc =>
      match rawAt .loc c false secs.debugLoc secs.debugLoclists offset with
      | .ok evs => evs.any fun
          | .item x => !stableExpr (entryData x)
          | .error _ => false
      | _ => false
  if unstable then "ok skipped-expression" else
  -- the root DIE's DW_AT_low_pc is converted first
  if low.isSome ∧ low = reject then "ok failed:convert:InvalidAddress" else
  match convertList k u secs ca ceStable offset with
  | .error e => "ok failed:convert:" ++ e.name
  | .ok out =>
    let ui : UnitIn := { cfg := c, lowPc := low.map .const, eoff := [],
                         rng := if k = .rng then [out] else [], loc := if k = .loc then [out] else [] }
    match writeUnit m ui with
    | .ok o =>
      (match k with
       | .rng => s!"ok {toHex o.debugRanges} {toHex o.debugRnglists}"
       | .loc => s!"ok {toHex o.debugLoc} {toHex o.debugLoclists}")
    | .err e => "ok failed:write:" ++ e.name
    | .panic w => "panic " ++ w
    | .diverge => "diverge"

def opt? (s : String) : Option (Option Nat) :=
  if s == "-" then some none else (C16.u64? s).map some

/-- the unit's `DW_AT_low_pc` is written with the address size: it must fit -/
def low? (c : Cfg) (s : String) : Option (Option Nat) := do
  let l ← opt? s
  match l with
  | some v => if v < 2 ^ (8 * c.addrSize) then some l else none
  | none => some none

def handle (op : String) (args : List String) : Option String :=
  match op, args with
  | "c12-rnglist", [m, c, low, rej, ab, addr, off, sec] => do
      let m ← mode? m; let c ← C08.cfg? c
      if ¬ (c.addrSize = 1 ∨ c.addrSize = 2 ∨ c.addrSize = 4 ∨ c.addrSize = 8) ∨ ¬ (2 ≤ c.version ∧ c.version ≤ 5) then none
      pure (run .rng m c (← low? c low) (← opt? rej) (← C16.u64? ab) (← parseHex addr) (← C16.u64? off) (← parseHex sec))
  | "c12-loclist", [m, c, low, rej, ab, addr, off, sec] => do
      let m ← mode? m; let c ← C08.cfg? c
      if ¬ (c.addrSize = 1 ∨ c.addrSize = 2 ∨ c.addrSize = 4 ∨ c.addrSize = 8) ∨ ¬ (2 ≤ c.version ∧ c.version ≤ 5) then none
      pure (run .loc m c (← low? c low) (← opt? rej) (← C16.u64? ab) (← parseHex addr) (← C16.u64? off) (← parseHex sec))
  | _, _ => none

end Gimli.Drv.C12Lists
