import Gimli.Drv.Util
import Gimli.Model.Lists
/-! Line-protocol operations for C08 (range and location lists). The Rust side answering the same
lines from the real crate is `harness/src/prop/c08.rs`.

Canonical text: an entry is `P:b,e,hex` (bare pair) | `B:a` | `Bx:i` | `XX:b,e,hex` | `XL:b,len,hex` |
`OP:b,e,hex` | `DL:hex` | `SE:b,e,hex` | `SL:b,len,hex`; a resolved item is `R:b,e,hex`; an `Err`
result of `next()` is `!Name`; events are joined by `;`, the empty sequence is `-`. -/
namespace Gimli.Drv.C08
open Gimli Gimli.Drv Gimli.Lists Gimli.Spec.Lists

def kind? : String → Option Kind
  | "rng" => some .rng
  | "loc" => some .loc
  | _ => none

def bool? : String → Option Bool
  | "0" => some false
  | "1" => some true
  | _ => none

/-- `<endian>,<addr size>,<format>,<version>` -/
def cfg? (s : String) : Option Cfg :=
  match s.splitOn "," with
  | [e, a, f, v] => do
    let e ← endian? e; let a ← a.toNat?; let f ← format? f; let v ← v.toNat?
    pure { endian := e, format := f, version := v, addrSize := a }
  | _ => none

def entryS : Entry → String
  | .pair b e d => s!"P:{b},{e},{toHex d}"
  | .baseAddress a => s!"B:{a}"
  | .baseAddressx i => s!"Bx:{i}"
  | .startxEndx b e d => s!"XX:{b},{e},{toHex d}"
  | .startxLength b l d => s!"XL:{b},{l},{toHex d}"
  | .offsetPair b e d => s!"OP:{b},{e},{toHex d}"
  | .defaultLocation d => s!"DL:{toHex d}"
  | .startEnd b e d => s!"SE:{b},{e},{toHex d}"
  | .startLength b l d => s!"SL:{b},{l},{toHex d}"

def entry? (s : String) : Option Entry :=
  match s.splitOn ":" with
  | [tag, body] =>
    match tag, body.splitOn "," with
    | "P", [b, e, d] => do pure (.pair (← b.toNat?) (← e.toNat?) (← parseHex d))
    | "B", [a] => do pure (.baseAddress (← a.toNat?))
    | "Bx", [i] => do pure (.baseAddressx (← i.toNat?))
    | "XX", [b, e, d] => do pure (.startxEndx (← b.toNat?) (← e.toNat?) (← parseHex d))
    | "XL", [b, l, d] => do pure (.startxLength (← b.toNat?) (← l.toNat?) (← parseHex d))
    | "OP", [b, e, d] => do pure (.offsetPair (← b.toNat?) (← e.toNat?) (← parseHex d))
    | "DL", [d] => do pure (.defaultLocation (← parseHex d))
    | "SE", [b, e, d] => do pure (.startEnd (← b.toNat?) (← e.toNat?) (← parseHex d))
    | "SL", [b, l, d] => do pure (.startLength (← b.toNat?) (← l.toNat?) (← parseHex d))
    | _, _ => none
  | _ => none

def entries? (s : String) : Option (List Entry) :=
  if s == "-" then some [] else (s.splitOn ";").mapM entry?

def itemS (i : Item) : String := s!"R:{i.b},{i.e},{toHex i.data}"

def evsS {α} (f : α → String) (evs : List (Ev α)) : String :=
  if evs.isEmpty then "-" else
  ";".intercalate (evs.map fun
    | .item a => f a
    | .error e => "!" ++ e.name)

def attrName? : String → Option AttrName
  | "low" => some .lowPc
  | "high" => some .highPc
  | "ranges" => some .ranges
  | "loc" => some .location
  | "abase" => some .addrBase
  | "gabase" => some .addrBase
  | "rbase" => some .rnglistsBase
  | "grbase" => some .rnglistsBase
  | "lbase" => some .loclistsBase
  | "other" => some .other
  | _ => none

def attrVal? (s : String) : Option AttrVal :=
  match s.toList with
  | ['o'] => some .other
  | 'a' :: n => (String.ofList n).toNat?.map .addr
  | 'x' :: n => (String.ofList n).toNat?.map .addrx
  | 'u' :: n => (String.ofList n).toNat?.map .udata
  | 'r' :: n => (String.ofList n).toNat?.map .secOffset
  | 'i' :: n => (String.ofList n).toNat?.map .listx
  | _ => none

/-- `name=val,name=val,…` or `-` -/
def attrs? (s : String) : Option Attrs :=
  if s == "-" then some [] else
  (s.splitOn ",").mapM fun t =>
    match t.splitOn "=" with
    | [n, v] => do pure ((← attrName? n), (← attrVal? v))
    | _ => none

def evsOut (r : Out (List (Ev Item))) : String := r.render (evsS itemS)

/-- `lists-die` (and `lists-dd`, which the Rust side additionally cross-checks with llvm-dwarfdump) -/
def handleDie : List String → Option String
  | [c, dwo, root, die, addr, ranges, rnglists, loc, loclists] => do
      let c ← cfg? c; let dwo ← bool? dwo; let root ← attrs? root; let die ← attrs? die
      let addr ← parseHex addr; let ranges ← parseHex ranges; let rnglists ← parseHex rnglists
      let loc ← parseHex loc; let loclists ← parseHex loclists
      let secs : Sections := ⟨addr, ranges, rnglists, loc, loclists⟩
      match unitBases c dwo secs root with
      | .ok u =>
        let locs := die.filterMap fun (n, v) => if n = .location then some v else none
        let locS := match locs.head? with
          | none => "none"
          | some v =>
            match attrLocations u secs v with
            | .ok none => "none"
            | .ok (some evs) => evsOut (.ok evs)
            | .err e => "err " ++ e.name
            | .panic w => "panic " ++ w
            | .diverge => "diverge"
        let us := evsOut (dieRanges u secs root)
        let ds := evsOut (dieRanges u secs die)
        let lp := u.lowPc; let ab := u.addrBase; let rb := u.rnglistsBase; let lb := u.loclistsBase
        pure s!"ok {lp},{ab},{rb},{lb} | unit:{us} | die:{ds} | loc:{locS}"
      | r => pure (r.render fun _ => "")
  | _ => none

def handle (op : String) (args : List String) : Option String :=
  match op, args with
  | "lists-raw", [k, c, dwo, off, legacy, v5] => do
      let k ← kind? k; let c ← cfg? c; let dwo ← bool? dwo; let off ← off.toNat?
      let legacy ← parseHex legacy; let v5 ← parseHex v5
      pure ((rawAt k c dwo legacy v5 off).render (evsS entryS))
  | "lists-cooked", [k, c, dwo, off, legacy, v5, base, addr, ab] => do
      let k ← kind? k; let c ← cfg? c; let dwo ← bool? dwo; let off ← off.toNat?
      let legacy ← parseHex legacy; let v5 ← parseHex v5
      let base ← base.toNat?; let addr ← parseHex addr; let ab ← ab.toNat?
      pure ((cookedAt k c dwo legacy v5 off base addr ab).render (evsS itemS))
  | "lists-spec", [k, c, dwo, pre, suf, ents, base, addr, ab] => do
      let k ← kind? k; let c ← cfg? c; let dwo ← bool? dwo
      let pre ← parseHex pre; let suf ← parseHex suf; let ents ← entries? ents
      let base ← base.toNat?; let addr ← parseHex addr; let ab ← ab.toNat?
      let (useLegacy, f) := sectionFormat k c.version dwo
      if ¬ (ValidSize c.addrSize ∧ ∀ x ∈ ents, WfEntry k c f x) then pure "ok invalid" else
      let enc := encodeList k c f ents
      let sec := pre ++ enc ++ suf
      let (legacy, v5) := if useLegacy then (sec, suf) else (suf, sec)
      let raw := (rawAt k c dwo legacy v5 pre.length).render (evsS entryS)
      let cooked := (cookedAt k c dwo legacy v5 pre.length base addr ab).render (evsS itemS)
      pure s!"ok {toHex enc} | {raw} | {cooked}"
  | "lists-getoffset", [c, sec, base, idx] => do
      let c ← cfg? c; let sec ← parseHex sec; let base ← base.toNat?; let idx ← idx.toNat?
      pure ((getOffset c sec base idx).render toString)
  | "lists-getaddr", [c, sec, base, idx] => do
      let c ← cfg? c; let sec ← parseHex sec; let base ← base.toNat?; let idx ← idx.toNat?
      pure ((getAddress c sec base idx).render toString)
  | "lists-copyrel", [c, dwoRoot, skelRoot, addr] => do
      let c ← cfg? c; let dwoRoot ← attrs? dwoRoot; let skelRoot ← attrs? skelRoot
      let addr ← parseHex addr
      let secs : Sections := ⟨addr, [], [], [], []⟩
      let r : Out UnitCtx := do
        let skel ← unitBases c false secs skelRoot
        -- the `.dwo` file has no `.debug_addr`
        let split ← unitBases c true ⟨[], [], [], [], []⟩ dwoRoot
        pure (copyRelocated split skel)
      pure (r.render fun u =>
        let lp := u.lowPc; let ab := u.addrBase; let rb := u.rnglistsBase; let lb := u.loclistsBase
        s!"{lp},{ab},{rb},{lb}")
  | "lists-dd", args => handleDie args
  | "lists-die", args => handleDie args
  | _, _ => none

end Gimli.Drv.C08
