import Gimli.Drv.Util
import Gimli.Drv.C04
import Gimli.Model.WLine
/-! Line-protocol operations for C13 (the line-program writer). The Rust side answering the same
lines from the real crate, plus the read-back oracle, is `harness/src/prop/c13.rs`.

```
ENC  := <ver> <asz> <minlen> <maxops> <stmt> <lbase> <lrange>
ROW  := <address_offset>,<op_index>,<file|~>,<line>,<column>,<discriminator|~>,<flags>,<isa>
        flags = 1 is_statement + 2 basic_block + 4 prologue_end + 8 epilogue_begin, + 16: do not
        assign the three per-row flags (`~` / 16: the field keeps what `generate_row` left in it);
        file = position in `LineProgram::files()` (kept when `~` or out of range)
STR  := <s|p|l>:<hex>          LineString::String / StringRef(.debug_str) / LineStringRef(.debug_line_str)
INFO := ~ | <timestamp>;<size>;<md5-hex>;<~ | <s|p|l>,<hex>>

wline-new <mode> <lbase> <lrange>             does `LineProgram::new` accept the pair
blk-wline-new <mode>                          digest of that over all 256 x 256 pairs
wline-row <mode> ENC ROW ROW                  new(); row = first; generate_row(); row = second;
                                              generate_row()  ->  bytes + decoded instructions of the
                                              second call
blk-wline <mode> <ver> <minlen> <maxops> <lbase> <lrange> <la_lo> <la_hi> <oa_lo> <oa_hi>
                                              one program walking the whole (line advance) x (operation
                                              advance) grid; digest of its instruction bytes
wline-prog <mode> <e> <fmt> ENC <has> <unit-ver> <unit-asz> wd:STR sd:~|sd:STR sf:STR si:INFO ITEM*
   ITEM := D:STR | F:STR:<k-th D result, 0 = default_directory>:INFO | bs:~ | bs:<addr|sym> |
           sa:<addr|sym> | r:ROW | es:<address_offset>
                                              -> .debug_line .debug_line_str .debug_str ids
```
-/
namespace Gimli.Drv.C13
open Gimli Gimli.Drv Gimli.Line Gimli.WLine

def nat? (s : String) : Option Nat := s.toNat?

def u8? (s : String) : Option Nat := do
  let n ← s.toNat?
  if n < 256 then some n else none

def i8? (s : String) : Option Int := do
  let i ← parseInt? s
  if -128 ≤ i ∧ i ≤ 127 then some i else none

def u64? (s : String) : Option Nat := do
  let n ← s.toNat?
  if n < 2 ^ 64 then some n else none

structure EncArgs where
  ver : Nat
  asz : Nat
  enc : Enc

def parseEnc : List String → Option EncArgs
  | [ver, asz, minlen, maxops, stmt, lbase, lrange] => do
    let ver ← nat? ver
    if ver ≥ 65536 then none else
    let asz ← u8? asz
    let minlen ← u8? minlen
    let maxops ← u8? maxops
    let stmt ← u8? stmt
    let lbase ← i8? lbase
    let lrange ← u8? lrange
    pure { ver, asz, enc := { version := ver, minInstLen := minlen, maxOps := maxops,
                              defaultIsStmt := stmt != 0, lineBase := lbase, lineRange := lrange } }
  | _ => none

structure RowReq where
  off : Nat
  op : Nat
  file : Option Nat
  line : Nat
  col : Nat
  disc : Option Nat
  flags : Nat
  isa : Nat

def parseRow (s : String) : Option RowReq :=
  match s.splitOn "," with
  | [off, op, file, line, col, disc, flags, isa] => do
    let file ← (if file == "~" then some none else (u64? file).map some)
    let disc ← (if disc == "~" then some none else (u64? disc).map some)
    pure { off := (← u64? off), op := (← u64? op), file, line := (← u64? line), col := (← u64? col),
           disc, flags := (← u64? flags), isa := (← u64? isa) }
  | _ => none

/-- what the harness's `set_row` does to `LineProgram::row()` -/
def setRow (p : Prog) (r : RowReq) : Prog :=
  let file := match r.file with
    | some k => if k < p.files.length then k else p.row.file
    | none => p.row.file
  let keep := r.flags / 16 % 2 = 1
  { p with row := { addressOffset := r.off, opIndex := r.op, file, line := r.line, column := r.col,
                    discriminator := r.disc.getD p.row.discriminator, isStmt := r.flags % 2 = 1,
                    basicBlock := if keep then p.row.basicBlock else r.flags / 2 % 2 = 1,
                    prologueEnd := if keep then p.row.prologueEnd else r.flags / 4 % 2 = 1,
                    epilogueBegin := if keep then p.row.epilogueBegin else r.flags / 8 % 2 = 1,
                    isa := r.isa } }

def strS : LineStr := { form := .string, val := [] }

/-- the harness's `new_program`: working directory "d", source file "f", inline strings -/
def newProgram (m : Mode) (a : EncArgs) : Out Prog :=
  Prog.new m .dwarf32 a.asz a.enc { form := .string, val := [0x64] } none
    { form := .string, val := [0x66] } none

def instrsS (version : Nat) (is : List WInstr) : String :=
  if is.isEmpty then "-" else ",".intercalate (is.map fun i => C04.instrS (i.toInstr version))

def emptyTabs : Tabs := { lineStrings := [], strings := [] }

/-! ### the grid -/

def gridLine0 : Nat := 1000000

def digestBytes (h : UInt64) (bs : Bytes) : UInt64 :=
  bs.foldl (fun h b => digestStep h b.toNat.toUInt64) h

structure GridSt where
  prev : WRow
  h : UInt64

/-- one `generate_row` of the grid walk: the digest over the bytes of the pushed instructions -/
def gridPut (m : Mode) (a : EncArgs) (st : GridSt) (ptr line : Nat) : Out GridSt := do
  let off := (ptr / a.enc.maxOps) * a.enc.minInstLen
  let op := ptr % a.enc.maxOps
  let row : WRow := { st.prev with addressOffset := off, opIndex := op, line := line }
  let (is, row') ← generateRow m a.enc st.prev row
  let bs ← writeInstrs .little a.ver a.asz is
  pure { prev := row', h := digestBytes st.h bs }

def gridRun (m : Mode) (a : EncArgs) (laLo laHi : Int) (oaLo oaHi : Nat) : Out UInt64 := do
  let p ← newProgram m a
  if a.enc.maxOps = 0 then .panic "attempt to divide by zero" else
  let mut st : GridSt := { prev := p.prevRow, h := digestInit }
  let mut ptr := 0
  for k in [0 : oaHi + 1 - oaLo] do
    let oa := oaLo + k
    let mut line : Int := gridLine0
    st ← gridPut m a st ptr line.toNat
    for j in [0 : (laHi - laLo + 1).toNat] do
      let la := laLo + j
      line := line + la
      ptr := ptr + oa
      st ← gridPut m a st ptr line.toNat
  let endOff := (ptr / a.enc.maxOps + 1) * a.enc.minInstLen
  let es ← WLine.endSequence m a.enc st.prev st.prev endOff
  let bs ← writeInstrs .little a.ver a.asz es
  -- the program is then written: version / max_ops checks of `write`
  if a.ver < 2 ∨ a.ver > 5 then .err .wUnsupportedVersion
  else if a.ver < 4 ∧ a.enc.maxOps ≠ 1 then .err .wNeedVersion
  else pure (digestBytes st.h bs)

/-! ### whole programs -/

def sform? : String → Option SForm
  | "s" => some .string
  | "p" => some .strp
  | "l" => some .lineStrp
  | _ => none

structure SReq where
  form : SForm
  val : Bytes

def parseSReq (f v : String) : Option SReq := do
  pure { form := (← sform? f), val := (← parseHex v) }

structure InfoReq where
  ts : Nat
  size : Nat
  md5 : Bytes
  src : Option SReq

def parseInfo (s : String) : Option (Option InfoReq) :=
  if s == "~" then some none else
  match s.splitOn ";" with
  | [ts, size, md5, src] => do
    let md5 ← parseHex md5
    if md5.length ≠ 16 then none else
    let src ← (if src == "~" then some none else
      match src.splitOn "," with
      | [f, v] => (parseSReq f v).map some
      | _ => none)
    pure (some { ts := (← u64? ts), size := (← u64? size), md5, src })
  | _ => none

inductive Item where
  | dir (s : SReq)
  | file (s : SReq) (dref : Nat) (info : Option InfoReq)
  | bs (a : Option (Option Nat))
  | sa (a : Option Nat)
  | row (r : RowReq)
  | es (off : Nat)

def parseAddr (s : String) : Option (Option Nat) :=
  if s == "sym" then some none else (u64? s).map some

def parseItem (s : String) : Option Item :=
  match s.splitOn ":" with
  | ["D", f, v] => do pure (.dir (← parseSReq f v))
  | ["F", f, v, d, info] => do pure (.file (← parseSReq f v) (← nat? d) (← parseInfo info))
  | ["bs", a] => if a == "~" then some (.bs none) else do pure (.bs (some (← parseAddr a)))
  | ["sa", a] => do pure (.sa (← parseAddr a))
  | ["r", r] => do pure (.row (← parseRow r))
  | ["es", o] => do pure (.es (← u64? o))
  | _ => none

/-- the harness's `mk_string` -/
def mkString (tabs : Tabs) (s : SReq) : Out (Tabs × LineStr) := LineStr.make tabs s.form s.val

/-- the harness's `mk_info` -/
def mkInfo (tabs : Tabs) (i : InfoReq) : Out (Tabs × FileInfo) := do
  match i.src with
  | none => pure (tabs, { timestamp := i.ts, size := i.size, md5 := i.md5, source := none })
  | some s =>
    let (tabs, ls) ← mkString tabs s
    pure (tabs, { timestamp := i.ts, size := i.size, md5 := i.md5, source := some ls })

def mkInfo? (tabs : Tabs) : Option InfoReq → Out (Tabs × Option FileInfo)
  | none => .ok (tabs, none)
  | some i => do
    let (tabs, fi) ← mkInfo tabs i
    pure (tabs, some fi)

structure PSt where
  p : Prog
  tabs : Tabs
  dirIds : List Nat
  ids : List String

def stepItem (m : Mode) (st : PSt) : Item → Out PSt
  | .dir s => do
    let (tabs, ls) ← mkString st.tabs s
    let (p, id) ← addDirectory st.p ls
    pure { st with p, tabs, dirIds := st.dirIds ++ [id], ids := st.ids ++ [s!"d{id}"] }
  | .file s dref info => do
    let did := if dref ≥ 1 ∧ dref ≤ st.dirIds.length then st.dirIds.getD (dref - 1) 0 else 0
    let (tabs, fi) ← mkInfo? st.tabs info
    let (tabs, ls) ← mkString tabs s
    let (p, id) ← addFile st.p ls did fi
    pure { st with p, tabs, ids := st.ids ++ [s!"f{id}"] }
  | .bs a => do
    let p ← st.p.beginSequence a
    pure { st with p }
  | .sa a => pure { st with p := st.p.setAddress a }
  | .row r => do
    let p ← (setRow st.p r).generateRow m
    pure { st with p }
  | .es off => do
    let p ← st.p.endSequence m off
    pure { st with p }

def runItems (m : Mode) : PSt → List Item → Out PSt
  | st, [] => .ok st
  | st, i :: is => do
    let st ← stepItem m st i
    runItems m st is

def runProg (m : Mode) (en : Endian) (fmt : Format) (a : EncArgs) (has uver uasz : Nat)
    (wd : SReq) (sd : Option SReq) (sf : SReq) (si : Option InfoReq) (items : List Item) : String :=
  let r : Out (Bytes × Tabs × List String) := do
    let tabs := emptyTabs
    let (tabs, wds) ← mkString tabs wd
    let (tabs, sds) ← (match sd with
      | none => pure (tabs, none)
      | some d => do
        let (tabs, x) ← mkString tabs d
        pure (tabs, some x) : Out (Tabs × Option LineStr))
    let (tabs, sfs) ← mkString tabs sf
    let (tabs, sis) ← mkInfo? tabs si
    let p ← Prog.new m fmt a.asz a.enc wds sds sfs sis
    let p := { p with hasTimestamp := has % 2 = 1, hasSize := has / 2 % 2 = 1, hasMd5 := has / 4 % 2 = 1,
                      hasSource := has / 8 % 2 = 1 }
    let st ← runItems m { p, tabs, dirIds := [], ids := [] } items
    let (bytes, tabs) ← st.p.write en m uver uasz st.tabs
    pure (bytes, tabs, st.ids)
  r.render fun (bytes, tabs, ids) =>
    s!"{toHex bytes} {toHex tabs.lineStrings.bytes} {toHex tabs.strings.bytes} " ++
      (if ids.isEmpty then "-" else ",".intercalate ids)

def handle (op : String) (args : List String) : Option String :=
  match op, args with
  | "wline-new", [m, lb, lr] => do
    let m ← mode? m
    let lb ← i8? lb
    let lr ← u8? lr
    pure (match newCheck m lb lr with
      | .ok _ => "ok"
      | r => r.render fun _ => "")
  | "blk-wline-new", [m] => do
    let m ← mode? m
    let h := Id.run do
      let mut h := digestInit
      for i in [0:256] do
        for lr in [0:256] do
          let lb : Int := (i : Int) - 128
          h := digestStep h (if (newCheck m lb lr).isOk then 1 else 0)
      return h
    pure s!"digest {h}"
  | "wline-row", [m, ver, asz, minlen, maxops, stmt, lbase, lrange, prev, next] => do
    let m ← mode? m
    let a ← parseEnc [ver, asz, minlen, maxops, stmt, lbase, lrange]
    let prev ← parseRow prev
    let next ← parseRow next
    let r : Out (Bytes × String) := do
      let p ← newProgram m a
      let p ← (setRow p prev).generateRow m
      -- the program is written after the first row: `write`'s own checks
      let _ ← p.write .little m a.ver a.asz emptyTabs
      let p := setRow p next
      let (is, _) ← generateRow m a.enc p.prevRow p.row
      let bs ← writeInstrs .little a.ver a.asz is
      -- the harness decodes these bytes with the real reader: here C04's reader Model decodes them,
      -- under the header parsed back from the Model's own section
      let p2 ← p.generateRow m
      let (sec, _) ← p2.write .little m a.ver a.asz emptyTabs
      let toks := match Line.program .little sec 0 a.asz none none with
        | .ok hd =>
          let (dec, e) := decodePrefix hd.p (bs.length + 1) bs
          let ts := dec.map C04.instrS ++ (match e with | none => [] | some e => ["err:" ++ e.name])
          if ts.isEmpty then "-" else ",".intercalate ts
        | _ => "hdr-err"
      pure (bs, toks)
    pure (r.render fun (bs, toks) => s!"{toHex bs} {toks}")
  | "blk-wline", [m, ver, minlen, maxops, lbase, lrange, laLo, laHi, oaLo, oaHi] => do
    let m ← mode? m
    let a ← parseEnc [ver, "8", minlen, maxops, "1", lbase, lrange]
    let laLo ← parseInt? laLo
    let laHi ← parseInt? laHi
    let oaLo ← u64? oaLo
    let oaHi ← u64? oaHi
    if laHi - laLo > 2000 ∨ oaHi - oaLo > 2000 ∨ laLo.natAbs > 100000 ∨ laHi.natAbs > 100000 ∨ oaHi > 2 ^ 40 ∨
        oaHi < oaLo then
      pure "bad-args"
    else
      pure (match gridRun m a laLo laHi oaLo oaHi with
        | .ok h => s!"digest {h}"
        | .err e => "err " ++ e.name
        | .panic w => "panic " ++ w
        | .diverge => "diverge")
  | "wline-prog", m :: e :: fmt :: ver :: asz :: minlen :: maxops :: stmt :: lbase :: lrange :: has :: uver ::
      uasz :: wd :: sd :: sf :: si :: items => do
    let m ← mode? m
    let e ← endian? e
    let fmt ← format? fmt
    let a ← parseEnc [ver, asz, minlen, maxops, stmt, lbase, lrange]
    let has ← u8? has
    let uver ← nat? uver
    let uasz ← u8? uasz
    let wd ← (match wd.splitOn ":" with
      | ["wd", f, v] => parseSReq f v
      | _ => none)
    let sd ← (match sd.splitOn ":" with
      | ["sd", "~"] => some none
      | ["sd", f, v] => (parseSReq f v).map some
      | _ => none)
    let sf ← (match sf.splitOn ":" with
      | ["sf", f, v] => parseSReq f v
      | _ => none)
    let si ← (match si.splitOn ":" with
      | ["si", i] => parseInfo i
      | ["si", i, v] => parseInfo (i ++ ":" ++ v)   -- (no ':' occurs inside INFO; kept total)
      | _ => none)
    let items ← items.mapM parseItem
    pure (runProg m e fmt a has uver uasz wd sd sf si items)
  | _, _ => none

end Gimli.Drv.C13
