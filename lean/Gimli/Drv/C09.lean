import Gimli.Drv.Util
import Gimli.Model.Ints
/-! Line-protocol operations for C09 (primitive codecs). See `harness/src/prop/c09.rs` for the
Rust side answering the same lines from the real crate. -/
namespace Gimli.Drv.C09
open Gimli Gimli.Drv

def natS (n : Nat) : String := toString n
def intS (n : Int) : String := toString n

def rdNat (inLen : Nat) (r : Out (Nat × Bytes)) : String := renderVC inLen natS r

/-- enumerate all byte strings of length `len` with a fixed prefix, fold the digest of
`f bytes` — used for the exhaustive spaces of the quantifier -/
partial def enumFold (len : Nat) (pre : Bytes) (f : Bytes → List UInt64) (h : UInt64) : UInt64 :=
  if pre.length ≥ len then (f pre).foldl digestStep h
  else Id.run do
    let mut h := h
    for b in [0:256] do
      h := enumFold len (pre ++ [UInt8.ofNat b]) f h
    return h

def vcWords (inLen : Nat) (r : Out (Nat × Bytes)) : List UInt64 :=
  outWords (fun (v, rest) => [v.toUInt64, (inLen - rest.length).toUInt64]) r

def vcWordsI (inLen : Nat) (r : Out (Int × Bytes)) : List UInt64 :=
  outWords (fun (v, rest) => [(Leb.ofI64 v).toUInt64, (inLen - rest.length).toUInt64]) r

def handle (op : String) (args : List String) : Option String :=
  match op, args with
  | "uleb", [h] => do let bs ← parseHex h; pure (rdNat bs.length (Leb.unsigned bs))
  | "u16leb", [h] => do let bs ← parseHex h; pure (rdNat bs.length (Leb.u16 bs))
  | "sleb", [h] => do let bs ← parseHex h; pure (renderVC bs.length intS (Leb.signed bs))
  | "skipleb", [h] => do
      let bs ← parseHex h
      pure ((Leb.skip bs).render (fun rest => toString (bs.length - rest.length)))
  | "ulebu32", [h] => do let bs ← parseHex h; pure (rdNat bs.length (Ints.readUlebU32 bs))
  | "encu", [v] => do let v ← v.toNat?; pure ("ok " ++ toHex (Leb.encodeU v) ++ " " ++ toString (Leb.sizeU v))
  | "encs", [v] => do let v ← parseInt? v; pure ("ok " ++ toHex (Leb.encodeS v) ++ " " ++ toString (Leb.sizeS v))
  | "fixed", [e, n, h] => do
      let e ← endian? e; let n ← n.toNat?; let bs ← parseHex h
      pure (rdNat bs.length (Ints.readFixed e n bs))
  | "uint", [e, n, h] => do
      let e ← endian? e; let n ← n.toNat?; let bs ← parseHex h
      pure (rdNat bs.length (Ints.readUint e n bs))
  | "addr", [e, n, h] => do
      let e ← endian? e; let n ← n.toNat?; let bs ← parseHex h
      pure (rdNat bs.length (Ints.readAddress e n bs))
  | "addrsize", [h] => do let bs ← parseHex h; pure (rdNat bs.length (Ints.readAddressSize bs))
  | "sizedoff", [e, ob, n, h] => do
      let e ← endian? e; let ob ← ob.toNat?; let n ← n.toNat?; let bs ← parseHex h
      pure (rdNat bs.length (Ints.readSizedOffset e ob n bs))
  | "word", [e, ob, f, h] => do
      let e ← endian? e; let ob ← ob.toNat?; let f ← format? f; let bs ← parseHex h
      pure (rdNat bs.length (Ints.readWord e ob f bs))
  | "initlen", [e, ob, h] => do
      let e ← endian? e; let ob ← ob.toNat?; let bs ← parseHex h
      pure (renderVC bs.length (fun (v, f) => toString v ++ " " ++ Format.str f)
        (Ints.readInitialLength e ob bs))
  | "udata", [e, v, n] => do
      let e ← endian? e; let v ← v.toNat?; let n ← n.toNat?
      pure ((Ints.writeUdata e v n).render toHex)
  | "sdata", [e, v, n] => do
      let e ← endian? e; let v ← parseInt? v; let n ← n.toNat?
      pure ((Ints.writeSdata e v n).render toHex)
  | "winitlen", [e, f, v] => do
      let e ← endian? e; let f ← format? f; let v ← v.toNat?
      pure ((Ints.writeInitialLength e f v).render toHex)
  | "wfixed", [e, n, v] => do
      let e ← endian? e; let n ← n.toNat?; let v ← v.toNat?
      pure ("ok " ++ toHex (Ints.toBytes e n v))
  -- exhaustive blocks: all strings of length `len` extending the given prefix
  | "blk-u16leb", [len, pre] => do
      let len ← len.toNat?; let pre ← parseHex pre
      pure ("digest " ++ toString (enumFold len pre (fun bs => vcWords bs.length (Leb.u16 bs)) digestInit))
  | "blk-uleb", [len, pre] => do
      let len ← len.toNat?; let pre ← parseHex pre
      pure ("digest " ++ toString (enumFold len pre (fun bs => vcWords bs.length (Leb.unsigned bs)) digestInit))
  | "blk-sleb", [len, pre] => do
      let len ← len.toNat?; let pre ← parseHex pre
      pure ("digest " ++ toString (enumFold len pre (fun bs => vcWordsI bs.length (Leb.signed bs)) digestInit))
  | _, _ => none

end Gimli.Drv.C09
