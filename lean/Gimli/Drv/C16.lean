import Gimli.Drv.Util
import Gimli.Drv.C08
import Gimli.Model.WLists
/-! Line-protocol operation for C16 (written range and location lists). The Rust side answering
the same lines from the real crate (`gimli::write::Dwarf` → `Sections`) is
`harness/src/prop/c16.rs`.

`wl-unit <mode> <endian>,<addr size>,<format>,<version> <lowpc> <eoffs> <range lists> <location lists>`

* `<lowpc>`: `-` (no `DW_AT_low_pc`) | an address
* address: decimal constant | `s<symbol>_<addend>`
* `<eoffs>`: `-` | comma separated unit offsets of the DIEs that expressions may refer to
* lists: `-` (none) | lists joined by `|`; a list is `.` (no entries) | entries joined by `;`
* entry: `B:<addr>` | `OP:<b>,<e>,<expr>` | `SE:<addr>,<addr>,<expr>` | `SL:<addr>,<len>,<expr>` | `DL:<expr>`
* `<expr>`: `-` (`Expression::new()`) | operations joined by `+`:
  `x<hex>` raw | `z<n>.<hexbyte>` raw, n copies | `o<n>` operand-less opcode | `a<addr>` | `u<n>` constu |
  `c<i>` op_call | `v`/`v<i>` op_convert | `r<i>` op_call_ref
* reply: `ok rid=… lid=… roff=… loff=… ranges=<hex> rnglists=<hex> loc=<hex> loclists=<hex>`

`wl-unit2 <mode> <unit A: cfg lowpc eoffs rlists llists> <offset of unit B in .debug_info> <unit B: …>`:
two units in one `write::Dwarf` (same byte order); reply `ok A:rid=… … B:rid=… … ranges=… …`
(the sections hold both units' tables).
-/
namespace Gimli.Drv.C16
open Gimli Gimli.Drv Gimli.WLists

def u64? (s : String) : Option Nat := do
  let n ← s.toNat?
  if n < 2 ^ 64 then some n else none

def addr? (s : String) : Option Addr :=
  match s.toList with
  | 's' :: rest =>
    match (String.ofList rest).splitOn "_" with
    | [sym, add] => do
      let sym ← u64? sym
      let add ← parseInt? add
      if -(2 ^ 63 : Int) ≤ add ∧ add < 2 ^ 63 then some (.symbol sym add) else none
    | _ => none
  | _ => (u64? s).map .const

def op? (n : Nat) (s : String) : Option XOp :=
  let idx? (t : String) : Option Nat := do
    let i ← t.toNat?
    if i < n then some i else none
  match s.toList with
  | 'x' :: rest => (parseHex (String.ofList rest)).map .raw
  | 'z' :: rest =>
    match (String.ofList rest).splitOn "." with
    | [cnt, b] => do
      let cnt ← cnt.toNat?
      match ← parseHex b with
      | [b] => if cnt ≤ 1000000 then some (.raw (List.replicate cnt b)) else none
      | _ => none
    | _ => none
  | 'o' :: rest => do
    let v ← (String.ofList rest).toNat?
    if v < 256 then some (.simple v) else none
  | 'a' :: rest => (addr? (String.ofList rest)).map .addr
  | 'u' :: rest => (u64? (String.ofList rest)).map .constu
  | 'c' :: rest => (idx? (String.ofList rest)).map .call
  | ['v'] => some (.convert none)
  | 'v' :: rest => (idx? (String.ofList rest)).map fun i => .convert (some i)
  | 'r' :: rest => (idx? (String.ofList rest)).map .callRef
  | _ => none

def expr? (n : Nat) (s : String) : Option WExpr :=
  if s == "-" then some [] else do
    let ops ← (s.splitOn "+").mapM (op? n)
    -- `Operation::Raw` only exists as the single operation of `Expression::raw`
    if ops.length > 1 ∧ ops.any (fun o => match o with | .raw _ => true | _ => false) then none
    else some ops

def entry? (n : Nat) (s : String) : Option WEntry :=
  match s.splitOn ":" with
  | [tag, body] =>
    match tag, body.splitOn "," with
    | "B", [a] => do pure (.baseAddress (← addr? a))
    | "OP", [b, e, x] => do pure (.offsetPair (← u64? b) (← u64? e) (← expr? n x))
    | "SE", [b, e, x] => do pure (.startEnd (← addr? b) (← addr? e) (← expr? n x))
    | "SL", [b, l, x] => do pure (.startLength (← addr? b) (← u64? l) (← expr? n x))
    | "DL", [x] => do pure (.defaultLocation (← expr? n x))
    | _, _ => none
  | _ => none

def list? (n : Nat) (s : String) : Option WList :=
  if s == "." then some [] else (s.splitOn ";").mapM (entry? n)

def lists? (n : Nat) (s : String) : Option (List WList) :=
  if s == "-" then some [] else (s.splitOn "|").mapM (list? n)

def nats? (s : String) : Option (List Nat) :=
  if s == "-" then some [] else (s.splitOn ",").mapM u64?

def natsS (l : List Nat) : String :=
  if l.isEmpty then "-" else ",".intercalate (l.map toString)

/-- the offsets are observed by parsing the written unit; the reader only accepts the address
sizes 1, 2, 4, 8 — for any other size the Rust side prints `?` -/
def readable (asz : Nat) : Bool := asz = 1 ∨ asz = 2 ∨ asz = 4 ∨ asz = 8

def idsS (readable : Bool) (o : UnitOut) : String :=
  let roff := if readable then natsS o.rngOffs else "?"
  let loff := if readable then natsS o.locOffs else "?"
  s!"rid={natsS o.rngIds} lid={natsS o.locIds} roff={roff} loff={loff}"

def secsS (r rl l ll : Bytes) : String :=
  s!"ranges={toHex r} rnglists={toHex rl} loc={toHex l} loclists={toHex ll}"

def outS (asz : Nat) (o : UnitOut) : String :=
  idsS (readable asz) o ++ " " ++ secsS o.debugRanges o.debugRnglists o.debugLoc o.debugLoclists

def unit? (c low eoffs rl ll : String) : Option UnitIn := do
  let c ← C08.cfg? c
  if c.addrSize ≥ 256 ∨ c.version ≥ 65536 then none
  let low ← if low == "-" then some none else (addr? low).map some
  let eoffs ← nats? eoffs
  let rl ← lists? eoffs.length rl
  let ll ← lists? eoffs.length ll
  if ¬ (∀ l ∈ rl, ∀ x ∈ l, EntryOfKind .rng x) then none
  pure { cfg := c, lowPc := low, eoff := eoffs, rng := rl, loc := ll }

def handle (op : String) (args : List String) : Option String :=
  match op, args with
  | "wl-unit", [m, c, low, eoffs, rl, ll] => do
      let m ← mode? m
      let u ← unit? c low eoffs rl ll
      pure ((writeUnit m u).render (outS u.cfg.addrSize))
  /- two units written one after the other into the same `Sections`; `uoffb` = offset of the second
  unit in `.debug_info` -/
  | "wl-unit2", [m, ca, lowa, eoa, rla, lla, uoffb, cb, lowb, eob, rlb, llb] => do
      let m ← mode? m
      let a ← unit? ca lowa eoa rla lla
      let b ← unit? cb lowb eob rlb llb
      let uoffb ← u64? uoffb
      if a.cfg.endian ≠ b.cfg.endian then none
      -- the Rust side parses the whole `.debug_info`: both units must be readable
      let rd := readable a.cfg.addrSize && readable b.cfg.addrSize
      pure ((writeUnits2 m a b uoffb).render fun (oa, ob) =>
        s!"A:{idsS rd oa} B:{idsS rd ob} " ++
        secsS (oa.debugRanges ++ ob.debugRanges) (oa.debugRnglists ++ ob.debugRnglists)
          (oa.debugLoc ++ ob.debugLoc) (oa.debugLoclists ++ ob.debugLoclists))
  | _, _ => none

end Gimli.Drv.C16
