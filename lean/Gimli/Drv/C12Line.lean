import Gimli.Drv.Util
import Gimli.Model.ConvLineRows
/-! Line-protocol operation for the line-program component of C12 (conversion preserves the line
rows and file tables). The Rust side — assembler, `write::Dwarf::from` + write + re-read, direct
oracle — is `harness/src/prop/c12line.rs`; the grammar of `c12-line` and of the listing is
documented there. The whole reply is predicted from `Model/ConvLineRows.lean` (conversion),
`Model/WLine.lean` (writing) and C04's `Model/Line.lean` (reading the input and the output). -/
namespace Gimli.Drv.C12Line
open Gimli Gimli.Drv Gimli.Line Gimli.WLine Gimli.ConvLineRows

def optHex? (s : String) : Option (Option Bytes) :=
  if s == "~" then some none else (parseHex s).map some

def resolve (strs : Strs) (a : AttrVal) : Option Bytes :=
  match attrLineString strs a with
  | .ok b => some b
  | _ => none

def hexOr (o : Option Bytes) : String :=
  match o with
  | some b => toHex b
  | none => "?"

/-- `file_text` of the harness -/
def fileText (hd : Header) (strs : Strs) (idx : Nat) : String :=
  match hd.file idx with
  | none => s!"?{idx}"
  | some f =>
    let dir := hexOr ((hd.directory f.dirIndex).bind (resolve strs))
    let name := hexOr (resolve strs f.path)
    let src := match f.source with
      | none => "~"
      | some s => hexOr (resolve strs s)
    s!"{dir}:{name}:{f.timestamp}:{f.size}:{toHex f.md5}:{src}"

def b01 (b : Bool) : Nat := if b then 1 else 0

def rowText (hd : Header) (strs : Strs) (r : Row) : String :=
  let flags := b01 r.isStmt + 2 * b01 r.basicBlock + 4 * b01 r.endSequence + 8 * b01 r.prologueEnd +
    16 * b01 r.epilogueBegin
  s!"{r.address},{r.opIndex},{r.line},{r.column},{flags},{r.isa},{r.discriminator},{fileText hd strs r.file}"

def joinOr (sep : String) (xs : List String) : String :=
  if xs.isEmpty then "-" else sep.intercalate xs

/-- rows of a parsed program (none if the reader reports an error), with the file table extended
by the `DW_LNE_define_file` entries -/
def readListing (hd : Header) (strs : Strs) (declVals : List Nat) : Option (String × String) :=
  let evs := run hd.p hd.program
  let hd' := { hd with files := hd.files ++ definedFiles hd.p (hd.program.length + 1) hd.program }
  if evs.any (fun e => match e with | .row _ => false | _ => true) then none
  else
    let rows := evs.filterMap (fun e => match e with | .row r => some (rowText hd' strs r) | _ => none)
    let decls := declVals.map (fun d => if d = 0 ∧ hd.p.version ≤ 4 then "0" else fileText hd' strs d)
    some (joinOr ";" rows, joinOr "," decls)

def mapM' {α β : Type} (f : α → CRes β) : List α → CRes (List β)
  | [] => .ok []
  | x :: xs => do
    let y ← f x
    let ys ← mapM' f xs
    pure (y :: ys)

def c12line (m : Mode) (en : Endian) (ver asz : Nat) (cd cn : Option Bytes) (decls : List Nat)
    (line lineStr str_ : Bytes) : String :=
  let strs : Strs := { debugStr := str_, debugLineStr := lineStr }
  match Line.program en line 0 asz cd cn with
  | .ok hd =>
    match readListing hd strs decls with
    | none => "ok input-rejected"
    | some (inRows, inDecls) =>
      let (is, perr) := decodePrefix hd.p (hd.program.length + 1) hd.program
      let conv : CRes (CSt × List (Option Nat)) := do
        let st ← convertProgram m strs hd { lineStrings := [], strings := [] } is perr
        let ids ← mapM' (convertFileIndex ver st.files) decls
        pure (st, ids)
      match conv with
      | .err e => "ok failed:" ++ e.name
      | .panic w => "panic " ++ w
      | .ok (st, ids) =>
        let declVals := ids.map (fun o => (o.map (fileRaw ver)).getD 0)
        let inS := s!"{inRows} / {inDecls}"
        if !programWritten st.prog ids then
          let decl := joinOr "," (declVals.map (fun d => if d = 0 ∧ ver ≤ 4 then "0" else s!"?{d}"))
          s!"ok in={inS} out=none / {decl}"
        else
          match st.prog.write en m ver asz st.tabs with
          | .err e => "ok failed:Write:" ++ e.name
          | .panic w => "panic " ++ w
          | .diverge => "panic diverge"
          | .ok (bytes, tabs) =>
            let strsOut : Strs := { debugStr := tabs.strings.bytes, debugLineStr := tabs.lineStrings.bytes }
            match Line.program en bytes 0 asz cd cn with
            | .ok hdOut =>
              match readListing hdOut strsOut declVals with
              | some (r, d) => s!"ok in={inS} out={r} / {d}"
              | none => s!"ok in={inS} out=?"
            | _ => s!"ok in={inS} out=?"
  | _ => "ok input-rejected"

def handle (op : String) (args : List String) : Option String :=
  match op, args with
  | "c12-line", [m, e, _fmt, ver, asz, cd, cn, decls, line, lineStr, str_] => do
    let m ← mode? m
    let e ← endian? e
    let ver ← ver.toNat?
    let asz ← asz.toNat?
    let cd ← optHex? cd
    let cn ← optHex? cn
    let decls ← (if decls == "-" then some [] else (decls.splitOn ",").mapM String.toNat?)
    let line ← parseHex line
    let lineStr ← parseHex lineStr
    let str_ ← parseHex str_
    pure (c12line m e ver asz cd cn decls line lineStr str_)
  | _, _ => none

end Gimli.Drv.C12Line
