import Gimli.Drv.Util
import Gimli.Model.Index
import Gimli.Model.Aranges
import Gimli.Model.Pub
import Gimli.Model.Names
import Gimli.Model.Indexed
import Gimli.Model.Loader
import Gimli.Model.Bases
/-! Line-protocol operations for C17 (accelerated lookups and section plumbing). The Rust side
answering the same lines from the real crate is `harness/src/prop/c17.rs`. A trailing `exp`
argument (the generator's own expectation, used by the Rust-side oracle only) is ignored here. -/
namespace Gimli.Drv.C17
open Gimli Gimli.Drv

def join (sep : String) (xs : List String) : String :=
  if xs.isEmpty then "-" else sep.intercalate xs

def natList? (s : String) : Option (List Nat) :=
  if s == "-" then some [] else (s.splitOn ",").mapM (·.toNat?)

def optNat : Option Nat → String
  | some n => toString n
  | none => "n"

/-! ### index -/

def kindsS (ks : List Index.SecKind) : String := join "," (ks.map (·.name))

def colsS (cols : List (Index.SecKind × Nat × Nat)) : String :=
  join "," (cols.map fun (k, o, s) => s!"{k.name}:{o}:{s}")

def outS {α} (f : α → String) : Out α → String
  | .ok a => f a
  | .err e => "!" ++ e.name
  | .panic w => "!panic " ++ w
  | .diverge => "!diverge"

/-! ### aranges -/

def fmtS : Format → String
  | .dwarf32 => "32"
  | .dwarf64 => "64"

def arEntryS : Aranges.Item Aranges.Entry → String
  | .item en => s!"{en.begin_}-{en.end_}-{en.length}"
  | .error e => "!" ++ e.name

def arHeaderS (e : Endian) : Aranges.Item (Nat × Aranges.Header) → String
  | .item (off, h) =>
    let ents := Aranges.entries e h.addressSize (h.entries.length + 2) h.entries
    s!"H:{off}:{fmtS h.format}:{h.version}:{h.addressSize}:{h.length}:{h.debugInfoOffset}=" ++
      join "," (ents.map arEntryS)
  | .error x => "!" ++ x.name

/-! ### pubnames / pubtypes -/

def pubItemS : Aranges.Item Pub.Entry → String
  | .item en => s!"{en.dieOffset}:{toHex en.name}:{en.unitHeaderOffset}"
  | .error e => "!" ++ e.name

/-! ### `.debug_names` -/

def itemsS {α} (f : α → String) (xs : List (Aranges.Item α)) : String :=
  join "," (xs.map fun
    | .item a => f a
    | .error x => "!" ++ x.name)

def optS {α} (f : α → String) : Option α → String
  | some a => f a
  | none => "~"

def valueS : Names.Value → String
  | .unsigned v => s!"u{v}"
  | .offset v => s!"o{v}"
  | .flag b => if b then "f1" else "f0"

def tuS : Names.TypeUnit → String
  | .local_ o => s!"L{o}"
  | .foreign s => s!"F{s}"

def entryHeadS (en : Names.Entry) : String := s!"{en.offset}.{en.abbrevCode}.{en.tag}"

def entryS (e : Endian) (ix : Names.Index) (en : Names.Entry) : String :=
  let attrs := join "+" (en.attrs.map fun a => s!"{a.name}.{a.form}.{valueS a.value}")
  let par := en.parent
  let parS := outS (fun
    | none => "~"
    | some none => "N"
    | some (some (o : Nat)) => toString o) par
  let chain := match par with
    | .ok (some (some off)) => ">" ++ outS entryHeadS (ix.nameEntry e off)
    | _ => ""
  s!"{entryHeadS en}({attrs})cu={outS (optS toString) (en.compileUnit e ix)}/tu={outS (optS tuS) (en.typeUnit e ix)}" ++
    s!"/die={outS (optS toString) en.dieOffset}/par={parS}{chain}/th={outS (optS toString) en.typeHash}"

def rangeList (n : Nat) : List Nat := List.range n

def indexS (e : Endian) (ix : Names.Index) (debugStr : Bytes) (hashes : List Nat) (oob : Bool) : String :=
  let x := if oob then 1 else 0
  let cu := join "," ((rangeList (ix.cuCount + x)).map fun i => outS toString (ix.compileUnit e i))
  let ltu := join "," ((rangeList (ix.localTuCount + x)).map fun i => outS toString (ix.localTypeUnit e i))
  let ftu := join "," ((rangeList (ix.foreignTuCount + x)).map fun i => outS toString (ix.foreignTypeUnit e i))
  let tu := join "," ((rangeList (ix.localTuCount + ix.foreignTuCount + x)).map fun i => outS tuS (ix.typeUnit e i))
  let ab := join "," (ix.abbrevs.map fun a =>
    s!"{a.code}:{a.tag}:" ++ join "+" (a.attrs.map fun (n, f) => s!"{n}.{f}"))
  let bk := join ";" ((rangeList (ix.bucketCount + x)).map fun b =>
    outS (optS (itemsS fun (i, h) => s!"{i}.{h}")) (ix.bucket e b))
  let nm := join ";" ((rangeList (ix.nameCount + x)).map fun i =>
    let so := ix.nameStringOffset e i
    let str := match so with
      | .ok o => outS toHex (Names.getStr debugStr o)
      | _ => "!"
    s!"{outS toString so}:{str}:E[" ++ outS (itemsS (entryS e ix)) (ix.nameEntries e i) ++ "]")
  let hq := join ";" (hashes.map fun h => s!"{h}>" ++ outS (itemsS toString) (ix.findByHash e h))
  s!"CU={cu}|LTU={ltu}|FTU={ftu}|TU={tu}|AB={ab}|BK={bk}|NM={nm}|HQ={hq}"

def nameHeaderS (e : Endian) (debugStr : Bytes) (hashes : List Nat) (oob : Bool) :
    Aranges.Item (Nat × Names.Header) → String
  | .item (off, h) =>
    let aug := match h.augmentation with
      | some a => toHex a
      | none => "~"
    s!"I{off}:{fmtS h.format}:{h.length}:{h.version}:{h.cuCount}:{h.localTuCount}:{h.foreignTuCount}:" ++
      s!"{h.bucketCount}:{h.nameCount}:{h.abbrevTableSize}:{aug}|" ++
      outS (fun ix => indexS e ix debugStr hashes oob) (Names.Index.new h)
  | .error x => "!" ++ x.name

/-! ### loader wiring, package units -/

open Loader in
def wiringS : String :=
  let kv (xs : List (String × String)) := join "," (xs.map fun (a, b) => a ++ "=" ++ b)
  let names (xs : List SectionId) := join "," (xs.map (·.name))
  let s := kv (load dwarfSectionsFields SectionId.name)
  let d := kv ((dwarfLoad SectionId.name).map fun (slot, v) => (slot, v.getD "?"))
  let l := kv (SectionId.all.map fun m => (m.name, match lookupMarker m with
    | some id => id.name
    | none => "~"))
  let p := kv (load packageFields SectionId.name)
  s!"S:{s}|order={names (callOrder dwarfSectionsFields)}|D:{d}|L:{l}|P:{p}|porder={names (callOrder packageFields)}"

def hexList? (s : String) : Option (List Bytes) := (s.splitOn ",").mapM parseHex

def pkgOf (secs : List Bytes) (k : Index.SecKind) : Bytes :=
  match Index.sliceOrder.zip secs |>.find? (fun p => p.1 = k) with
  | some (_, b) => b
  | none => []

/-- one `find_cu` / `find_tu` followed by reading every section of the returned `Dwarf` -/
def dwpLookupS (e : Endian) (ix : Index.UnitIndex) (secs : List Bytes) (str addr ranges : Bytes)
    (id : Nat) : String :=
  outS (fun
    | none => "n"
    | some (row, (slices : List (Index.SecKind × Bytes))) =>
      s!"{row}:" ++ join "," (slices.map fun p => toHex p.2) ++ "|" ++
        join "," [toHex addr, toHex ranges, toHex str, "-", "-", "-"])
    (Index.findUnit e ix (pkgOf secs) id)

def handle (op : String) (args : List String) : Option String :=
  match op, args with
  | "ix-parse", [e, h] => do
      let e ← endian? e; let bs ← parseHex h
      pure ((Index.parse e bs).render fun ix =>
        -- the column kinds are only observable through `sections(1)`
        let kinds := match Index.sections e ix 1 with
          | .ok cols => kindsS (cols.map fun (c : Index.SecKind × Nat × Nat) => c.1)
          | _ => "?"
        s!"{ix.version} {ix.sectionCount} {ix.unitCount} {ix.slotCount} {kinds}")
  | "ix-find", [e, h, ids, _] => do
      let e ← endian? e; let bs ← parseHex h; let ids ← natList? ids
      pure ((Index.parse e bs).render fun ix =>
        join "," (ids.map fun id => let r := Index.findN e ix id; s!"{optNat r.1}:{r.2}"))
  | "ix-sect", [e, h, rows, _] => do
      let e ← endian? e; let bs ← parseHex h; let rows ← natList? rows
      pure ((Index.parse e bs).render fun ix =>
        join ";" (rows.map fun row => outS colsS (Index.sections e ix row)))
  | "ar", [e, h, _] => do
      let e ← endian? e; let bs ← parseHex h
      pure ("ok " ++ join ";" ((Aranges.headers e (bs.length + 2) bs 0).map (arHeaderS e)))
  | "pub", [_, e, h, _] => do
      let e ← endian? e; let bs ← parseHex h
      pure ("ok " ++ join "," ((Pub.items e (bs.length + 2) (Pub.start bs)).map pubItemS))
  | "nm", [e, h, str, hashes, _] => do
      let e ← endian? e; let bs ← parseHex h; let str ← parseHex str; let hashes ← natList? hashes
      pure ("ok " ++ join "#" ((Names.headers e (bs.length + 2) bs 0).map (nameHeaderS e str hashes false)))
  | "nm-oob", [e, h, str, hashes, _] => do
      let e ← endian? e; let bs ← parseHex h; let str ← parseHex str; let hashes ← natList? hashes
      pure ("ok " ++ join "#" ((Names.headers e (bs.length + 2) bs 0).map (nameHeaderS e str hashes true)))
  | "load-wiring", [] => pure ("ok " ++ wiringS)
  | "dwp", [e, cu, tu, secs, str, ids, _] => do
      let e ← endian? e; let cu ← parseHex cu; let tu ← parseHex tu; let secs ← hexList? secs
      let str ← parseHex str
      let addr := "ADDR".toUTF8.toList; let ranges := "RANGES".toUTF8.toList
      let r : Out String := do
        let cuIx ← Index.parse e cu
        let tuIx ← Index.parse e tu
        let items ← (ids.splitOn ",").mapM (fun (t : String) =>
          match t.toList with
          | 'c' :: rest => match (String.ofList rest).toNat? with
            | some id => Out.ok (dwpLookupS e cuIx secs str addr ranges id)
            | none => Out.panic "bad id"
          | 't' :: rest => match (String.ofList rest).toNat? with
            | some id => Out.ok (dwpLookupS e tuIx secs str addr ranges id)
            | none => Out.panic "bad id"
          | _ => Out.panic "bad id")
        pure (join ";" items)
      pure (r.render id)
  | "stroff", [e, f, h, base, index, _] => do
      let e ← endian? e; let f ← format? f; let bs ← parseHex h; let base ← base.toNat?
      let index ← index.toNat?
      pure ((Indexed.getStrOffset e f bs base index).render toString)
  | "addrx", [e, sz, h, base, index, _] => do
      let e ← endian? e; let sz ← sz.toNat?; let bs ← parseHex h; let base ← base.toNat?
      let index ← index.toNat?
      pure ((Indexed.getAddress e sz bs base index).render toString)
  | "attr", [e, f, asz, sob, ab, st, lst, so, ad, sup, kind, val, _] => do
      let e ← endian? e; let f ← format? f; let asz ← asz.toNat?; let sob ← sob.toNat?; let ab ← ab.toNat?
      let st ← parseHex st; let lst ← parseHex lst; let so ← parseHex so; let ad ← parseHex ad
      let sup ← if sup == "~" then some none else (parseHex sup).map some
      let av : Indexed.AttrVal ← match kind with
        | "string" => (parseHex val).map .string
        | "strp" => val.toNat?.map .debugStrRef
        | "strpsup" => val.toNat?.map .debugStrRefSup
        | "linestrp" => val.toNat?.map .debugLineStrRef
        | "strx" => val.toNat?.map .debugStrOffsetsIndex
        | "addr" => val.toNat?.map .addr
        | "addrx" => val.toNat?.map .debugAddrIndex
        | "udata" => some .other
        | "flag" => some .other
        | _ => none
      let c : Indexed.Ctx := {
        endian := e, format := f, addressSize := asz, strOffsetsBase := sob, addrBase := ab,
        debugStr := st, debugLineStr := lst, debugStrOffsets := so, debugAddr := ad,
        supDebugStr := sup }
      pure s!"ok s={outS toHex (Indexed.attrString c av)}|a={outS (optS toString) (Indexed.attrAddress c av)}"
  | "ub", [e, f, ver, ft, asz, attrs, st, so, ad, nidx, _] => do
      let e ← endian? e; let f ← format? f; let ver ← ver.toNat?; let asz ← asz.toNat?; let nidx ← nidx.toNat?
      let ft : Bases.FileType ← match ft with
        | "main" => some .main
        | "dwo" => some .dwo
        | "dwp" => some .dwo   -- `DwarfPackage::sections` hands out `file_type = Dwo`
        | _ => none
      let st ← parseHex st; let so ← parseHex so; let ad ← parseHex ad
      let attrs : List (Nat × Nat) ← if attrs == "-" then some [] else
        (attrs.splitOn ",").mapM fun t => match t.splitOn ":" with
          | [a, b] => do let a ← a.toNat?; let b ← b.toNat?; pure (a, b)
          | _ => none
      let b := Bases.unitBases ver f ft attrs
      let sv := (rangeList nidx).map fun i => outS toString (Bases.stringOffset e f b so i)
      let tv := (rangeList nidx).map fun i => outS toHex (do
        let off ← Bases.stringOffset e f b so i
        Names.getStr st off)
      let av := (rangeList nidx).map fun i => outS toString (Bases.address e asz b ad i)
      pure s!"ok B={b.strOffsets}:{b.addr}:{b.loclists}:{b.rnglists}|S={join "," sv}|T={join "," tv}|A={join "," av}"
  | "sk", [e, f, ver, _via, _asz, skattrs, sklow, rng, loc, nidx, raw, _] => do
      let e ← endian? e; let f ← format? f; let ver ← ver.toNat?; let nidx ← nidx.toNat?; let raw ← raw.toNat?
      let rng ← parseHex rng; let loc ← parseHex loc
      let skattrs : List (Nat × Nat) ← if skattrs == "-" then some [] else
        (skattrs.splitOn ",").mapM fun t => match t.splitOn ":" with
          | [a, b] => do let a ← a.toNat?; let b ← b.toNat?; pure (a, b)
          | _ => none
      let sklow : Option Nat ← if sklow == "-" then some none else sklow.toNat?.map some
      let skeleton := Bases.newUnit ver f .main skattrs sklow
      -- standalone `.dwo` after `make_dwo`, or the `Dwarf` `DwarfPackage::find_cu` hands out
      let parent : Bases.Sections := {
        fileType := .main, debugAddr := "ADDR".toUTF8.toList, debugRanges := "RANGES".toUTF8.toList,
        debugRnglists := [], debugLoclists := [] }
      let own : Bases.Sections := {
        fileType := .main, debugAddr := [], debugRanges := [], debugRnglists := rng,
        debugLoclists := loc }
      let s := Bases.makeDwo own parent
      let u := Bases.copyRelocated (Bases.newUnit ver f s.fileType [] none) skeleton
      let rv := (rangeList nidx).map fun i => outS toString (Bases.rangesOffset e u s i)
      let lv := (rangeList nidx).map fun i => outS toString (Bases.locationsOffset e u s i)
      let b := u.bases
      pure (s!"ok B={b.strOffsets}:{b.addr}:{b.loclists}:{b.rnglists}:{u.lowPc}|R={join "," rv}|L={join "," lv}" ++
        s!"|W={Bases.rangesOffsetFromRaw u s raw}|D={toHex s.debugAddr},{toHex s.debugRanges}")
  | "djb-ascii", [h] => do
      let bs ← parseHex h
      -- `case_folding_djb_hash` restricted to ASCII input (`to_ascii_lowercase`, then `hash*33 + byte`)
      if bs.all (fun b => b.toNat < 128) then
        pure ("ok " ++ toString (bs.foldl (fun hsh b =>
          let c := if 65 ≤ b.toNat ∧ b.toNat ≤ 90 then b.toNat + 32 else b.toNat
          (hsh * 33 + c) % 2 ^ 32) 5381))
      else none
  | _, _ => none

end Gimli.Drv.C17
