import Gimli.Drv.Util
import Gimli.Model.Index
import Gimli.Model.Aranges
import Gimli.Model.Pub
/-! Line-protocol operations for C17 (accelerated lookups and section plumbing). The Rust side
answering the same lines from the real crate is `harness/src/prop/c17.rs`. A trailing `exp`
argument (the generator's own expectation, used by the Rust-side oracle only) is ignored here. -/
namespace Gimli.Drv.C17
open Gimli Gimli.Drv

def join (sep : String) (xs : List String) : String :=
  if xs.isEmpty then "-" else sep.intercalate xs

def natList? (s : String) : Option (List Nat) :=
  if s == "-" then some [] else (s.splitOn ",").mapM (·.toNat?)

def optNat : Option Nat → String
  | some n => toString n
  | none => "n"

/-! ### index -/

def kindsS (ks : List Index.SecKind) : String := join "," (ks.map (·.name))

def colsS (cols : List (Index.SecKind × Nat × Nat)) : String :=
  join "," (cols.map fun (k, o, s) => s!"{k.name}:{o}:{s}")

def outS {α} (f : α → String) : Out α → String
  | .ok a => f a
  | .err e => "!" ++ e.name
  | .panic w => "!panic " ++ w
  | .diverge => "!diverge"

/-! ### aranges -/

def fmtS : Format → String
  | .dwarf32 => "32"
  | .dwarf64 => "64"

def arEntryS : Aranges.Item Aranges.Entry → String
  | .item en => s!"{en.begin_}-{en.end_}-{en.length}"
  | .error e => "!" ++ e.name

def arHeaderS (e : Endian) : Aranges.Item (Nat × Aranges.Header) → String
  | .item (off, h) =>
    let ents := Aranges.entries e h.addressSize (h.entries.length + 2) h.entries
    s!"H:{off}:{fmtS h.format}:{h.version}:{h.addressSize}:{h.length}:{h.debugInfoOffset}=" ++
      join "," (ents.map arEntryS)
  | .error x => "!" ++ x.name

/-! ### pubnames / pubtypes -/

def pubItemS : Aranges.Item Pub.Entry → String
  | .item en => s!"{en.dieOffset}:{toHex en.name}:{en.unitHeaderOffset}"
  | .error e => "!" ++ e.name

def handle (op : String) (args : List String) : Option String :=
  match op, args with
  | "ix-parse", [e, h] => do
      let e ← endian? e; let bs ← parseHex h
      pure ((Index.parse e bs).render fun ix =>
        -- the column kinds are only observable through `sections(1)`
        let kinds := match Index.sections e ix 1 with
          | .ok cols => kindsS (cols.map fun (c : Index.SecKind × Nat × Nat) => c.1)
          | _ => "?"
        s!"{ix.version} {ix.sectionCount} {ix.unitCount} {ix.slotCount} {kinds}")
  | "ix-find", [e, h, ids, _] => do
      let e ← endian? e; let bs ← parseHex h; let ids ← natList? ids
      pure ((Index.parse e bs).render fun ix =>
        join "," (ids.map fun id => let r := Index.findN e ix id; s!"{optNat r.1}:{r.2}"))
  | "ix-sect", [e, h, rows, _] => do
      let e ← endian? e; let bs ← parseHex h; let rows ← natList? rows
      pure ((Index.parse e bs).render fun ix =>
        join ";" (rows.map fun row => outS colsS (Index.sections e ix row)))
  | "ar", [e, h, _] => do
      let e ← endian? e; let bs ← parseHex h
      pure ("ok " ++ join ";" ((Aranges.headers e (bs.length + 2) bs 0).map (arHeaderS e)))
  | "pub", [_, e, h, _] => do
      let e ← endian? e; let bs ← parseHex h
      pure ("ok " ++ join "," ((Pub.items e (bs.length + 2) (Pub.start bs)).map pubItemS))
  | _, _ => none

end Gimli.Drv.C17
