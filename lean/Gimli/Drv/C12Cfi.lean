import Gimli.Drv.Util
import Gimli.Model.ConvFrame
/-!
Line-protocol operation for the frame-table component of C12 (`harness/src/prop/c12cfi.rs` answers
the same line from the real crate):

```
c12-cfi <df|eh> <le|be> <address size> <section hex>
```
The section is read with `DebugFrame` / `EhFrame` (`set_address_size`, vendor AArch64), converted
with `FrameTable::from(&section, &|a| Some(Address::Constant(a)))` and written with
`write_debug_frame` / `write_eh_frame` into an empty `EndianVec`.  Reply:
`ok <output section hex>` | `ok failed:convert:<ConvertError>` | `ok failed:write:<write::Error>`,
where `<ConvertError>` is `Read.<name>`, `Write.<name>`, `InvalidAddress`,
`UnsupportedCfiInstruction`.  The Model side is `ConvFrame.convertAndWrite` = `ConvFrame`
(conversion, on C05's entry Model and C06's instruction decoder) ∘ `WCfi.tableWrite` (C14).

Expressions: the Model's `convertExpr` is the identity; the generator only emits expressions whose
conversion and re-encoding is the identity on bytes (canonical encodings of register-offset, deref,
plus_uconst, call_frame_cfa, …); `Expression::from` itself belongs to C12-expr.
-/
namespace Gimli.Drv.C12Cfi
open Gimli Gimli.Drv Gimli.ConvFrame

def ctx (eh : Bool) (e : Endian) (asz : Nat) : Ctx :=
  { cfg := { eh := eh, e := e, asz := asz, m := .release },
    vendor := .aarch64,
    convertAddr := fun a => some (.const a),
    convertExpr := fun ex => .ok ex }

def render : Outcome → String
  | .bytes bs => "ok " ++ toHex bs
  | .convertFailed e => "ok failed:convert:" ++ e.name
  | .writeFailed e => "ok failed:write:" ++ (e.name.drop 2).toString
  | .panic w => "panic " ++ w
  | .diverge => "diverge"

def handle (op : String) (args : List String) : Option String :=
  match op, args with
  | "c12-cfi", [sec, en, asz, h] => do
    let eh ← (match sec with | "df" => some false | "eh" => some true | _ => none)
    let e ← endian? en
    let asz ← asz.toNat?
    let bs ← parseHex h
    pure (render (convertAndWrite (ctx eh e asz) bs))
  | _, _ => none

end Gimli.Drv.C12Cfi
