import Gimli.Drv.Util
import Gimli.Model.ConvUnit
import Gimli.Spec.Attr
/-!
Line-protocol operation `c12unit` (unit / attribute component of C12): the request carries an
abstract `.debug_info` — per unit the encoding and the entries in section order (depth, tag,
children flag, attributes as name / form / payload) — plus the string, string-offset and address
tables.  `harness/src/prop/c12unit.rs` encodes it to real sections (its own encoder), runs
`write::Dwarf::from` and `Dwarf::write` and lists what `gimli::read` sees in the output.  Here the
request is turned into what the reader Models of C02/C03 deliver (`RItem`s with synthetic section
offsets and the raw `Attr.Value` of each form), converted with `ConvUnit.convertUnit`, written with
`WUnit.writeDwarf` (only to learn whether the writer fails) and listed: the kind of each output
attribute is the one the reader derives (`Spec.Attr.rawKind` of the form `WUnit.attrForm` chose,
then `Attr.normalise`).

```
c12unit <le|be> <bad address|-> S <n> <hex>*  L <n> <hex>*  X <n> <k>*  A <n> <addr>*  U <n> <unit>*
unit  := <version> <32|64> <address size> <unit type> <n> <entry>*n       (entries in section order)
entry := <depth> <tag> <children 0|1> <nattrs> <attr>*
attr  := <name> [i] <form> <payload>                                      (i: through DW_FORM_indirect)
```
Reply: `ok failed:<error>` or `ok u:<version>:<format>:<address size> e:<depth>:<tag>:<sibling> a:<name>:<Kind>:<payload> …`
(payload: number, hex bytes, resolved string as hex, reference as `<unit>.<index in listing order>`).
-/
namespace Gimli.Drv.C12Unit
open Gimli Gimli.Drv Gimli.Attr Gimli.WUnit Gimli.ConvUnit

/-- payload of an attribute in the request -/
inductive Pay where
  | num (n : Nat)
  | int (i : Int)
  | bytes (b : Bytes)
  | flag (b : Bool)
  /-- reference inside the unit: entry `k` in section order / the null entry closing the children
  of `k` / one byte into entry `k` / behind the unit -/
  | refEntry (k : Nat) | refNull (k : Nat) | refMid (k : Nat) | refOob
  /-- `DW_FORM_ref_addr`: entry `k` of unit `u` / behind the section -/
  | irefEntry (u k : Nat) | irefOob
  /-- `.debug_str` / `.debug_line_str`: the k-th string of the table / a raw offset -/
  | strIdx (k : Nat) | strOff (off : Nat)

structure PAttr where
  name : Nat
  form : Form
  pay : Pay

structure PEntry where
  depth : Int
  tag : Nat
  children : Bool
  attrs : List PAttr

structure PUnit where
  version : Nat
  format : Format
  asz : Nat
  utype : Nat
  entries : List PEntry

structure Req where
  endian : Endian
  bad : Option Nat
  strs : List Bytes
  lstrs : List Bytes
  xs : List Nat
  addrs : List Nat
  units : List PUnit

abbrev P := StateT (List String) Option

def tok : P String := do
  match ← get with
  | [] => failure
  | t :: rest => set rest; pure t

def nat : P Nat := do
  match (← tok).toNat? with
  | some n => pure n
  | none => failure

def natLt (b : Nat) : P Nat := do
  let n ← nat
  if n < b then pure n else failure

def hexTok : P Bytes := do
  match parseHex (← tok) with
  | some b => pure b
  | none => failure

def repeatP {α} (n : Nat) (p : P α) : P (List α) := do
  let mut out : Array α := #[]
  for _ in [0:n] do
    out := out.push (← p)
  pure out.toList

def formOfName : String → Option Form
  | "addr" => some .addr | "block1" => some .block1 | "block2" => some .block2 | "block4" => some .block4
  | "block" => some .block | "data1" => some .data1 | "data2" => some .data2 | "data4" => some .data4
  | "data8" => some .data8 | "data16" => some .data16 | "udata" => some .udata | "sdata" => some .sdata
  | "string" => some .string | "strp" => some .strp | "line_strp" => some .lineStrp
  | "strx" => some .strx | "strx1" => some .strx1 | "strx2" => some .strx2 | "strx3" => some .strx3
  | "strx4" => some .strx4 | "gnu_str_index" => some .gnuStrIndex
  | "addrx" => some .addrx | "addrx1" => some .addrx1 | "addrx2" => some .addrx2 | "addrx3" => some .addrx3
  | "addrx4" => some .addrx4 | "gnu_addr_index" => some .gnuAddrIndex
  | "flag" => some .flag | "flag_present" => some .flagPresent
  | "ref1" => some .ref1 | "ref2" => some .ref2 | "ref4" => some .ref4 | "ref8" => some .ref8
  | "ref_udata" => some .refUdata | "ref_addr" => some .refAddr | "ref_sig8" => some .refSig8
  | "ref_sup4" => some .refSup4 | "ref_sup8" => some .refSup8 | "gnu_ref_alt" => some .gnuRefAlt
  | "strp_sup" => some .strpSup | "gnu_strp_alt" => some .gnuStrpAlt
  | "sec_offset" => some .secOffset | "exprloc" => some .exprloc | "implicit_const" => some .implicitConst
  | _ => none

/-- parameterless operations: `Expression::from` re-emits each as the same byte -/
def simpleOp (b : UInt8) : Bool :=
  let n := b.toNat
  n = 0x06 ∨ (0x12 ≤ n ∧ n ≤ 0x14) ∨ n = 0x16 ∨ (0x19 ≤ n ∧ n ≤ 0x22) ∨ (0x24 ≤ n ∧ n ≤ 0x27) ∨
    (0x29 ≤ n ∧ n ≤ 0x2e) ∨ (0x30 ≤ n ∧ n ≤ 0x6f) ∨ n = 0x96 ∨ n = 0x9c ∨ n = 0x9f

/-- attribute names whose section-offset class values are lists or a line program: the
sub-conversions are not part of this op -/
def listy (name : Nat) : Bool :=
  name ∈ [0x02, 0x19, 0x2a, 0x38, 0x40, 0x46, 0x48, 0x4a, 0x4d, 0x2c, 0x55, 0x10]

def parseInt (s : String) : Option Int := parseInt? s

/-- names for which `Attribute::value` has an `exprloc!()` rule -/
def exprName (name : Nat) : Bool :=
  name ∈ [0x02, 0x0b, 0x0c, 0x0d, 0x19, 0x22, 0x2a, 0x2e, 0x2f, 0x37, 0x38, 0x40, 0x46, 0x48, 0x4a, 0x4d,
    0x4e, 0x4f, 0x50, 0x51, 0x71, 0x7e, 0x7f, 0x83, 0x84, 0x85, 0x86]

def attrP (nstr nlstr nx na : Nat) : P PAttr := do
  let name ← natLt (2 ^ 16)
  let mut t ← tok
  if t = "i" then t ← tok   -- the Model sees `attr.form()`, which is the real form
  let form ← (match formOfName t with | some f => pure f | none => failure : P Form)
  if listy name ∧ (form = .secOffset ∨ form = .data4 ∨ form = .data8) then failure
  let numP (b : Nat) : P Pay := do pure (.num (← natLt b))
  let pay ← (match form with
    | .addr => numP (2 ^ 64)
    | .data1 => numP (2 ^ 8) | .data2 => numP (2 ^ 16) | .data4 => numP (2 ^ 32) | .data8 => numP (2 ^ 64)
    | .data16 => numP (2 ^ 128) | .udata => numP (2 ^ 64)
    | .refSig8 => numP (2 ^ 64) | .refSup4 => numP (2 ^ 32) | .refSup8 => numP (2 ^ 64)
    | .gnuRefAlt | .strpSup | .gnuStrpAlt | .secOffset => numP (2 ^ 64)
    | .sdata | .implicitConst => do
      match parseInt (← tok) with
      | some i => if -(2 ^ 63 : Int) ≤ i ∧ i < 2 ^ 63 then pure (.int i) else failure
      | none => failure
    | .block1 | .block2 | .block4 | .block => do
      let b ← hexTok
      -- under these names `Attribute::value` turns the block into an expression
      if exprName name ∧ ¬ b.all simpleOp then failure
      pure (.bytes b)
    | .exprloc => do
      let b ← hexTok
      if b.all simpleOp then pure (.bytes b) else failure
    | .string => do
      let b ← hexTok
      if b.contains 0 then failure else pure (.bytes b)
    | .flag => do pure (.flag ((← natLt 2) = 1))
    | .flagPresent => pure (.flag true)
    | .strp | .lineStrp => do
      let t ← tok
      let n := if form = .strp then nstr else nlstr
      match t.toList with
      | '!' :: rest =>
        match (String.ofList rest).toNat? with
        | some off => if off < 2 ^ 32 then pure (.strOff off) else failure
        | none => failure
      | _ =>
        match t.toNat? with
        | some k => if k < n then pure (.strIdx k) else failure
        | none => failure
    | .strx | .strx1 | .strx2 | .strx3 | .strx4 | .gnuStrIndex => do pure (.num (← natLt nx))
    | .addrx | .addrx1 | .addrx2 | .addrx3 | .addrx4 | .gnuAddrIndex => do pure (.num (← natLt na))
    | .ref1 | .ref2 | .ref4 | .ref8 | .refUdata => do
      let t ← tok
      if t = "oob" then pure .refOob else
      match t.toList with
      | 'n' :: rest => match (String.ofList rest).toNat? with | some k => pure (.refNull k) | none => failure
      | 'm' :: rest => match (String.ofList rest).toNat? with | some k => pure (.refMid k) | none => failure
      | _ => match t.toNat? with | some k => pure (.refEntry k) | none => failure
    | .refAddr => do
      let t ← tok
      if t = "oob" then pure .irefOob else
      match t.splitOn "." with
      | [u, k] => match u.toNat?, k.toNat? with
        | some u, some k => pure (.irefEntry u k)
        | _, _ => failure
      | _ => failure
    | _ => failure : P Pay)
  pure { name := name, form := form, pay := pay }

def entryP (nstr nlstr nx na : Nat) : P PEntry := do
  let depth ← natLt 256
  let tag ← natLt (2 ^ 16)
  if tag = 0 then failure
  let ch ← natLt 2
  let n ← natLt 64
  let attrs ← repeatP n (attrP nstr nlstr nx na)
  pure { depth := depth, tag := tag, children := ch = 1, attrs := attrs }

/-- the entries of a unit must be a depth-first listing: the first at depth 0, a deeper entry only
directly below an entry with the children flag, never back to depth 0 -/
def wellNested : List PEntry → Bool
  | [] => false
  | r :: rest => r.depth = 0 ∧ go r rest
where
  go : PEntry → List PEntry → Bool
    | _, [] => true
    | prev, e :: rest =>
      1 ≤ e.depth ∧ (e.depth ≤ prev.depth ∨ (e.depth = prev.depth + 1 ∧ prev.children)) ∧ go e rest

def unitP (nstr nlstr nx na : Nat) : P PUnit := do
  let version ← natLt 8
  if version < 2 ∨ version > 5 then failure
  let fmt ← tok
  let format ← (match format? fmt with | some f => pure f | none => failure : P Format)
  let asz ← nat
  if ¬ (asz = 1 ∨ asz = 2 ∨ asz = 4 ∨ asz = 8) then failure
  let utype ← natLt 256
  if (version = 5 ∧ ¬ (utype = 1 ∨ utype = 2 ∨ utype = 3)) ∨ (version < 5 ∧ utype ≠ 1) then failure
  let n ← natLt 2048
  let entries ← repeatP n (entryP nstr nlstr nx na)
  if ¬ wellNested entries then failure
  pure { version := version, format := format, asz := asz, utype := utype, entries := entries }

def strTabP : P (List Bytes) := do
  let n ← natLt 256
  let l ← repeatP n hexTok
  if l.any (·.contains 0) then failure
  pure l

def reqP : P Req := do
  let e ← (do match endian? (← tok) with | some e => pure e | none => failure : P Endian)
  let b ← tok
  let bad ← (if b = "-" then pure none else match b.toNat? with | some n => pure (some n) | none => failure : P (Option Nat))
  let t ← tok; if t ≠ "S" then failure
  let strs ← strTabP
  let t ← tok; if t ≠ "L" then failure
  let lstrs ← strTabP
  let t ← tok; if t ≠ "X" then failure
  let nx ← natLt 256
  let xs ← repeatP nx (natLt strs.length)
  let t ← tok; if t ≠ "A" then failure
  let na ← natLt 256
  let addrs ← repeatP na (natLt (2 ^ 64))
  let t ← tok; if t ≠ "U" then failure
  let nu ← natLt 9
  let units ← repeatP nu (unitP strs.length lstrs.length nx na)
  if ¬ (← get).isEmpty then failure
  -- address table entries must fit every unit that can index them
  if units.any (fun u => addrs.any (fun a => ¬ a < 2 ^ (8 * u.asz))) ∧ na > 0 then failure
  pure { endian := e, bad := bad, strs := strs, lstrs := lstrs, xs := xs, addrs := addrs, units := units }

/-! ### synthetic section offsets -/
def unitBase (u : Nat) : Nat := u * 1000000
def entryUOff (k : Nat) : Nat := 100 + 10 * k
def entryOff (u k : Nat) : Nat := unitBase u + entryUOff k

/-- offset of the k-th string in a table written as `s ++ [0]` one after the other -/
def strOffsetOf (tab : List Bytes) (k : Nat) : Nat := (tab.take k).foldl (fun acc s => acc + s.length + 1) 0

/-- `DebugStr::get_str(offset)` on that table -/
def strAtTab (tab : List Bytes) (off : Nat) : Res Bytes :=
  let sec : Bytes := tab.foldr (fun s acc => s ++ 0 :: acc) []
  if off > sec.length then .error (.read "UnexpectedEof")
  else
    let rest := sec.drop off
    if rest.contains 0 then .ok (rest.takeWhile (· ≠ 0)) else .error (.read "UnexpectedEof")

/-- an injective code of a byte string (stands for its `StringId` until the tables are built) -/
def codeOf (s : Bytes) : Nat := s.foldl (fun acc b => acc * 257 + b.toNat + 1) 0

/-- the raw `Attr.Value` of a request attribute, as `parse_attribute` would deliver it -/
def rawValue (r : Req) (enc : Attr.Encoding) (u : Nat) (a : PAttr) : Value :=
  let kind := Spec.Attr.rawKind enc a.name a.form
  let pl : Payload := match a.pay with
    | .num n => .num n
    | .int i => .int i
    | .bytes b => .bytes b
    | .flag b => .flag b
    | .refEntry k => .num (entryUOff k)
    | .refNull k => .num (entryUOff k + 5)
    | .refMid k => .num (entryUOff k + 1)
    | .refOob => .num 999999
    | .irefEntry u' k => .num (entryOff u' k)
    | .irefOob => .num 999999999
    | .strIdx k => .num (strOffsetOf (if a.form = .strp then r.strs else r.lstrs) k)
    | .strOff off => .num off
  let _ := u
  ⟨kind, pl⟩

def mkCtx (r : Req) (u : Nat) (pu : PUnit) : ConvUnit.Ctx :=
  { version := pu.version
    convAddr := fun x => if r.bad = some x then none else some x
    addrAt := fun i => match r.addrs[i]? with | some a => .ok a | none => .error (.read "UnexpectedEof")
    strAt := strAtTab r.strs
    lineStrAt := strAtTab r.lstrs
    strOffsetAt := fun i => match r.xs[i]? with
      | some k => .ok (strOffsetOf r.strs k) | none => .error (.read "UnexpectedEof")
    strId := codeOf
    lineStrId := codeOf
    lineProgram := none
    fileId := fun _ => none
    convExpr := fun b => .ok [.raw b]
    locOffsetAt := fun _ => .error (.sub "unmodelled")
    convLocList := fun _ => .error (.sub "unmodelled")
    rngOffsetFromRaw := id
    rngOffsetAt := fun _ => .error (.sub "unmodelled")
    convRngList := fun _ => .error (.sub "unmodelled")
    unitRef := fun off =>
      if off ≥ 100 ∧ (off - 100) % 10 = 0 ∧ (off - 100) / 10 < pu.entries.length then some ((off - 100) / 10) else none
    infoRef := fun off =>
      let u' := off / 1000000
      let o := off % 1000000
      match r.units[u']? with
      | some pu' =>
        if o ≥ 100 ∧ (o - 100) % 10 = 0 ∧ (o - 100) / 10 < pu'.entries.length then some (u', (o - 100) / 10) else none
      | none => none }
where _unused := u

def items (r : Req) (u : Nat) (pu : PUnit) : List RItem :=
  let enc : Attr.Encoding := { endian := r.endian, addressSize := pu.asz, format := pu.format, version := pu.version }
  (List.range pu.entries.length).zip pu.entries |>.map fun (k, e) =>
    { off := entryOff u k, depth := e.depth, tag := e.tag, children := e.children,
      attrs := e.attrs.map fun a => { name := a.name, form := a.form, raw := rawValue r enc u a } }

/-- children of `id` in creation order -/
partial def buildTree (root : List (Nat × AttrVal)) (cs : List Created) : Tree :=
  let rec go (id tag : Nat) (sib : Bool) (attrs : List (Nat × AttrVal)) (fuel : Nat) : Tree :=
    let kids := cs.filter (fun c => c.parent = id ∧ c.id ≠ id)
    .node id tag sib attrs (Forest.ofList (if fuel = 0 then [] else kids.map fun c => go c.id c.tag c.sibling c.attrs (fuel - 1)))
  go 0 DW_TAG_compile_unit false root (cs.length + 1)

/-- replace the string codes by table indices (first occurrence first, as `StringTable::add`
is called in conversion order) -/
def collectStrings (units : List OutUnit) : List Nat × List Nat :=
  let vals := units.flatMap fun o => (o.rootAttrs ++ o.entries.flatMap (·.attrs)).map (·.2)
  let s := vals.foldl (fun acc v => match v with | .stringRef c => if acc.contains c then acc else acc ++ [c] | _ => acc) []
  let l := vals.foldl (fun acc v => match v with | .lineStringRef c => if acc.contains c then acc else acc ++ [c] | _ => acc) []
  (s, l)

def renumber (s l : List Nat) : AttrVal → AttrVal
  | .stringRef c => .stringRef ((s.idxOf? c).getD 0)
  | .lineStringRef c => .lineStringRef ((l.idxOf? c).getD 0)
  | v => v

mutual
partial def mapTree (f : AttrVal → AttrVal) : Tree → Tree
  | .node id tag sib attrs ch => .node id tag sib (attrs.map fun (n, v) => (n, f v)) (mapForest f ch)
partial def mapForest (f : AttrVal → AttrVal) : Forest → Forest
  | .nil => .nil
  | .cons t rest => .cons (mapTree f t) (mapForest f rest)
end

mutual
partial def dfs (depth : Nat) : Tree → List (Nat × Tree)
  | t@(.node _ _ _ _ ch) => (depth, t) :: dfsF (depth + 1) ch
partial def dfsF (depth : Nat) : Forest → List (Nat × Tree)
  | .nil => []
  | .cons t rest => dfs depth t ++ dfsF depth rest
end

def hexOrDash (b : Bytes) : String := toHex b

/-- kind and payload text of an output attribute as the reader reports it -/
def listAttr (enc : WUnit.Enc) (aenc : Attr.Encoding) (strOf lstrOf : Nat → Bytes)
    (posOf : Nat → Nat → String) (u : Nat) (name : Nat) (v : AttrVal) : String :=
  let form := Form.ofCode (attrForm enc v).1
  let kind0 := Spec.Attr.rawKind aenc name form
  let pl : Payload := match v with
    | .address x | .data1 x | .data2 x | .data4 x | .data8 x | .data16 x | .udata x | .constClass x
    | .debugInfoRefSup x | .debugMacinfoRef x | .debugMacroRef x | .debugTypesRef x | .debugStrRefSup x
    | .locationListRef x | .rangeListRef x => .num x
    | .fileIndex r => .num (r.getD 0)
    | .sdata i | .implicitConst i => .int i
    | .block b | .string b => .bytes b
    | .exprloc items => .bytes (items.flatMap fun it => match it with | .raw b => b | _ => [])
    | .flag b => .flag b
    | .flagPresent => .flag true
    | _ => .num 0
  let nv := normalise name ⟨kind0, pl⟩
  let text := match v with
    | .unitRef id => posOf u id
    | .debugInfoRef u' id => posOf u' id
    | .stringRef c => hexOrDash (strOf c)
    | .lineStringRef c => hexOrDash (lstrOf c)
    | _ => match nv.payload with
      | .num n => toString n
      | .int i => toString i
      | .bytes b => hexOrDash b
      | .flag b => if b then "1" else "0"
  s!"a:{name}:{nv.kind.name}:{text}"

def run (r : Req) : String := Id.run do
  -- conversion, unit by unit (`Dwarf::from`)
  let mut outs : Array OutUnit := #[]
  let mut idx := 0
  for pu in r.units do
    let its := items r idx pu
    let cx := mkCtx r idx pu
    match convertUnit cx (reserveIds its) its with
    | .error e => return s!"ok failed:{e.name}"
    | .ok o => outs := outs.push o
    idx := idx + 1
  -- strings: code -> bytes
  let allStr : List Bytes := r.units.flatMap fun _ => []
  let _ := allStr
  let (sc, lc) := collectStrings outs.toList
  -- bytes of a code: search the candidates (every suffix of every table string)
  let cands (tab : List Bytes) : List Bytes := tab.flatMap fun s => (List.range (s.length + 1)).map fun i => s.drop i
  let strOfCode (tab : List Bytes) (c : Nat) : Bytes := ((cands tab).find? (fun s => codeOf s = c)).getD []
  let strTab : StrTab := sc.map (strOfCode r.strs)
  let lstrTab : StrTab := lc.map (strOfCode r.lstrs)
  -- the writer
  let trees := (outs.toList.zip r.units).map fun (o, pu) =>
    (mapTree (renumber sc lc) (buildTree o.rootAttrs o.entries), pu)
  let wunits : List UnitIn := trees.map fun (t, pu) =>
    { enc := { version := pu.version, format := pu.format, addrSize := pu.asz },
      nEntries := pu.entries.length, root := t, lineProgram := none }
  match writeDwarf r.endian strTab lstrTab wunits with
  | .err e => return s!"ok failed:{e.name}"
  | .panic w => return s!"panic {w}"
  | .diverge => return "diverge"
  | .ok _ => pure ()
  -- listing in output order (base types first)
  let listed := trees.map fun (t, pu) => (dfs 0 (reorderBaseTypes t), pu)
  let posOf (u id : Nat) : String :=
    match listed[u]? with
    | some (l, _) => match l.findIdx? (fun (_, t) => t.id = id) with
      | some i => s!"{u}.{i}"
      | none => "?"
    | none => "?"
  let mut out := "ok"
  let mut u := 0
  for (l, pu) in listed do
    let enc : WUnit.Enc := { version := pu.version, format := pu.format, addrSize := pu.asz }
    let aenc : Attr.Encoding := { endian := r.endian, addressSize := pu.asz, format := pu.format, version := pu.version }
    out := out ++ s!" u:{pu.version}:{Format.str pu.format}:{pu.asz}"
    for (d, t) in l do
      match t with
      | .node _ tag sib attrs ch =>
        let hasSib := sib && !ch.isEmpty
        out := out ++ s!" e:{d}:{tag}:{if hasSib then 1 else 0}"
        for (n, v) in attrs do
          out := out ++ " " ++ listAttr enc aenc (fun i => strTab.getD i []) (fun i => lstrTab.getD i []) posOf u n v
    u := u + 1
  return out

def handle (op : String) (args : List String) : Option String :=
  match op with
  | "c12unit" => do
    let (r, _) ← reqP.run args
    pure (run r)
  | _ => none

end Gimli.Drv.C12Unit
