import Gimli.Drv.Util
import Gimli.Model.Line
import Gimli.Spec.Line
/-! Line-protocol operations for C04 (line-number programs). The Rust side answering the same
lines from the real crate is `harness/src/prop/c04.rs`.

```
P := <e>,<fmt>,<ver>,<asz>,<minlen>,<maxops>,<stmt>,<lbase>,<lrange>,<obase>,<stdlens-hex>
line-rows  P <program-hex>          all results of next_row() until Ok(None)
line-instrs P <program-hex>         header.instructions() until Ok(None) / the first error
line-seqs  P <program-hex>          sequences() and resume_from() of each
line-abs   P <instr>*               abstract program: Spec encoding, then as line-rows
line-hdr   <e> <asz> <off> <compdir|~> <compname|~> <section-hex>
line-hexp  <e> <asz> <section-hex> <dirs> <files>   tables only (the Rust side compares them with
                                    what the generator encoded)
line-dump  <e> <asz> <off> <section-hex> <rows>     rows of the unit at `off` in llvm-dwarfdump's
                                    columns (the Rust side compares them with `<rows>`, taken from
                                    `llvm-dwarfdump --debug-line` on a compiler-built binary)
line-prog  <e> <asz> <section-hex>  header + rows + sequences + file table from raw bytes
```
-/
namespace Gimli.Drv.C04
open Gimli Gimli.Drv Gimli.Line

def nat? (s : String) : Option Nat := s.toNat?

def parseParams (s : String) : Option Params :=
  match s.splitOn "," with
  | [e, f, ver, asz, minlen, maxops, stmt, lbase, lrange, obase, stdlens] => do
    let e ← endian? e
    let f ← format? f
    let ver ← nat? ver
    let asz ← nat? asz
    let minlen ← nat? minlen
    let maxops ← nat? maxops
    let stmt ← nat? stmt
    let lbase ← parseInt? lbase
    let lrange ← nat? lrange
    let obase ← nat? obase
    let stdlens ← parseHex stdlens
    pure { endian := e, format := f, version := ver, addrSize := asz, minInstLen := minlen,
           maxOps := maxops, defaultIsStmt := stmt != 0, lineBase := lbase, lineRange := lrange,
           opcodeBase := obase, stdLens := stdlens }
  | _ => none

/-- the request describes a header the harness can build: byte-sized fields, table of the
announced length, supported address size and version -/
def buildable (p : Params) : Bool :=
  decide (2 ≤ p.version ∧ p.version ≤ 5 ∧ (p.addrSize = 1 ∨ p.addrSize = 2 ∨ p.addrSize = 4 ∨ p.addrSize = 8) ∧
    p.minInstLen ≤ 255 ∧ p.maxOps ≤ 255 ∧ -128 ≤ p.lineBase ∧ p.lineBase ≤ 127 ∧ p.lineRange ≤ 255 ∧
    p.opcodeBase ≤ 255 ∧ p.stdLens.length = p.opcodeBase - 1)

/-- what `LineProgramHeader::parse` does with the parameter block built from `p`: the checks in
its order, and `maximum_operations_per_instruction = 1` before version 4 -/
def acceptParams (p : Params) : Except Err Params :=
  if p.minInstLen = 0 then .error .rMinimumInstructionLengthZero
  else if p.version ≥ 4 ∧ p.maxOps = 0 then .error .rMaximumOperationsPerInstructionZero
  else if p.lineRange = 0 then .error .rLineRangeZero
  else if p.opcodeBase = 0 then .error .rOpcodeBaseZero
  else .ok (if p.version ≥ 4 then p else { p with maxOps := 1 })

def b01 (b : Bool) : Nat := if b then 1 else 0

def rowS (r : Row) : String :=
  let flags := b01 r.isStmt + 2 * b01 r.basicBlock + 4 * b01 r.endSequence + 8 * b01 r.prologueEnd +
    16 * b01 r.epilogueBegin
  s!"{r.address},{r.opIndex},{r.file},{r.line},{r.column},{flags},{r.isa},{r.discriminator}"

def evS : Ev → String
  | .row r => rowS r
  | .err e => "err:" ++ e.name
  | .hidden _ => "hidden"
  | .stuck => "stuck"

def evsS (evs : List Ev) : String :=
  " ".intercalate (evs.map evS ++ ["end"])

def seqsS (h : Params) (r : Out (List Seq)) : String :=
  r.render fun seqs =>
    " ".intercalate (toString seqs.length ::
      seqs.map fun s => s!"S:{s.start},{s.end} {evsS (resume h s)}")

def attrS : AttrVal → String
  | .block b => "blk:" ++ toHex b
  | .data1 n => s!"d1:{n}"
  | .data2 n => s!"d2:{n}"
  | .data4 n => s!"d4:{n}"
  | .data8 n => s!"d8:{n}"
  | .udata n => s!"ud:{n}"
  | .sdata i => s!"sd:{i}"
  | .flag b => s!"fl:{b01 b}"
  | .secOffset n => s!"so:{n}"
  | .string b => "str:" ++ toHex b
  | .strp n => s!"strp:{n}"
  | .strpSup n => s!"sup:{n}"
  | .lineStrp n => s!"lstrp:{n}"
  | .strx n => s!"strx:{n}"

def optS {α} (f : α → String) : Option α → String
  | none => "~"
  | some a => f a

def fileS (f : FileEntry) : String :=
  s!"{attrS f.path};{f.dirIndex};{f.timestamp};{f.size};{toHex f.md5};{optS attrS f.source}"

def listS {α} (f : α → String) (xs : List α) : String :=
  if xs.isEmpty then "~" else "|".intercalate (xs.map f)

def fmtS (x : EntryFormat) : String := s!"{x.1}:{x.2}"

def headerS (h : Header) : String :=
  let p := h.p
  let nf := h.files.length
  let nd := h.dirs.length
  let lookups := [0, 1, 2, nf, nf + 1, 2 ^ 64 - 1].map (fun i => optS fileS (h.file i)) ++
    [0, 1, 2, nd, nd + 1, 2 ^ 64 - 1].map (fun i => optS attrS (h.directory i))
  " ".intercalate ([Format.str p.format, toString p.version, toString h.unitLength, toString h.headerLength,
    toString p.addrSize, toString p.minInstLen, toString p.maxOps, toString (b01 p.defaultIsStmt),
    toString p.lineBase, toString p.lineRange, toString p.opcodeBase, toHex p.stdLens,
    listS fmtS h.dirFormat, listS attrS h.dirs, listS fmtS h.fileFormat, listS fileS h.files,
    toHex h.program] ++ lookups)

/-! abstract programs -/

def splitColon (s : String) : List String := s.splitOn ":"

def parseInstrTok (s : String) : Option Instr :=
  match splitColon s with
  | ["sp", n] => do pure (.special (← nat? n))
  | ["cp"] => some .copy
  | ["apc", n] => do pure (.advancePc (← nat? n))
  | ["al", i] => do pure (.advanceLine (← parseInt? i))
  | ["sf", n] => do pure (.setFile (← nat? n))
  | ["sc", n] => do pure (.setColumn (← nat? n))
  | ["ns"] => some .negateStatement
  | ["bb"] => some .setBasicBlock
  | ["cap"] => some .constAddPc
  | ["fap", n] => do pure (.fixedAddPc (← nat? n))
  | ["pe"] => some .setPrologueEnd
  | ["eb"] => some .setEpilogueBegin
  | ["isa", n] => do pure (.setIsa (← nat? n))
  | ["u0", op] => do pure (.unknownStandard0 (← nat? op))
  | ["u1", op, a] => do pure (.unknownStandard1 (← nat? op) (← nat? a))
  | "un" :: op :: args => do
    let op ← nat? op
    let args ← args.mapM nat?
    pure (.unknownStandardN op (args.foldr (fun a acc => Leb.encodeU a ++ acc) []))
  | ["es"] => some .endSequence
  | ["sa", a] => do pure (.setAddress (← nat? a))
  | ["df", p, d, t, sz] => do
    let p ← parseHex p
    pure (.defineFile { path := .string p, dirIndex := (← nat? d), timestamp := (← nat? t),
                        size := (← nat? sz), md5 := List.replicate 16 0, source := none })
  | ["sd", n] => do pure (.setDiscriminator (← nat? n))
  | ["ux", op, d] => do pure (.unknownExtended (← nat? op) (← parseHex d))
  | _ => none

/-- decoded instruction as a token (the `line-abs` vocabulary; `unx` carries the raw operand bytes) -/
def instrS : Instr → String
  | .special n => s!"sp:{n}"
  | .copy => "cp"
  | .advancePc n => s!"apc:{n}"
  | .advanceLine i => s!"al:{i}"
  | .setFile n => s!"sf:{n}"
  | .setColumn n => s!"sc:{n}"
  | .negateStatement => "ns"
  | .setBasicBlock => "bb"
  | .constAddPc => "cap"
  | .fixedAddPc n => s!"fap:{n}"
  | .setPrologueEnd => "pe"
  | .setEpilogueBegin => "eb"
  | .setIsa n => s!"isa:{n}"
  | .unknownStandard0 op => s!"u0:{op}"
  | .unknownStandard1 op a => s!"u1:{op}:{a}"
  | .unknownStandardN op args => s!"unx:{op}:{toHex args}"
  | .endSequence => "es"
  | .setAddress a => s!"sa:{a}"
  | .defineFile f => "df:" ++ fileS f
  | .setDiscriminator n => s!"sd:{n}"
  | .unknownExtended op d => s!"ux:{op}:{toHex d}"

def withParams (ps : String) (k : Params → String) : Option String := do
  let p ← parseParams ps
  if !buildable p then pure "bad-args" else
  match acceptParams p with
  | .error e => pure ("err " ++ e.name)
  | .ok p => pure (k p)

def optHex? (s : String) : Option (Option Bytes) :=
  if s == "~" then some none else (parseHex s).map some

def handle (op : String) (args : List String) : Option String :=
  match op, args with
  | "line-rows", [ps, prog] => do
    let prog ← parseHex prog
    withParams ps fun p => "ok " ++ evsS (run p prog)
  | "line-instrs", [ps, prog] => do
    let prog ← parseHex prog
    withParams ps fun p =>
      let (is, e) := decodePrefix p (prog.length + 1) prog
      "ok " ++ " ".intercalate (is.map instrS ++ [match e with | none => "end" | some e => "err:" ++ e.name])
  | "line-seqs", [ps, prog] => do
    let prog ← parseHex prog
    withParams ps fun p => seqsS p (sequences p prog)
  | "line-abs", ps :: toks => do
    let is ← toks.mapM parseInstrTok
    withParams ps fun p =>
      let bytes := Spec.Line.encodeProg p is
      "ok " ++ toHex bytes ++ " " ++ evsS (run p bytes)
  | "line-hdr", [e, asz, off, cd, cn, sec] => do
    let e ← endian? e
    let asz ← nat? asz
    let off ← nat? off
    let cd ← optHex? cd
    let cn ← optHex? cn
    let sec ← parseHex sec
    pure ((program e sec off asz cd cn).render headerS)
  | "line-hexp", [e, asz, sec, _, _] => do
    let e ← endian? e
    let asz ← nat? asz
    let sec ← parseHex sec
    pure ((program e sec 0 asz none none).render fun h =>
      s!"{listS attrS h.dirs} {listS fileS h.files}")
  | "line-dump", [e, asz, off, sec, _] => do
    let e ← endian? e
    let asz ← nat? asz
    let off ← nat? off
    let sec ← parseHex sec
    pure ((program e sec off asz none none).render fun h =>
      listS (fun ev => match ev with
        | Ev.row r =>
          let flags := b01 r.isStmt + 2 * b01 r.basicBlock + 4 * b01 r.endSequence + 8 * b01 r.prologueEnd +
            16 * b01 r.epilogueBegin
          s!"{r.address},{r.line},{r.column},{r.file},{r.isa},{r.discriminator},{flags}"
        | other => evS other) (run h.p h.program))
  | "line-prog", [e, asz, sec] => do
    let e ← endian? e
    let asz ← nat? asz
    let sec ← parseHex sec
    pure ((program e sec 0 asz none none).render fun h =>
      let files := h.files ++ definedFiles h.p (h.program.length + 1) h.program
      -- rows through the call-by-call mirror of `next_row` (= `run`, `Props.C04.next_row_iteration`)
      let evs := collect h.p (h.program.length + 1) (Row.new h.p) false h.program
      s!"{h.p.version} {h.p.addrSize} {evsS evs} / {seqsS h.p (sequences h.p h.program)} / {listS fileS files}")
  | _, _ => none

end Gimli.Drv.C04
