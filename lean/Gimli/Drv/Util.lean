import Gimli.Prim.Basic
/-! Driver helpers: argument parsing, rendering, the block digest shared with the Rust harness. -/
namespace Gimli.Drv

/-- rolling digest over 64-bit words, identical to `gvh::digest` (harness/src/util.rs) -/
@[inline] def digestStep (h : UInt64) (x : UInt64) : UInt64 :=
  (h ^^^ x) * 1099511628211 + 0x9e3779b97f4a7c15

def digestInit : UInt64 := 0xcbf29ce484222325

def endian? : String → Option Endian
  | "le" => some .little
  | "be" => some .big
  | _ => none

def format? : String → Option Format
  | "32" => some .dwarf32
  | "64" => some .dwarf64
  | _ => none

def mode? : String → Option Mode
  | "debug" => some .debug
  | "release" => some .release
  | _ => none

def Format.str : Format → String
  | .dwarf32 => "32"
  | .dwarf64 => "64"

/-- render `(value, rest)` results as `ok <value> <consumed>` given the input length -/
def renderVC {α} (inLen : Nat) (f : α → String) (r : Out (α × Bytes)) : String :=
  r.render (fun (v, rest) => f v ++ " " ++ toString (inLen - rest.length))

/-- outcome code for digests: 0 ok, 1.. err (by name hash), panic, diverge -/
def strHash (s : String) : UInt64 :=
  s.foldl (fun h c => digestStep h c.toNat.toUInt64) digestInit

def outWords {α} (f : α → List UInt64) : Out α → List UInt64
  | .ok a => 0 :: f a
  | .err e => [1, strHash e.name]
  | .panic _ => [2]
  | .diverge => [3]

end Gimli.Drv
