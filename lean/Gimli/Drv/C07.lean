import Gimli.Drv.Util
import Gimli.Model.Eval
/-! Line-protocol operations for C07 (DWARF expressions). The Rust side answering the same lines
from the real crate is `harness/src/prop/c07.rs`.

* `op-parse e asz fmt ver hex`                     one `Operation::parse`
* `op-iter  e asz fmt ver hex`                     `OperationIter` to the end
* `val-op <op> mask v [v|type]`, `val-parse e type hex`, `val-from-u64 type n`, `val-bit-size mask type`,
  `val-type-enc ate size`                          `value.rs`
* `blk-val <op> <type> mask`                       all operand pairs of an 8-bit type / 9-bit generic patterns
* `expr-eval e asz fmt ver storage init obj max hex script [mode]`   a whole scripted evaluation
* `expr-blk e asz storage max len first`           every program of `len` symbols of the alphabet
                                                   starting with symbol `first`
-/
namespace Gimli.Drv.C07
open Gimli Gimli.Drv Gimli.Op Gimli.Eval

def enc? (asz fmt ver : String) : Option Encoding := do
  let a ← asz.toNat?; let f ← format? fmt; let v ← ver.toNat?
  pure { addressSize := a, format := f, version := v }

def optNat? (s : String) : Option (Option Nat) :=
  if s == "-" then some none else s.toNat?.map some

/-- `heap` or `s<N>e<M>p<K>` (stack / expression stack / result capacities) -/
def caps? (s : String) : Option Caps :=
  if s == "heap" then some {} else
  match s.toList with
  | 's' :: rest =>
    match (String.ofList rest).splitOn "e" with
    | [a, r] =>
      match r.splitOn "p" with
      | [b, c] => do
        let a ← a.toNat?; let b ← b.toNat?; let c ← c.toNat?
        pure { stack := some a, exprs := some b, pieces := some c }
      | _ => none
    | _ => none
  | _ => none

/-- script: `-` or `tok,tok,…`; tok = `<value>/<hex>` -/
def tok? (s : String) : Option Tok :=
  match s.splitOn "/" with
  | [v, h] => do let v ← Value.parseText? v; let b ← parseHex h; pure ⟨v, b⟩
  | _ => none

def script? (s : String) : Option (List Tok) :=
  if s == "-" then some [] else (s.splitOn ",").mapM tok?

/-! ### rendering -/

def renderLoc : Location → String
  | .empty => "empty"
  | .register r => s!"reg({r})"
  | .address a => s!"addr({a})"
  | .value v => s!"val({v.render})"
  | .bytes b => s!"bytes({toHex b})"
  | .implicitPointer v o => s!"iptr({v},{o})"

def renderPiece (p : Piece) : String :=
  s!"{optS p.sizeInBits}:{optS p.bitOffset}:{renderLoc p.location}"

def renderRef : DieRef → String
  | .unitRef o => s!"u{o}"
  | .debugInfoRef o => s!"i{o}"

def renderReq : Request → String
  | .complete => "complete"
  | .requiresMemory a s sp bt => s!"mem({a},{s},{optS sp},{bt})"
  | .requiresRegister r bt => s!"reg({r},{bt})"
  | .requiresWasmLocal i => s!"wasm_local({i})"
  | .requiresWasmGlobal i => s!"wasm_global({i})"
  | .requiresWasmStack i => s!"wasm_stack({i})"
  | .requiresFrameBase => "frame_base"
  | .requiresTls i => s!"tls({i})"
  | .requiresCallFrameCfa => "cfa"
  | .requiresAtLocation r => s!"at_location({renderRef r})"
  | .requiresEntryValue x => s!"entry_value({toHex x})"
  | .requiresParameterRef o => s!"parameter_ref({o})"
  | .requiresRelocatedAddress a => s!"relocated({a})"
  | .requiresIndexedAddress i r => s!"indexed({i},{if r then 1 else 0})"
  | .requiresBaseType o => s!"base_type({o})"

def renderFinal : Final → String
  | .done ps v =>
    "done[" ++ "|".intercalate (ps.map renderPiece) ++ "]v=" ++
      (match v with | some v => v.render | none => "-")
  | .error e => "err:" ++ e.name
  | .panicked _ => "panic"
  | .diverged => "diverge"
  | .scriptEnd => "script-end"

/-- the reply to an `eval` line: the request trace and how the run ended -/
def renderRun (r : List Request × Final × Option Eval) : String :=
  match r with
  | (_, .panicked w, _) => "panic " ++ w
  | (_, .diverged, _) => "diverge"
  | (reqs, f, _) =>
    "ok " ++ (if reqs.isEmpty then "-" else ";".intercalate (reqs.map renderReq)) ++ " " ++ renderFinal f

/-- fuel for `evaluate_internal`: the limit + 2 when there is one (C07 `iter_limit_terminates`:
always enough), capped at 30000 loop iterations; without a limit 30000. The harness gives every
evaluation a budget of 400000 reader operations (more than 30000 operations can use) and answers
`diverge` when it is exhausted. -/
def fuelFor (mx : Option Nat) : Nat :=
  match mx with
  | some m => min (m + 2) 30000
  | none => 30000

def doEval (e : Endian) (enc : Encoding) (caps : Caps) (mode : Mode) (init obj mx : Option Nat)
    (prog : Bytes) (script : List Tok) : String :=
  match Eval.new e enc caps mode prog init obj mx with
  | .ok s => renderRun (run (fuelFor mx) script s)
  | .panic w => "panic " ++ w
  | .err er => "err " ++ er.name
  | .diverge => "diverge"

/-! ### the alphabet of the exhaustive program enumeration (the same table is in `c07.rs`) -/

def ulebBytes (n : Nat) : Bytes := Leb.encodeU n

/-- instruction byte strings; depends on the address size only through the two mask constants -/
def alphabet (asz : Nat) : Array Bytes :=
  let mask := 2 ^ (8 * asz) - 1
  #[ [0x12], [0x13], [0x14], [0x16], [0x17], [0x15, 0x02],                       -- dup drop over swap rot pick2
     [0x19], [0x1a], [0x1b], [0x1c], [0x1d], [0x1e], [0x1f], [0x20], [0x21], [0x22], -- abs … plus
     [0x24], [0x25], [0x26], [0x27],                                               -- shl shr shra xor
     [0x29], [0x2a], [0x2b], [0x2c], [0x2d], [0x2e],                               -- eq ge gt le lt ne
     [0x23, 0x01],                                                                 -- plus_uconst 1
     [0x96], [0x2f, 0x01, 0x00], [0x2f, 0xfc, 0xff], [0x28, 0x01, 0x00], [0x28, 0xfb, 0xff], -- nop skip+1 skip-4 bra+1 bra-5
     [0x9f], [0x93, 0x01], [0x50], [0x97],                                         -- stack_value piece(1) reg0 push_object_address
     [0x30], [0x31], [0x4f], [0x09, 0xff],                                         -- lit0 lit1 lit31 const1s(-1)
     [0x0e, 0, 0, 0, 0, 0, 0, 0, 0x80],                                            -- const8u 2^63
     [0x10] ++ ulebBytes mask, [0x10] ++ ulebBytes (mask + 1),                     -- constu mask, mask+1
     [0x08, 0x07] ]                                                                -- const1u 7

partial def enumProgs (alpha : Array Bytes) (len : Nat) (pre : Bytes) (f : Bytes → UInt64 → UInt64) (h : UInt64) : UInt64 :=
  if len = 0 then f pre h else Id.run do
    let mut h := h
    for sym in alpha do
      h := enumProgs alpha (len - 1) (pre ++ sym) f h
    return h

/-! ### value operations -/

def unaryOp? : String → Option (Value → Nat → Out Value)
  | "abs" => some Value.abs | "neg" => some Value.neg | "not" => some Value.not
  | _ => none

def binaryOp? : String → Option (Value → Value → Nat → Out Value)
  | "add" => some Value.add | "sub" => some Value.sub | "mul" => some Value.mul
  | "div" => some Value.div | "rem" => some Value.rem
  | "and" => some Value.and | "or" => some Value.or | "xor" => some Value.xor
  | "shl" => some Value.shl | "shr" => some Value.shr | "shra" => some Value.shra
  | "eq" => some Value.eq | "ge" => some Value.ge | "gt" => some Value.gt
  | "le" => some Value.le | "lt" => some Value.lt | "ne" => some Value.ne
  | _ => none

def valWords : Out Value → List UInt64
  | .ok v => [0, strHash v.render]
  | .err e => [1, strHash e.name]
  | .panic _ => [2]
  | .diverge => [3]

/-- operand domain of `blk-val`: all 256 patterns of an 8-bit type; for `generic` the 512
nine-bit patterns (bit 8 is an unmasked high bit under the 1-byte mask) -/
def blkDomain (t : ValueType) : Nat := if t = .generic then 512 else 256

def handle (op : String) (args : List String) : Option String :=
  match op, args with
  | "op-parse", [e, asz, fmt, ver, h] => do
      let e ← endian? e; let enc ← enc? asz fmt ver; let bs ← parseHex h
      pure (renderVC bs.length Operation.render (parse e enc bs))
  | "op-iter", [e, asz, fmt, ver, h] => do
      let e ← endian? e; let enc ← enc? asz fmt ver; let bs ← parseHex h
      let (ops, er) := iterAll e enc bs.length (bs.length + 1) bs
      let txt := if ops.isEmpty then "-" else ";".intercalate (ops.map (fun (o, off) => s!"{o.render}@{off}"))
      pure ("ok " ++ txt ++ " " ++ (match er with | some er => er.name | none => "-"))
  | "val-op", [o, mask, v] => do
      let mask ← mask.toNat?; let v ← Value.parseText? v
      if o == "to_u64" then pure ((v.toU64 mask).render toString) else
      let f ← unaryOp? o
      pure ((f v mask).render Value.render)
  | "val-op", [o, mask, a, b] => do
      let mask ← mask.toNat?; let a ← Value.parseText? a
      if o == "convert" then do
        let t ← ValueType.ofName? b; pure ((a.convert t mask).render Value.render)
      else if o == "reinterpret" then do
        let t ← ValueType.ofName? b; pure ((a.reinterpret t mask).render Value.render)
      else do
        let b ← Value.parseText? b
        let f ← binaryOp? o
        pure ((f a b mask).render Value.render)
  | "val-parse", [e, t, h] => do
      let e ← endian? e; let t ← ValueType.ofName? t; let bs ← parseHex h
      pure ((Value.parse e t bs).render Value.render)
  | "val-from-u64", [t, n] => do
      let t ← ValueType.ofName? t; let n ← n.toNat?
      pure ((Value.fromU64 t n).render Value.render)
  | "val-bit-size", [mask, t] => do
      let mask ← mask.toNat?; let t ← ValueType.ofName? t
      pure ("ok " ++ toString (Value.bitSize t mask))
  | "val-type-enc", [ate, size] => do
      let ate ← ate.toNat?; let size ← size.toNat?
      pure ("ok " ++ (match Value.typeFromEncoding ate size with | some t => t.name | none => "-"))
  | "blk-val", [o, t, mask] => do
      let t ← ValueType.ofName? t; let mask ← mask.toNat?
      let n := blkDomain t
      match unaryOp? o with
      | some f =>
        let h := Id.run do
          let mut h := digestInit
          for a in [0:n] do
            h := (valWords (f ⟨t, a⟩ mask)).foldl digestStep h
          return h
        pure ("ok digest=" ++ toString h)
      | none => do
        let f ← binaryOp? o
        let h := Id.run do
          let mut h := digestInit
          for a in [0:n] do
            for b in [0:n] do
              h := (valWords (f ⟨t, a⟩ ⟨t, b⟩ mask)).foldl digestStep h
          return h
        pure ("ok digest=" ++ toString h)
  | "expr-eval", e :: asz :: fmt :: ver :: st :: init :: obj :: mx :: h :: sc :: rest => do
      let e ← endian? e; let enc ← enc? asz fmt ver; let caps ← caps? st
      let init ← optNat? init; let obj ← optNat? obj; let mx ← optNat? mx
      let prog ← parseHex h; let script ← script? sc
      let mode ← match rest with
        | [] => some Mode.debug
        | [m] => mode? m
        | _ => none
      pure (doEval e enc caps mode init obj mx prog script)
  | "expr-blk", [e, asz, st, mx, len, first] => do
      let e ← endian? e; let asz ← asz.toNat?; let caps ← caps? st; let mx ← optNat? mx
      let len ← len.toNat?; let first ← first.toNat?
      let alpha := alphabet asz
      let sym ← alpha[first]?
      let enc : Encoding := { addressSize := asz, format := .dwarf32, version := 4 }
      let f := fun (prog : Bytes) (h : UInt64) =>
        digestStep h (strHash (doEval e enc caps .debug none (some 0x1234) mx prog []))
      pure ("ok digest=" ++ toString (enumProgs alpha (len - 1) sym f digestInit))
  | _, _ => none

end Gimli.Drv.C07
