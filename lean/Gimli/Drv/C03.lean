import Gimli.Drv.Util
import Gimli.Model.Attr
import Gimli.Drv.C02
/-! Line-protocol operations for C03 (attribute forms; skipping equals reading).
`harness/src/prop/c03.rs` answers the same lines from the real crate.

* `attr-parse <endian> <addr_size> <32|64> <version> <name> <form> <implicit|-> <hex> …`
  → `ok <raw> <normalised> <consumed> u=<udata_value|-> s=<sdata_value|->`
  (values are `<Variant>:n<dec>` | `i<dec>` | `b<hex>` | `f0/f1`; trailing tokens are the
  generator's expectations for the Rust-side oracle and are ignored here)
* `attr-skip <endian> <addr_size> <32|64> <version> <name:form[:implicit],…|-> <hex> …`
  → `ok read=<consumed|ErrName> skip=<consumed|ErrName>`
* `attr-size <addr_size> <32|64> <version> <form>` → `ok <n>` | `ok none`
* `attr-unit <endian> <info|types> <abbrev hex> <section hex> …` → `ok <offset>:<name>/<form>/<raw>/<normalised>,…;… <ok|ErrName>`:
  every attribute of every entry of the first unit (`<offset>:-` for an entry without attributes or a null entry)
-/
namespace Gimli.Drv.C03
open Gimli Gimli.Drv Gimli.Attr

def payloadS : Payload → String
  | .num n => "n" ++ toString n
  | .int i => "i" ++ toString i
  | .bytes b => "b" ++ toHex b
  | .flag b => if b then "f1" else "f0"

def valueS (v : Value) : String := v.kind.name ++ ":" ++ payloadS v.payload

def optS {α} (f : α → String) : Option α → String
  | some a => f a
  | none => "-"

def enc? (e a f v : String) : Option Encoding := do
  let e ← endian? e; let a ← a.toNat?; let f ← format? f; let v ← v.toNat?
  pure { endian := e, addressSize := a, format := f, version := v }

/-- `name:form[:implicit]` -/
def spec? (s : String) : Option Spec :=
  match s.splitOn ":" with
  | [n, f] => do
    let n ← n.toNat?; let f ← f.toNat?
    pure { name := n, form := Form.ofCode f, implicitConst := 0 }
  | [n, f, i] => do
    let n ← n.toNat?; let f ← f.toNat?; let i ← parseInt? i
    pure { name := n, form := Form.ofCode f, implicitConst := if Form.ofCode f = .implicitConst then i else 0 }
  | _ => none

def specs? (s : String) : Option (List Spec) :=
  if s == "-" then some [] else (s.splitOn ",").mapM spec?

/-- `consumed` or the error name, as one token -/
def posS {α} (inLen : Nat) (rest : α → Bytes) : Out α → String
  | .ok a => toString (inLen - (rest a).length)
  | .err e => e.name
  | .panic _ => "panic"
  | .diverge => "diverge"

def handle (op : String) (args : List String) : Option String :=
  match op, args with
  | "attr-parse", e :: a :: f :: v :: name :: form :: imp :: h :: _ => do
    let enc ← enc? e a f v
    let name ← name.toNat?; let form ← form.toNat?
    let imp ← if imp == "-" then some 0 else parseInt? imp
    let bs ← parseHex h
    let fm := Form.ofCode form
    let spec : Spec := { name := name, form := fm, implicitConst := if fm = .implicitConst then imp else 0 }
    pure ((parseAttribute enc spec bs).render fun (val, rest) =>
      let nv := normalise name val
      valueS val ++ " " ++ valueS nv ++ " " ++ toString (bs.length - rest.length)
        ++ " u=" ++ optS toString val.udataValue ++ " s=" ++ optS toString val.sdataValue)
  | "attr-skip", e :: a :: f :: v :: specs :: h :: _ => do
    let enc ← enc? e a f v
    let specs ← specs? specs
    let bs ← parseHex h
    pure ("ok read=" ++ posS bs.length (·.2) (readAttributes enc specs bs)
      ++ " skip=" ++ posS bs.length id (skipAttributes enc specs bs))
  | "attr-unit", e :: s :: ah :: h :: _ => do
    let e ← endian? e; let s ← C02.sect? s; let abb ← parseHex ah; let sec ← parseHex h
    let r : Out String := do
      let (hd, ctx) ← C02.setup e s abb sec
      let raw ← hd.entriesRaw hd.rootOffset
      let t := Die.rawAll ctx (sec.length + 2) raw
      let entryS (en : Die.Entry) : String :=
        toString en.offset ++ ":" ++
          (if en.attrs.isEmpty then "-" else ",".intercalate (en.attrs.map fun (sp, v) =>
            toString sp.name ++ "/" ++ toString sp.form.code ++ "/" ++ valueS v ++ "/" ++ valueS (normalise sp.name v)))
      pure ("ok " ++ C02.joinS (t.1.map entryS) ++ " " ++ C02.endS t.2)
    pure (match r with
      | .ok s => s
      | .err e => "err " ++ e.name
      | .panic w => "panic " ++ w
      | .diverge => "diverge")
  | "attr-size", [a, f, v, form] => do
    let enc ← enc? "le" a f v
    let form ← form.toNat?
    pure ("ok " ++ (match getAttributeSize (Form.ofCode form) enc with | some n => toString n | none => "none"))
  | _, _ => none

end Gimli.Drv.C03
