import Gimli.Drv.C10
import Gimli.Model.Reloc
/-! Line-protocol operations for C18 (relocation is transparent). Rust side: `harness/src/prop/c18.rs`.

* `rw-calls <le|be> <sym addrs> <section bases> <call>…` — a sequence of `Writer` calls:
  `R:` what the recording writer produced (bytes and relocations), `D:` what writing directly
  (resolving on the spot) produced, `A:` the recorded bytes with the relocations applied,
  `nc:` whether no positioned plain write landed on a relocated field (`NoClobber`).
* `rr-hist <mode> <le|be> <section> <relocs> <prim>…` — a straight-line parser:
  `R:` trace through the relocating reader over the section, `P:` trace through the plain reader
  over the section with the relocations applied, `c:` the hypothesis of `reloc_read_transparent`
  (`separated` ∧ `compat`).
* `rl-dwarf …` — whole-DWARF writing and parsing; implementation-side oracles only. -/
namespace Gimli.Drv.C18
open Gimli Gimli.Drv Gimli.Wr Gimli.Rr Gimli.Rd

def natList (s : String) : Option (List Nat) :=
  if s == "-" then some [] else (s.splitOn ",").mapM String.toNat?

def envOf (syms secs : List Nat) : Env :=
  { sym := fun i => syms.getD i 0, sec := fun i => secs.getD i 0 }

def parseCall (tok : String) : Option Call :=
  match tok.splitOn ":" with
  | ["w", h] => do let b ← parseHex h; pure (.write b)
  | ["wat", o, h] => do let o ← o.toNat?; let b ← parseHex h; pure (.writeAt o b)
  | ["ud", v, s] => do let v ← v.toNat?; let s ← s.toNat?; pure (.udata v s)
  | ["sd", v, s] => do let v ← parseInt? v; let s ← s.toNat?; pure (.sdata v s)
  | ["udat", o, v, s] => do
      let o ← o.toNat?; let v ← v.toNat?; let s ← s.toNat?; pure (.udataAt o v s)
  | ["ul", v] => do let v ← v.toNat?; pure (.uleb v)
  | ["sl", v] => do let v ← parseInt? v; pure (.sleb v)
  | ["ac", v, s] => do let v ← v.toNat?; let s ← s.toNat?; pure (.address (.const v) s)
  | ["as", y, a, s] => do
      let y ← y.toNat?; let a ← parseInt? a; let s ← s.toNat?; pure (.address (.sym y a) s)
  | ["of", v, c, s] => do let v ← v.toNat?; let c ← c.toNat?; let s ← s.toNat?; pure (.offset v c s)
  | ["ofat", o, v, c, s] => do
      let o ← o.toNat?; let v ← v.toNat?; let c ← c.toNat?; let s ← s.toNat?
      pure (.offsetAt o v c s)
  | ["ec", v, p, s] => do
      let v ← v.toNat?; let p ← p.toNat?; let s ← s.toNat?; pure (.ehPointer (.const v) p s)
  | ["es", y, a, p, s] => do
      let y ← y.toNat?; let a ← parseInt? a; let p ← p.toNat?; let s ← s.toNat?
      pure (.ehPointer (.sym y a) p s)
  | _ => none

def renderReloc (r : Reloc) : String :=
  toString r.off ++ "/" ++ toString r.size ++ "/" ++
  (match r.target with | .symbol n => "S" ++ toString n | .sect n => "X" ++ toString n) ++ "/" ++
  toString r.addend ++ "/" ++ (match r.ehPe with | none => "-" | some p => toString p)

def renderOutBytes : Out Bytes → String
  | .ok b => toHex b
  | .err e => "E:" ++ e.name
  | .panic _ => "P"
  | .diverge => "D"

def parseRRel (tok : String) : Option RRel :=
  match tok.splitOn "/" with
  | [o, s, a] => do let o ← o.toNat?; let s ← s.toNat?; let a ← parseInt? a; pure ⟨o, s, a⟩
  | _ => none

def parseRRels (s : String) : Option (List RRel) :=
  if s == "-" then some [] else (s.splitOn ";").mapM parseRRel

def primOfOp : Op → Option Prim
  | .slice i n => some (.readSlice i n)
  | .skip i n => some (.skip i n)
  | .split i n => some (.split i n)
  | .trunc i n => some (.trunc i n)
  | .empty i => some (.empty i)
  | .find i b => some (.find i b)
  | .clone i => some (.clone i)
  | .drop i => some (.drop i)
  | .offFrom i j => some (.offFrom i j)
  | .offId i => some (.offId i)
  | .lookup i k => some (.lookup i k)
  | .len i => some (.len i)
  | .toSlice i => some (.toSlice i)
  | .toStr i => some (.toStr i)
  | .toLossy i => some (.toLossy i)
  | .addr i n => some (.addr i n)
  | .offset i f => some (.offset i f)
  | .sizedOff i n => some (.sizedOff i n)
  | _ => none

def renderRun (r : Out (List Obs)) : String :=
  match r with
  | .ok t => C10.renderTrace t
  | .err e => "E:" ++ e.name
  | .panic _ => "P"
  | .diverge => "D"

def handle (op : String) (args : List String) : Option String :=
  match op, args with
  | "rw-calls", e :: syms :: secs :: calls => do
    let e ← endian? e; let syms ← natList syms; let secs ← natList secs
    let calls ← calls.mapM parseCall
    let env := envOf syms secs
    let rec_ := runR e ([], []) calls
    let direct := runD env e [] calls
    let nc := decide (NoClobber e ([], []) calls)
    let (r, a) := match rec_ with
      | .ok (b, rs) =>
        (toHex b ++ ":" ++ (if rs.isEmpty then "-" else ";".intercalate (rs.map renderReloc)),
         renderOutBytes (applyW env e rs b))
      | .err x => ("E:" ++ x.name, "-")
      | .panic _ => ("P", "-")
      | .diverge => ("D", "-")
    pure ("ok R:" ++ r ++ " D:" ++ renderOutBytes direct ++ " A:" ++ a ++ " nc:" ++ (if nc then "1" else "0"))
  | "rr-hist", m :: e :: h :: rels :: ops => do
    let m ← mode? m; let e ← endian? e; let sec ← parseHex h; let ρ ← parseRRels rels
    let ops ← ops.mapM C10.parseOp
    let prims ← ops.mapM primOfOp
    let P := Prog.ofList prims []
    let st0 := St.init (RCur.new (Cur.ofSec sec))
    let r := run (relocImpl sharedImpl (relOf ρ)) m e Utf8.valid Utf8.lossy P st0
    let c := separated ρ && compat ρ m e Utf8.valid Utf8.lossy P st0
    let applied := applyR e ρ sec
    let p := match applied with
      | .ok sec' => renderRun (run sharedImpl m e Utf8.valid Utf8.lossy P (St.init (Cur.ofSec sec')))
      | .err x => "A:" ++ x.name
      | _ => "A:?"
    pure ("ok R:" ++ renderRun r ++ " P:" ++ p ++ " c:" ++ (if c && applied.isOk then "1" else "0"))
  | "rl-dwarf", _ => some "normal"
  | _, _ => none

end Gimli.Drv.C18
