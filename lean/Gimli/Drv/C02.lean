import Gimli.Drv.Util
import Gimli.Model.Die
/-! Line-protocol operations for C02 (DIE forest, unit headers, abbreviation lookup).
`harness/src/prop/c02.rs` answers the same lines from the real crate.

* `die-hdr <endian> <info|types> <section hex> …` → `ok <header>;… <ok|ErrName>`: every unit header
  of the section (`off,len,fmt,ver,asz,abbr,type,hsz,soh,ebuf`)
* `die-nav <style> <endian> <info|types[@k]> <abbrev hex> <section hex> <start|-> …`
  → `ok <off:depth:tag:children>;… <ok|ErrName>`: the first (or, with `@k`, the k-th) unit of the section listed by one
  navigation style (`raw`, `rawskip`, `entry`, `dfs`, `sib`, `tree`, `treeskip`), from the root or from a unit offset
* `die-at <endian> <info|types> <abbrev hex> <section hex> <off,off,…> …`
  → `ok <entry>|<first dfs>|<tree root>;…` for every offset
* `abbrev-get <abbrev hex> <offset> <code,code,…>` → `ok <code>=<tag:children:name/form/implicit+…|->;…`
Trailing tokens (`exp=…`) carry the generator's abstract forest for the Rust-side oracle.
-/
namespace Gimli.Drv.C02
open Gimli Gimli.Drv Gimli.Attr Gimli.Abbrev Gimli.Die

def sect? : String → Option Sect
  | "info" => some .debugInfo
  | "types" => some .debugTypes
  | _ => none

def endS {α} : Out α → String
  | .ok _ => "ok"
  | .err e => e.name
  | .panic _ => "panic"
  | .diverge => "diverge"

def joinS (xs : List String) : String := if xs.isEmpty then "-" else ";".intercalate xs

def utS : UnitType → String
  | .compilation => "C"
  | .typeUnit s o => "T:" ++ toString s ++ ":" ++ toString o
  | .partialUnit => "P"
  | .skeleton i => "S:" ++ toString i
  | .splitCompilation i => "SC:" ++ toString i
  | .splitType s o => "ST:" ++ toString s ++ ":" ++ toString o

def hdrS (h : UnitHeader) : String :=
  "off=" ++ toString h.unitOffset ++ ",len=" ++ toString h.unitLength ++ ",fmt=" ++ Format.str h.enc.format
    ++ ",ver=" ++ toString h.enc.version ++ ",asz=" ++ toString h.enc.addressSize
    ++ ",abbr=" ++ toString h.abbrevOffset ++ ",type=" ++ utS h.unitType
    ++ ",hsz=" ++ toString h.headerSize ++ ",soh=" ++ toString h.sizeOfHeader
    ++ ",ebuf=" ++ toString h.entriesBuf.length

def itemS (e : Entry) : String :=
  toString e.offset ++ ":" ++ toString e.depth ++ ":" ++ toString e.tag ++ ":" ++ (if e.hasChildren then "1" else "0")

def traceS (t : Trace) : String := "ok " ++ joinS (t.1.map itemS) ++ " " ++ endS t.2

/-- `info` / `types`, optionally `@k`: the k-th (0-based) unit of the section -/
def sectK? (s : String) : Option (Sect × Nat) :=
  match s.splitOn "@" with
  | [a] => (sect? a).map (·, 0)
  | [a, k] => do let x ← sect? a; let k ← k.toNat?; pure (x, k)
  | _ => none

/-- the `units()` iteration up to the k-th header (its `unitOffset` is its section offset) -/
def nthHeader (e : Endian) (s : Sect) : Nat → Nat → Bytes → Out UnitHeader
  | 0, off, bs => do let (h, _) ← parseUnitHeader e s off bs; pure h
  | k + 1, off, bs => do
    let (_, after) ← parseUnitHeader e s off bs
    nthHeader e s k (off + (bs.length - after.length)) after

/-- header of the k-th unit, its abbreviations -/
def setupN (e : Endian) (s : Sect) (k : Nat) (abb sec : Bytes) : Out (UnitHeader × Ctx) := do
  let h ← nthHeader e s k 0 sec
  let abbrevs ← abbreviationsAt abb h.abbrevOffset
  pure (h, { enc := h.enc, abbrevs := abbrevs })

/-- header of the first unit, its abbreviations -/
def setup (e : Endian) (s : Sect) (abb sec : Bytes) : Out (UnitHeader × Ctx) := setupN e s 0 abb sec

def specS (s : Spec) : String :=
  toString s.name ++ "/" ++ toString s.form.code ++ "/" ++ toString s.implicitConst

def abbrevS (a : Abbreviation) : String :=
  toString a.tag ++ ":" ++ (if a.hasChildren then "1" else "0") ++ ":"
    ++ (if a.attrs.isEmpty then "-" else "+".intercalate (a.attrs.map specS))

def outS {α} (f : α → String) : Out α → String
  | .ok a => f a
  | .err e => e.name
  | .panic _ => "panic"
  | .diverge => "diverge"

def handle (op : String) (args : List String) : Option String :=
  match op, args with
  | "die-hdr", e :: s :: h :: _ => do
    let e ← endian? e; let s ← sect? s; let sec ← parseHex h
    let r := unitHeaders e s (sec.length + 1) 0 sec
    pure ("ok " ++ joinS (r.1.map hdrS) ++ " " ++ endS r.2)
  | "die-nav", style :: e :: s :: ah :: h :: start :: _ => do
    let e ← endian? e; let (s, k) ← sectK? s; let abb ← parseHex ah; let sec ← parseHex h
    let start ← if start == "-" then some none else start.toNat?.map some
    let r : Out String := do
      let (hd, ctx) ← setupN e s k abb sec
      let off := start.getD hd.rootOffset
      let fuel := sec.length + 2
      match style with
      | "raw" => do let r ← hd.entriesRaw off; pure (traceS (rawAll ctx fuel r))
      | "rawskip" => do let r ← hd.entriesRaw off; pure (traceS (rawSkipAll ctx fuel r))
      | "entry" => do
        let c ← (match start with | none => pure hd.entries | some o => hd.entriesAt o)
        pure (traceS (entryAll ctx fuel c))
      | "dfs" => do
        let c ← (match start with | none => pure hd.entries | some o => hd.entriesAt o)
        pure (traceS (dfsAll ctx fuel c))
      | "sib" => do
        let c ← (match start with | none => pure hd.entries | some o => hd.entriesAt o)
        pure (traceS (siblingAll ctx fuel c))
      | "tree" => do let t ← hd.entriesTree off; pure (traceS (treeAll ctx fuel t))
      | "treeskip" => do let t ← hd.entriesTree off; pure (traceS (treeSkipAll ctx fuel t))
      | _ => pure "bad-style"
    pure (match r with
      | .ok s => s
      | .err e => "err " ++ e.name
      | .panic w => "panic " ++ w
      | .diverge => "diverge")
  | "die-at", e :: s :: ah :: h :: offs :: _ => do
    let e ← endian? e; let (s, k) ← sectK? s; let abb ← parseHex ah; let sec ← parseHex h
    let offs ← if offs == "-" then some [] else (offs.splitOn ",").mapM String.toNat?
    let r : Out String := do
      let (hd, ctx) ← setupN e s k abb sec
      let one (o : Nat) : String :=
        let a := outS itemS (hd.entry ctx o)
        let b := outS (fun (x : Option Entry × Cursor) => match x.1 with | some en => itemS en | none => "none")
          (do let c ← hd.entriesAt o; Cursor.nextDfs ctx (c.raw.input.length + 1) c)
        let c := outS (fun (t : Tree) => itemS t.entry) (do let t ← hd.entriesTree o; t.rootNode ctx)
        a ++ "|" ++ b ++ "|" ++ c
      pure ("ok " ++ joinS (offs.map one))
    pure (match r with
      | .ok s => s
      | .err e => "err " ++ e.name
      | .panic w => "panic " ++ w
      | .diverge => "diverge")
  | "abbrev-get", ah :: off :: codes :: _ => do
    let abb ← parseHex ah; let off ← off.toNat?
    let codes ← if codes == "-" then some [] else (codes.splitOn ",").mapM String.toNat?
    pure ((abbreviationsAt abb off).render fun t =>
      joinS (codes.map fun c => toString c ++ "=" ++ (match t.get c with | some a => abbrevS a | none => "-")))
  | _, _ => none

end Gimli.Drv.C02
