import Gimli.Drv.Util
/-!
C20 requests (`c20-ctx`, `c20-entry`, `c20-tree`, `c20-clone`, `c20-cache`, `c20-recache`, `c20-line`): each describes a
history run on reused state and on fresh state by the implementation side. The Model's answer is
`ok same`: reused state behaves like fresh state — the statement of the theorems in
`Props/C20.lean`.
-/
namespace Gimli.Drv.C20

def handle (op : String) (_args : List String) : Option String :=
  if op == "c20-ctx" || op == "c20-entry" || op == "c20-tree" || op == "c20-clone" || op == "c20-cache" || op == "c20-recache" || op == "c20-line"
  then some "ok same" else none

end Gimli.Drv.C20
