import Gimli.Drv.Util
import Gimli.Model.Filter
/-!
Line-protocol operations for C19 (filtered conversion). `harness/src/prop/c19.rs` answers the same
lines from the real crate.

`flt-conv <mode> <version> <format> <address_size> <nunits> <entries> <required>`

* `<entries>`: `;`-separated `id,unit,parent,tag,decl,attrs` (`-` = none). Ids are `0..n-1` in DFS
  pre-order, the entries of a unit are contiguous, `parent` is an id of the same unit or `-` (child
  of the unit's root), `tag` is the numeric `DW_TAG`, `decl` says whether `DW_AT_declaration` is present.
* `attrs`: `|`-separated (`-` = none):
  `r<T>` `DW_FORM_ref4/8` attribute, `g<T>` `DW_FORM_ref_addr` attribute, `x<ops>` expression
  attribute, `l<locs>` location-list attribute with `/`-separated raw entries `<k><ops>`, `k` =
  `n` (begin < end, yielded by `LocListIter`) | `z` (begin = end) | `i` (begin > end) | `t` (tombstone begin);
  the three kinds the cooked iterator skips are regression inputs for fix 34014b9.
* `<ops>`: `.`-separated operations: `n` (no reference), `c<T>` `DW_OP_call4`, `C<T>` `DW_OP_call_ref`,
  `t<T>` a typed operation (`deref_type`, `regval_type`, `const_type`, `convert`, `reinterpret` by
  target id mod 5), `p<T>` `DW_OP_GNU_parameter_ref`, `i<T>` `DW_OP_implicit_pointer`,
  `v<T>` `DW_OP_GNU_variable_value`, `e<op>` the operation nested in a `DW_OP_entry_value`,
  `E<k>_<op>` the operation nested in `k` `DW_OP_entry_value`s (`e<op>` = `E1_<op>`).
* `<T>`: an entry id, `R<unit>` (the root DIE of that unit), `O` (out of bounds of the unit / the
  section), `M<id>` (one byte into the DIE `id`).
* `<required>`: `,`-separated ids passed to `require_entry` (`-` = none).
* optional 8th argument `<roots>`: `;`-separated `unit=attrs`, reference attributes on the root DIE
  of that unit (same attribute grammar).

The Model lays the forest out at synthetic offsets (unit header 11 bytes, root DIE 4 bytes, every
other DIE 8 bytes): only the order of offsets, the unit bounds and "is this the start of a DIE"
matter to the code under test.

`flt-split …` (same arguments, `nunits` ≥ 1): the forest is the split `.debug_info` section of a skeleton
unit (the first unit is the split compilation unit, further units may follow); it is
filtered with `FilterUnitSection::new_split` and converted with `convert_split_with_filter`.

Reply: `ok <unit>/<unit>/…` with `<unit>` = `,`-separated `id^parent` (parent id or `R`) of the
entries present in the converted unit (`-` if none), or `err C.<ConvertError>`.
-/
namespace Gimli.Drv.C19
open Gimli Gimli.Drv Gimli.Filter

structure REntry where
  id : Nat
  unit : Nat
  parent : Option Nat
  tag : Nat
  decl : Bool
  attrs : String

def natOf (cs : List Char) : Option Nat := (String.ofList cs).toNat?

inductive Tgt where
  | ent (id : Nat)
  | root (u : Nat)
  | oob
  | mid (id : Nat)

def parseTgt : List Char → Option Tgt
  | ['O'] => some .oob
  | 'R' :: r => (natOf r).map .root
  | 'M' :: r => (natOf r).map .mid
  | r => (natOf r).map .ent

structure Layout where
  hdr : Nat := 11
  rootSize : Nat := 4
  dieSize : Nat := 8
  /-- per unit: base offset and number of entries -/
  units : List (Nat × Nat)
  /-- per entry id: (unit, index within the unit) -/
  ents : List (Nat × Nat)

namespace Layout
def unitHdr (l : Layout) (u : Nat) : Option UnitHdr :=
  (l.units[u]?).map fun (b, n) => ⟨b, l.hdr, l.rootSize + l.dieSize * n⟩
def relOff (l : Layout) (id : Nat) : Option (Nat × Nat) :=
  (l.ents[id]?).map fun (u, j) => (u, l.hdr + l.rootSize + l.dieSize * j)
def secEnd (l : Layout) : Nat :=
  match l.units.getLast? with
  | some (b, n) => b + l.hdr + l.rootSize + l.dieSize * n
  | none => 0
/-- unit-relative value of a reference written in unit `u` -/
def unitVal (l : Layout) (u : Nat) : Tgt → Option Nat
  | .ent id => do let (u', r) ← l.relOff id; if u' = u then some r else none
  | .root u' => if u' = u then some l.hdr else none
  | .oob => do let h ← l.unitHdr u; some (h.hdr + h.len + 256)
  | .mid id => do let (u', r) ← l.relOff id; if u' = u then some (r + 1) else none
/-- section offset of a `.debug_info` reference -/
def secVal (l : Layout) : Tgt → Option Nat
  | .ent id => do let (u, r) ← l.relOff id; let h ← l.unitHdr u; some (h.base + r)
  | .root u => do let h ← l.unitHdr u; some (h.base + h.hdr)
  | .oob => some (l.secEnd + 256)
  | .mid id => do let (u, r) ← l.relOff id; let h ← l.unitHdr u; some (h.base + r + 1)
end Layout

/-- the operation inside `depth` nested `DW_OP_entry_value`s -/
def parseNested (l : Layout) (u : Nat) (depth : Nat) : List Char → Option (Option OpRef)
  | ['n'] => some (some (.nestedPlain depth))
  | 'c' :: t | 't' :: t | 'p' :: t => do
      let v ← l.unitVal u (← parseTgt t); some (some (.nestedUnitRef depth v))
  | 'C' :: t | 'i' :: t | 'v' :: t => do
      let v ← l.secVal (← parseTgt t); some (some (.nestedInfoRef depth v))
  | _ => none

/-- one operation: `none` inside = no reference -/
def parseOp (l : Layout) (u : Nat) : List Char → Option (Option OpRef)
  | ['n'] => some none
  | 'c' :: t | 't' :: t | 'p' :: t => do let v ← l.unitVal u (← parseTgt t); some (some (.unitRef v))
  | 'C' :: t => do let v ← l.secVal (← parseTgt t); some (some (.infoRef v))
  | 'i' :: t | 'v' :: t => do let v ← l.secVal (← parseTgt t); some (some (.implicitRef v))
  | 'e' :: r => parseNested l u 1 r
  | 'E' :: r =>
    -- `E<k>_<op>`: the operation nested in k `DW_OP_entry_value`s
    match (String.ofList r).splitOn "_" with
    | [k, op] => do let k ← k.toNat?; if k = 0 || k > 512 then none else parseNested l u k op.toList
    | _ => none
  | _ => none

def parseOps (l : Layout) (u : Nat) (s : String) : Option (List OpRef) :=
  if s.isEmpty then some [] else do
    let ops ← (s.splitOn ".").mapM (fun o => parseOp l u o.toList)
    some (ops.filterMap id)

def parseLoc (l : Layout) (u : Nat) (s : String) : Option (Bool × List OpRef) :=
  match s.toList with
  | k :: r => do
    -- the flag: does the converted list keep the entry (only an empty range is dropped)?
    let vis ← (match k with | 'n' | 'i' | 't' => some true | 'z' => some false | _ => none)
    let ops ← parseOps l u (String.ofList r)
    some (vis, ops)
  | [] => none

def parseAttr (l : Layout) (u : Nat) (s : String) : Option AttrRef :=
  match s.toList with
  | 'r' :: t => do let v ← l.unitVal u (← parseTgt t); some (.unitRef v)
  | 'g' :: t => do let v ← l.secVal (← parseTgt t); some (.infoRef v)
  | 'x' :: r => (parseOps l u (String.ofList r)).map .expr
  | 'l' :: r => ((String.ofList r).splitOn "/").mapM (parseLoc l u) |>.map .loclist
  | _ => none

def parseAttrs (l : Layout) (u : Nat) (s : String) : Option (List AttrRef) :=
  if s == "-" then some [] else (s.splitOn "|").mapM (parseAttr l u)

def parseREntry (s : String) : Option REntry :=
  match s.splitOn "," with
  | [id, unit, parent, tag, decl, attrs] => do
    let id ← id.toNat?; let unit ← unit.toNat?; let tag ← tag.toNat?
    let parent ← (if parent == "-" then some none else parent.toNat?.map some)
    let decl ← (match decl with | "0" => some false | "1" => some true | _ => none)
    some ⟨id, unit, parent, tag, decl, attrs⟩
  | _ => none

def parseIds (s : String) : Option (List Nat) :=
  if s == "-" then some [] else (s.splitOn ",").mapM (·.toNat?)

/-- depth below the unit root (children of the root have depth 1); fuel = number of entries -/
def depthOf (es : List REntry) : Nat → Nat → Nat
  | 0, _ => 1
  | fuel + 1, id =>
    match es[id]? with
    | some e => (match e.parent with | some p => depthOf es fuel p + 1 | none => 1)
    | none => 1

structure Forest where
  layout : Layout
  units : List (UnitHdr × List Entry)
  rootAttrs : List (List AttrRef)
  /-- entry id of a section offset -/
  idOf : List (Nat × Nat)

def build (nunits : Nat) (res : List REntry) (req : List Nat) (roots : String := "-") : Option Forest := do
  -- ids must be 0..n-1 in order, units non-decreasing, parents earlier and in the same unit
  let n := res.length
  if !(res.zipIdx.all fun (e, i) => e.id == i && decide (e.unit < nunits)
        && (match e.parent with | some p => decide (p < i) && (res[p]?.map (·.unit)) == some e.unit | none => true)) then none
  if !((res.zip (res.drop 1)).all fun (a, b) => decide (a.unit ≤ b.unit)) then none
  if !(req.all (· < n)) then none
  let counts := (List.range nunits).map fun u => (res.filter (·.unit == u)).length
  let bases := (List.range nunits).map fun u =>
    ((List.range u).map fun v => 11 + 4 + 8 * counts[v]!).foldl (· + ·) 0
  let firstIdx := (List.range nunits).map fun u => (res.filter (decide <| ·.unit < u)).length
  let layout : Layout := {
    units := bases.zip counts,
    ents := res.map fun e => (e.unit, e.id - firstIdx[e.unit]!) }
  let units ← (List.range nunits).mapM fun u => do
    let h ← layout.unitHdr u
    let es ← (res.filter (·.unit == u)).mapM fun e => do
      let attrs ← parseAttrs layout u e.attrs
      let (_, rel) ← layout.relOff e.id
      some ({ off := rel, depth := (depthOf res n e.id : Nat), hasChildren := res.any (·.parent == some e.id),
              tag := e.tag, hasDecl := e.decl, attrs := attrs,
              required := req.contains e.id } : Entry)
    some (h, es)
  let idOf ← res.mapM fun e => do let v ← layout.secVal (.ent e.id); some (v, e.id)
  -- `u=attrs;u=attrs`: reference attributes of unit root DIEs
  let rootSpecs ← (if roots == "-" then some [] else (roots.splitOn ";").mapM fun s =>
    match s.splitOn "=" with
    | [u, attrs] => do let u ← u.toNat?; if u < nunits then some (u, attrs) else none
    | _ => none)
  let rootAttrs ← (List.range nunits).mapM fun u =>
    match rootSpecs.lookup u with
    | some attrs => parseAttrs layout u attrs
    | none => some []
  some ⟨layout, units, rootAttrs, idOf⟩

def renderUnit (f : Forest) (es : List (Off × Option Off)) : String :=
  if es.isEmpty then "-" else
  ",".intercalate (es.map fun (o, p) =>
    let idS (x : Off) : String := match f.idOf.lookup x with | some i => toString i | none => "R"
    idS o ++ "^" ++ (match p with | some p => idS p | none => "R"))

def render (f : Forest) : Outcome → String
  | .converted _ us => "ok " ++ "/".intercalate (us.map (renderUnit f))
  | .convErr e => "err " ++ e.name
  | .writeErr => "err W.InvalidReference"
  | .panic w => "panic " ++ w
  | .diverge => "diverge"

/-- guards shared with the Rust side (neighbourhood searches substitute boundary numbers) -/
def okParams (ver asz nunits : Nat) (entries : String) : Bool :=
  decide (2 ≤ ver) && decide (ver ≤ 5) && (asz == 1 || asz == 2 || asz == 4 || asz == 8) &&
    decide (nunits ≤ 64) && decide (entries.utf8ByteSize ≤ 65536)

def handle (op : String) (args : List String) : Option String :=
  match op, args with
  | "flt-conv", [mode, ver, fmt, asz, nunits, entries, required] => do
    let m ← mode? mode
    let ver ← ver.toNat?; let _ ← format? fmt; let asz ← asz.toNat?
    let nunits ← nunits.toNat?
    if !okParams ver asz nunits entries then none
    let res ← (if entries == "-" then some [] else (entries.splitOn ";").mapM parseREntry)
    let req ← parseIds required
    let f ← build nunits res req
    pure (render f (run m f.units))
  | "flt-conv", [mode, ver, fmt, asz, nunits, entries, required, roots] => do
    let m ← mode? mode
    let ver ← ver.toNat?; let _ ← format? fmt; let asz ← asz.toNat?
    let nunits ← nunits.toNat?
    if !okParams ver asz nunits entries then none
    let res ← (if entries == "-" then some [] else (entries.splitOn ";").mapM parseREntry)
    let req ← parseIds required
    let f ← build nunits res req roots
    pure (render f (run m f.units f.rootAttrs))
  | "flt-split", [mode, ver, fmt, asz, nunits, entries, required] => do
    let m ← mode? mode
    let ver ← ver.toNat?; let _ ← format? fmt; let asz ← asz.toNat?
    let nunits ← nunits.toNat?
    if !okParams ver asz nunits entries then none
    if nunits == 0 then none
    let res ← (if entries == "-" then some [] else (entries.splitOn ";").mapM parseREntry)
    let req ← parseIds required
    let f ← build nunits res req
    pure (render f (runSplit m f.units))
  | _, _ => none

end Gimli.Drv.C19
