import Gimli.Drv.Util
import Gimli.Model.WCfi
import Gimli.Spec.WCfi
/-!
Line-protocol operations for C14 (written frame tables).  `harness/src/prop/c14.rs` answers the
same lines by building the table through `gimli::write::{FrameTable, CommonInformationEntry,
FrameDescriptionEntry}`, writing it with `write_debug_frame` / `write_eh_frame` into an
`EndianVec`, and (direct oracle, Rust side only) reading the bytes back.

```
wcfi-table <mode> <df|eh> <le|be> <cies> <fdes>
  cies  = `-` | cie;cie;…        one per `add_cie` call, in call order (duplicates allowed)
  cie   = fmt,ver,asz,caf,daf,ra,pers,lsda,fdeenc,sig,instrs
          fmt 32|64; pers `-` | enc:addr; lsda `-` | enc; sig 0|1; addr = decimal u64 | `s` (symbol)
  instrs = `-` | instr/instr/…
  instr = cfa:r:o | cfar:r | cfao:o | cfae:hex | rst:r | und:r | same:r | off:r:o | voff:r:o |
          reg:r:r | expr:r:hex | vexpr:r:hex | rem | res | args:n | neg
  fdes  = `-` | fde;fde;…        one per `add_fde` call
  fde   = k,addr,len,lsda,finstrs     k = which `add_cie` call returned the id that is used
  finstrs = `-` | off@instr/off@instr/…
reply:  ok <section hex> ids=<dense id of every add_cie call> n=<cie_count>  |  err <W.Name>  |  panic …
wcfi-rows <mode> <df|eh> <le|be> <cies> <fdes>
  same request format as wcfi-table.  Model side: the table is written (Model); on success the reply
  is, per FDE, the rows of the **Spec** `Spec.WCfi.wTable` — the meaning of the instructions
  supplied at their code offsets — and the error that ends them, if any.  Implementation side: the
  rows gimli reads back (`UnwindTable` over the written bytes).  `ok skip` on both sides when the
  request is outside the read-back domain (see `readable`).
wcfi-blk-adv <mode> <df|eh> <le|be> <fmt> <ver> <asz> <caf> <prev> <lo> <count>
  digest over the tables with one instruction at `prev` (if `prev` > 0) and one at every
  offset lo ≤ off < lo+count
wcfi-blk-off <mode> <df|eh> <le|be> <asz> <daf> <kind> <reg> <lo> <count>
  digest over the tables with the single CIE instruction `kind` (cfa|cfao|off|voff) for every
  offset lo ≤ o < lo+count
```
-/
namespace Gimli.Drv.C14
open Gimli Gimli.Drv Gimli.WCfi

def split (s : String) (sep : String) : List String :=
  if s == "-" then [] else s.splitOn sep

def reg? (s : String) : Option Reg := do
  let n ← s.toNat?
  if n < 65536 then some (UInt16.ofNat n) else none

def addr? (s : String) : Option Addr :=
  if s == "s" then some .symbol else s.toNat?.map Addr.const

def instr? (s : String) : Option WInstr :=
  match s.splitOn ":" with
  | ["cfa", r, o] => do pure (.cfa (← reg? r) (← parseInt? o))
  | ["cfar", r] => do pure (.cfaRegister (← reg? r))
  | ["cfao", o] => do pure (.cfaOffset (← parseInt? o))
  | ["cfae", h] => do pure (.cfaExpression (← parseHex h))
  | ["rst", r] => do pure (.restore (← reg? r))
  | ["und", r] => do pure (.undefined (← reg? r))
  | ["same", r] => do pure (.sameValue (← reg? r))
  | ["off", r, o] => do pure (.offset (← reg? r) (← parseInt? o))
  | ["voff", r, o] => do pure (.valOffset (← reg? r) (← parseInt? o))
  | ["reg", a, b] => do pure (.register (← reg? a) (← reg? b))
  | ["expr", r, h] => do pure (.expression (← reg? r) (← parseHex h))
  | ["vexpr", r, h] => do pure (.valExpression (← reg? r) (← parseHex h))
  | ["rem"] => some .rememberState
  | ["res"] => some .restoreState
  | ["args", n] => do pure (.argsSize (← n.toNat?))
  | ["neg"] => some .negateRaState
  | _ => none

def optNat? (s : String) : Option (Option Nat) :=
  if s == "-" then some none else s.toNat?.map some

def cie? (s : String) : Option WCie :=
  match s.splitOn "," with
  | [fmt, ver, asz, caf, daf, ra, pers, lsda, fdeenc, sig, instrs] => do
    let personality ← if pers == "-" then some none else
      match pers.splitOn ":" with
      | [enc, a] => do pure (some ((← enc.toNat?), (← addr? a)))
      | _ => none
    pure {
      format := ← format? fmt
      version := ← ver.toNat?
      addressSize := ← asz.toNat?
      codeAlign := ← caf.toNat?
      dataAlign := ← parseInt? daf
      raReg := ← reg? ra
      personality := personality
      lsdaEncoding := ← optNat? lsda
      fdeAddressEncoding := ← fdeenc.toNat?
      signalTrampoline := sig == "1"
      instructions := ← (split instrs "/").mapM instr? }
  | _ => none

def finstr? (s : String) : Option (Nat × WInstr) :=
  match s.splitOn "@" with
  | [o, i] => do pure ((← o.toNat?), (← instr? i))
  | _ => none

/-- an FDE as the harness builds it: `FrameDescriptionEntry::new`, `lsda = …`, then
`add_instruction` for each pair (where the debug assertion on the order lives) -/
def fde? (m : Mode) (s : String) : Option (Nat × Out WFde) :=
  match s.splitOn "," with
  | [k, a, len, lsda, instrs] => do
    let lsda ← if lsda == "-" then some none else (addr? lsda).map some
    let is ← (split instrs "/").mapM finstr?
    let f0 : WFde := { address := ← addr? a, length := ← len.toNat?, lsda := lsda }
    let f := is.foldl (fun (acc : Out WFde) (oi : Nat × WInstr) => acc.bind (fun f => fdeAddInstruction m f oi.1 oi.2)) (.ok f0)
    pure ((← k.toNat?), f)
  | _ => none

def idsS (ids : List Nat) : String :=
  if ids.isEmpty then "-" else ",".intercalate (ids.map toString)

/-- build the table exactly as the harness does (all `add_cie` calls, then all `add_fde` calls),
write it, render the reply -/
def runTable (m : Mode) (eh : Bool) (e : Endian) (cies : List WCie) (fdes : List (Nat × Out WFde)) : String :=
  let (t, ids) := ({} : Table).addCies cies
  -- FDEs: construction (may hit the debug assertion) happens before `add_fde`
  let built : Out Table := fdes.foldl (fun (acc : Out Table) kf => acc.bind fun t =>
    kf.2.bind fun f =>
      match ids[kf.1]? with
      | some id => .ok (t.addFde id f)
      | none => .panic "bad cie call index") (.ok t)
  let r : Out Bytes := built.bind (tableWrite m e eh)
  r.render (fun bs => toHex bs ++ " ids=" ++ idsS ids ++ " n=" ++ toString t.cies.length)

/-! ### rows of the Spec (`wcfi-rows`) -/

def regsOf : WInstr → List WCfi.Reg
  | .cfa .. | .cfaRegister _ | .cfaOffset _ | .cfaExpression _ => []
  | .restore r | .undefined r | .sameValue r | .offset r _ | .valOffset r _ => [r]
  | .register r _ | .expression r _ | .valExpression r _ => [r]
  | .rememberState | .restoreState | .argsSize _ => []
  | .negateRaState => [34]

def ruleS : Gimli.Unwind.Rule → String
  | .undefined => "U"
  | .sameValue => "S"
  | .offset n => s!"O{n}"
  | .valOffset n => s!"V{n}"
  | .register r => s!"R{r.toNat}"
  | .expression e => s!"E{toHex e}"
  | .valExpression e => s!"X{toHex e}"
  | .architectural => "A"
  | .constant v => s!"C{v}"

def cfaS : Gimli.Unwind.CfaRule → String
  | .registerAndOffset r o => s!"ro:{r.toNat}:{o}"
  | .expression e => s!"ex:{toHex e}"

def insertSorted (x : Nat) : List Nat → List Nat
  | [] => [x]
  | y :: ys => if x < y then x :: y :: ys else if x = y then y :: ys else y :: insertSorted x ys

def rowS (support : List Nat) (r : Gimli.Spec.Unwind.TableRow) : String :=
  let rules := support.filterMap (fun k =>
    match r.rules.regs (UInt16.ofNat k) with
    | some v => some s!"{k}={ruleS v}"
    | none => none)
  let rs := if rules.isEmpty then "-" else ";".intercalate rules
  s!"{r.start},{r.end_},{cfaS r.rules.cfa},{r.rules.argsSize},{rs}"

/-- the read-back domain of `wcfi-rows`, decided from the request alone (the Rust side applies the
same test): address sizes 4/8, constant addresses that fit, LSDA iff the CIE has an encoding -/
def readable (cies : List WCie) (fdes : List (Nat × WFde)) : Bool :=
  fdes.all fun (k, f) =>
    match cies[k]? with
    | none => false
    | some c =>
      let fits : Addr → Bool := fun a => match a with
        | .const v => decide (v < 2 ^ (8 * c.addressSize))
        | .symbol => false
      (c.addressSize == 4 || c.addressSize == 8) && fits f.address &&
      (match f.lsda with | some a => fits a | none => true) &&
      (f.lsda.isSome == c.lsdaEncoding.isSome) &&
      (match c.personality with | some (_, a) => fits a | none => true)

def fdeRowsS (c : WCie) (f : WFde) : String :=
  match f.address with
  | .symbol => "-"
  | .const a =>
    let p : Gimli.Spec.Unwind.Params := { codeAlign := c.codeAlign, dataAlign := c.dataAlign, addressSize := c.addressSize }
    let support := ((c.instructions.flatMap regsOf) ++ (f.instructions.flatMap (fun oi => regsOf oi.2))).foldl
      (fun acc r => insertSorted r.toNat acc) []
    let r := Gimli.Spec.WCfi.wTable p c.instructions f.instructions a f.length
    let rows := r.1.map (rowS support)
    let rowsS := if rows.isEmpty then "-" else "|".intercalate rows
    match r.2 with
    | .ok _ => rowsS
    | .error e => rowsS ++ "!" ++ e.name

def sec? : String → Option Bool
  | "df" => some false
  | "eh" => some true
  | _ => none

def bytesWords (r : Out Bytes) : List UInt64 :=
  outWords (fun bs => bs.map (fun b => b.toNat.toUInt64)) r

def handle (op : String) (args : List String) : Option String :=
  match op, args with
  | "wcfi-table", [m, sec, en, cies, fdes] => do
    let m ← mode? m; let eh ← sec? sec; let e ← endian? en
    let cs ← (split cies ";").mapM cie?
    let fs ← (split fdes ";").mapM (fde? m)
    pure (runTable m eh e cs fs)
  | "wcfi-rows", [m, sec, en, cies, fdes] => do
    let m ← mode? m; let eh ← sec? sec; let e ← endian? en
    let cs ← (split cies ";").mapM cie?
    let fs ← (split fdes ";").mapM (fde? m)
    -- build as the harness does
    let (t, ids) := ({} : Table).addCies cs
    let built : Out (Table × List (Nat × WFde)) := fs.foldl (fun (acc : Out (Table × List (Nat × WFde))) kf =>
      acc.bind fun (t, l) => kf.2.bind fun f =>
        match ids[kf.1]? with
        | some id => .ok (t.addFde id f, l ++ [(kf.1, f)])
        | none => .panic "bad cie call index") (.ok (t, []))
    let r : Out (Bytes × List (Nat × WFde)) := built.bind fun (t, l) => (tableWrite m e eh t).map (fun bs => (bs, l))
    pure (r.render fun (_, l) =>
      if !readable cs l then "skip"
      else
        let per := l.map fun (k, f) => match cs[k]? with
          | some c => fdeRowsS c f
          | none => "-"
        if per.isEmpty then "-" else "&".intercalate per)
  | "wcfi-blk-adv", [m, sec, en, fmt, ver, asz, caf, prev, lo, count] => do
    let m ← mode? m; let eh ← sec? sec; let e ← endian? en
    let c : WCie := { format := ← format? fmt, version := ← ver.toNat?, addressSize := ← asz.toNat?,
                      codeAlign := ← caf.toNat?, dataAlign := -4, raReg := 16 }
    let prev ← prev.toNat?; let lo ← lo.toNat?; let count ← count.toNat?
    let t0 := (({} : Table).addCie c).1
    let h := (List.range count).foldl (fun (h : UInt64) k =>
      let off := lo + k
      let is := (if prev > 0 then [(prev, WInstr.rememberState)] else []) ++ [(off, WInstr.restoreState)]
      let f : WFde := { address := .const 0x1000, length := 0x10, instructions := is }
      (bytesWords (tableWrite m e eh (t0.addFde 0 f))).foldl digestStep h) digestInit
    pure ("digest " ++ toString h)
  | "wcfi-blk-off", [m, sec, en, asz, daf, kind, r, lo, count] => do
    let m ← mode? m; let eh ← sec? sec; let e ← endian? en
    let asz ← asz.toNat?; let daf ← parseInt? daf; let r ← reg? r
    let lo ← parseInt? lo; let count ← count.toNat?
    let mk : Int → Option WInstr := match kind with
      | "cfa" => fun o => some (.cfa r o)
      | "cfao" => fun o => some (.cfaOffset o)
      | "off" => fun o => some (.offset r o)
      | "voff" => fun o => some (.valOffset r o)
      | _ => fun _ => none
    let _ ← mk 0
    let h := (List.range count).foldl (fun (h : UInt64) (k : Nat) =>
      match mk (lo + (k : Int)) with
      | none => h
      | some i =>
        let c : WCie := { format := .dwarf32, version := 1, addressSize := asz, codeAlign := 1, dataAlign := daf,
                          raReg := 16, instructions := [i] }
        let t0 := (({} : Table).addCie c).1
        let f : WFde := { address := .const 0x1000, length := 0x10 }
        (bytesWords (tableWrite m e eh (t0.addFde 0 f))).foldl digestStep h) digestInit
    pure ("digest " ++ toString h)
  | _, _ => none

end Gimli.Drv.C14
