import Gimli.Drv.Util
import Gimli.Model.WUnit
/-!
Line-protocol operations for C11 (unit writer).  One op, `wunit`, carries a whole abstract
`write::Dwarf`: the string tables, and per unit its encoding and the sequence of API calls that
built it (`reserve`, `add_reserved`/`add`, `set_sibling`, `set`, `delete_child`).  This file replays
those calls on a mirror of `Unit.entries`, resolves the result to the Model's `Tree`, and runs
`Gimli.WUnit.writeDwarf`.  `harness/src/prop/c11.rs` replays the same calls on `gimli::write`.

```
wunit <variant> <le|be> S <n> <hex>*n L <n> <hex>*n U <n> <unit>*n
unit  := <version> <32|64> <address size> <lp> R <n> <rl>*n Q <n> <ll>*n <nops> <op>*nops
lp    := - | P<nfiles>@<offset> | E<nfiles>@<offset>     (program with / without a sequence)
rl    := <n> (<begin> <length>)*n        ll := <n> (<begin> <length> <hex expression>)*n
op    := R | A <id> <parent> <tag> <sibling 0|1> <nattrs> <attr>*  | E <id> <sibling 0|1> <nattrs> <attr>*
       | X <parent> <id>
attr  := <name> <kind> <payload…>
```
A reference to entry `k` of unit `u` first reserves ids of `u` up to `k` (that is how a
`UnitEntryId` is obtained before the entry exists).  Requests that the API cannot express (an id
added twice, a payload outside its Rust type, `DW_AT_sibling` passed to `set`, …) are answered
`bad-op` by both sides.
-/
namespace Gimli.Drv.C11
open Gimli Gimli.Drv Gimli.WUnit

/-- mirror of a `DebuggingInformationEntry` while the unit is being built -/
structure EntryB where
  tag : Nat := 0
  sibling : Bool := false
  attrs : List (Nat × AttrVal) := []
  children : List Nat := []
  added : Bool := false
  deriving Inhabited

structure UnitB where
  enc : Enc
  /-- `.debug_line` offset of the program, if the unit has one -/
  lineProgram : Option Nat
  /-- the program has instructions (`P`) -/
  lpRows : Bool := false
  nfiles : Nat := 0
  nrl : Nat := 0
  nll : Nat := 0
  entries : Array EntryB
  reserved : Nat

structure St where
  toks : List String
  units : Array UnitB
  /-- `StringId.index` returned by the k-th `strings.add` -/
  strIds : Array Nat
  lineStrIds : Array Nat

abbrev P := StateT St Option

def tok : P String := do
  let s ← get
  match s.toks with
  | [] => failure
  | t :: rest => set { s with toks := rest }; pure t

def nat : P Nat := do
  let t ← tok
  match t.toNat? with
  | some n => pure n
  | none => failure

def natLt (bound : Nat) : P Nat := do
  let n ← nat
  if n < bound then pure n else failure

def int64 : P Int := do
  let t ← tok
  match parseInt? t with
  | some i => if -(2 ^ 63 : Int) ≤ i ∧ i < 2 ^ 63 then pure i else failure
  | none => failure

def hexTok : P Bytes := do
  let t ← tok
  match parseHex t with
  | some b => pure b
  | none => failure

def expect (s : String) : P PUnit := do
  let t ← tok
  if t = s then pure () else failure

/-- `reserve()` on unit `u` until id `k` exists -/
def needId (u k : Nat) : P PUnit := do
  let s ← get
  match s.units[u]? with
  | none => failure
  | some ub =>
    if k < 1 <<< 20 then
      set { s with units := s.units.set! u { ub with reserved := max ub.reserved (k + 1) } }
    else failure

def repeatP {α} (n : Nat) (p : P α) : P (List α) := do
  let mut out : Array α := #[]
  for _ in [0:n] do
    out := out.push (← p)
  pure out.toList

def exprItem (u : Nat) : P ExprItem := do
  match ← tok with
  | "raw" => pure (.raw (← hexTok))
  | "conv" => do let id ← nat; needId u id; pure (.convert id)
  | "call" => do let id ← nat; needId u id; pure (.call id)
  | "callref" => do
    let u' ← nat; let id ← nat; needId u' id; pure (.callRef u' id)
  | _ => failure

def attrVal (u : Nat) : P AttrVal := do
  let k ← tok
  let cls (bound : Nat) : P AttrVal := do pure (.constClass (← natLt bound))
  match k with
  | "addr" => pure (.address (← natLt (2 ^ 64)))
  | "addrsym" => pure .addressSym
  | "block" => pure (.block (← hexTok))
  | "d1" => pure (.data1 (← natLt (2 ^ 8)))
  | "d2" => pure (.data2 (← natLt (2 ^ 16)))
  | "d4" => pure (.data4 (← natLt (2 ^ 32)))
  | "d8" => pure (.data8 (← natLt (2 ^ 64)))
  | "d16" => pure (.data16 (← natLt (2 ^ 128)))
  | "sdata" => pure (.sdata (← int64))
  | "udata" => pure (.udata (← natLt (2 ^ 64)))
  | "iconst" => pure (.implicitConst (← int64))
  | "expr" => do
    let n ← natLt 64
    pure (.exprloc (← repeatP n (exprItem u)))
  | "flag" => do let b ← natLt 2; pure (.flag (b = 1))
  | "flagp" => pure .flagPresent
  | "uref" => do let id ← nat; needId u id; pure (.unitRef id)
  | "iref" => do let u' ← nat; let id ← nat; needId u' id; pure (.debugInfoRef u' id)
  | "irefsym" => do let _ ← natLt (2 ^ 64); pure .debugInfoRefSym
  | "irefsup" => pure (.debugInfoRefSup (← natLt (2 ^ 64)))
  | "lpref" => pure .lineProgramRef
  | "loclist" => do
    let k ← nat
    match (← get).units[u]? with
    | some ub => if k < ub.nll then pure (.locationListRef (← natLt (2 ^ 64))) else failure
    | none => failure
  | "rnglist" => do
    let k ← nat
    match (← get).units[u]? with
    | some ub => if k < ub.nrl then pure (.rangeListRef (← natLt (2 ^ 64))) else failure
    | none => failure
  | "macinfo" => pure (.debugMacinfoRef (← natLt (2 ^ 64)))
  | "macro" => pure (.debugMacroRef (← natLt (2 ^ 64)))
  | "sig8" => pure (.debugTypesRef (← natLt (2 ^ 64)))
  | "strp" => do
    let k ← nat
    match (← get).strIds[k]? with
    | some i => pure (.stringRef i)
    | none => failure
  | "strpsup" => pure (.debugStrRefSup (← natLt (2 ^ 64)))
  | "lstrp" => do
    let k ← nat
    match (← get).lineStrIds[k]? with
    | some i => pure (.lineStringRef i)
    | none => failure
  | "str" => pure (.string (← hexTok))
  | "enc" | "dsign" | "endy" | "acc" | "vis" | "virt" | "idcase" | "cc" | "inl" | "ord" => cls (2 ^ 8)
  | "lang" => cls (2 ^ 16)
  | "aclass" => cls (2 ^ 64)
  | "file0" => pure (.fileIndex none)
  | "file" => do
    let k ← nat
    match (← get).units[u]? with
    | some ub => if ub.lineProgram.isSome ∧ k < ub.nfiles then pure (.fileIndex (some (k + 1))) else failure
    | none => failure
  | _ => failure

/-- `<nattrs> <attr>*`, applied with `DebuggingInformationEntry::set` -/
def attrList (u : Nat) (init : List (Nat × AttrVal)) : P (List (Nat × AttrVal)) := do
  let n ← natLt 256
  let mut attrs := init
  for _ in [0:n] do
    let name ← natLt (2 ^ 16)
    if name = DW_AT_sibling then failure
    let v ← attrVal u
    attrs := attrSet name v attrs
  pure attrs

def modUnit (u : Nat) (f : UnitB → Option UnitB) : P PUnit := do
  let s ← get
  match s.units[u]? with
  | none => failure
  | some ub =>
    match f ub with
    | some ub' => set { s with units := s.units.set! u ub' }
    | none => failure

def op (u : Nat) : P PUnit := do
  match ← tok with
  | "R" => modUnit u (fun ub => some { ub with reserved := ub.reserved + 1 })
  | "A" => do
    let id ← natLt (1 <<< 20); let parent ← nat; let tag ← natLt (2 ^ 16); let sib ← natLt 2
    -- `add_reserved(id, parent, tag)`
    needId u id
    modUnit u (fun ub =>
      if id = 0 ∨ parent ≥ ub.reserved then none else
      let entries := ub.entries ++ Array.replicate (ub.reserved - ub.entries.size) ({} : EntryB)
      let en := entries[id]!
      if en.added then none else
      let entries := entries.set! id { en with tag := tag, added := true }
      let pe := entries[parent]!
      let entries := entries.set! parent { pe with children := pe.children ++ [id] }
      some { ub with entries := entries })
    let attrs ← attrList u []
    modUnit u (fun ub =>
      let en := ub.entries[id]!
      some { ub with entries := ub.entries.set! id { en with sibling := sib = 1, attrs := attrs } })
  | "E" => do
    let id ← nat; let sib ← natLt 2
    let s ← get
    let cur ← (match s.units[u]? with
      | some ub => (match ub.entries[id]? with | some en => pure en.attrs | none => failure)
      | none => failure : P (List (Nat × AttrVal)))
    let attrs ← attrList u cur
    modUnit u (fun ub =>
      match ub.entries[id]? with
      | some en => some { ub with entries := ub.entries.set! id { en with sibling := sib = 1, attrs := attrs } }
      | none => none)
  | "X" => do
    let parent ← nat; let id ← nat
    modUnit u (fun ub =>
      if id ≥ ub.reserved then none else
      match ub.entries[parent]? with
      | some pe =>
        some { ub with entries := ub.entries.set! parent { pe with children := pe.children.filter (· ≠ id) } }
      | none => none)
  | _ => failure

def unitP (u : Nat) : P PUnit := do
  let version ← natLt (2 ^ 16)
  let fmt ← tok
  let format ← (match format? fmt with | some f => pure f | none => failure : P Format)
  let asz ← natLt (2 ^ 8)
  let lp ← tok
  let (lineProgram, lpRows, nfiles) ← (if lp = "-" then pure (none, false, 0) else
    match lp.toList with
    | c :: rest =>
      if c = 'P' ∨ c = 'E' then
        match (String.ofList rest).splitOn "@" with
        | [nf, off] =>
          match nf.toNat?, off.toNat? with
          | some nf, some off => if nf < 16 ∧ off < 2 ^ 64 then pure (some off, c = 'P', nf) else failure
          | _, _ => failure
        | _ => failure
      else failure
    | [] => failure : P (Option Nat × Bool × Nat))
  expect "R"
  let nrl ← natLt 16
  for _ in [0:nrl] do
    let n ← natLt 8
    for _ in [0:n] do
      let b ← natLt 100; let len ← natLt 100
      if b = 0 ∨ len = 0 then failure
  expect "Q"
  let nll ← natLt 16
  for _ in [0:nll] do
    let n ← natLt 8
    for _ in [0:n] do
      let b ← natLt 100; let len ← natLt 100
      if b = 0 ∨ len = 0 then failure
      let _ ← hexTok
  -- the line-program and list writers are opaque here: only encodings they cannot fail on
  if (lineProgram.isSome ∨ nrl > 0 ∨ nll > 0) ∧
      ¬ (2 ≤ version ∧ version ≤ 5 ∧ (asz = 1 ∨ asz = 2 ∨ asz = 4 ∨ asz = 8)) then failure
  modUnit u (fun ub => some { ub with enc := { version := version, format := format, addrSize := asz },
                                       lineProgram := lineProgram, lpRows := lpRows, nfiles := nfiles,
                                       nrl := nrl, nll := nll })
  let nops ← natLt 4096
  for _ in [0:nops] do
    op u
  -- `have_base_address` of the list writers is not modelled
  let s ← get
  match s.units[u]? with
  | some ub =>
    if (ub.nrl > 0 ∨ ub.nll > 0) ∧ (ub.entries[0]!).attrs.any (fun a => a.1 = 0x11) then failure
  | none => failure

def strTable : P (StrTab × Array Nat) := do
  let n ← natLt 4096
  let mut tab : StrTab := []
  let mut ids : Array Nat := #[]
  for _ in [0:n] do
    let s ← hexTok
    if s.contains 0 then failure
    let (i, tab') := strAdd tab s
    tab := tab'
    ids := ids.push i
  pure (tab, ids)

/-- resolve the `children` id lists into a `Tree` (fuel: an entry has one parent, so the depth is
below the number of entries) -/
partial def buildTree (entries : Array EntryB) (id : Nat) : Tree :=
  let en := entries[id]!
  .node id en.tag en.sibling en.attrs (Forest.ofList (en.children.map (buildTree entries)))

def request : P (Endian × StrTab × StrTab × List UnitIn) := do
  let _variant ← tok
  let e ← (do match endian? (← tok) with | some e => pure e | none => failure : P Endian)
  expect "S"
  let (strs, ids) ← strTable
  modify (fun s => { s with strIds := ids })
  expect "L"
  let (lstrs, lids) ← strTable
  modify (fun s => { s with lineStrIds := lids })
  expect "U"
  let n ← natLt 17
  let root : EntryB := { tag := 0x11, added := true }
  let ub0 : UnitB := { enc := default, lineProgram := none, entries := #[root], reserved := 1 }
  modify (fun s => { s with units := Array.replicate n ub0 })
  for u in [0:n] do
    unitP u
  let s ← get
  if !s.toks.isEmpty then failure
  -- `line_program_in_use()`: a program with instructions, or any entry (attached or not) with
  -- `FileIndex(Some(_))`
  let inUse (ub : UnitB) : Bool :=
    ub.lineProgram.isSome && (ub.lpRows || ub.entries.any (fun en => en.attrs.any (fun a =>
      match a.2 with | .fileIndex (some _) => true | _ => false)))
  let units := s.units.toList.map (fun ub =>
    ({ enc := ub.enc, nEntries := ub.entries.size, root := buildTree ub.entries 0,
       lineProgram := if inUse ub then ub.lineProgram else none } : UnitIn))
  pure (e, strs, lstrs, units)

def handle (op : String) (args : List String) : Option String :=
  match op with
  | "wunit" => do
    let ((e, strs, lstrs, units), _) ← request.run { toks := args, units := #[], strIds := #[], lineStrIds := #[] }
    pure ((writeDwarf e strs lstrs units).render
      (fun (info, abbr, str, lstr) => toHex info ++ " " ++ toHex abbr ++ " " ++ toHex str ++ " " ++ toHex lstr))
  | _ => none

end Gimli.Drv.C11
