import Gimli.Drv.Util
import Gimli.Model.Macros
/-!
C01 requests.

* `c01 <entry> <fail_at|-> <args…>`: the Model's answer is `normal` for every entry point — that
  is exactly what the `*_total` / `*_bounded` theorems of `Props/C01.lean` state for the modelled
  functions (every outcome is `ok` or `err`, never `panic`/`diverge`, and iteration ends within
  the step bound). For entry points that are not modelled the answer is the same claim without a
  theorem behind it; `props/C01.json` lists which are which.
* `macro-iter <le|be> <macinfo|macro32|macro64> <hex body>`: the exact sequence of results an
  error-ignoring caller of `MacroIter::next` sees (Model: `Gimli.Macros.next`).
-/
namespace Gimli.Drv.C01
open Gimli Gimli.Drv

def entryS : Macros.Entry → String
  | .define l t => s!"def:{l}:{toHex t}"
  | .undef l t => s!"und:{l}:{toHex t}"
  | .startFile l f => s!"start:{l}:{f}"
  | .endFile => "end"
  | .defineStrp l o => s!"defp:{l}:{o}"
  | .undefStrp l o => s!"undp:{l}:{o}"
  | .import_ o => s!"imp:{o}"
  | .defineSup l o => s!"defs:{l}:{o}"
  | .undefSup l o => s!"unds:{l}:{o}"
  | .importSup o => s!"imps:{o}"
  | .defineStrx l i => s!"defx:{l}:{i}"
  | .undefStrx l i => s!"undx:{l}:{i}"
  | .vendorExt n s => s!"vend:{n}:{toHex s}"

def macroTrace (e : Endian) (f : Format) (m : Bool) : Nat → Bytes → List String → List String
  | 0, _, acc => ("cap" :: acc).reverse
  | fuel + 1, bs, acc =>
    match Macros.next e f m bs with
    | (.ok none, _) => ("none" :: acc).reverse
    | (.ok (some x), s) => macroTrace e f m fuel s (entryS x :: acc)
    | (.err x, s) => macroTrace e f m fuel s (("E" ++ x.name) :: acc)
    | (.panic _, _) => ("panic" :: acc).reverse
    | (.diverge, _) => ("diverge" :: acc).reverse

def handle (op : String) (args : List String) : Option String :=
  match op, args with
  | "c01", _ => some "normal"
  | "macro-iter", [e, kind, h] => do
      let e ← endian? e
      let bs ← parseHex h
      let (m, f) ← match kind with
        | "macinfo" => some (false, Format.dwarf32)
        | "macro32" => some (true, Format.dwarf32)
        | "macro64" => some (true, Format.dwarf64)
        | _ => none
      pure ("ok " ++ ";".intercalate (macroTrace e f m (bs.length + 2) bs []))
  | _, _ => none

end Gimli.Drv.C01
