import Gimli.Drv.Util
/-!
C01 requests (`c01 <entry> <fail_at|-> <args…>`): the Model's answer is `normal` for every
entry point — that is exactly what the `*_total` / `*_bounded` theorems of `Props/C01.lean`
state for the modelled functions (every outcome is `ok` or `err`, never `panic`/`diverge`, and
iteration ends within the step bound). For entry points that are not modelled the answer is the
same claim without a theorem behind it; `props/C01.json` lists which are which.
-/
namespace Gimli.Drv.C01

def handle (op : String) (_args : List String) : Option String :=
  if op == "c01" then some "normal" else none

end Gimli.Drv.C01
