import Gimli.Drv.Util
import Gimli.Model.Unwind
/-!
Line-protocol operations for C06 (call-frame instruction decoding and the unwind machine).
`harness/src/prop/c06.rs` answers the same lines from the real crate by building a real
`.debug_frame` / `.eh_frame` section (one CIE at offset 0, one FDE after it) with the layout
described at `Layout` below and running gimli's parser, `CallFrameInstructionIter` and
`UnwindTable` on it.

The FDE *header* fields (initial location, address range, augmentation length) are decoded here
with the same primitives (`Ints.readAddress`, `Cfi.parseEncodedPointer/Value`) so that any byte
string can be sent; theorems about entry parsing belong to C05.
-/
namespace Gimli.Drv.C06
open Gimli Gimli.Drv Gimli.Cfi Gimli.Unwind

/-! ## canonical text -/

def instrS : Instr → String
  | .setLoc a => s!"sl:{a}"
  | .advanceLoc d => s!"al:{d}"
  | .defCfa r o => s!"dc:{r.toNat},{o}"
  | .defCfaSf r o => s!"dcs:{r.toNat},{o}"
  | .defCfaRegister r => s!"dcr:{r.toNat}"
  | .defCfaOffset o => s!"dco:{o}"
  | .defCfaOffsetSf o => s!"dcos:{o}"
  | .defCfaExpression e => s!"dce:{toHex e}"
  | .undefined r => s!"u:{r.toNat}"
  | .sameValue r => s!"sv:{r.toNat}"
  | .offset r o => s!"o:{r.toNat},{o}"
  | .offsetExtendedSf r o => s!"os:{r.toNat},{o}"
  | .valOffset r o => s!"vo:{r.toNat},{o}"
  | .valOffsetSf r o => s!"vos:{r.toNat},{o}"
  | .register d s => s!"r:{d.toNat},{s.toNat}"
  | .expression r e => s!"e:{r.toNat},{toHex e}"
  | .valExpression r e => s!"ve:{r.toNat},{toHex e}"
  | .restore r => s!"rs:{r.toNat}"
  | .rememberState => "rem"
  | .restoreState => "rst"
  | .argsSize n => s!"as:{n}"
  | .negateRaState => "neg"
  | .nop => "nop"

def listS (xs : List String) (sep : String) : String :=
  if xs.isEmpty then "-" else sep.intercalate xs

def ruleS : Rule → String
  | .undefined => "U"
  | .sameValue => "S"
  | .offset n => s!"O{n}"
  | .valOffset n => s!"V{n}"
  | .register r => s!"R{r.toNat}"
  | .expression e => s!"E{toHex e}"
  | .valExpression e => s!"X{toHex e}"
  | .architectural => "A"
  | .constant v => s!"C{v}"

def cfaS : CfaRule → String
  | .registerAndOffset r o => s!"ro:{r.toNat}:{o}"
  | .expression e => s!"ex:{toHex e}"

def insertSorted (x : Reg × Rule) : List (Reg × Rule) → List (Reg × Rule)
  | [] => [x]
  | y :: ys => if x.1.toNat ≤ y.1.toNat then x :: y :: ys else y :: insertSorted x ys

def sortRules (m : Rules) : Rules := m.foldl (fun acc x => insertSorted x acc) []

def rowS (r : Row) : String :=
  let rules := (sortRules r.rules).map (fun (k, v) => s!"{k.toNat}={ruleS v}")
  s!"{r.startAddress},{r.endAddress},{cfaS r.cfa},{r.savedArgsSize},{listS rules ";"}"

def tailS {α} : Out α → String
  | .ok _ => "end"
  | .err e => "err:" ++ e.name
  | .panic _ => "panic"
  | .diverge => "diverge"

/-- `ok <rows>` / `err <Name> <rows>` / `panic …` / `diverge` -/
def runS (r : Run Unit) : String :=
  let rows := listS (r.1.map rowS) "|"
  match r.2 with
  | .ok _ => "ok " ++ rows
  | .err e => "err " ++ e.name ++ " " ++ rows
  | .panic w => "panic " ++ w
  | .diverge => "diverge"

/-! ## request parsing -/

def optNat? (s : String) : Option (Option Nat) :=
  if s == "-" then some none else s.toNat?.map some

def vendor? : String → Option Vendor
  | "default" => some .default
  | "aarch64" => some .aarch64
  | _ => none

def cap? (s : String) : Option Cap :=
  if s == "inf" then some none else s.toNat?.map some

/-- storage names understood by the harness -/
def storage? : String → Option (Cap × Cap)
  | "heap" => some (some 4, some 192)
  | "vec" => some (none, none)
  | s =>
    match (s.drop 1).toString.splitOn "x" with
    | [r, n] => if s.startsWith "a" then do let r ← cap? r; let n ← cap? n; pure (r, n) else none
    | _ => none

def bases? (s : String) : Option (Option Nat × Option Nat × Option Nat) :=
  match s.splitOn "," with
  | [a, b, c] => do let a ← optNat? a; let b ← optNat? b; let c ← optNat? c; pure (a, b, c)
  | _ => none

/-! ## Layout of the section built by the harness

`df` — `.debug_frame`, 32-bit DWARF, CIE version 4:
`len:u32 | 0xffffffff:u32 | 4 | "" \0 | address_size | 0 | caf:uleb | daf:sleb | 0 (ra) | CIE instrs`
then `len:u32 | 0:u32 (CIE pointer) | FDE body = addr bytes ++ FDE instrs`.

`eh` — `.eh_frame`, CIE version 1, augmentation `zR`:
`len:u32 | 0:u32 | 1 | "zR" \0 | caf:uleb | daf:sleb | 0 (ra) | 1 (aug len) | enc | CIE instrs`
then `len:u32 | (offset of this field):u32 | FDE body = addr bytes ++ 0 (aug len) ++ FDE instrs`.
The section's address size is `set_address_size(addressSize)`.
-/

inductive Kind where
  | df
  | eh
  deriving DecidableEq

def kind? : String → Option Kind
  | "df" => some .df
  | "eh" => some .eh
  | _ => none

structure Req where
  mode : Mode
  kind : Kind
  endian : Endian
  addressSize : Nat
  enc : Nat
  vendor : Vendor
  bases : Option Nat × Option Nat × Option Nat
  caf : Nat
  daf : Int
  cie : Bytes
  addrs : Bytes
  fde : Bytes

def Req.params (q : Req) : PtrParams :=
  { addressSize := q.addressSize, sectionBase := q.bases.1, textBase := q.bases.2.1, dataBase := q.bases.2.2 }

def Req.cieInstrPos (q : Req) : Nat :=
  match q.kind with
  | .df => 4 + 4 + 1 + 1 + 1 + 1 + (Leb.encodeU q.caf).length + (Leb.encodeS q.daf).length + 1
  | .eh => 4 + 4 + 1 + 3 + (Leb.encodeU q.caf).length + (Leb.encodeS q.daf).length + 1 + 1 + 1

def Req.fdeBodyPos (q : Req) : Nat := q.cieInstrPos + q.cie.length + 8

/-- what parsing the CIE header rejects (the fields the request controls) -/
def Req.cieCheck (q : Req) : Out Unit :=
  match q.kind with
  | .df =>
    if q.addressSize = 1 ∨ q.addressSize = 2 ∨ q.addressSize = 4 ∨ q.addressSize = 8 then .ok ()
    else .err .rUnsupportedAddressSize
  | .eh => if ehPeValid q.enc then .ok () else .err .rUnknownPointerEncoding

/-- `FrameDescriptionEntry::parse_rest` after the CIE has been fetched: initial address, address
range, the instruction bytes and their offset in the section -/
def Req.fdeHeader (q : Req) : Out (Nat × Nat × Bytes × Nat) :=
  let body := match q.kind with
    | .df => q.addrs ++ q.fde
    | .eh => q.addrs ++ [0] ++ q.fde
  let pos := q.fdeBodyPos
  match q.kind with
  | .df => do
    let (initial, rest) ← Ints.readAddress q.endian q.addressSize body
    let (range, rest) ← Ints.readAddress q.endian q.addressSize rest
    pure (initial, range, rest, pos + (body.length - rest.length))
  | .eh => do
    let ((initial, _), rest) ← parseEncodedPointer q.mode q.endian q.enc q.params pos body
    let (range, rest) ← parseEncodedValue q.endian q.enc q.addressSize rest
    -- `AugmentationData::parse`: length, split
    let (alen, rest) ← Leb.unsigned rest
    let (_, rest) ← Ints.take alen rest
    pure (initial, range, rest, pos + (body.length - rest.length))

def Req.cieDecodeCfg (q : Req) : DecodeCfg :=
  { mode := q.mode, endian := q.endian, addressEncoding := none, params := q.params, vendor := q.vendor }

def Req.fdeDecodeCfg (q : Req) : DecodeCfg :=
  { q.cieDecodeCfg with addressEncoding := match q.kind with | .df => none | .eh => some q.enc }

def mkReq (mode kind endian asz enc vendor bases caf daf cie addrs fde : String) : Option Req := do
  let mode ← mode? mode
  let kind ← kind? kind
  let endian ← endian? endian
  let asz ← asz.toNat?
  let enc ← if enc == "-" then some 0 else enc.toNat?
  let vendor ← vendor? vendor
  let bases ← bases? bases
  let caf ← caf.toNat?
  let daf ← parseInt? daf
  let cie ← parseHex cie
  let addrs ← parseHex addrs
  let fde ← parseHex fde
  pure { mode, kind, endian, addressSize := asz, enc, vendor, bases, caf, daf, cie, addrs, fde }

/-- everything up to the unwind itself; `Out` failures are entry-parsing errors -/
def Req.decoded (q : Req) : Out ((List Instr × Out Unit) × (List Instr × Out Unit) × Nat × Nat) := do
  q.cieCheck
  let (initial, range, fdeBytes, fdePos) ← q.fdeHeader
  let cie := decodeAll q.cieDecodeCfg q.cieInstrPos q.cie
  let fde := decodeAll q.fdeDecodeCfg fdePos fdeBytes
  pure (cie, fde, initial, range)

def unwindReq (q : Req) (caps : Cap × Cap) : Run Unit :=
  match (do q.cieCheck; q.fdeHeader) with
  | .ok (initial, range, fdeBytes, fdePos) =>
    let g : Cfg := { mode := q.mode, codeAlign := q.caf, dataAlign := q.daf, addressSize := q.addressSize,
                     R := caps.1, N := caps.2 }
    unwindBytes g q.cieDecodeCfg q.fdeDecodeCfg q.cieInstrPos fdePos q.cie fdeBytes initial range
  | .err e => ([], .err e)
  | .panic w => ([], .panic w)
  | .diverge => ([], .diverge)

def decodeReq (q : Req) : String :=
  match q.decoded with
  | .ok (cie, fde, _, _) =>
    "ok " ++ listS (cie.1.map instrS) ";" ++ " " ++ tailS cie.2 ++ " " ++ listS (fde.1.map instrS) ";" ++ " " ++ tailS fde.2
  | .err e => "err " ++ e.name
  | .panic w => "panic " ++ w
  | .diverge => "diverge"

/-! ## the reduced alphabet of the exhaustive blocks (same table in `c06.rs`) -/

def alphabet : Array Bytes := #[
  [0x0a],             -- 0 remember_state
  [0x0b],             -- 1 restore_state
  [0xc1],             -- 2 restore r1
  [0xc2],             -- 3 restore r2
  [0x81, 0x01],       -- 4 offset r1, 1
  [0x82, 0x02],       -- 5 offset r2, 2
  [0x07, 0x01],       -- 6 undefined r1
  [0x08, 0x02],       -- 7 same_value r2
  [0x0c, 0x07, 0x08], -- 8 def_cfa r7, 8
  [0x0f, 0x01, 0x50], -- 9 def_cfa_expression {0x50}
  [0x0e, 0x10],       -- 10 def_cfa_offset 16
  [0x0d, 0x06],       -- 11 def_cfa_register r6
  [0x41],             -- 12 advance_loc 1
  [0x00],             -- 13 nop
  [0x2e, 0x04],       -- 14 GNU_args_size 4
  [0x2d]              -- 15 AARCH64_negate_ra_state
]

def seqBytes (ix : List Nat) : Bytes := ix.foldr (fun i acc => alphabet[i]! ++ acc) []

/-- one case of a block: sequence `ix` split after `k` symbols between CIE and FDE -/
def blkCase (mode : Mode) (caps : Cap × Cap) (ix : List Nat) (k : Nat) : String :=
  let q : Req := { mode, kind := .df, endian := .little, addressSize := 8, enc := 0, vendor := .aarch64,
                   bases := (none, none, none), caf := 1, daf := -8, cie := seqBytes (ix.take k),
                   addrs := [0, 0x10, 0, 0, 0, 0, 0, 0, 0x08, 0, 0, 0, 0, 0, 0, 0], fde := seqBytes (ix.drop k) }
  runS (unwindReq q caps)

partial def blkFold (mode : Mode) (caps : Cap × Cap) (len : Nat) (pre : List Nat) (h : UInt64) : UInt64 :=
  if pre.length ≥ len then Id.run do
    let mut h := h
    for k in [0:len + 1] do
      h := digestStep h (strHash (blkCase mode caps pre k))
    return h
  else Id.run do
    let mut h := h
    for s in [0:alphabet.size] do
      h := blkFold mode caps len (pre ++ [s]) h
    return h

def ixList? (s : String) : Option (List Nat) :=
  if s == "-" then some [] else (s.splitOn ",").mapM (fun t => do let n ← t.toNat?; if n < alphabet.size then some n else none)

def handle (op : String) (args : List String) : Option String :=
  match op, args with
  | "cfi-unwind", [mode, kind, endian, asz, enc, vendor, storage, bases, caf, daf, cie, addrs, fde] => do
      let q ← mkReq mode kind endian asz enc vendor bases caf daf cie addrs fde
      let caps ← storage? storage
      pure (runS (unwindReq q caps))
  | "cfi-corpus", [mode, kind, endian, asz, enc, vendor, storage, bases, caf, daf, cie, addrs, fde, _readelf] => do
      -- a compiler-built FDE; the last token is the `readelf -wF` table the harness compares with
      let q ← mkReq mode kind endian asz enc vendor bases caf daf cie addrs fde
      let caps ← storage? storage
      pure (runS (unwindReq q caps))
  | "cfi-roweq", [mode, storage, cieA, fdeA, cieB, fdeB] => do
      -- `UnwindTableRow: PartialEq` on the last rows of two programs (derive(PartialEq) over
      -- start, end, saved_args_size, cfa, and `RegisterRuleMap::eq` = `Rules.eq`)
      let caps ← if storage == "heap" || storage == "vec" || storage == "a8x8" then storage? storage else none
      let mk := fun (cie fde : String) =>
        mkReq mode "df" "le" "8" "-" "aarch64" "-,-,-" "1" "-8" cie "00100000000000008000000000000000" fde
      let a ← mk cieA fdeA
      let b ← mk cieB fdeB
      let last := fun (q : Req) => match unwindReq q caps with
        | (rows, .ok _) => rows.getLast?
        | _ => none
      pure (match last a, last b with
        | some ra, some rb =>
          let eq := ra.startAddress == rb.startAddress && ra.endAddress == rb.endAddress &&
            ra.savedArgsSize == rb.savedArgsSize && decide (ra.cfa = rb.cfa) && Rules.eq ra.rules rb.rules
          "ok " ++ toString eq
        | _, _ => "err NoRow")
  | "cfi-decode", [mode, kind, endian, asz, enc, vendor, bases, cie, addrs, fde] => do
      let q ← mkReq mode kind endian asz enc vendor bases "1" "1" cie addrs fde
      pure (decodeReq q)
  | "cfi-blk", [mode, storage, len, pre] => do
      let mode ← mode? mode
      let caps ← storage? storage
      let len ← len.toNat?
      let pre ← ixList? pre
      pure ("digest " ++ toString (blkFold mode caps len pre digestInit))
  | "cfi-seq", [mode, storage, ix, k] => do
      -- a single case of a block, for localising a digest mismatch
      let mode ← mode? mode
      let caps ← storage? storage
      let ix ← ixList? ix
      let k ← k.toNat?
      pure (blkCase mode caps ix k)
  | _, _ => none

end Gimli.Drv.C06
