import Gimli.Lemmas.RelocWrite
/-! C18, writing side: the recording writer accepts whatever direct writing accepts (symbolic
LEB128 `.eh_frame` pointers apart). -/
namespace Gimli.Wr
open Gimli

theorem writeUdata_zero_of_size {e : Endian} {size : Nat} (h : size = 1 ∨ size = 2 ∨ size = 4 ∨ size = 8) :
    ∃ z, Ints.writeUdata e 0 size = .ok z := by
  unfold Ints.writeUdata
  rcases h with h | h | h | h <;> subst h <;> simp

theorem writeUdata_size {e : Endian} {v size : Nat} {x : Bytes} (h : Ints.writeUdata e v size = .ok x) :
    size = 1 ∨ size = 2 ∨ size = 4 ∨ size = 8 := by
  unfold Ints.writeUdata at h
  split at h
  · rename_i h1; omega
  · split at h
    · rename_i h8; omega
    · cases h

theorem writeSdata_size {e : Endian} {v : Int} {size : Nat} {x : Bytes}
    (h : Ints.writeSdata e v size = .ok x) : size = 1 ∨ size = 2 ∨ size = 4 ∨ size = 8 := by
  unfold Ints.writeSdata at h
  split at h
  · rename_i h1; omega
  · split at h
    · rename_i h8; omega
    · cases h

theorem encode_size {env : Env} {e : Endian} {r : Reloc} {x : Bytes} (h : encode env e r = .ok x) :
    r.size = 1 ∨ r.size = 2 ∨ r.size = 4 ∨ r.size = 8 := by
  unfold encode at h
  cases hp : r.ehPe with
  | none => rw [hp] at h; exact writeUdata_size h
  | some pe =>
    rw [hp] at h
    simp only at h
    generalize ehApply pe _ r.off = q at h
    cases q with
    | ok v =>
      simp only [Out.bind_ok] at h
      split at h
      · exact writeSdata_size h
      · exact writeUdata_size h
    | err e => cases h
    | panic w => cases h
    | diverge => cases h

theorem stepR_of_stepD {env : Env} {e : Endian} {bD b1 : Bytes} {st : Bytes × List Reloc} {c : Call}
    (hl : st.1.length = bD.length) (hd : stepD env e bD c = .ok b1) (hc : SymSized c) :
    ∃ st1, stepR e st c = .ok st1 ∧ st1.1.length = b1.length := by
  cases c with
  | write bs => cases hd; exact ⟨_, rfl, by simp [hl]⟩
  | writeAt off bs =>
    simp only [stepD] at hd
    obtain ⟨hb, rfl⟩ := writeAt_ok_iff.mp hd
    refine ⟨(patch st.1 off bs, st.2), ?_, ?_⟩
    · simp only [stepR]; rw [writeAt_ok (by omega)]; rfl
    · rw [patch_length (by omega), patch_length hb, hl]
  | udata v size =>
    simp only [stepD] at hd
    cases hx : Ints.writeUdata e v size with
    | ok x => rw [hx] at hd; cases hd; exact ⟨_, by simp only [stepR, hx]; rfl, by simp [hl]⟩
    | err _ => rw [hx] at hd; cases hd
    | panic _ => rw [hx] at hd; cases hd
    | diverge => rw [hx] at hd; cases hd
  | sdata v size =>
    simp only [stepD] at hd
    cases hx : Ints.writeSdata e v size with
    | ok x => rw [hx] at hd; cases hd; exact ⟨_, by simp only [stepR, hx]; rfl, by simp [hl]⟩
    | err _ => rw [hx] at hd; cases hd
    | panic _ => rw [hx] at hd; cases hd
    | diverge => rw [hx] at hd; cases hd
  | udataAt off v size =>
    simp only [stepD] at hd
    cases hx : Ints.writeUdata e v size with
    | ok x =>
      rw [hx] at hd; simp only [Out.bind_ok] at hd
      obtain ⟨hb, rfl⟩ := writeAt_ok_iff.mp hd
      refine ⟨(patch st.1 off x, st.2), ?_, ?_⟩
      · simp only [stepR, hx, Out.bind_ok]; rw [writeAt_ok (by omega)]; rfl
      · rw [patch_length (by omega), patch_length hb, hl]
    | err _ => rw [hx] at hd; cases hd
    | panic _ => rw [hx] at hd; cases hd
    | diverge => rw [hx] at hd; cases hd
  | uleb v => cases hd; exact ⟨_, rfl, by simp [hl]⟩
  | sleb v => cases hd; exact ⟨_, rfl, by simp [hl]⟩
  | address a size =>
    simp only [stepD] at hd
    cases hx : Ints.writeUdata e (env.resolve a) size with
    | ok x =>
      rw [hx] at hd; cases hd
      have hxl := writeUdata_length hx
      cases a with
      | const v => exact ⟨_, by simp only [stepR]; rw [show Ints.writeUdata e v size = .ok x from hx]; rfl, by simp [hl]⟩
      | sym s a =>
        obtain ⟨z, hz⟩ := writeUdata_zero_of_size (e := e) (writeUdata_size hx)
        have hzl := writeUdata_length hz
        exact ⟨_, by simp only [stepR, hz]; rfl, by simp [hl, hxl, hzl]⟩
    | err _ => rw [hx] at hd; cases hd
    | panic _ => rw [hx] at hd; cases hd
    | diverge => rw [hx] at hd; cases hd
  | offset val sect size =>
    simp only [stepD] at hd
    cases hx : Ints.writeUdata e (addWrap (env.sec sect) (asI64 val)) size with
    | ok x =>
      rw [hx] at hd; cases hd
      have hxl := writeUdata_length hx
      obtain ⟨z, hz⟩ := writeUdata_zero_of_size (e := e) (writeUdata_size hx)
      have hzl := writeUdata_length hz
      exact ⟨_, by simp only [stepR, hz]; rfl, by simp [hl, hxl, hzl]⟩
    | err _ => rw [hx] at hd; cases hd
    | panic _ => rw [hx] at hd; cases hd
    | diverge => rw [hx] at hd; cases hd
  | offsetAt off val sect size =>
    simp only [stepD] at hd
    cases hx : Ints.writeUdata e (addWrap (env.sec sect) (asI64 val)) size with
    | ok x =>
      rw [hx] at hd; simp only [Out.bind_ok] at hd
      obtain ⟨hb, rfl⟩ := writeAt_ok_iff.mp hd
      have hxl := writeUdata_length hx
      obtain ⟨z, hz⟩ := writeUdata_zero_of_size (e := e) (writeUdata_size hx)
      have hzl := writeUdata_length hz
      refine ⟨(patch st.1 off z, st.2 ++ [(⟨off, size, .sect sect, asI64 val, none⟩ : Reloc)]), ?_, ?_⟩
      · simp only [stepR, hz, Out.bind_ok]; rw [writeAt_ok (by omega)]; rfl
      · rw [patch_length (by omega), patch_length hb, hl]
    | err _ => rw [hx] at hd; cases hd
    | panic _ => rw [hx] at hd; cases hd
    | diverge => rw [hx] at hd; cases hd
  | ehPointer a ehPe size =>
    simp only [stepD] at hd
    cases hx : ehConst e (env.resolve a) ehPe size bD.length with
    | ok x =>
      rw [hx] at hd; cases hd
      cases a with
      | const v =>
        refine ⟨(st.1 ++ x, st.2), ?_, ?_⟩
        · simp only [stepR, hl]
          rw [show ehConst e v ehPe size bD.length = .ok x from hx]; rfl
        · simp [hl]
      | sym s a =>
        obtain ⟨n, hn⟩ := hc
        have henc := ehConst_sym (env := env) (e := e) hn s a bD.length
        rw [show ehConst e (addWrap (env.sym s) a) ehPe size bD.length = .ok x from hx] at henc
        have hxl := encode_length henc.symm
        have hsz := encode_size henc.symm
        simp only at hxl hsz
        obtain ⟨z, hz⟩ := writeUdata_zero_of_size (e := e) hsz
        have hzl := writeUdata_length hz
        exact ⟨_, by simp only [stepR, hn, Out.bind_ok, hz]; rfl, by simp [hl, hxl, hzl]⟩
    | err _ => rw [hx] at hd; cases hd
    | panic _ => rw [hx] at hd; cases hd
    | diverge => rw [hx] at hd; cases hd

/-- whenever direct writing succeeds, so does recording (for sequences without symbolic LEB128
`.eh_frame` pointers), with a section of the same length -/
theorem runR_of_runD {env : Env} {e : Endian} : ∀ (calls : List Call) (bD b : Bytes)
    (st : Bytes × List Reloc), st.1.length = bD.length → runD env e bD calls = .ok b →
    (∀ c ∈ calls, SymSized c) → ∃ st', runR e st calls = .ok st' ∧ st'.1.length = b.length := by
  intro calls
  induction calls with
  | nil => intro bD b st hl hd _; cases hd; exact ⟨st, rfl, hl⟩
  | cons c cs ih =>
    intro bD b st hl hd hc
    simp only [runD] at hd
    cases h1 : stepD env e bD c with
    | ok b1 =>
      rw [h1] at hd; simp only [Out.bind_ok] at hd
      obtain ⟨st1, hs1, hl1⟩ := stepR_of_stepD (st := st) hl h1 (hc c (List.mem_cons_self ..))
      obtain ⟨st', hs', hl'⟩ := ih b1 b st1 hl1 hd (fun c' hc' => hc c' (List.mem_cons_of_mem _ hc'))
      exact ⟨st', by simp only [runR, hs1, Out.bind_ok]; exact hs', hl'⟩
    | err _ => rw [h1] at hd; cases hd
    | panic _ => rw [h1] at hd; cases hd
    | diverge => rw [h1] at hd; cases hd

end Gimli.Wr
