import Gimli.Lemmas.Attr
import Gimli.Model.Abbrev
/-! Helper lemmas for C02, part 3: the abbreviation table. `Abbreviations::insert` against
`Abbreviations::get` (dense vector + map), folded over the declarations that `Abbreviations::parse`
reads. -/
namespace Gimli.Abbrev
open Gimli Gimli.Attr

/-- the declaration carrying code `c` in a list of declarations (the first one) -/
def lookup (ds : List Abbreviation) (c : Nat) : Option Abbreviation := ds.find? (fun a => a.code = c)

/-- `Abbreviations::insert` folded over a list; `none` as soon as one insertion fails -/
def insertAll (t : Abbreviations) : List Abbreviation → Option Abbreviations
  | [] => some t
  | a :: as =>
    match t.insert a with
    | none => none
    | some t' => insertAll t' as

/-- the sequence of `Abbreviation::parse` results up to the null abbreviation / end of input -/
def parseDecls : Nat → Bytes → Out (List Abbreviation)
  | 0, _ => .diverge
  | fuel + 1, bs => do
    let (a, rest) ← parseAbbreviation bs
    match a with
    | none => pure []
    | some a => do
      let ds ← parseDecls fuel rest
      pure (a :: ds)

theorem get_zero (t : Abbreviations) : t.get 0 = none := by simp [Abbreviations.get]

/-- inserting a code that is already found fails -/
theorem insert_none_of_get_some (t : Abbreviations) (a : Abbreviation) (h0 : a.code ≠ 0)
    (h : (t.get a.code).isSome) : t.insert a = none := by
  unfold Abbreviations.get at h
  unfold Abbreviations.insert
  simp only [h0, if_false] at h
  by_cases h1 : a.code - 1 < t.vec.length
  · simp [h1]
  · simp only [h1, dite_false, if_false] at h ⊢
    by_cases h2 : a.code - 1 = t.vec.length
    · simp only [h2, if_true]
      have hne : t.map.isEmpty = false := by
        cases hm : t.map with
        | nil => rw [hm] at h; simp [mapGet] at h
        | cons x xs => rfl
      simp [hne, h]
    · simp only [h2, if_false]
      unfold Abbreviations.mapInsert
      cases hg : mapGet t.map a.code with
      | none => rw [hg] at h; simp at h
      | some x => rfl

theorem mapGet_cons (k : Nat) (a : Abbreviation) (m : List (Nat × Abbreviation)) (c : Nat) :
    mapGet ((k, a) :: m) c = if k = c then some a else mapGet m c := by
  rw [mapGet]

/-- inserting a code that is not found succeeds; afterwards exactly that code finds the new
declaration and every other lookup is unchanged -/
theorem insert_some_of_get_none (t : Abbreviations) (a : Abbreviation) (h0 : a.code ≠ 0)
    (h : t.get a.code = none) :
    ∃ t', t.insert a = some t' ∧ ∀ c, t'.get c = if c = a.code then some a else t.get c := by
  unfold Abbreviations.get at h
  simp only [h0, if_false] at h
  by_cases h1 : a.code - 1 < t.vec.length
  · simp [h1] at h
  · simp only [h1, dite_false] at h
    unfold Abbreviations.insert
    simp only [h1, if_false]
    by_cases h2 : a.code - 1 = t.vec.length
    · refine ⟨{ t with vec := t.vec ++ [a] }, by simp [h2, h], ?_⟩
      intro c
      unfold Abbreviations.get
      by_cases hc0 : c = 0
      · subst hc0; simp [Ne.symm h0]
      · simp only [hc0, if_false, List.length_append, List.length_singleton]
        by_cases hca : c = a.code
        · subst hca
          have : a.code - 1 < t.vec.length + 1 := by omega
          simp only [this, dite_true, if_true]
          rw [List.getElem_append_right (by omega)]
          simp [h2]
        · simp only [hca, if_false]
          by_cases hlt : c - 1 < t.vec.length
          · have : c - 1 < t.vec.length + 1 := by omega
            simp only [this, hlt, dite_true]
            rw [List.getElem_append_left hlt]
          · have : ¬ c - 1 < t.vec.length + 1 := by omega
            simp only [this, hlt, dite_false]
    · simp only [h2, if_false]
      unfold Abbreviations.mapInsert
      rw [h]
      refine ⟨_, rfl, ?_⟩
      intro c
      unfold Abbreviations.get
      by_cases hc0 : c = 0
      · subst hc0; simp [Ne.symm h0]
      · simp only [hc0, if_false]
        by_cases hlt : c - 1 < t.vec.length
        · have hca : c ≠ a.code := by omega
          simp [hlt, hca]
        · simp only [hlt, dite_false, mapGet_cons]
          by_cases hca : c = a.code
          · simp [hca]
          · have : ¬ a.code = c := fun h => hca h.symm
            simp [hca, this]

theorem lookup_append_singleton (ds : List Abbreviation) (a : Abbreviation) (c : Nat) :
    lookup (ds ++ [a]) c = (lookup ds c).orElse fun _ => if a.code = c then some a else none := by
  unfold lookup
  rw [List.find?_append]
  cases List.find? (fun a => decide (a.code = c)) ds with
  | some x => rfl
  | none =>
    by_cases h : a.code = c <;> simp [h, Option.orElse]

/-- **lookup after inserting declarations with pairwise distinct codes**; and insertion fails as
soon as a code repeats -/
theorem insertAll_spec : ∀ (new ds : List Abbreviation) (t : Abbreviations),
    (∀ c, t.get c = lookup ds c) → (∀ a ∈ new, a.code ≠ 0) → ((ds.map (·.code)).Nodup) →
    (((ds ++ new).map (·.code)).Nodup →
      ∃ t', insertAll t new = some t' ∧ ∀ c, t'.get c = lookup (ds ++ new) c) ∧
    (¬ ((ds ++ new).map (·.code)).Nodup → insertAll t new = none) := by
  intro new
  induction new with
  | nil =>
    intro ds t hget _ hnd
    simp only [List.append_nil]
    exact ⟨fun _ => ⟨t, rfl, hget⟩, fun h => absurd hnd h⟩
  | cons a rest ih =>
    intro ds t hget hnz hnd
    have ha0 : a.code ≠ 0 := hnz a (by simp)
    have hrest : ∀ b ∈ rest, b.code ≠ 0 := fun b hb => hnz b (by simp [hb])
    have happ : ds ++ a :: rest = (ds ++ [a]) ++ rest := by simp
    by_cases hin : a.code ∈ ds.map (·.code)
    · -- duplicate of an earlier declaration
      have hsome : (t.get a.code).isSome := by
        rw [hget]
        simp only [List.mem_map] at hin
        obtain ⟨b, hb, hbc⟩ := hin
        unfold lookup
        rw [List.find?_isSome]
        exact ⟨b, hb, by simp [hbc]⟩
      have hnot : ¬ ((ds ++ a :: rest).map (·.code)).Nodup := by
        simp only [List.map_append, List.map_cons]
        intro hn
        rw [List.nodup_append] at hn
        exact hn.2.2 _ hin _ (by simp) rfl
      refine ⟨fun h => absurd h hnot, fun _ => ?_⟩
      simp [insertAll, insert_none_of_get_some t a ha0 hsome]
    · have hnone : t.get a.code = none := by
        rw [hget]
        unfold lookup
        rw [List.find?_eq_none]
        intro b hb
        simp only [decide_eq_true_eq]
        intro hbc
        exact hin (List.mem_map.mpr ⟨b, hb, hbc⟩)
      obtain ⟨t', hins, hget'⟩ := insert_some_of_get_none t a ha0 hnone
      have hget'' : ∀ c, t'.get c = lookup (ds ++ [a]) c := by
        intro c
        rw [hget', lookup_append_singleton, ← hget]
        by_cases hca : c = a.code
        · subst hca; simp [hnone]
        · have : ¬ a.code = c := fun h => hca h.symm
          cases t.get c <;> simp [hca, this]
      have hnd' : ((ds ++ [a]).map (·.code)).Nodup := by
        simp only [List.map_append, List.map_cons, List.map_nil]
        rw [List.nodup_append]
        refine ⟨hnd, by simp, ?_⟩
        intro x hx y hy
        simp only [List.mem_singleton] at hy
        subst hy
        intro hxy; subst hxy; exact hin hx
      have := ih (ds ++ [a]) t' hget'' hrest hnd'
      rw [happ]
      simp only [insertAll, hins]
      exact this

theorem parseLoop_of_parseDecls : ∀ (fuel : Nat) (t : Abbreviations) (bs : Bytes) (ds : List Abbreviation),
    parseDecls fuel bs = .ok ds →
    parseLoop fuel t bs =
      (match insertAll t ds with
       | some t' => .ok t'
       | none => .err .rDuplicateAbbreviationCode) ∧ ∀ a ∈ ds, a.code ≠ 0 := by
  intro fuel
  induction fuel with
  | zero => intro t bs ds h; simp [parseDecls] at h
  | succ fuel ih =>
    intro t bs ds h
    rw [parseDecls] at h
    rw [parseLoop]
    obtain ⟨⟨a, rest⟩, h1, h2⟩ := bind_ok_inv h
    rw [h1]
    simp only [Out.bind_ok] at h2 ⊢
    cases a with
    | none =>
      simp only [Out.pure_eq, Out.ok.injEq] at h2
      subst h2
      simp [insertAll]
    | some a =>
      simp only at h2 ⊢
      obtain ⟨ds', h3, h4⟩ := bind_ok_inv h2
      simp only [Out.pure_eq, Out.ok.injEq] at h4
      subst h4
      have ha0 : a.code ≠ 0 := by
        unfold parseAbbreviation at h1
        split at h1
        · simp at h1
        · obtain ⟨⟨code, r1⟩, _, h6⟩ := bind_ok_inv h1
          simp only at h6
          split at h6
          · simp at h6
          · rename_i hc
            obtain ⟨⟨tag, r2⟩, _, h8⟩ := bind_ok_inv h6
            simp only at h8
            split at h8
            · simp at h8
            · obtain ⟨⟨hcv, r3⟩, _, h10⟩ := bind_ok_inv h8
              simp only at h10
              split at h10
              · simp at h10
              · obtain ⟨⟨attrs, r4⟩, _, h12⟩ := bind_ok_inv h10
                simp only [Out.pure_eq, Out.ok.injEq, Prod.mk.injEq, Option.some.injEq] at h12
                rw [← h12.1]; exact hc
      obtain ⟨hl, hz⟩ := ih
        (match t.insert a with | some t' => t' | none => t) rest ds' h3
      constructor
      · simp only [insertAll]
        cases hi : t.insert a with
        | none => rfl
        | some t' =>
          simp only
          have := (ih t' rest ds' h3).1
          exact this
      · intro b hb
        simp only [List.mem_cons] at hb
        rcases hb with rfl | hb
        · exact ha0
        · exact hz b hb

end Gimli.Abbrev
