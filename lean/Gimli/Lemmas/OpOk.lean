import Gimli.Lemmas.OpDecode
import Gimli.Lemmas.Ints
import Gimli.Lemmas.Eval
/-! # C07: decoded operations carry `u64` / `i64` operands (what `compute_pc` and `Value::Generic` rely on) -/
open Gimli Gimli.Op Gimli.Spec.OpTable
set_option linter.unusedVariables false

/-- operands as the readers deliver them: naturals are `u64`s, integers are `i64`s -/
def ArgOk : Arg → Prop
  | .nat n => n < 2 ^ 64
  | .int i => -2 ^ 63 ≤ i ∧ i < 2 ^ 63
  | .bytes _ => True

def ArgsOk (args : List Arg) : Prop := ∀ x ∈ args, ArgOk x

/-- what the evaluator relies on about a decoded operation -/
def OpOk : Operation → Prop
  | .bra t | .skip t => -2 ^ 63 ≤ t ∧ t < 2 ^ 63
  | .unsignedConstant v | .plusConstant v => v < 2 ^ 64
  | _ => True

def operandOkB : Operand → Bool
  | .u n | .s n => n ≤ 8
  | _ => true

theorem signature_ok : ∀ n : Fin 256,
    (match signature n.val with | some sig => sig.all operandOkB | none => true) = true := by decide +kernel

theorem pow256_le (n : Nat) (hn : n ≤ 8) : 256 ^ n ≤ 2 ^ 64 := by
  have : 256 ^ n ≤ 256 ^ 8 := Nat.pow_le_pow_right (by omega) hn
  omega

theorem readFixed_lt64 (e : Endian) (n : Nat) (hn : n ≤ 8) (bs : Bytes) (v : Nat) (rest : Bytes)
    (h : Ints.readFixed e n bs = .ok (v, rest)) : v < 2 ^ 64 := by
  obtain ⟨_, _, _, h4⟩ := Ints.readFixed_ok e n bs v rest h
  exact Nat.lt_of_lt_of_le h4 (pow256_le n hn)

theorem toSigned_range (n : Nat) (hn : n ≤ 8) (v : Nat) : -2 ^ 63 ≤ Ints.toSigned n v ∧ Ints.toSigned n v < 2 ^ 63 := by
  unfold Ints.toSigned
  match n, hn with
  | 0, _ => simp; omega
  | 1, _ => simp only [Nat.reduceMul, Nat.reduceSub]; split <;> omega
  | 2, _ => simp only [Nat.reduceMul, Nat.reduceSub]; split <;> omega
  | 3, _ => simp only [Nat.reduceMul, Nat.reduceSub]; split <;> omega
  | 4, _ => simp only [Nat.reduceMul, Nat.reduceSub]; split <;> omega
  | 5, _ => simp only [Nat.reduceMul, Nat.reduceSub]; split <;> omega
  | 6, _ => simp only [Nat.reduceMul, Nat.reduceSub]; split <;> omega
  | 7, _ => simp only [Nat.reduceMul, Nat.reduceSub]; split <;> omega
  | 8, _ => simp only [Nat.reduceMul, Nat.reduceSub]; split <;> omega
  | n + 9, h => omega

theorem toI64_range (n : Nat) : -2 ^ 63 ≤ Leb.toI64 n ∧ Leb.toI64 n < 2 ^ 63 := by
  unfold Leb.toI64; split <;> omega

theorem signed_range (bs : Bytes) (v : Int) (rest : Bytes) (h : Leb.signed bs = .ok (v, rest)) :
    -2 ^ 63 ≤ v ∧ v < 2 ^ 63 := by
  unfold Leb.signed at h
  split at h
  · cases h; exact toI64_range _
  all_goals cases h

theorem readAddress_lt64 (e : Endian) (n : Nat) (bs : Bytes) (v : Nat) (rest : Bytes)
    (h : Ints.readAddress e n bs = .ok (v, rest)) : v < 2 ^ 64 := by
  unfold Ints.readAddress at h
  split at h
  · next hn => exact readFixed_lt64 e n (by omega) bs v rest h
  · cases h

theorem readWord_lt64 (e : Endian) (f : Format) (bs : Bytes) (v : Nat) (rest : Bytes)
    (h : Ints.readWord e 64 f bs = .ok (v, rest)) : v < 2 ^ 64 := by
  unfold Ints.readWord at h
  cases f
  · exact readFixed_lt64 e 4 (by omega) bs v rest h
  · obtain ⟨⟨v1, r1⟩, h1, h2⟩ := bind_eq_ok h
    obtain ⟨v2, h3, h4⟩ := bind_eq_ok h2
    cases h4
    unfold Ints.offsetFromU64 at h3
    split at h3
    · cases h3; assumption
    · cases h3

theorem argsOk_single (x : Arg) (h : ArgOk x) : ArgsOk [x] := by
  intro y hy; simp at hy; rw [hy]; exact h

theorem readOperand_argsOk (e : Endian) (enc : Encoding) (o : Operand) (ho : operandOkB o = true) (bs : Bytes)
    (args : List Arg) (rest : Bytes) (h : readOperand e enc o bs = .ok (args, rest)) : ArgsOk args := by
  cases o <;> simp only [readOperand] at h
  case u n =>
    obtain ⟨⟨v, r⟩, h1, h2⟩ := bind_eq_ok h; cases h2
    exact argsOk_single _ (readFixed_lt64 e n (by simpa [operandOkB] using ho) bs v r h1)
  case s n =>
    obtain ⟨⟨v, r⟩, h1, h2⟩ := bind_eq_ok h; cases h2
    exact argsOk_single _ (toSigned_range n (by simpa [operandOkB] using ho) v)
  case uleb =>
    obtain ⟨⟨v, r⟩, h1, h2⟩ := bind_eq_ok h; cases h2
    obtain ⟨_, _, _, _, _, hv⟩ := Leb.unsigned_sound bs v r h1
    exact argsOk_single _ hv
  case sleb =>
    obtain ⟨⟨v, r⟩, h1, h2⟩ := bind_eq_ok h; cases h2
    exact argsOk_single _ (signed_range bs v r h1)
  case addr =>
    obtain ⟨⟨v, r⟩, h1, h2⟩ := bind_eq_ok h; cases h2
    exact argsOk_single _ (readAddress_lt64 e _ bs v r h1)
  case off =>
    obtain ⟨⟨v, r⟩, h1, h2⟩ := bind_eq_ok h; cases h2
    exact argsOk_single _ (readWord_lt64 e _ bs v r h1)
  case refAddr =>
    split at h
    · obtain ⟨⟨v, r⟩, h1, h2⟩ := bind_eq_ok h; cases h2
      exact argsOk_single _ (readAddress_lt64 e _ bs v r h1)
    · obtain ⟨⟨v, r⟩, h1, h2⟩ := bind_eq_ok h; cases h2
      exact argsOk_single _ (readWord_lt64 e _ bs v r h1)
  case reg =>
    obtain ⟨⟨v, r⟩, h1, h2⟩ := bind_eq_ok h
    simp only [] at h2
    split at h2
    · cases h2; exact argsOk_single _ (show v < 2 ^ 64 by omega)
    · cases h2
  case blockUleb =>
    obtain ⟨⟨v, r⟩, h1, h2⟩ := bind_eq_ok h
    obtain ⟨⟨b, r2⟩, h3, h4⟩ := bind_eq_ok h2; cases h4
    exact argsOk_single _ trivial
  case block1 =>
    obtain ⟨⟨v, r⟩, h1, h2⟩ := bind_eq_ok h
    obtain ⟨⟨b, r2⟩, h3, h4⟩ := bind_eq_ok h2; cases h4
    exact argsOk_single _ trivial
  case wasm =>
    obtain ⟨⟨k, r⟩, h1, h2⟩ := bind_eq_ok h
    have hk := readFixed_lt64 e 1 (by omega) bs k r h1
    simp only [] at h2
    split at h2
    · obtain ⟨⟨i, r2⟩, h3, h4⟩ := bind_eq_ok h2; cases h4
      unfold Ints.readUlebU32 at h3
      obtain ⟨⟨v, r3⟩, h5, h6⟩ := bind_eq_ok h3
      simp only [] at h6
      split at h6
      · cases h6
        intro y hy; simp at hy
        rcases hy with rfl | rfl
        · exact hk
        · show i < 2 ^ 64; omega
      · cases h6
    · split at h2
      · obtain ⟨⟨i, r2⟩, h3, h4⟩ := bind_eq_ok h2; cases h4
        have hi := readFixed_lt64 e 4 (by omega) r i r2 h3
        intro y hy; simp at hy
        rcases hy with rfl | rfl
        · exact hk
        · exact hi
      · cases h2

theorem readOperands_argsOk (e : Endian) (enc : Encoding) (os : List Operand) (hos : os.all operandOkB = true) :
    ∀ (bs : Bytes) (args : List Arg) (rest : Bytes), readOperands e enc os bs = .ok (args, rest) → ArgsOk args := by
  induction os with
  | nil => intro bs args rest h; cases h; intro x hx; cases hx
  | cons o os ih =>
    intro bs args rest h
    simp only [List.all_cons, Bool.and_eq_true] at hos
    unfold readOperands at h
    obtain ⟨⟨a1, r1⟩, h1, h2⟩ := bind_eq_ok h
    obtain ⟨⟨a2, r2⟩, h3, h4⟩ := bind_eq_ok h2
    simp only [Out.pure_eq, Out.ok.injEq, Prod.mk.injEq] at h4
    obtain ⟨e1, _⟩ := h4
    subst e1
    intro x hx
    simp at hx
    rcases hx with hx | hx
    · exact readOperand_argsOk e enc o hos.1 bs a1 r1 h1 x hx
    · exact ih hos.2 r1 a2 r2 h3 x hx

/-! `meaning` keeps what the operands guarantee -/

theorem args0_ok (args : List Arg) (o op : Operation) (ho : OpOk o) (h : args0 args o = .ok op) : OpOk op := by
  unfold args0 at h; split at h <;> cases h; exact ho
theorem argsN_ok (args : List Arg) (f : Nat → Out Operation) (ha : ArgsOk args)
    (hf : ∀ a, a < 2 ^ 64 → ∀ op, f a = .ok op → OpOk op) (op : Operation) (h : argsN args f = .ok op) : OpOk op := by
  unfold argsN at h; split at h
  · next a => exact hf a (ha (.nat a) (by simp)) _ h
  · cases h
theorem argsI_ok (args : List Arg) (f : Int → Operation) (ha : ArgsOk args)
    (hf : ∀ a, (-2 ^ 63 ≤ a ∧ a < 2 ^ 63) → OpOk (f a)) (op : Operation) (h : argsI args f = .ok op) : OpOk op := by
  unfold argsI at h; split at h
  · next a => cases h; exact hf a (ha (.int a) (by simp))
  · cases h
theorem argsB_ok (args : List Arg) (f : Bytes → Operation) (hf : ∀ a, OpOk (f a)) (op : Operation)
    (h : argsB args f = .ok op) : OpOk op := by
  unfold argsB at h; split at h
  · cases h; exact hf _
  · cases h
theorem argsNN_ok (args : List Arg) (f : Nat → Nat → Out Operation)
    (hf : ∀ a b op, f a b = .ok op → OpOk op) (op : Operation) (h : argsNN args f = .ok op) : OpOk op := by
  unfold argsNN at h; split at h
  · exact hf _ _ _ h
  · cases h
theorem argsNI_ok (args : List Arg) (f : Nat → Int → Operation) (hf : ∀ a b, OpOk (f a b)) (op : Operation)
    (h : argsNI args f = .ok op) : OpOk op := by
  unfold argsNI at h; split at h
  · cases h; exact hf _ _
  · cases h
theorem argsNB_ok (args : List Arg) (f : Nat → Bytes → Operation) (hf : ∀ a b, OpOk (f a b)) (op : Operation)
    (h : argsNB args f = .ok op) : OpOk op := by
  unfold argsNB at h; split at h
  · cases h; exact hf _ _
  · cases h

macro "mok" ha:ident h:ident : tactic => `(tactic| first
  | exact args0_ok _ _ _ (by first | trivial | (show _ < _; omega)) $h
  | exact argsN_ok _ _ $ha (fun _ hx _ hh => by first | (cases hh; first | trivial | exact hx) | (split at hh <;> cases hh; trivial)) _ $h
  | exact argsI_ok _ _ $ha (fun _ hx => by first | trivial | exact hx) _ $h
  | exact argsB_ok _ _ (fun _ => by trivial) _ $h
  | exact argsNN_ok _ _ (fun _ _ _ hh => by first | (cases hh; trivial) | (repeat (first | (cases hh <;> trivial) | split at hh))) _ $h
  | exact argsNI_ok _ _ (fun _ _ => by trivial) _ $h
  | exact argsNB_ok _ _ (fun _ _ => by trivial) _ $h
  | cases $h:ident)

theorem mok_chunk0 (enc : Encoding) (args : List Arg) (ha : ArgsOk args) (op : Operation) (n : Nat) (h1 : 0 ≤ n) (h2 : n < 32)
    (h : meaning enc n args = .ok op) : OpOk op :=
  match n, h1, h2, h with
  | 0, _, _, h => by mok ha h
  | 1, _, _, h => by mok ha h
  | 2, _, _, h => by mok ha h
  | 3, _, _, h => by mok ha h
  | 4, _, _, h => by mok ha h
  | 5, _, _, h => by mok ha h
  | 6, _, _, h => by mok ha h
  | 7, _, _, h => by mok ha h
  | 8, _, _, h => by mok ha h
  | 9, _, _, h => by mok ha h
  | 10, _, _, h => by mok ha h
  | 11, _, _, h => by mok ha h
  | 12, _, _, h => by mok ha h
  | 13, _, _, h => by mok ha h
  | 14, _, _, h => by mok ha h
  | 15, _, _, h => by mok ha h
  | 16, _, _, h => by mok ha h
  | 17, _, _, h => by mok ha h
  | 18, _, _, h => by mok ha h
  | 19, _, _, h => by mok ha h
  | 20, _, _, h => by mok ha h
  | 21, _, _, h => by mok ha h
  | 22, _, _, h => by mok ha h
  | 23, _, _, h => by mok ha h
  | 24, _, _, h => by mok ha h
  | 25, _, _, h => by mok ha h
  | 26, _, _, h => by mok ha h
  | 27, _, _, h => by mok ha h
  | 28, _, _, h => by mok ha h
  | 29, _, _, h => by mok ha h
  | 30, _, _, h => by mok ha h
  | 31, _, _, h => by mok ha h
  | n + 32, _, hh, _ => absurd hh (by omega)

theorem mok_chunk1 (enc : Encoding) (args : List Arg) (ha : ArgsOk args) (op : Operation) (n : Nat) (h1 : 32 ≤ n) (h2 : n < 64)
    (h : meaning enc n args = .ok op) : OpOk op :=
  match n, h1, h2, h with
  | 32, _, _, h => by mok ha h
  | 33, _, _, h => by mok ha h
  | 34, _, _, h => by mok ha h
  | 35, _, _, h => by mok ha h
  | 36, _, _, h => by mok ha h
  | 37, _, _, h => by mok ha h
  | 38, _, _, h => by mok ha h
  | 39, _, _, h => by mok ha h
  | 40, _, _, h => by mok ha h
  | 41, _, _, h => by mok ha h
  | 42, _, _, h => by mok ha h
  | 43, _, _, h => by mok ha h
  | 44, _, _, h => by mok ha h
  | 45, _, _, h => by mok ha h
  | 46, _, _, h => by mok ha h
  | 47, _, _, h => by mok ha h
  | 48, _, _, h => by mok ha h
  | 49, _, _, h => by mok ha h
  | 50, _, _, h => by mok ha h
  | 51, _, _, h => by mok ha h
  | 52, _, _, h => by mok ha h
  | 53, _, _, h => by mok ha h
  | 54, _, _, h => by mok ha h
  | 55, _, _, h => by mok ha h
  | 56, _, _, h => by mok ha h
  | 57, _, _, h => by mok ha h
  | 58, _, _, h => by mok ha h
  | 59, _, _, h => by mok ha h
  | 60, _, _, h => by mok ha h
  | 61, _, _, h => by mok ha h
  | 62, _, _, h => by mok ha h
  | 63, _, _, h => by mok ha h
  | 0, hh, _, _ => absurd hh (by omega)
  | n + 64, _, hh, _ => absurd hh (by omega)

theorem mok_chunk2 (enc : Encoding) (args : List Arg) (ha : ArgsOk args) (op : Operation) (n : Nat) (h1 : 64 ≤ n) (h2 : n < 96)
    (h : meaning enc n args = .ok op) : OpOk op :=
  match n, h1, h2, h with
  | 64, _, _, h => by mok ha h
  | 65, _, _, h => by mok ha h
  | 66, _, _, h => by mok ha h
  | 67, _, _, h => by mok ha h
  | 68, _, _, h => by mok ha h
  | 69, _, _, h => by mok ha h
  | 70, _, _, h => by mok ha h
  | 71, _, _, h => by mok ha h
  | 72, _, _, h => by mok ha h
  | 73, _, _, h => by mok ha h
  | 74, _, _, h => by mok ha h
  | 75, _, _, h => by mok ha h
  | 76, _, _, h => by mok ha h
  | 77, _, _, h => by mok ha h
  | 78, _, _, h => by mok ha h
  | 79, _, _, h => by mok ha h
  | 80, _, _, h => by mok ha h
  | 81, _, _, h => by mok ha h
  | 82, _, _, h => by mok ha h
  | 83, _, _, h => by mok ha h
  | 84, _, _, h => by mok ha h
  | 85, _, _, h => by mok ha h
  | 86, _, _, h => by mok ha h
  | 87, _, _, h => by mok ha h
  | 88, _, _, h => by mok ha h
  | 89, _, _, h => by mok ha h
  | 90, _, _, h => by mok ha h
  | 91, _, _, h => by mok ha h
  | 92, _, _, h => by mok ha h
  | 93, _, _, h => by mok ha h
  | 94, _, _, h => by mok ha h
  | 95, _, _, h => by mok ha h
  | 0, hh, _, _ => absurd hh (by omega)
  | n + 96, _, hh, _ => absurd hh (by omega)

theorem mok_chunk3 (enc : Encoding) (args : List Arg) (ha : ArgsOk args) (op : Operation) (n : Nat) (h1 : 96 ≤ n) (h2 : n < 128)
    (h : meaning enc n args = .ok op) : OpOk op :=
  match n, h1, h2, h with
  | 96, _, _, h => by mok ha h
  | 97, _, _, h => by mok ha h
  | 98, _, _, h => by mok ha h
  | 99, _, _, h => by mok ha h
  | 100, _, _, h => by mok ha h
  | 101, _, _, h => by mok ha h
  | 102, _, _, h => by mok ha h
  | 103, _, _, h => by mok ha h
  | 104, _, _, h => by mok ha h
  | 105, _, _, h => by mok ha h
  | 106, _, _, h => by mok ha h
  | 107, _, _, h => by mok ha h
  | 108, _, _, h => by mok ha h
  | 109, _, _, h => by mok ha h
  | 110, _, _, h => by mok ha h
  | 111, _, _, h => by mok ha h
  | 112, _, _, h => by mok ha h
  | 113, _, _, h => by mok ha h
  | 114, _, _, h => by mok ha h
  | 115, _, _, h => by mok ha h
  | 116, _, _, h => by mok ha h
  | 117, _, _, h => by mok ha h
  | 118, _, _, h => by mok ha h
  | 119, _, _, h => by mok ha h
  | 120, _, _, h => by mok ha h
  | 121, _, _, h => by mok ha h
  | 122, _, _, h => by mok ha h
  | 123, _, _, h => by mok ha h
  | 124, _, _, h => by mok ha h
  | 125, _, _, h => by mok ha h
  | 126, _, _, h => by mok ha h
  | 127, _, _, h => by mok ha h
  | 0, hh, _, _ => absurd hh (by omega)
  | n + 128, _, hh, _ => absurd hh (by omega)

theorem mok_chunk4 (enc : Encoding) (args : List Arg) (ha : ArgsOk args) (op : Operation) (n : Nat) (h1 : 128 ≤ n) (h2 : n < 160)
    (h : meaning enc n args = .ok op) : OpOk op :=
  match n, h1, h2, h with
  | 128, _, _, h => by mok ha h
  | 129, _, _, h => by mok ha h
  | 130, _, _, h => by mok ha h
  | 131, _, _, h => by mok ha h
  | 132, _, _, h => by mok ha h
  | 133, _, _, h => by mok ha h
  | 134, _, _, h => by mok ha h
  | 135, _, _, h => by mok ha h
  | 136, _, _, h => by mok ha h
  | 137, _, _, h => by mok ha h
  | 138, _, _, h => by mok ha h
  | 139, _, _, h => by mok ha h
  | 140, _, _, h => by mok ha h
  | 141, _, _, h => by mok ha h
  | 142, _, _, h => by mok ha h
  | 143, _, _, h => by mok ha h
  | 144, _, _, h => by mok ha h
  | 145, _, _, h => by mok ha h
  | 146, _, _, h => by mok ha h
  | 147, _, _, h => by mok ha h
  | 148, _, _, h => by mok ha h
  | 149, _, _, h => by mok ha h
  | 150, _, _, h => by mok ha h
  | 151, _, _, h => by mok ha h
  | 152, _, _, h => by mok ha h
  | 153, _, _, h => by mok ha h
  | 154, _, _, h => by mok ha h
  | 155, _, _, h => by mok ha h
  | 156, _, _, h => by mok ha h
  | 157, _, _, h => by mok ha h
  | 158, _, _, h => by mok ha h
  | 159, _, _, h => by mok ha h
  | 0, hh, _, _ => absurd hh (by omega)
  | n + 160, _, hh, _ => absurd hh (by omega)

theorem mok_chunk5 (enc : Encoding) (args : List Arg) (ha : ArgsOk args) (op : Operation) (n : Nat) (h1 : 160 ≤ n) (h2 : n < 192)
    (h : meaning enc n args = .ok op) : OpOk op :=
  match n, h1, h2, h with
  | 160, _, _, h => by mok ha h
  | 161, _, _, h => by mok ha h
  | 162, _, _, h => by mok ha h
  | 163, _, _, h => by mok ha h
  | 164, _, _, h => by mok ha h
  | 165, _, _, h => by mok ha h
  | 166, _, _, h => by mok ha h
  | 167, _, _, h => by mok ha h
  | 168, _, _, h => by mok ha h
  | 169, _, _, h => by mok ha h
  | 170, _, _, h => by mok ha h
  | 171, _, _, h => by mok ha h
  | 172, _, _, h => by mok ha h
  | 173, _, _, h => by mok ha h
  | 174, _, _, h => by mok ha h
  | 175, _, _, h => by mok ha h
  | 176, _, _, h => by mok ha h
  | 177, _, _, h => by mok ha h
  | 178, _, _, h => by mok ha h
  | 179, _, _, h => by mok ha h
  | 180, _, _, h => by mok ha h
  | 181, _, _, h => by mok ha h
  | 182, _, _, h => by mok ha h
  | 183, _, _, h => by mok ha h
  | 184, _, _, h => by mok ha h
  | 185, _, _, h => by mok ha h
  | 186, _, _, h => by mok ha h
  | 187, _, _, h => by mok ha h
  | 188, _, _, h => by mok ha h
  | 189, _, _, h => by mok ha h
  | 190, _, _, h => by mok ha h
  | 191, _, _, h => by mok ha h
  | 0, hh, _, _ => absurd hh (by omega)
  | n + 192, _, hh, _ => absurd hh (by omega)

theorem mok_chunk6 (enc : Encoding) (args : List Arg) (ha : ArgsOk args) (op : Operation) (n : Nat) (h1 : 192 ≤ n) (h2 : n < 224)
    (h : meaning enc n args = .ok op) : OpOk op :=
  match n, h1, h2, h with
  | 192, _, _, h => by mok ha h
  | 193, _, _, h => by mok ha h
  | 194, _, _, h => by mok ha h
  | 195, _, _, h => by mok ha h
  | 196, _, _, h => by mok ha h
  | 197, _, _, h => by mok ha h
  | 198, _, _, h => by mok ha h
  | 199, _, _, h => by mok ha h
  | 200, _, _, h => by mok ha h
  | 201, _, _, h => by mok ha h
  | 202, _, _, h => by mok ha h
  | 203, _, _, h => by mok ha h
  | 204, _, _, h => by mok ha h
  | 205, _, _, h => by mok ha h
  | 206, _, _, h => by mok ha h
  | 207, _, _, h => by mok ha h
  | 208, _, _, h => by mok ha h
  | 209, _, _, h => by mok ha h
  | 210, _, _, h => by mok ha h
  | 211, _, _, h => by mok ha h
  | 212, _, _, h => by mok ha h
  | 213, _, _, h => by mok ha h
  | 214, _, _, h => by mok ha h
  | 215, _, _, h => by mok ha h
  | 216, _, _, h => by mok ha h
  | 217, _, _, h => by mok ha h
  | 218, _, _, h => by mok ha h
  | 219, _, _, h => by mok ha h
  | 220, _, _, h => by mok ha h
  | 221, _, _, h => by mok ha h
  | 222, _, _, h => by mok ha h
  | 223, _, _, h => by mok ha h
  | 0, hh, _, _ => absurd hh (by omega)
  | n + 224, _, hh, _ => absurd hh (by omega)

theorem mok_chunk7 (enc : Encoding) (args : List Arg) (ha : ArgsOk args) (op : Operation) (n : Nat) (h1 : 224 ≤ n) (h2 : n < 256)
    (h : meaning enc n args = .ok op) : OpOk op :=
  match n, h1, h2, h with
  | 224, _, _, h => by mok ha h
  | 225, _, _, h => by mok ha h
  | 226, _, _, h => by mok ha h
  | 227, _, _, h => by mok ha h
  | 228, _, _, h => by mok ha h
  | 229, _, _, h => by mok ha h
  | 230, _, _, h => by mok ha h
  | 231, _, _, h => by mok ha h
  | 232, _, _, h => by mok ha h
  | 233, _, _, h => by mok ha h
  | 234, _, _, h => by mok ha h
  | 235, _, _, h => by mok ha h
  | 236, _, _, h => by mok ha h
  | 237, _, _, h => by mok ha h
  | 238, _, _, h => by mok ha h
  | 239, _, _, h => by mok ha h
  | 240, _, _, h => by mok ha h
  | 241, _, _, h => by mok ha h
  | 242, _, _, h => by mok ha h
  | 243, _, _, h => by mok ha h
  | 244, _, _, h => by mok ha h
  | 245, _, _, h => by mok ha h
  | 246, _, _, h => by mok ha h
  | 247, _, _, h => by mok ha h
  | 248, _, _, h => by mok ha h
  | 249, _, _, h => by mok ha h
  | 250, _, _, h => by mok ha h
  | 251, _, _, h => by mok ha h
  | 252, _, _, h => by mok ha h
  | 253, _, _, h => by mok ha h
  | 254, _, _, h => by mok ha h
  | 255, _, _, h => by mok ha h
  | 0, hh, _, _ => absurd hh (by omega)
  | n + 256, _, hh, _ => absurd hh (by omega)

theorem meaning_ok (enc : Encoding) (args : List Arg) (ha : ArgsOk args) (op : Operation) (n : Nat) (hn : n < 256)
    (h : meaning enc n args = .ok op) : OpOk op := by
  by_cases h0 : n < 32; exact mok_chunk0 enc args ha op n (by omega) h0 h
  by_cases h1 : n < 64; exact mok_chunk1 enc args ha op n (by omega) h1 h
  by_cases h2 : n < 96; exact mok_chunk2 enc args ha op n (by omega) h2 h
  by_cases h3 : n < 128; exact mok_chunk3 enc args ha op n (by omega) h3 h
  by_cases h4 : n < 160; exact mok_chunk4 enc args ha op n (by omega) h4 h
  by_cases h5 : n < 192; exact mok_chunk5 enc args ha op n (by omega) h5 h
  by_cases h6 : n < 224; exact mok_chunk6 enc args ha op n (by omega) h6 h
  exact mok_chunk7 enc args ha op n (by omega) hn h

/-- every decoded operation carries `u64` / `i64` operands -/
theorem parse_ok (e : Endian) (enc : Encoding) (bs : Bytes) (op : Operation) (rest : Bytes)
    (h : parse e enc bs = .ok (op, rest)) : OpOk op := by
  rw [parse_eq_decode] at h
  cases bs with
  | nil => cases h
  | cons b tl =>
    simp only [decode] at h
    have hsig := signature_ok ⟨b.toNat, UInt8.toNat_lt b⟩
    simp only [] at hsig
    cases hs : signature b.toNat with
    | none => rw [hs] at h; cases h
    | some sig =>
      rw [hs] at h hsig
      obtain ⟨⟨args, r⟩, h1, h2⟩ := bind_eq_ok h
      obtain ⟨op', h3, h4⟩ := bind_eq_ok h2
      cases h4
      exact meaning_ok enc args (readOperands_argsOk e enc sig hsig tl args r h1) op b.toNat (UInt8.toNat_lt b) h3
